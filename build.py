#!/usr/bin/env python3
"""Build /repo's *current working tree* into /verif/build/<cfg>/libbee2v.so (+ helper objects).

The CMake lists are not used: every src/**/*.c of the working tree is compiled (bash_f.c includes the
platform variants itself), so a new source file is picked up.  A content hash of src/, include/, the
helper sources and the flags is the cache key; a configuration is rebuilt whenever the tree changes.
Nothing is written to /repo.
"""
import hashlib, os, subprocess, sys, shutil, json, time
from concurrent.futures import ThreadPoolExecutor

VERIF = os.path.dirname(os.path.abspath(__file__))
REPO = os.environ.get('VERIF_REPO', '/repo')
BUILD = os.environ.get('VERIF_BUILD') or os.path.join(VERIF, 'build')   # VERIF_BUILD: separate cache for mutant trees (VERIF_REPO)
DRV = os.path.join(VERIF, 'drv')

WARN = ['-w']
HOOK = ['-DBEE2_VERIF']
EXACT = ['-DBEE2_VERIF_BLOB_PAGE_SIZE=1']
W32 = ['-DBEE2_VERIF_W32']
ASAN = ['-fsanitize=address,bounds', '-fno-sanitize-recover=all', '-fno-omit-frame-pointer', '-fno-common']

CFGS = {
    # name: (compiler, cflags, ldflags)
    'rel':     ('gcc',   ['-O2', '-g1', '-DNDEBUG'] + HOOK, []),
    'rel3':    ('gcc',   ['-O3', '-fno-strict-aliasing', '-DNDEBUG'] + HOOK, []),
    'dbg':     ('gcc',   ['-O0', '-g1'] + HOOK + EXACT, []),
    'dbgp':    ('gcc',   ['-O0', '-g1'] + HOOK, []),            # asserts on, 1 KiB pages (C19 "assertion-enabled")
    'asan':    ('clang', ['-O1', '-g1'] + ASAN + HOOK + EXACT, ['-fsanitize=address,bounds', '-shared-libasan']),
    'asan32':  ('clang', ['-O1', '-g1'] + ASAN + HOOK + EXACT + W32, ['-fsanitize=address,bounds', '-shared-libasan']),
    'w32':     ('gcc',   ['-O2', '-g1', '-DNDEBUG'] + HOOK + W32, []),
    'dbg32':   ('gcc',   ['-O0', '-g1'] + HOOK + EXACT + W32, []),
    'fast':    ('gcc',   ['-O2', '-DNDEBUG', '-DSAFE_FAST'] + HOOK, []),
    'w32fast': ('gcc',   ['-O2', '-DNDEBUG', '-DSAFE_FAST'] + HOOK + W32, []),
    'clang':   ('clang', ['-O2', '-DNDEBUG'] + HOOK, []),
    'O1':      ('gcc',   ['-O1', '-DNDEBUG'] + HOOK, []),
    'bash32':  ('gcc',   ['-O2', '-DNDEBUG', '-DBASH_32'] + HOOK, []),
    'sse2':    ('gcc',   ['-O2', '-DNDEBUG', '-DBASH_SSE2', '-msse2'] + HOOK, []),
    'avx2':    ('gcc',   ['-O2', '-DNDEBUG', '-DBASH_AVX2', '-mavx2'] + HOOK, []),
    'avx512':  ('gcc',   ['-O2', '-DNDEBUG', '-DBASH_AVX512', '-mavx512f', '-fno-asynchronous-unwind-tables'] + HOOK, []),
    'pg8':     ('gcc',   ['-O2', '-g1', '-DNDEBUG', '-DBEE2_VERIF_BLOB_PAGE_SIZE=8'] + HOOK, []),   # C15: blob pages of 8 octets (tail-of-page wipes)
    'tsan':    ('clang', ['-O1', '-g1', '-fsanitize=thread', '-DNDEBUG'] + HOOK, ['-fsanitize=thread']),
}

if os.environ.get('VERIF_COV'):
    # development aid (not used by any registered check): gcov-instrumented copies of the gcc configurations, to list the
    # library lines no explorer reaches.  Use together with VERIF_BUILD=<scratch dir>.
    for _c, (_cc, _cf, _lf) in list(CFGS.items()):
        if _c != 'tsan':
            CFGS[_c] = (_cc, _cf + ['--coverage', '-DVERIF_COV'], _lf + ['--coverage'])

def sources():
    out = []
    for root, _, files in os.walk(os.path.join(REPO, 'src')):
        for f in sorted(files):
            if f.endswith('.c'):
                out.append(os.path.join(root, f))
    return sorted(out)

_tree_hash = None
def tree_hash():
    global _tree_hash
    if _tree_hash is None:
        h = hashlib.sha256()
        for base in ('src', 'include'):
            for root, dirs, files in os.walk(os.path.join(REPO, base)):
                dirs.sort()
                for f in sorted(files):
                    p = os.path.join(root, f)
                    h.update(p.encode()); h.update(open(p, 'rb').read())
        _tree_hash = h.hexdigest()
    return _tree_hash

def helper_sources():
    return sorted(os.path.join(DRV, f) for f in os.listdir(DRV) if f.startswith('vh_') and f.endswith('.c'))

def cfg_key(cfg, extra=()):
    cc, cflags, ldflags = CFGS[cfg]
    h = hashlib.sha256()
    h.update(tree_hash().encode())
    h.update(json.dumps([cc, cflags, ldflags, list(extra)]).encode())
    for p in helper_sources() + [os.path.join(DRV, f) for f in sorted(os.listdir(DRV)) if f.endswith('.h')]:
        h.update(open(p, 'rb').read())
    return h.hexdigest()[:16]

def is_excluded_src(path):
    # bash_f*.c platform variants are #included by bash_f.c
    b = os.path.basename(path)
    return b.startswith('bash_f') and b != 'bash_f.c'

def run(cmd):
    r = subprocess.run(cmd, stdout=subprocess.PIPE, stderr=subprocess.STDOUT, text=True)
    if r.returncode != 0:
        raise RuntimeError('command failed: %s\n%s' % (' '.join(cmd), r.stdout[-4000:]))
    return r.stdout

def build(cfg, quiet=True):
    """Returns the path of libbee2v.so for cfg, building if the cache key changed."""
    cc, cflags, ldflags = CFGS[cfg]
    key = cfg_key(cfg)
    d = os.path.join(BUILD, cfg)
    stamp = os.path.join(d, 'KEY')
    so = os.path.join(d, 'libbee2v.so')
    if os.path.exists(stamp) and open(stamp).read() == key and os.path.exists(so):
        return so
    # lock per cfg (explorers of different properties may run concurrently)
    os.makedirs(BUILD, exist_ok=True)
    import fcntl
    lk = open(os.path.join(BUILD, '.lock_' + cfg), 'w')
    fcntl.flock(lk, fcntl.LOCK_EX)
    try:
        if os.path.exists(stamp) and open(stamp).read() == key and os.path.exists(so):
            return so
        t0 = time.time()
        if os.path.exists(d):
            shutil.rmtree(d)
        os.makedirs(d)
        inc = ['-I' + os.path.join(REPO, 'include'), '-I' + os.path.join(REPO, 'src'), '-I' + DRV]
        jobs = []
        for s in sources():
            if is_excluded_src(s):
                continue
            o = os.path.join(d, os.path.relpath(s, REPO).replace('/', '_')[:-2] + '.o')
            jobs.append([cc, '-c', '-fPIC', '-fvisibility=default'] + WARN + cflags + inc + [s, '-o', o])
        hflags = [f for f in cflags if not f.startswith('-fsanitize') and f != '-fno-sanitize-recover=all']
        for s in helper_sources():
            o = os.path.join(d, os.path.basename(s)[:-2] + '.o')
            # helpers are never sanitizer-instrumented (they poke at redzones on purpose)
            jobs.append([cc, '-c', '-fPIC', '-O1'] + WARN + [f for f in hflags if not f.startswith('-O')] + inc + [s, '-o', o])
        with ThreadPoolExecutor(16) as ex:
            list(ex.map(run, jobs))
        objs = [j[-1] for j in jobs]
        wrap = ['-Wl,--wrap=malloc', '-Wl,--wrap=free', '-Wl,--wrap=realloc']
        run([cc, '-shared', '-Wl,-Bsymbolic', '-o', so] + objs + wrap + ldflags + ['-ldl', '-lpthread'])
        with open(stamp, 'w') as f:
            f.write(key)
        if not quiet:
            print('built %s in %.1fs' % (cfg, time.time() - t0), file=sys.stderr)
        return so
    finally:
        fcntl.flock(lk, fcntl.LOCK_UN)


def build_program(name, cc, lib_cflags, extra_units, link_flags, out_name):
    """compile the whole library (working tree) with lib_cflags plus extra translation units
    [(source path, cflags)], link them into build/<name>/<out_name>; cached by content hash."""
    h = hashlib.sha256()
    h.update(tree_hash().encode())
    h.update(json.dumps([cc, lib_cflags, [(s, f) for s, f in extra_units], link_flags]).encode())
    for s, _ in extra_units:
        h.update(open(s, 'rb').read())
        d0 = os.path.dirname(s)
        for f in sorted(os.listdir(d0)):
            if f.endswith('.h'):
                h.update(open(os.path.join(d0, f), 'rb').read())
    key = h.hexdigest()[:16]
    d = os.path.join(BUILD, name)
    stamp = os.path.join(d, 'KEY'); out = os.path.join(d, out_name)
    if os.path.exists(stamp) and open(stamp).read() == key and os.path.exists(out):
        return out
    os.makedirs(BUILD, exist_ok=True)
    import fcntl
    lk = open(os.path.join(BUILD, '.lock_' + name), 'w')
    fcntl.flock(lk, fcntl.LOCK_EX)
    try:
        if os.path.exists(stamp) and open(stamp).read() == key and os.path.exists(out):
            return out
        if os.path.exists(d):
            shutil.rmtree(d)
        os.makedirs(d)
        inc = ['-I' + os.path.join(REPO, 'include'), '-I' + os.path.join(REPO, 'src')]
        jobs = []
        for s in sources():
            if is_excluded_src(s):
                continue
            o = os.path.join(d, os.path.relpath(s, REPO).replace('/', '_')[:-2] + '.o')
            jobs.append([cc, '-c'] + WARN + lib_cflags + inc + [s, '-o', o])
        for s, fl in extra_units:
            o = os.path.join(d, 'x_' + os.path.basename(s)[:-2] + '.o')
            jobs.append([cc, '-c'] + WARN + fl + inc + ['-I' + os.path.dirname(s), s, '-o', o])
        with ThreadPoolExecutor(16) as ex:
            list(ex.map(run, jobs))
        run([cc, '-o', out] + [j[-1] for j in jobs] + link_flags + ['-ldl', '-lpthread'])
        with open(stamp, 'w') as f:
            f.write(key)
        return out
    finally:
        fcntl.flock(lk, fcntl.LOCK_UN)

def asan_runtime():
    return run(['clang', '-print-file-name=libclang_rt.asan-x86_64.so']).strip()

def symbolizer():
    """llvm-symbolizer hangs at start-up (futex wait, for ever) when the ASan runtime is LD_PRELOADed into it -- which it is in every child of
    a sanitised python: each sanitizer report then waited for its time-out and left a 43 MB orphan behind.  drv/symwrap.c drops the preload
    and execs the real tool; the file name keeps the prefix by which the runtime recognises the tool's protocol."""
    out = os.path.join(BUILD, 'tools', 'llvm-symbolizer-nopreload')
    src = os.path.join(DRV, 'symwrap.c')
    if not (os.path.exists(out) and os.path.getmtime(out) >= os.path.getmtime(src)):
        os.makedirs(os.path.dirname(out), exist_ok=True)
        tmp = '%s.%d' % (out, os.getpid())
        run(['gcc', '-O1', '-o', tmp, src])
        os.replace(tmp, out)
    return out

def setup():
    os.makedirs(BUILD, exist_ok=True)
    symbolizer()
    build('rel', quiet=False)
    # vector gate of all reference models
    ok = True
    refdir = os.path.join(VERIF, 'ref')
    mods = [m for m in (sorted(os.listdir(refdir)) if os.path.isdir(refdir) else [])
            if m.endswith('.py') and not m.startswith('x') and 'def selftest(' in open(os.path.join(refdir, m)).read()]
    def gate(m):
        r = subprocess.run([sys.executable, os.path.join(refdir, m), '--selftest'], stdout=subprocess.PIPE,
                           stderr=subprocess.STDOUT, text=True)
        last = r.stdout.strip().splitlines()[-1] if r.stdout.strip() else ''
        return m, r.returncode, last
    with ThreadPoolExecutor(16) as ex:
        for m, rc, last in ex.map(gate, mods):
            print('ref gate %-12s %s %s' % (m, 'ok' if rc == 0 else 'FAILED', last[:200]))
            ok &= rc == 0
    return 0 if ok else 1

if __name__ == '__main__':
    if len(sys.argv) > 1 and sys.argv[1] == '--setup':
        sys.exit(setup())
    for c in sys.argv[1:]:
        print(build(c, quiet=False))
