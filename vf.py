"""vf -- the small framework shared by all explorers: library loading (ctypes on the real object code
built from /repo's working tree), exact-size buffers, a crash-resilient fork pool, evidence / replay /
known-findings plumbing."""
import ctypes, os, sys, json, time, pickle, struct, select, signal, hashlib, tempfile, subprocess, traceback

VERIF = os.path.dirname(os.path.abspath(__file__))
# evidence and replay files of a run against a scratch tree (VERIF_REPO: seeded changes) go to that run's build cache, never into /verif
OUTDIR = VERIF if os.path.realpath(os.environ.get('VERIF_REPO', '/repo')) == '/repo' else (os.environ.get('VERIF_BUILD') or VERIF)
sys.path.insert(0, VERIF)
sys.path.insert(0, os.path.join(VERIF, 'ref'))
import build as vbuild

SEED = int(os.environ.get('VERIF_SEED', '1') or '1')
NPROC = int(os.environ.get('VERIF_NPROC', '0') or 0) or (os.cpu_count() or 4)
ERR_OK = 0
SIZE_MAX = (1 << 64) - 1

SAN_CFGS = ('asan', 'asan32')

def need_env(cfg):
    """re-exec the current python under the sanitizer runtime if cfg needs it"""
    if cfg in SAN_CFGS and 'libclang_rt.asan' not in os.environ.get('LD_PRELOAD', ''):
        env = dict(os.environ)
        env['LD_PRELOAD'] = vbuild.asan_runtime()
        env['ASAN_OPTIONS'] = 'detect_leaks=0:abort_on_error=1:halt_on_error=1:allocator_may_return_null=1:' \
                              'detect_stack_use_after_return=0:handle_segv=1:symbolize=1:malloc_context_size=8:' \
                              'max_redzone=256:quarantine_size_mb=64:print_legend=0:print_summary=1'
        env['ASAN_SYMBOLIZER_PATH'] = vbuild.symbolizer()
        os.execve(sys.executable, [sys.executable] + sys.argv, env)

def filler(tag, n, seed=None):
    """deterministic pseudo-random filler bytes (value dimension only; never decides a shape)"""
    out = b''
    s = ('%s/%s' % (SEED if seed is None else seed, tag)).encode()
    i = 0
    while len(out) < n:
        out += hashlib.sha256(s + struct.pack('<I', i)).digest(); i += 1
    return out[:n]

class Lib:
    """the real object code of one build configuration"""
    def __init__(self, cfg):
        self.cfg = cfg
        self.path = vbuild.build(cfg)
        self.dll = ctypes.CDLL(self.path, mode=ctypes.RTLD_LOCAL)
        self.wbytes = 4 if '32' in cfg and cfg != 'bash32' else 8
        self._fn = {}
        self.hook = None          # optional interceptor: hook(name, args) -> args (C09 call-level NULL sweep)
        self.dll.vh_alloc.restype = ctypes.c_uint64
        self.dll.vh_alloc.argtypes = [ctypes.c_uint64]
        self.dll.vh_free.argtypes = [ctypes.c_uint64]
        self.dll.vh_free.restype = None

    def has(self, name):
        try:
            getattr(self.dll, name); return True
        except AttributeError:
            return False

    def addr(self, name):
        return ctypes.cast(getattr(self.dll, name), ctypes.c_void_p).value

    def fn(self, name):
        f = self._fn.get(name)
        if f is None:
            f = getattr(self.dll, name)
            f.restype = ctypes.c_uint64
            self._fn[name] = f
        return f

    def call(self, name, *args):
        """call name(args): ints are passed as 64-bit, Buf as its address, bytes as a read-only pointer,
        None as NULL; returns the raw 64-bit rax (use u32()/sz() to interpret)"""
        if self.hook is not None:
            args = self.hook(name, args)
        conv = []
        for a in args:
            if a is None:
                conv.append(ctypes.c_uint64(0))
            elif isinstance(a, Buf):
                conv.append(ctypes.c_uint64(a.addr))
            elif isinstance(a, int):
                conv.append(ctypes.c_uint64(a & SIZE_MAX))
            elif isinstance(a, (bytes, bytearray)):
                conv.append(ctypes.c_char_p(bytes(a)))
            else:
                conv.append(a)
        return self.fn(name)(*conv)

    def err(self, name, *args):
        return self.call(name, *args) & 0xFFFFFFFF
    u32 = err
    def boolean(self, name, *args):
        return 1 if (self.call(name, *args) & 0xFFFFFFFF) else 0
    def sz(self, name, *args):
        return self.call(name, *args)

class Buf:
    """exact-size heap buffer (own malloc block: sanitizer redzones on both sides)"""
    __slots__ = ('lib', 'addr', 'n')
    def __init__(self, lib, n_or_data, fill=None):
        self.lib = lib
        if isinstance(n_or_data, int):
            self.n = n_or_data
            self.addr = lib.dll.vh_alloc(self.n)
            if fill is not None and self.n:
                ctypes.memset(self.addr, fill, self.n)
        else:
            data = bytes(n_or_data)
            self.n = len(data)
            self.addr = lib.dll.vh_alloc(self.n)
            if self.n:
                ctypes.memmove(self.addr, data, self.n)
    def get(self, n=None, off=0):
        n = self.n - off if n is None else n
        return ctypes.string_at(self.addr + off, n) if n else b''
    def set(self, data, off=0):
        assert off + len(data) <= self.n
        if data:
            ctypes.memmove(self.addr + off, bytes(data), len(data))
    def free(self):
        if self.addr:
            self.lib.dll.vh_free(self.addr); self.addr = 0

class Arena:
    """with Arena(lib) as A: b = A.buf(16); ... all buffers are released on exit"""
    def __init__(self, lib):
        self.lib = lib; self.bufs = []
    def __enter__(self):
        return self
    def __exit__(self, *a):
        for b in self.bufs:
            b.free()
        self.bufs = []
    def buf(self, n_or_data, fill=None):
        b = Buf(self.lib, n_or_data, fill); self.bufs.append(b); return b
    def words(self, value, nwords):
        """little-endian word array of nwords machine words holding integer value"""
        return self.buf(int(value).to_bytes(nwords * self.lib.wbytes, 'little'))

class Tape(ctypes.Structure):
    _fields_ = [('data', ctypes.c_uint64), ('len', ctypes.c_uint64), ('pos', ctypes.c_uint64),
                ('calls', ctypes.c_uint64), ('over', ctypes.c_uint64)]

def make_tape(A, data):
    """returns (gen function address, state Buf, tape struct view) for use as (gen_i rng, void* state)"""
    d = A.buf(data if data else b'\0')
    st = A.buf(ctypes.sizeof(Tape))
    t = Tape.from_address(st.addr)
    t.data = d.addr; t.len = len(data); t.pos = 0; t.calls = 0; t.over = 0
    return A.lib.addr('vh_tape_gen'), st, t

# ------------------------------------------------------------------------------------------ fork pool
def cov_dump():
    """VERIF_COV development aid: flush gcov counters of every loaded library copy (workers leave through os._exit)"""
    if not os.environ.get('VERIF_COV'):
        return
    try:
        for line in open('/proc/self/maps'):
            if line.rstrip().endswith('libbee2v.so') and ' r-xp ' in line:
                try:
                    ctypes.CDLL(line.split()[-1]).vh_gcov_dump()
                except Exception:
                    pass
    except OSError:
        pass

def _worker(fn, cases, idxs, wfd, errpath):
    try:
        fd = os.open(errpath, os.O_WRONLY | os.O_CREAT | os.O_TRUNC, 0o600)
        os.dup2(fd, 2); os.close(fd)
    except OSError:
        pass
    out = os.fdopen(wfd, 'wb', buffering=0)
    for i in idxs:
        out.write(struct.pack('<qI', i, 0))           # "starting case i"
        try:
            r = fn(cases[i])
        except BaseException as e:                     # an exception in an explorer is a harness bug: loud
            r = {'harness_error': ''.join(traceback.format_exception(type(e), e, e.__traceback__))[-3000:]}
        b = pickle.dumps(r, protocol=4)
        out.write(struct.pack('<qI', i, len(b)) + b)
    cov_dump()
    os._exit(0)

_TICK = float(os.sysconf('SC_CLK_TCK'))
def _tree_cpu(pid, depth=0):
    """(CPU seconds consumed so far by pid, its reaped children and its live descendants; whether any of them is runnable)"""
    try:
        f = open('/proc/%d/stat' % pid).read()
        rest = f[f.rindex(')') + 2:].split()
        cpu = (int(rest[11]) + int(rest[12]) + int(rest[13]) + int(rest[14])) / _TICK
        run = rest[0] in 'RD'
        if depth < 6:
            for t in os.listdir('/proc/%d/task' % pid):
                try:
                    for c in open('/proc/%d/task/%s/children' % (pid, t)).read().split():
                        a, b = _tree_cpu(int(c), depth + 1)
                        cpu += a; run = run or b
                except OSError:
                    pass
        return cpu, run
    except (OSError, ValueError, IndexError):
        return 0.0, False

def pmap(fn, cases, nproc=None, case_timeout=120, on_result=None):
    """apply fn to every case in forked workers.  A worker that dies (signal, abort, sanitizer report)
    or hangs marks the case it was executing as {'crash': ...} and the rest of its share is continued by
    a fresh worker -- so a crash is an observation about one case, never the end of the exploration."""
    nproc = min(nproc or NPROC, max(1, len(cases)))
    n = len(cases)
    results = [None] * n
    os.makedirs(vbuild.BUILD, exist_ok=True)
    tmpd = tempfile.mkdtemp(prefix='vfpool', dir=vbuild.BUILD)
    shares = [list(range(k, n, nproc)) for k in range(nproc)]
    workers = {}   # rfd -> dict
    hung = [0]; durs = []
    def spawn(k, idxs):
        if not idxs:
            return
        r, w = os.pipe()
        errpath = os.path.join(tmpd, 'err%d' % k)
        pid = os.fork()
        if pid == 0:
            os.close(r)
            for o in list(workers):
                try: os.close(o)
                except OSError: pass
            _worker(fn, cases, idxs, w, errpath)
        os.close(w)
        workers[r] = dict(pid=pid, k=k, idxs=idxs, buf=b'', cur=None, done=0, t=time.time(), err=errpath)
    for k in range(nproc):
        spawn(k, shares[k])
    def finish_worker(r, reason):
        w = workers.pop(r)
        os.close(r)
        try:
            os.kill(w['pid'], signal.SIGKILL) if reason == 'timeout' else None
        except OSError:
            pass
        _, status = os.waitpid(w['pid'], 0)
        rest = w['idxs'][w['done']:]
        if w['cur'] is not None and rest and rest[0] == w['cur']:
            try:
                raw = open(w['err'], 'rb').read()
                tail = (raw if len(raw) <= 9000 else raw[:6000] + b'\n...\n' + raw[-3000:]).decode('utf-8', 'replace')
            except OSError:
                tail = ''
            sig = os.WTERMSIG(status) if os.WIFSIGNALED(status) else 0
            results[w['cur']] = {'crash': reason if reason == 'timeout' else ('signal %d' % sig if sig else 'exit %d' % os.WEXITSTATUS(status)), 'stderr': tail}
            if on_result: on_result(w['cur'], results[w['cur']])
            rest = rest[1:]
        elif rest and status != 0:
            # died between cases: treat the next one as crashed to guarantee progress
            results[rest[0]] = {'crash': 'worker died before reporting', 'stderr': ''}
            rest = rest[1:]
        spawn(w['k'], rest)
    while workers:
        rl, _, _ = select.select(list(workers), [], [], 1.0)
        now = time.time()
        for r in rl:
            w = workers[r]
            try:
                d = os.read(r, 1 << 20)
            except OSError:
                d = b''
            if not d:
                finish_worker(r, 'eof'); continue
            w['buf'] += d; w['t'] = now
            while len(w['buf']) >= 12:
                i, ln = struct.unpack('<qI', w['buf'][:12])
                if ln == 0:
                    w['cur'] = i; w['buf'] = w['buf'][12:]; w['cpu0'] = _tree_cpu(w['pid'])[0]; w['t0'] = now; continue
                if len(w['buf']) < 12 + ln:
                    break
                results[i] = pickle.loads(w['buf'][12:12 + ln])
                durs.append(now - w.get('t0', now))
                if on_result: on_result(i, results[i])
                w['buf'] = w['buf'][12 + ln:]
                w['done'] += 1; w['cur'] = None
        for r in list(workers):
            w = workers[r]
            # after the first case of this map has been declared hung under the full limit, later cases are given 50 times the 95th
            # percentile of the completed ones (at least 30 s): a change that makes a whole class of cases loop must not cost the full limit
            # per case.  On a tree without hangs this never engages.
            lim = case_timeout
            if hung[0] and len(durs) >= 20:
                lim = min(case_timeout, max(30.0, 50 * sorted(durs)[int(0.95 * (len(durs) - 1))]))
            if now - w['t'] <= lim:
                w.pop('probe', None); continue
            # past the wall-clock limit.  "Does not return" must not depend on how busy the machine is: a case is a hang when its
            # process tree has BURNT at least half the limit in CPU time (busy loop), or has made no CPU progress for 10 s with nothing
            # runnable (blocked), or has passed eight times the limit; a starved but progressing case is given more time.
            cpu, runnable = _tree_cpu(w['pid'])
            used = cpu - w.get('cpu0', 0.0)
            pr = w.get('probe')
            if used >= 0.5 * lim or now - w['t'] > 8 * lim:
                hung[0] += 1
                finish_worker(r, 'timeout')
            elif pr is None:
                w['probe'] = (now, cpu)
            elif now - pr[0] >= 10:
                if cpu - pr[1] < 0.05 and not runnable:
                    hung[0] += 1
                    finish_worker(r, 'timeout')
                else:
                    w['probe'] = (now, cpu)
    try:
        for f in os.listdir(tmpd):
            os.unlink(os.path.join(tmpd, f))
        os.rmdir(tmpd)
    except OSError:
        pass
    return results

# ------------------------------------------------------------------------------------------ sub-explorations
def run_sub(prop, tier, name, env=None, prefix='sub'):
    """one sub-exploration (a configuration that needs its own process: sanitizer runtime, build configuration) through
    `vcheck <prop> --sub <name> --out <file>`; returns (result dict, None) or (None, what happened).  A sub-exploration that leaves no
    result (killed for memory, interpreter crash) is repeated with half and then a quarter of the workers; the caller must hand a final
    failure to Check.harness_error() -- a part that did not run is never reported as a part that held."""
    os.makedirs(vbuild.BUILD, exist_ok=True)
    last = ''
    for attempt, div in enumerate((1, 2, 4)):
        fd, out = tempfile.mkstemp(prefix=prefix, dir=vbuild.BUILD); os.close(fd)
        e = dict(os.environ if env is None else env)
        if div > 1:
            e['VERIF_NPROC'] = str(max(1, NPROC // div))
        r = subprocess.run([sys.executable, os.path.join(VERIF, 'vcheck'), prop, '--tier', tier, '--sub', name, '--out', out], env=e,
                           stdout=subprocess.PIPE, stderr=subprocess.STDOUT, text=True)
        try:
            return json.load(open(out)), None
        except Exception:
            last = 'exit status %s; output: %s' % (r.returncode, r.stdout[-1200:])
            sys.stderr.write('sub-exploration %s/%s left no result (attempt %d, %s)\n' % (prop, name, attempt + 1, last[:300]))
        finally:
            try: os.unlink(out)
            except OSError: pass
    return None, last

# ------------------------------------------------------------------------------------------ known findings
def load_known():
    known, fixed = {}, []
    p = os.path.join(VERIF, 'known_findings.txt')
    if os.path.exists(p):
        for line in open(p):
            line = line.strip()
            if line.startswith('known:'):
                parts = line.split(None, 3)
                prop = parts[1].split('=', 1)[1]; key = parts[2].split('=', 1)[1]
                known[(prop, key)] = parts[3] if len(parts) > 3 else ''
            elif line.startswith('fixed:'):
                fixed.append(line)
    return known, fixed

# ------------------------------------------------------------------------------------------ one check run
class Check:
    def __init__(self, prop, tier, level='model_checking', deadline_s=None):
        self.prop, self.tier, self.level = prop, tier, level
        self.t0 = time.time()
        self.deadline = self.t0 + deadline_s if deadline_s else None
        self.viol = {}        # key -> (record, msg)
        self.cov = {'states': 0, 'transitions': 0, 'traces_validated_against_impl': 0, 'evaluations': 0,
                    'distinct_nontrivial': 0, 'samples': [], 'exhaustive': True, 'parts': {}}
        self.assumptions = []
        self.observations = []
        self.outcomes = {}
        self.known, _ = load_known()
        self.capped = []
        self.harness_errors = []

    def harness_error(self, what):
        """a part of the exploration could not be executed at all (no result after the retries of run_sub): the run proves nothing about
        that part, so the check must not exit 0; it is not a VIOLATION either (nothing was observed about the library): exit code 2"""
        self.harness_errors.append(what); self.cov['exhaustive'] = False

    def expired(self):
        return self.deadline is not None and time.time() > self.deadline

    def cap(self, what):
        """a bound that was not completed (deadline or size cap): the run is no longer exhaustive"""
        self.capped.append(what); self.cov['exhaustive'] = False

    def part(self, name, **kw):
        """coverage of one sub-exploration; states/transitions/evaluations are summed into the totals"""
        p = self.cov['parts'].setdefault(name, {})
        for k, v in kw.items():
            if isinstance(v, (int, float)) and not isinstance(v, bool) and k in p:
                p[k] += v
            else:
                p[k] = v
        for k in ('states', 'transitions', 'traces_validated_against_impl', 'evaluations', 'distinct_nontrivial'):
            if k in kw:
                self.cov[k] += kw[k]

    def sample(self, s):
        if len(self.cov['samples']) < 12:
            self.cov['samples'].append(s)

    def outcome(self, o, n=1):
        self.outcomes[o] = self.outcomes.get(o, 0) + n

    def observe(self, text):
        if len(self.observations) < 50 and text not in self.observations:
            self.observations.append(text)

    def violation(self, key, record, msg):
        """key: stable identifier of the failing case (op + shape); record: JSON-able replay record"""
        if key not in self.viol:
            self.viol[key] = (record, msg)

    def finish(self, module, rule, extra=None):
        """replays each new violation, prints VIOLATION / KNOWN-FINDING lines, writes evidence; returns exit code"""
        rc = 0
        nviol = 0
        rdir = os.path.join(OUTDIR, 'replay', self.prop)
        reported = 0
        for key, (record, msg) in sorted(self.viol.items()):
            if (self.prop, key) in self.known:
                print('KNOWN-FINDING: property=%s key=%s %s' % (self.prop, key, self.known[(self.prop, key)]))
                continue
            nviol += 1
            if reported >= 8:
                continue
            os.makedirs(rdir, exist_ok=True)
            name = hashlib.sha256(key.encode()).hexdigest()[:12] + '.json'
            path = os.path.join(rdir, name)
            with open(path, 'w') as f:
                json.dump({'property': self.prop, 'module': module, 'key': key, 'msg': msg, 'record': record}, f, indent=1)
            ok = False
            for _ in range(2):
                r = subprocess.run([sys.executable, os.path.join(VERIF, 'vcheck'), '--replay', path, '--quiet'],
                                   stdout=subprocess.PIPE, stderr=subprocess.STDOUT, text=True)
                if r.returncode == 1:
                    ok = True; break
            rel = os.path.relpath(path, VERIF) if OUTDIR == VERIF else path
            if ok:
                print('VIOLATION property=%s replay=%s' % (self.prop, rel))
                print('  key=%s\n  %s' % (key, msg.replace('\n', '\n  ')[:1500]))
                rc = 1; reported += 1
            else:
                print('UNREPRODUCED property=%s replay=%s (not counted) %s' % (self.prop, rel, msg[:300]))
                self.observe('unreproduced: %s %s' % (key, msg[:200]))
                nviol -= 1
        if nviol > reported:
            print('... and %d further violating cases (see evidence)' % (nviol - reported))
        cov = self.cov
        cov['rule'] = rule
        cov['distinct_outcomes'] = len(self.outcomes)
        cov['outcomes'] = dict(sorted(self.outcomes.items(), key=lambda kv: -kv[1])[:40])
        cov['capped'] = self.capped
        cov['observations'] = self.observations
        if self.harness_errors:
            cov['harness_errors'] = [h[:600] for h in self.harness_errors]
            for h in self.harness_errors:
                print('HARNESS-ERROR property=%s %s' % (self.prop, h[:600].replace('\n', ' | ')))
            if rc == 0:
                rc = 2
        if extra:
            cov.update(extra)
        if not cov['samples']:
            cov['samples'] = ['(none)']
        ev = {'property_id': self.prop, 'tier': self.tier, 'seed': SEED, 'level': self.level, 'coverage': cov,
              'assumptions': self.assumptions, 'wall_s': round(time.time() - self.t0, 2), 'violations': nviol,
              'violating_keys': sorted(k for k in self.viol if (self.prop, k) not in self.known)[:50],
              'known_findings_hit': sorted(k for k in self.viol if (self.prop, k) in self.known)}
        os.makedirs(os.path.join(OUTDIR, 'evidence'), exist_ok=True)
        with open(os.path.join(OUTDIR, 'evidence', self.prop + '.json'), 'w') as f:
            json.dump(ev, f, indent=1, default=str)
        print('%s %s: states=%d transitions=%d validated=%d evaluations=%d outcomes=%d exhaustive=%s violations=%d wall=%.1fs' % (
            self.prop, self.tier, cov['states'], cov['transitions'], cov['traces_validated_against_impl'],
            cov['evaluations'], len(self.outcomes), cov['exhaustive'], nviol, time.time() - self.t0))
        return rc

def hx(b):
    return bytes(b).hex()
def unhx(s):
    return bytes.fromhex(s)
