#!/bin/bash
# builds /repo's current working tree with the project's own CMake (no verification defines, guard OFF)
# and runs the pinned test suite; prints one "xxxTest: OK|Err" line per test; exit 0 iff all pass
B=${VERIF_BASELINE_DIR:-/verif/build/baseline}
mkdir -p "$B" || exit 2
cmake -S /repo -B "$B" -G Ninja -DCMAKE_BUILD_TYPE=RelWithDebInfo >"$B/configure.log" 2>&1 || { tail -20 "$B/configure.log"; exit 2; }
cmake --build "$B" >"$B/build.log" 2>&1 || { tail -30 "$B/build.log"; exit 2; }
cd "$B" || exit 2
ctest --timeout 900 -V >"$B/ctest.log" 2>&1
rc=$?
grep -E "Test: (OK|Err)" "$B/ctest.log" | sed 's/^[0-9]*: //'
grep -E "tests passed|tests failed" "$B/ctest.log"
n_ok=$(grep -cE "Test: OK" "$B/ctest.log")
echo "passed=$n_ok rc=$rc"
[ "$rc" = 0 ] && [ "$n_ok" -ge 38 ]
