#!/bin/bash
# runs the thorough tier of every check once, in sequence; one summary line per check (development aid; also usable under `vp run`)
cd "$(dirname "$0")"
for p in ${@:-C20 C11 C10 C01 C03 C13 C17 C08 C12 C02 C16 C04 C06 C05 C15 C09 C07 C19 C18 C14}; do
  s=$(date +%s)
  timeout 7200 ./vcheck $p --tier thorough > thorough_$p.log 2>&1
  rc=$?
  e=$(date +%s)
  echo "$p rc=$rc wall=$((e-s))s $(grep "^$p thorough" thorough_$p.log | tail -1 | cut -c1-200)"
  grep "^VIOLATION\|^  key" thorough_$p.log | head -6
done
