/* vh_c20.c -- seam for the PIN/CAN/PUK automaton: calls the real btokPwdTransition through the public
 * struct, so the explorer does not depend on the bit-field layout. */
#include <bee2/crypto/btok.h>
#include <string.h>

/* one step: returns accepted?, writes the resulting (pin, auth); raw = the state's first byte after the call */
int vh_pwd_step(unsigned pin, unsigned auth, unsigned event, unsigned* pin2, unsigned* auth2)
{
	btok_pwd_state st;
	bool_t r;
	memset(&st, 0, sizeof st);
	st.pin = (btok_pin_state)pin;
	st.auth = (btok_auth_state)auth;
	r = btokPwdTransition(&st, (btok_pwd_event)event);
	*pin2 = (unsigned)st.pin;
	*auth2 = (unsigned)st.auth;
	return r ? 1 : 0;
}

/* replay a whole event list on ONE live state object (hidden-state check): writes the trace of
 * (accepted, pin, auth) triples; returns number of steps */
int vh_pwd_run(unsigned pin, unsigned auth, const unsigned char* events, int n, unsigned char* trace)
{
	btok_pwd_state st;
	int i;
	memset(&st, 0, sizeof st);
	st.pin = (btok_pin_state)pin;
	st.auth = (btok_auth_state)auth;
	for (i = 0; i < n; ++i)
	{
		bool_t r = btokPwdTransition(&st, (btok_pwd_event)events[i]);
		trace[3 * i] = r ? 1 : 0;
		trace[3 * i + 1] = (unsigned char)st.pin;
		trace[3 * i + 2] = (unsigned char)st.auth;
	}
	return n;
}

/* names, taken from the header's enums so that a renumbering is seen by the explorer */
int vh_pwd_enum(const char* name)
{
#define E(x) if (strcmp(name, #x) == 0) return (int)x;
	E(puk0) E(puk1) E(puk2) E(puk3) E(puk4) E(puk5) E(puk6) E(puk7) E(puk8) E(puk9)
	E(pin0) E(pin1) E(pind) E(pins) E(pin2) E(pin3)
	E(auth_none) E(auth_pin) E(auth_can) E(auth_puk)
	E(pin_ok) E(pin_bad) E(pin_deactivate) E(pin_activate) E(can_ok) E(can_bad) E(puk_ok) E(puk_bad) E(auth_close)
#undef E
	return -1;
}
