/* vh_macros.c -- the function-like macros of the public headers that no library source uses (bash256 / bash384 / bash512 families of
   bash.h) are invisible to a harness that calls exported symbols.  These wrappers expand them, so that the explorers can drive the macros
   as a user of the header would.  (bashNNNStepV2 is left out: bash.h 2.1.5 expands it to bashHashStepV2, a function that is neither declared
   nor defined anywhere -- the macro cannot be linked; noted in DESIGN.md as an observation.)  A family member that the header does not define (renamed / removed) makes the wrapper return VM_ABSENT. */
#include <stddef.h>
#include <bee2/crypto/bash.h>
#define VM_ABSENT 0x7FFFFFFF

#define VM_FAMILY(N) \
size_t vm_bash##N##_keep(void) { return bash##N##_keep(); } \
void vm_bash##N##Start(void* st) { bash##N##Start(st); } \
void vm_bash##N##StepH(const void* buf, size_t count, void* st) { bash##N##StepH(buf, count, st); } \
void vm_bash##N##StepG(octet* hash, void* st) { bash##N##StepG(hash, st); } \
void vm_bash##N##StepG2(octet* hash, size_t hash_len, void* st) { bash##N##StepG2(hash, hash_len, st); } \
unsigned vm_bash##N##Hash(octet* hash, const void* src, size_t count) { return bash##N##Hash(hash, src, count); }

VM_FAMILY(256)
VM_FAMILY(384)
VM_FAMILY(512)

int vm_bash256StepV(const octet* hash, void* st)
{
#ifdef bash256StepV
	return bash256StepV(hash, st);
#else
	return VM_ABSENT;
#endif
}
/* bash.h (2.1.5) names this member bashHash384StepV; either spelling is taken */
int vm_bash384StepV(const octet* hash, void* st)
{
#if defined(bash384StepV)
	return bash384StepV(hash, st);
#elif defined(bashHash384StepV)
	return bashHash384StepV(hash, st);
#else
	return VM_ABSENT;
#endif
}
int vm_bash512StepV(const octet* hash, void* st)
{
#ifdef bash512StepV
	return bash512StepV(hash, st);
#else
	return VM_ABSENT;
#endif
}
