/* vh_macros.c -- the function-like macros of the public headers that no library source uses (bash256 / bash384 / bash512 families of
   bash.h) are invisible to a harness that calls exported symbols.  These wrappers expand them, so that the explorers can drive the macros
   as a user of the header would.  (bashNNNStepV2 is left out: bash.h 2.1.5 expands it to bashHashStepV2, a function that is neither declared
   nor defined anywhere -- the macro cannot be linked; noted in DESIGN.md as an observation.)  A family member that the header does not define (renamed / removed) makes the wrapper return VM_ABSENT. */
#include <stddef.h>
#include <bee2/crypto/bash.h>
#define VM_ABSENT 0x7FFFFFFF

#define VM_FAMILY(N) \
size_t vm_bash##N##_keep(void) { return bash##N##_keep(); } \
void vm_bash##N##Start(void* st) { bash##N##Start(st); } \
void vm_bash##N##StepH(const void* buf, size_t count, void* st) { bash##N##StepH(buf, count, st); } \
void vm_bash##N##StepG(octet* hash, void* st) { bash##N##StepG(hash, st); } \
void vm_bash##N##StepG2(octet* hash, size_t hash_len, void* st) { bash##N##StepG2(hash, hash_len, st); } \
unsigned vm_bash##N##Hash(octet* hash, const void* src, size_t count) { return bash##N##Hash(hash, src, count); }

VM_FAMILY(256)
VM_FAMILY(384)
VM_FAMILY(512)

int vm_bash256StepV(const octet* hash, void* st)
{
#ifdef bash256StepV
	return bash256StepV(hash, st);
#else
	return VM_ABSENT;
#endif
}
/* bash.h (2.1.5) names this member bashHash384StepV; either spelling is taken */
int vm_bash384StepV(const octet* hash, void* st)
{
#if defined(bash384StepV)
	return bash384StepV(hash, st);
#elif defined(bashHash384StepV)
	return bashHash384StepV(hash, st);
#else
	return VM_ABSENT;
#endif
}
int vm_bash512StepV(const octet* hash, void* st)
{
#ifdef bash512StepV
	return bash512StepV(hash, st);
#else
	return VM_ABSENT;
#endif
}

/* ---------------------------------------------------------------- value macros of u16.h / u32.h / u64.h / util.h that no library source uses
   (rotations to the low side, u64Rev_, MIN3 .. MAX4): swept here against bit-by-bit / sort references.
   out[0] = evaluations, out[1] = mismatches, out[2..5] = first mismatch (which, w, d, got) */
#include <bee2/core/u16.h>
#include <bee2/core/u32.h>
#include <bee2/core/u64.h>
#include <bee2/core/util.h>
static unsigned long long vm_rot_ref(unsigned long long w, unsigned d, unsigned bits, int hi)
{
	unsigned long long r = 0, mask = bits == 64 ? ~0ull : ((1ull << bits) - 1);
	unsigned i;
	for (i = 0; i < bits; ++i)
		if (w >> i & 1)
			r |= 1ull << (hi ? (i + d) % bits : (i + bits - d) % bits);
	return r & mask;
}
static void vm_note(unsigned long long out[6], int which, unsigned long long w, unsigned long long d, unsigned long long got)
{
	if (out[1]++ == 0) out[2] = (unsigned long long)which, out[3] = w, out[4] = d, out[5] = got;
}
static unsigned long long vm_alpha(unsigned i, unsigned bits)
{
	/* 0, all ones, single bits, pairs of adjacent bits, all ones minus one bit, alternating patterns */
	unsigned long long mask = bits == 64 ? ~0ull : ((1ull << bits) - 1);
	if (i == 0) return 0;
	if (i == 1) return mask;
	if (i == 2) return 0xAAAAAAAAAAAAAAAAull & mask;
	if (i == 3) return 0x0123456789ABCDEFull & mask;
	i -= 4;
	if (i < bits) return 1ull << i;
	i -= bits;
	if (i < bits) return mask ^ (1ull << i);
	i -= bits;
	return (3ull << (i % (bits - 1))) & mask;
}
void vm_value_macros_sweep(unsigned long long out[6])
{
	unsigned w, d, i;
	out[0] = out[1] = out[2] = out[3] = out[4] = out[5] = 0;
	for (w = 0; w < 65536; ++w)
		for (d = 1; d < 16; ++d)
		{
			u16 a = (u16)w, hi = u16RotHi(a, d), lo = u16RotLo(a, d);
			out[0] += 2;
			if (hi != (u16)vm_rot_ref(w, d, 16, 1)) vm_note(out, 161, w, d, hi);
			if (lo != (u16)vm_rot_ref(w, d, 16, 0)) vm_note(out, 160, w, d, lo);
		}
	for (i = 0; i < 4 + 3 * 32 - 1; ++i)
		for (d = 1; d < 32; ++d)
		{
			u32 a = (u32)vm_alpha(i, 32), hi = u32RotHi(a, d), lo = u32RotLo(a, d);
			out[0] += 2;
			if (hi != (u32)vm_rot_ref(a, d, 32, 1)) vm_note(out, 321, a, d, hi);
			if (lo != (u32)vm_rot_ref(a, d, 32, 0)) vm_note(out, 320, a, d, lo);
		}
#ifdef U64_SUPPORT
	for (i = 0; i < 4 + 3 * 64 - 1; ++i)
	{
		u64 a = (u64)vm_alpha(i, 64), r = u64Rev_(a), rr = 0;
		int k;
		for (k = 0; k < 8; ++k) rr |= (a >> (8 * k) & 0xFF) << (8 * (7 - k));
		out[0] += 1;
		if (r != rr) vm_note(out, 648, a, 0, r);
		for (d = 1; d < 64; ++d)
		{
			u64 hi = u64RotHi(a, d), lo = u64RotLo(a, d);
			out[0] += 2;
			if (hi != (u64)vm_rot_ref(a, d, 64, 1)) vm_note(out, 641, a, d, hi);
			if (lo != (u64)vm_rot_ref(a, d, 64, 0)) vm_note(out, 640, a, d, lo);
		}
	}
#endif
	{
		static const size_t v[5] = {0, 1, 2, 3, (size_t)-1};
		int a, b, c, e;
		for (a = 0; a < 5; ++a) for (b = 0; b < 5; ++b) for (c = 0; c < 5; ++c)
		{
			size_t mn = v[a], mx = v[a];
			if (v[b] < mn) mn = v[b]; if (v[c] < mn) mn = v[c];
			if (v[b] > mx) mx = v[b]; if (v[c] > mx) mx = v[c];
			out[0] += 2;
			if (MIN3(v[a], v[b], v[c]) != mn) vm_note(out, 30, v[a], v[b], MIN3(v[a], v[b], v[c]));
			if (MAX3(v[a], v[b], v[c]) != mx) vm_note(out, 31, v[a], v[b], MAX3(v[a], v[b], v[c]));
			for (e = 0; e < 5; ++e)
			{
				size_t mn4 = v[e] < mn ? v[e] : mn, mx4 = v[e] > mx ? v[e] : mx;
				out[0] += 2;
				if (MIN4(v[a], v[b], v[c], v[e]) != mn4) vm_note(out, 40, v[a], v[e], MIN4(v[a], v[b], v[c], v[e]));
				if (MAX4(v[a], v[b], v[c], v[e]) != mx4) vm_note(out, 41, v[a], v[e], MAX4(v[a], v[b], v[c], v[e]));
			}
		}
	}
}

/* ---------------------------------------------------------------- typed DER macros of der.h that no library source uses */
#include <bee2/core/der.h>
size_t vm_derPSTREnc(octet* der, const char* val) { return derPSTREnc(der, val); }
size_t vm_derPSTRDec(char* val, size_t* len, const octet* der, size_t count) { return derPSTRDec(val, len, der, count); }
size_t vm_derOCTDec3(const octet* der, size_t count, const octet* val, size_t len) { return derOCTDec3(der, count, val, len); }
