/* llvm-symbolizer hangs at start-up when the ASan runtime is LD_PRELOADed into it (as it is into every child of a sanitised python);
   this wrapper drops the preload and execs the real tool */
#include <stdlib.h>
#include <unistd.h>
int main(int argc, char** argv)
{
	unsetenv("LD_PRELOAD");
	argv[0] = "/usr/bin/llvm-symbolizer-14";
	execv(argv[0], argv);
	return 127;
}
