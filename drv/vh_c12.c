/* vh_c12.c -- tight exhaustive loops for C12 (validators): dates, word primes, next-prime searches,
 * factor-base predicates, small binary polynomials.  Each loop only CALLS the library function on every
 * element of a dense range and stores the raw verdicts (bitmaps / value arrays); the oracle (reference
 * model) is evaluated by the explorer in Python, never here.
 * Numbers are passed as 64-bit values and converted to `word` arrays of the build's word size. */
#include <stddef.h>
#include <stdint.h>
#include <string.h>
#include <bee2/defs.h>
#include <bee2/core/tm.h>
#include <bee2/math/pri.h>
#include <bee2/math/pp.h>
#include <bee2/crypto/bign.h>
#include <bee2/crypto/g12s.h>
#include <bee2/crypto/dstu.h>
#include <bee2/crypto/pfok.h>
#include <bee2/crypto/stb99.h>

#define VH_MAXW 8

static void vh_put(word* w, size_t n, uint64_t v)
{
	size_t i;
	for (i = 0; i < n; ++i)
	{
		w[i] = (word)v;
#if (B_PER_W >= 64)
		v = 0;
#else
		v >>= B_PER_W;
#endif
	}
}

/* low 64 bits of [n]w; *hi = 1 if a bit above 2^64 is set */
static uint64_t vh_get(const word* w, size_t n, int* hi)
{
	uint64_t v = 0;
	size_t i;
	*hi = 0;
	for (i = 0; i < n; ++i)
	{
		if (i * B_PER_W < 64)
			v |= (uint64_t)w[i] << (i * B_PER_W);
		else if (w[i])
			*hi = 1;
	}
	return v;
}

static void vh_setbit(unsigned char* bits, uint64_t i, int v)
{
	if (v)
		bits[i >> 3] |= (unsigned char)(1u << (i & 7));
}

/* layout self-check for the explorer's struct packers */
size_t vh_c12_sizeof(int which)
{
	switch (which)
	{
	case 0: return sizeof(word);
	case 1: return sizeof(bign_params);
	case 2: return sizeof(g12s_params);
	case 3: return sizeof(dstu_params);
	case 4: return sizeof(pfok_params);
	case 5: return sizeof(pfok_seed);
	case 6: return sizeof(stb99_params);
	case 7: return sizeof(stb99_seed);
	case 8: return B_PER_IMPOSSIBLE;
	default: return 0;
	}
}

/* tmDateIsValid2 on ALL 6-tuples over alpha[0..k): bit index = ((((i0 k + i1) k + i2) k + i3) k + i4) k + i5;
 * every tuple is passed in its own exact 6-octet copy */
void vh_c12_date2_all(const unsigned char* alpha, size_t k, unsigned char* bits)
{
	size_t i[6];
	uint64_t idx = 0;
	octet d[6];
	for (i[0] = 0; i[0] < k; ++i[0])
	for (i[1] = 0; i[1] < k; ++i[1])
	for (i[2] = 0; i[2] < k; ++i[2])
	for (i[3] = 0; i[3] < k; ++i[3])
	for (i[4] = 0; i[4] < k; ++i[4])
	for (i[5] = 0; i[5] < k; ++i[5], ++idx)
	{
		d[0] = alpha[i[0]], d[1] = alpha[i[1]], d[2] = alpha[i[2]];
		d[3] = alpha[i[3]], d[4] = alpha[i[4]], d[5] = alpha[i[5]];
		vh_setbit(bits, idx, tmDateIsValid2(d) ? 1 : 0);
	}
}

/* tmDateIsValid on [y0,y1] x [m0,m1] x [d0,d1]; bit index runs d fastest, then m, then y */
void vh_c12_date_range(size_t y0, size_t y1, size_t m0, size_t m1, size_t d0, size_t d1, unsigned char* bits)
{
	size_t y, m, d;
	uint64_t idx = 0;
	for (y = y0; y <= y1; ++y)
		for (m = m0; m <= m1; ++m)
			for (d = d0; d <= d1; ++d, ++idx)
				vh_setbit(bits, idx, tmDateIsValid(y, m, d) ? 1 : 0);
}

/* priIsPrimeW(start + i), i < count (the caller keeps start + count - 1 inside a word) */
void vh_c12_isprimew(uint64_t start, uint64_t count, unsigned char* bits, void* stack)
{
	uint64_t i;
	for (i = 0; i < count; ++i)
		vh_setbit(bits, i, priIsPrimeW((word)(start + i), stack) ? 1 : 0);
}

/* priNextPrimeW(start + i): out[i] = p, or 0 when FALSE is returned */
void vh_c12_nextprimew(uint64_t start, uint64_t count, uint64_t* out, void* stack)
{
	uint64_t i;
	word p[1];
	for (i = 0; i < count; ++i)
	{
		p[0] = 0;
		out[i] = priNextPrimeW(p, (word)(start + i), stack) ? (uint64_t)p[0] : 0;
	}
}

/* priNextPrime([n](start + i), trials, base_count, iter): out[i] = p (low 64 bits), 0 when FALSE,
 * ~0 when the result does not fit 64 bits; separate a and p buffers */
void vh_c12_nextprime(uint64_t start, uint64_t count, size_t n, size_t trials, size_t base_count, size_t iter,
	uint64_t* out, void* stack)
{
	uint64_t i;
	word a[VH_MAXW], p[VH_MAXW];
	int hi;
	if (n > VH_MAXW)
		return;
	for (i = 0; i < count; ++i)
	{
		vh_put(a, n, start + i);
		memset(p, 0, sizeof p);
		if (priNextPrime(p, a, n, trials, base_count, iter, stack))
		{
			out[i] = vh_get(p, n, &hi);
			if (hi)
				out[i] = ~(uint64_t)0;
		}
		else
			out[i] = 0;
	}
}

/* priIsSieved / priIsSmooth([n](start + i), base_count) */
void vh_c12_sieved(uint64_t start, uint64_t count, size_t n, size_t base_count, unsigned char* bits, void* stack)
{
	uint64_t i;
	word a[VH_MAXW];
	if (n > VH_MAXW)
		return;
	for (i = 0; i < count; ++i)
	{
		vh_put(a, n, start + i);
		vh_setbit(bits, i, priIsSieved(a, n, base_count, stack) ? 1 : 0);
	}
}

void vh_c12_smooth(uint64_t start, uint64_t count, size_t n, size_t base_count, unsigned char* bits, void* stack)
{
	uint64_t i;
	word a[VH_MAXW];
	if (n > VH_MAXW)
		return;
	for (i = 0; i < count; ++i)
	{
		vh_put(a, n, start + i);
		vh_setbit(bits, i, priIsSmooth(a, n, base_count, stack) ? 1 : 0);
	}
}

/* ppIsIrred([n](start + i)) */
void vh_c12_irred(uint64_t start, uint64_t count, size_t n, unsigned char* bits, void* stack)
{
	uint64_t i;
	word a[VH_MAXW];
	if (n > VH_MAXW)
		return;
	for (i = 0; i < count; ++i)
	{
		vh_put(a, n, start + i);
		vh_setbit(bits, i, ppIsIrred(a, n, stack) ? 1 : 0);
	}
}
