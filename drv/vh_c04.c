/* vh_c04.c -- helpers of property C04 (bake / BAUTH protocol dialogues).
 *
 *  - vh_c04_certval(): certificate validator (bake_certval_i) with the convention of bake_test.c -- the public
 *    key is the last l/2 octets of the certificate; call k (1-based, counted since vh_c04_val_arm) can be made
 *    to answer a chosen error code instead.
 *  - vh_c04_read() / vh_c04_write(): read_i / write_i over an in-memory transcript.  The incoming messages are
 *    given as (address, length) pairs; a read never crosses a message boundary (semantics of fileMsgRead in
 *    bake_test.c: ERR_MAX when fewer than count octets are left in the current message, ERR_MAX with 0 octets
 *    at the end of the transcript).  Written data is appended to a log as records (u64 count || octets).
 *    Exactly one call (1-based index over reads and writes together) can be programmed to misbehave:
 *    kind 1 = answer fault_code and transfer nothing, kind 2 = short read (at most fault_arg octets, ERR_OK,
 *    the message is not finished), kind 3 = premature end (at most fault_arg octets, ERR_MAX).
 */
#include <stddef.h>
#include <stdint.h>
#include <string.h>
#include "bee2/defs.h"
#include "bee2/core/err.h"
#include "bee2/crypto/bign.h"

/* ---------------------------------------------------------------- certificate validator */
static long vh_c04_val_calls, vh_c04_val_fail_at;
static err_t vh_c04_val_code;

void vh_c04_val_arm(long fail_at, unsigned code)
{
	vh_c04_val_calls = 0; vh_c04_val_fail_at = fail_at; vh_c04_val_code = (err_t)code;
}
long vh_c04_val_ncalls(void) { return vh_c04_val_calls; }

err_t vh_c04_certval(octet* pubkey, const bign_params* params, const octet* data, size_t len)
{
	if (++vh_c04_val_calls == vh_c04_val_fail_at)
		return vh_c04_val_code;
	if (!params || (params->l != 128 && params->l != 192 && params->l != 256))
		return ERR_BAD_INPUT;
	if (!data || len < params->l / 2)
		return ERR_BAD_CERT;
	if (pubkey)
		memcpy(pubkey, data + (len - params->l / 2), params->l / 2);
	return ERR_OK;
}

/* ---------------------------------------------------------------- scripted channel */
#define VH_C04_MAXMSG 8
#define VH_C04_MAXCALL 32
typedef struct
{
	uint64_t nmsg;						/* number of incoming messages */
	uint64_t ptr[VH_C04_MAXMSG];		/* their addresses */
	uint64_t len[VH_C04_MAXMSG];		/* their lengths */
	uint64_t cur, off;					/* read cursor */
	uint64_t call;						/* calls so far (reads + writes) */
	uint64_t fault_at, fault_kind, fault_code, fault_arg;
	uint64_t log, log_cap, log_len;		/* log of written data */
	uint64_t nread, nwrite;
	uint64_t trace[VH_C04_MAXCALL];		/* per call: bit 63 = write, low bits = requested count */
} vh_c04_chan;

static int vh_c04_enter(vh_c04_chan* f, int is_write, size_t count)
{
	if (f->call < VH_C04_MAXCALL)
		f->trace[f->call] = ((uint64_t)is_write << 63) | (uint64_t)count;
	++f->call;
	return f->fault_at && f->call == f->fault_at;
}

err_t vh_c04_read(size_t* read, void* buf, size_t count, void* file)
{
	vh_c04_chan* f = (vh_c04_chan*)file;
	int fault = vh_c04_enter(f, 0, count);
	size_t left, n;
	++f->nread;
	*read = 0;
	if (fault && f->fault_kind == 1)
		return (err_t)f->fault_code;
	if (f->cur >= f->nmsg)
		return ERR_MAX;
	left = (size_t)(f->len[f->cur] - f->off);
	if (fault && (f->fault_kind == 2 || f->fault_kind == 3))
	{
		n = (size_t)f->fault_arg;
		if (n > left) n = left;
		if (n > count) n = count;
		memcpy(buf, (const octet*)(uintptr_t)f->ptr[f->cur] + f->off, n);
		*read = n;
		if (f->fault_kind == 2)
		{
			f->off += n;
			return ERR_OK;
		}
		++f->cur, f->off = 0;
		return ERR_MAX;
	}
	if (count > left)
	{
		memcpy(buf, (const octet*)(uintptr_t)f->ptr[f->cur] + f->off, left);
		*read = left;
		++f->cur, f->off = 0;
		return ERR_MAX;
	}
	memcpy(buf, (const octet*)(uintptr_t)f->ptr[f->cur] + f->off, count);
	*read = count;
	f->off += count;
	if (f->off == f->len[f->cur])
		++f->cur, f->off = 0;
	return ERR_OK;
}

err_t vh_c04_write(size_t* written, const void* buf, size_t count, void* file)
{
	vh_c04_chan* f = (vh_c04_chan*)file;
	int fault = vh_c04_enter(f, 1, count);
	uint64_t n64 = count;
	++f->nwrite;
	*written = 0;
	if (fault)
		return (err_t)f->fault_code;
	if (f->log_len + 8 + count > f->log_cap)
		return ERR_OUTOFMEMORY;
	memcpy((octet*)(uintptr_t)f->log + f->log_len, &n64, 8);
	memcpy((octet*)(uintptr_t)f->log + f->log_len + 8, buf, count);
	f->log_len += 8 + count;
	*written = count;
	return ERR_OK;
}
