/* vh_c08.c -- tight exhaustive loops for property C08 (decoders are total, bounded and canonical).
 *
 * Every input string is copied into an EXACT-SIZE region before a decoder sees it:
 *   mode 0: its own malloc(len) block (under the sanitizer runtime of cfg 'asan' the redzones make any
 *           access outside the copy a report; the library itself is instrumented, this file is not);
 *   mode 1: the last len octets before a PROT_NONE guard page; a read past the end faults, the fault is
 *           caught here (sigsetjmp) and recorded in the result record, so that a defect is an observation
 *           about ONE string and the enumeration continues (works in every configuration).
 * The helpers return compact fixed-size records (accept / consumed length / decoded tag, length, value
 * digest); the oracle (ref/codec.py) lives in explore/C08.py.  Nothing here judges.
 */
#define _GNU_SOURCE
#include <stdint.h>
#include <stddef.h>
#include <string.h>
#include <stdlib.h>
#include <signal.h>
#include <setjmp.h>
#include <unistd.h>
#include <sys/mman.h>
#include "bee2/defs.h"
#include "bee2/core/der.h"
#include "bee2/core/oid.h"
#include "bee2/core/hex.h"
#include "bee2/core/b64.h"
#include "bee2/core/dec.h"
#include "bee2/core/apdu.h"
#include "bee2/core/str.h"
#include "bee2/crypto/bign.h"
#include "bee2/crypto/btok.h"

/* ------------------------------------------------------------------ layout of the public structs */
void vh_c08_layout(uint64_t out[32])
{
	memset(out, 0, 32 * sizeof(uint64_t));
	out[0] = sizeof(apdu_cmd_t); out[1] = offsetof(apdu_cmd_t, rdf_len); out[2] = offsetof(apdu_cmd_t, cdf_len);
	out[3] = offsetof(apdu_cmd_t, cdf);
	out[4] = sizeof(apdu_resp_t); out[5] = offsetof(apdu_resp_t, rdf_len); out[6] = offsetof(apdu_resp_t, rdf);
	out[7] = sizeof(der_anchor_t); out[8] = offsetof(der_anchor_t, len); out[9] = offsetof(der_anchor_t, tag);
	out[10] = sizeof(bign_params); out[11] = offsetof(bign_params, p); out[12] = offsetof(bign_params, a);
	out[13] = offsetof(bign_params, b); out[14] = offsetof(bign_params, q); out[15] = offsetof(bign_params, yG);
	out[16] = offsetof(bign_params, seed);
	out[17] = sizeof(btok_cvc_t); out[18] = offsetof(btok_cvc_t, authority); out[19] = offsetof(btok_cvc_t, holder);
	out[20] = offsetof(btok_cvc_t, pubkey); out[21] = offsetof(btok_cvc_t, pubkey_len); out[22] = offsetof(btok_cvc_t, from);
	out[23] = offsetof(btok_cvc_t, until); out[24] = offsetof(btok_cvc_t, hat_eid); out[25] = offsetof(btok_cvc_t, hat_esign);
	out[26] = offsetof(btok_cvc_t, sig); out[27] = offsetof(btok_cvc_t, sig_len);
	out[28] = offsetof(apdu_cmd_t, cla); out[29] = offsetof(apdu_resp_t, sw1);
}

/* ------------------------------------------------------------------ exact-size placement */
#define VH_ARENA (1u << 17)
static unsigned char* vh_g_base;	/* VH_ARENA octets, then one PROT_NONE page */
static size_t vh_g_page;
static sigjmp_buf vh_g_jb;
static volatile sig_atomic_t vh_g_armed;
static struct sigaction vh_g_old_segv, vh_g_old_bus;
static int vh_g_installed;

static void vh_g_handler(int sig, siginfo_t* si, void* uc)
{
	uintptr_t a = (uintptr_t)si->si_addr, g = (uintptr_t)(vh_g_base + VH_ARENA);
	if (vh_g_armed && a >= g && a < g + vh_g_page)
	{
		vh_g_armed = 0;
		siglongjmp(vh_g_jb, 1);
	}
	/* not ours: fall back to the previous disposition and let the fault happen again */
	sigaction(SIGSEGV, &vh_g_old_segv, 0);
	sigaction(SIGBUS, &vh_g_old_bus, 0);
	(void)sig; (void)uc;
}

static int vh_g_setup(void)
{
	struct sigaction sa;
	if (!vh_g_base)
	{
		void* p;
		vh_g_page = (size_t)sysconf(_SC_PAGESIZE);
		p = mmap(0, VH_ARENA + vh_g_page, PROT_READ | PROT_WRITE, MAP_PRIVATE | MAP_ANONYMOUS, -1, 0);
		if (p == MAP_FAILED) return 0;
		vh_g_base = (unsigned char*)p;
		if (mprotect(vh_g_base + VH_ARENA, vh_g_page, PROT_NONE) != 0) return 0;
	}
	if (!vh_g_installed)
	{
		memset(&sa, 0, sizeof sa);
		sa.sa_sigaction = vh_g_handler;
		sa.sa_flags = SA_SIGINFO | SA_NODEFER;
		sigemptyset(&sa.sa_mask);
		sigaction(SIGSEGV, &sa, &vh_g_old_segv);
		sigaction(SIGBUS, &sa, &vh_g_old_bus);
		vh_g_installed = 1;
	}
	return 1;
}
void vh_c08_guard_release(void)
{
	if (vh_g_installed)
	{
		sigaction(SIGSEGV, &vh_g_old_segv, 0);
		sigaction(SIGBUS, &vh_g_old_bus, 0);
		vh_g_installed = 0;
	}
}

typedef struct { unsigned char* p; void* blk; } vh_place;

/* exact-size copy of [n]s; zero-length input: a pointer whose first octet is already out of bounds */
static int vh_put(vh_place* pl, const unsigned char* s, size_t n, int mode)
{
	if (mode == 1)
	{
		if (n > VH_ARENA || !vh_g_setup()) return 0;
		pl->blk = 0;
		pl->p = vh_g_base + VH_ARENA - n;
	}
	else
	{
		pl->blk = malloc(n ? n : 1);
		if (!pl->blk) return 0;
		pl->p = n ? (unsigned char*)pl->blk : (unsigned char*)pl->blk + 1;
	}
	if (n) memcpy(pl->p, s, n);
	return 1;
}
static void vh_drop(vh_place* pl)
{
	if (pl->blk) free(pl->blk);
	pl->blk = 0;
}

/* run a block under the guard; sets the oob bit instead of dying (mode 1 only; mode 0: plain call) */
#define VH_GUARDED(mode, oobvar, bit, body) \
	do { \
		if ((mode) == 1) { \
			if (sigsetjmp(vh_g_jb, 1) == 0) { vh_g_armed = 1; body; vh_g_armed = 0; } \
			else { (oobvar) |= (1u << (bit)); } \
		} else { body; } \
	} while (0)

/* ------------------------------------------------------------------ records */
#pragma pack(push, 1)
typedef struct { uint8_t ret, aux; uint32_t a; uint64_t b; } vh_ent;	/* 14 octets */
#define VH_DER_N 12
typedef struct { uint32_t oob; uint16_t bits; uint16_t pad; vh_ent e[VH_DER_N]; } vh_der_rec;	/* 176 octets */
typedef struct {
	uint32_t oob; uint8_t valid; uint8_t rel; uint16_t pad;	/* valid: b0 hex b1 b64 b2 dec; rel: relation bits */
	uint64_t hex_to, hex_rev, hex_case; uint64_t b64_cnt, b64_to; uint64_t dec32, dec64, dec_misc;
} vh_chr_rec;	/* 72 octets */
typedef struct {
	uint32_t oob; uint8_t cret, rret, flags, pad;	/* cret: 0xFF reject, else 1; flags: b0 cmd re-encodes identically b1 resp b2 cmd size ok b3 resp size ok */
	uint8_t cla, ins, p1, p2; uint32_t cdf_len; uint32_t rdf_len; uint64_t cdf; uint32_t enc_len;
	uint8_t sw1, sw2; uint16_t pad2; uint32_t r_rdf_len; uint64_t r_rdf;
} vh_apdu_rec;	/* 48 octets */
#pragma pack(pop)

size_t vh_c08_sizes(int what) { return what == 0 ? sizeof(vh_der_rec) : what == 1 ? sizeof(vh_chr_rec) : sizeof(vh_apdu_rec); }

static uint8_t vh_sat(size_t r) { return r == SIZE_MAX ? 0xFF : (r <= 0xFD ? (uint8_t)r : 0xFE); }
/* value digest: up to 8 octets packed little-endian, longer: FNV-1a 64 */
static uint64_t vh_dig(const unsigned char* v, size_t n)
{
	uint64_t h;
	size_t i;
	if (n <= 8) { for (h = 0, i = 0; i < n; ++i) h |= (uint64_t)v[i] << (8 * i); return h; }
	for (h = 1469598103934665603ULL, i = 0; i < n; ++i) h = (h ^ v[i]) * 1099511628211ULL;
	return h;
}

/* the tag word the typed decoders are asked for: the octets that open the string, read as a tag */
static uint32_t vh_tagk(const unsigned char* s, size_t n, size_t k)
{
	uint32_t t = 0; size_t i;
	for (i = 0; i < k && i < n; ++i) t = t << 8 | s[i];
	return t;
}
static size_t vh_taglen(const unsigned char* s, size_t n)
{
	size_t k;
	if (n == 0) return 0;
	if ((s[0] & 31) != 31) return 1;
	for (k = 1; k < n && k < 4; ++k) if (!(s[k] & 128)) return k + 1;
	return n < 4 ? n : 4;
}

/* decoder indices (bits of `which` and of rec.oob) */
enum { D_TL = 0, D_DEC, D_SIZE, D_UINT, D_BIT, D_OCT, D_PSTR, D_OID, D_OIDFROM, D_NULL, D_SEQ, D_CVCLEN,
	D_TLNULL = 12, D_ISVALID = 13, D_ISVALID2 = 14, D_STARTS = 15 };

/* one string through the DER battery */
int vh_c08_der1(const unsigned char* s, size_t n, int mode, uint32_t which, uint32_t skip, vh_der_rec* r)
{
	vh_place pl;
	const unsigned char* d;
	volatile uint32_t oob = 0;
	uint32_t T;
	size_t k;
	memset(r, 0, sizeof *r);
	which &= ~skip;
	if (!vh_put(&pl, s, n, mode)) return 0;
	d = pl.p;
	T = vh_tagk(s, n, vh_taglen(s, n));
	if (which & (1u << D_TL))
	{
		u32 tag = 0xA5A5A5A5u; size_t len = (size_t)0xA5A5A5A5A5A5A5A5ULL, c = 0;
		VH_GUARDED(mode, oob, D_TL, c = derTLDec(&tag, &len, d, n));
		r->e[D_TL].ret = vh_sat(c);
		if (c != SIZE_MAX) r->e[D_TL].a = tag, r->e[D_TL].b = len;
	}
	if (which & (1u << D_TLNULL))
	{
		size_t c = 0, c2 = 0; u32 tag = 0; size_t len = 0;
		VH_GUARDED(mode, oob, D_TLNULL, (c = derTLDec(0, 0, d, n), c2 = derTLDec(&tag, 0, d, n)));
		if (c == c2 && vh_sat(c) == r->e[D_TL].ret) r->bits |= 1u << 9;
		(void)len;
	}
	if (which & (1u << D_DEC))
	{
		u32 tag = 0xA5A5A5A5u; size_t len = (size_t)0xA5A5A5A5A5A5A5A5ULL, c = 0; const octet* v = 0;
		VH_GUARDED(mode, oob, D_DEC, c = derDec(&tag, &v, &len, d, n));
		r->e[D_DEC].ret = vh_sat(c);
		if (c != SIZE_MAX) r->e[D_DEC].a = tag, r->e[D_DEC].b = len, r->e[D_DEC].aux = vh_sat((size_t)(v - d));
	}
	if (which & (1u << D_ISVALID))
	{
		bool_t b = 0;
		VH_GUARDED(mode, oob, D_ISVALID, b = derIsValid(d, n));
		if (b) r->bits |= 1;
	}
	if (which & (1u << D_ISVALID2))
		for (k = 1; k <= 4 && k <= n; ++k)
		{
			bool_t b = 0;
			VH_GUARDED(mode, oob, D_ISVALID2, b = derIsValid2(d, n, vh_tagk(s, n, k)));
			if (b) r->bits |= 1u << k;
		}
	if (which & (1u << D_STARTS))
		for (k = 1; k <= 4 && k <= n; ++k)
		{
			bool_t b = 0;
			VH_GUARDED(mode, oob, D_STARTS, b = derStartsWith(d, n, vh_tagk(s, n, k)));
			if (b) r->bits |= 1u << (4 + k);
		}
	if (which & (1u << D_SIZE))
	{
		size_t v = 0, c = 0;
		VH_GUARDED(mode, oob, D_SIZE, c = derTSIZEDec(&v, d, n, T));
		r->e[D_SIZE].ret = vh_sat(c);
		if (c != SIZE_MAX) r->e[D_SIZE].b = v;
	}
	if (which & (1u << D_UINT))
	{
		size_t len = 0, c = 0, c2 = 0;
		VH_GUARDED(mode, oob, D_UINT, c = derTUINTDec(0, &len, d, n, T));
		r->e[D_UINT].ret = vh_sat(c);
		if (!(oob >> D_UINT & 1) && c != SIZE_MAX && len <= n)
		{
			unsigned char* o = (unsigned char*)malloc(len ? len : 1);
			VH_GUARDED(mode, oob, D_UINT, c2 = derTUINTDec(o, 0, d, n, T));
			r->e[D_UINT].a = (uint32_t)len; r->e[D_UINT].b = vh_dig(o, len); r->e[D_UINT].aux = (c2 == c);
			free(o);
		}
		else if (!(oob >> D_UINT & 1) && c != SIZE_MAX) r->e[D_UINT].a = 0xFFFFFFFFu;
	}
	if (which & (1u << D_BIT))
	{
		size_t len = 0, c = 0, c2 = 0;
		VH_GUARDED(mode, oob, D_BIT, c = derTBITDec(0, &len, d, n, T));
		r->e[D_BIT].ret = vh_sat(c);
		if (!(oob >> D_BIT & 1) && c != SIZE_MAX && (len + 7) / 8 <= n)
		{
			size_t m = (len + 7) / 8;
			unsigned char* o = (unsigned char*)malloc(m ? m : 1);
			VH_GUARDED(mode, oob, D_BIT, c2 = derTBITDec(o, 0, d, n, T));
			r->e[D_BIT].a = (uint32_t)len; r->e[D_BIT].b = vh_dig(o, m); r->e[D_BIT].aux = (c2 == c);
			free(o);
		}
		else if (!(oob >> D_BIT & 1) && c != SIZE_MAX) r->e[D_BIT].a = 0xFFFFFFFFu;
	}
	if (which & (1u << D_OCT))
	{
		size_t len = 0, c = 0, c2 = 0;
		VH_GUARDED(mode, oob, D_OCT, c = derTOCTDec(0, &len, d, n, T));
		r->e[D_OCT].ret = vh_sat(c);
		if (!(oob >> D_OCT & 1) && c != SIZE_MAX && len <= n)
		{
			unsigned char* o = (unsigned char*)malloc(len ? len : 1);
			VH_GUARDED(mode, oob, D_OCT, c2 = derTOCTDec(o, 0, d, n, T));
			r->e[D_OCT].a = (uint32_t)len; r->e[D_OCT].b = vh_dig(o, len); r->e[D_OCT].aux = (c2 == c);
			free(o);
		}
		else if (!(oob >> D_OCT & 1) && c != SIZE_MAX) r->e[D_OCT].a = 0xFFFFFFFFu;
	}
	if (which & (1u << D_PSTR))
	{
		size_t len = 0, c = 0, c2 = 0;
		VH_GUARDED(mode, oob, D_PSTR, c = derTPSTRDec(0, &len, d, n, T));
		r->e[D_PSTR].ret = vh_sat(c);
		if (!(oob >> D_PSTR & 1) && c != SIZE_MAX && len <= n)
		{
			char* o = (char*)malloc(len + 1);
			VH_GUARDED(mode, oob, D_PSTR, c2 = derTPSTRDec(o, 0, d, n, T));
			/* aux: b0 second call agrees, b1 terminator in place */
			r->e[D_PSTR].a = (uint32_t)len; r->e[D_PSTR].b = vh_dig((unsigned char*)o, len);
			r->e[D_PSTR].aux = (uint8_t)((c2 == c) | ((o[len] == 0) << 1));
			free(o);
		}
		else if (!(oob >> D_PSTR & 1) && c != SIZE_MAX) r->e[D_PSTR].a = 0xFFFFFFFFu;
	}
	if (which & (1u << D_OID))
	{
		size_t len = 0, c = 0, c2 = 0;
		VH_GUARDED(mode, oob, D_OID, c = derOIDDec(0, &len, d, n));
		r->e[D_OID].ret = vh_sat(c);
		if (!(oob >> D_OID & 1) && c != SIZE_MAX && len <= 16 * n + 16)
		{
			char* o = (char*)malloc(len + 1);
			memset(o, 0x5A, len + 1);
			VH_GUARDED(mode, oob, D_OID, c2 = derOIDDec(o, 0, d, n));
			r->e[D_OID].a = (uint32_t)len; r->e[D_OID].b = vh_dig((unsigned char*)o, len);
			r->e[D_OID].aux = (uint8_t)((c2 == c) | ((o[len] == 0) << 1));
			/* derOIDDec2 against the decoded string: b2 */
			VH_GUARDED(mode, oob, D_OID, c2 = derOIDDec2(d, n, o));
			r->e[D_OID].aux |= (uint8_t)((c2 == c) << 2);
			free(o);
		}
		else if (!(oob >> D_OID & 1) && c != SIZE_MAX) r->e[D_OID].a = 0xFFFFFFFFu;
	}
	if (which & (1u << D_OIDFROM))
	{
		size_t c = 0, c2 = 0;
		VH_GUARDED(mode, oob, D_OIDFROM, c = oidFromDER(0, d, n));
		r->e[D_OIDFROM].ret = vh_sat(c);
		if (!(oob >> D_OIDFROM & 1) && c != SIZE_MAX && c <= 16 * n + 16)
		{
			char* o = (char*)malloc(c + 1);
			unsigned char back[64];
			size_t bl;
			memset(o, 0x5A, c + 1);
			VH_GUARDED(mode, oob, D_OIDFROM, c2 = oidFromDER(o, d, n));
			r->e[D_OIDFROM].a = (uint32_t)c; r->e[D_OIDFROM].b = vh_dig((unsigned char*)o, c);
			r->e[D_OIDFROM].aux = (uint8_t)((c2 == c) | ((o[c] == 0) << 1));
			/* re-encoding of the decoded identifier reproduces the accepted octets: b2 */
			if (o[c] == 0 && (bl = oidToDER(0, o)) != SIZE_MAX && bl <= sizeof back && oidToDER(back, o) == bl &&
				bl == n && memcmp(back, s, n) == 0)
				r->e[D_OIDFROM].aux |= 4;
			free(o);
		}
	}
	if (which & (1u << D_NULL))
	{
		size_t c = 0;
		VH_GUARDED(mode, oob, D_NULL, c = derNULLDec(d, n));
		r->e[D_NULL].ret = vh_sat(c);
	}
	/* the SEQ anchors take a tag word that must be valid: ask the library's own encoder (bit 10 of bits = its answer) */
	if ((which & (1u << D_SEQ)) && n && derTLEnc(0, T, 0) != SIZE_MAX)
	{
		der_anchor_t an[1];
		r->bits |= 1u << 10;
		size_t c = 0, st = 0;
		memset(an, 0, sizeof an);
		VH_GUARDED(mode, oob, D_SEQ, c = derTSEQDecStart(an, d, n, T));
		r->e[D_SEQ].ret = vh_sat(c);
		if (!(oob >> D_SEQ & 1) && c != SIZE_MAX)
		{
			r->e[D_SEQ].a = an->tag; r->e[D_SEQ].b = an->len;
			/* the stop test at the position the anchor itself announces (no access to der) */
			if (an->len <= n)
			{
				st = derTSEQDecStop(d + c + an->len, an);
				r->e[D_SEQ].aux = (st == 0);
			}
		}
	}
	if (which & (1u << D_CVCLEN))
	{
		size_t c = 0;
		VH_GUARDED(mode, oob, D_CVCLEN, c = btokCVCLen(d, n));
		r->e[D_CVCLEN].ret = vh_sat(c);
	}
	r->oob = oob;
	vh_drop(&pl);
	return 1;
}

/* odometer over alph^n (alph == 0: all 256 octets), strings = prefix || w; indices [start, start + cnt).
 * skiprec (optional): records of a previous pass; decoders whose oob bit is set there are not run again. */
size_t vh_c08_der_enum(const unsigned char* prefix, size_t plen, size_t n, const unsigned char* alph, size_t asz,
	uint64_t start, uint64_t cnt, int mode, uint32_t which, const vh_der_rec* skiprec, vh_der_rec* out)
{
	unsigned char s[64];
	size_t idx[32];
	uint64_t i, t;
	size_t j;
	if (plen + n > sizeof s || n > 32) return 0;
	if (!alph) asz = 256;
	memcpy(s, prefix, plen);
	for (t = start, j = n; j--; t /= asz) idx[j] = (size_t)(t % asz);
	for (i = 0; i < cnt; ++i)
	{
		for (j = 0; j < n; ++j) s[plen + j] = alph ? alph[idx[j]] : (unsigned char)idx[j];
		if (!vh_c08_der1(s, plen + n, mode, which, skiprec ? skiprec[i].oob : 0, out + i)) return (size_t)i;
		for (j = n; j--;) { if (++idx[j] < asz) break; idx[j] = 0; }
	}
	return (size_t)cnt;
}

/* ------------------------------------------------------------------ character strings: hex / base64 / decimal */
int vh_c08_chr1(const unsigned char* s, size_t n, int mode, uint32_t which, vh_chr_rec* r)
{
	vh_place pl;
	const char* z;
	unsigned char tmp[72];
	volatile uint32_t oob = 0;
	memset(r, 0, sizeof *r);
	if (n > 64) return 0;
	memcpy(tmp, s, n); tmp[n] = 0;
	if (!vh_put(&pl, tmp, n + 1, mode)) return 0;
	z = (const char*)pl.p;
	if (which & 1)
	{
		bool_t ok = 0;
		VH_GUARDED(mode, oob, 0, ok = hexIsValid(z));
		if (ok)
		{
			size_t m = n / 2;
			unsigned char* o = (unsigned char*)malloc(m ? m : 1);
			char* h = (char*)malloc(n + 1);
			char* c = (char*)malloc(n + 1);
			r->valid |= 1;
			VH_GUARDED(mode, oob, 0, hexTo(o, z));
			r->hex_to = vh_dig(o, m);
			VH_GUARDED(mode, oob, 0, (hexEq(o, z) ? (r->rel |= 1) : 0));
			hexFrom(h, o, m);				/* canonical (upper-case) re-encoding */
			memcpy(c, tmp, n + 1); hexUpper(c);
			if (strcmp(h, c) == 0) r->rel |= 2;	/* hexFrom(hexTo(s)) == upper(s) */
			r->hex_case = vh_dig((unsigned char*)c, n);
			memcpy(c, tmp, n + 1); hexLower(c);
			r->hex_case ^= vh_dig((unsigned char*)c, n) * 0x9E3779B97F4A7C15ULL;
			VH_GUARDED(mode, oob, 0, hexToRev(o, z));
			r->hex_rev = vh_dig(o, m);
			VH_GUARDED(mode, oob, 0, (hexEqRev(o, z) ? (r->rel |= 4) : 0));
			free(o); free(h); free(c);
		}
	}
	if (which & 2)
	{
		bool_t ok = 0;
		VH_GUARDED(mode, oob, 1, ok = b64IsValid(z));
		if (ok)
		{
			size_t cnt = 0, cnt2;
			r->valid |= 2;
			VH_GUARDED(mode, oob, 1, b64To(0, &cnt, z));
			r->b64_cnt = cnt;
			if (cnt <= n)
			{
				unsigned char* o = (unsigned char*)malloc(cnt ? cnt : 1);
				char* back = (char*)malloc(4 * ((cnt + 2) / 3) + 1);
				cnt2 = cnt;
				VH_GUARDED(mode, oob, 1, b64To(o, &cnt2, z));
				r->b64_to = vh_dig(o, cnt);
				if (cnt2 == cnt) r->rel |= 8;
				b64From(back, o, cnt);
				if (strcmp(back, (const char*)tmp) == 0) r->rel |= 16;	/* canonical: re-encoding reproduces the string */
				free(o); free(back);
			}
		}
	}
	if (which & 4)
	{
		bool_t ok = 0;
		VH_GUARDED(mode, oob, 2, ok = decIsValid(z));
		if (ok)
		{
			uint32_t v32 = 0; uint64_t v64 = 0; size_t clz = 0;
			r->valid |= 4;
			VH_GUARDED(mode, oob, 2, (v32 = decToU32(z), v64 = decToU64(z), clz = decCLZ(z)));
			r->dec32 = v32; r->dec64 = v64;
			r->dec_misc = clz;
			{
				char* back = (char*)malloc(n + 1);
				decFromU32(back, n, v32);
				if (n <= 9 && strcmp(back, (const char*)tmp) == 0) r->rel |= 32;
				decFromU64(back, n, v64);
				if (n <= 19 && strcmp(back, (const char*)tmp) == 0) r->rel |= 64;
				free(back);
			}
			{
				char lc = 0, dc = 0; bool_t lv = 0, dv = 0;
				VH_GUARDED(mode, oob, 2, (lc = decLuhnCalc(z), dc = decDammCalc(z), lv = decLuhnVerify(z), dv = decDammVerify(z)));
				r->dec_misc |= (uint64_t)(unsigned char)lc << 8 | (uint64_t)(unsigned char)dc << 16 |
					(uint64_t)(lv ? 1 : 0) << 24 | (uint64_t)(dv ? 1 : 0) << 25;
			}
		}
	}
	r->oob = oob;
	vh_drop(&pl);
	return 1;
}

size_t vh_c08_chr_enum(const unsigned char* prefix, size_t plen, size_t n, const unsigned char* alph, size_t asz,
	uint64_t start, uint64_t cnt, int mode, uint32_t which, vh_chr_rec* out)
{
	unsigned char s[64];
	size_t idx[32];
	uint64_t i, t;
	size_t j;
	if (plen + n > sizeof s || n > 32 || !alph) return 0;
	memcpy(s, prefix, plen);
	for (t = start, j = n; j--; t /= asz) idx[j] = (size_t)(t % asz);
	for (i = 0; i < cnt; ++i)
	{
		for (j = 0; j < n; ++j) s[plen + j] = alph[idx[j]];
		if (!vh_c08_chr1(s, plen + n, mode, which, out + i)) return (size_t)i;
		for (j = n; j--;) { if (++idx[j] < asz) break; idx[j] = 0; }
	}
	return (size_t)cnt;
}

/* ------------------------------------------------------------------ APDU */
int vh_c08_apdu1(const unsigned char* s, size_t n, int mode, vh_apdu_rec* r)
{
	vh_place pl;
	const unsigned char* d;
	volatile uint32_t oob = 0;
	size_t c = 0, c2 = 0;
	memset(r, 0, sizeof *r);
	if (!vh_put(&pl, s, n, mode)) return 0;
	d = pl.p;
	/* command */
	VH_GUARDED(mode, oob, 0, c = apduCmdDec(0, d, n));
	r->cret = (c == SIZE_MAX) ? 0xFF : 1;
	if (!(oob & 1) && c != SIZE_MAX && c <= sizeof(apdu_cmd_t) + n)
	{
		apdu_cmd_t* cmd = (apdu_cmd_t*)malloc(c);
		memset(cmd, 0x5A, c);
		VH_GUARDED(mode, oob, 0, c2 = apduCmdDec(cmd, d, n));
		if (c2 == c && c == sizeof(apdu_cmd_t) + cmd->cdf_len) r->flags |= 4;
		r->cla = cmd->cla, r->ins = cmd->ins, r->p1 = cmd->p1, r->p2 = cmd->p2;
		r->cdf_len = (uint32_t)cmd->cdf_len; r->rdf_len = (uint32_t)cmd->rdf_len;
		if (cmd->cdf_len <= n)
		{
			r->cdf = vh_dig(cmd->cdf, cmd->cdf_len);
			if (apduCmdIsValid(cmd))
			{
				size_t el = apduCmdEnc(0, cmd);
				r->enc_len = (uint32_t)el;
				if (el != SIZE_MAX && el <= n + 8)
				{
					unsigned char* back = (unsigned char*)malloc(el ? el : 1);
					if (apduCmdEnc(back, cmd) == el && el == n && memcmp(back, s, n) == 0) r->flags |= 1;
					free(back);
				}
			}
			else r->enc_len = 0xFFFFFFFEu;
		}
		free(cmd);
	}
	else if (c != SIZE_MAX) r->cret = 0xFE;
	/* response */
	c = c2 = 0;
	VH_GUARDED(mode, oob, 1, c = apduRespDec(0, d, n));
	r->rret = (c == SIZE_MAX) ? 0xFF : 1;
	if (!(oob & 2) && c != SIZE_MAX && c <= sizeof(apdu_resp_t) + n)
	{
		apdu_resp_t* resp = (apdu_resp_t*)malloc(c);
		memset(resp, 0x5A, c);
		VH_GUARDED(mode, oob, 1, c2 = apduRespDec(resp, d, n));
		if (c2 == c && c == sizeof(apdu_resp_t) + resp->rdf_len) r->flags |= 8;
		r->sw1 = resp->sw1, r->sw2 = resp->sw2; r->r_rdf_len = (uint32_t)resp->rdf_len;
		if (resp->rdf_len <= n)
		{
			r->r_rdf = vh_dig(resp->rdf, resp->rdf_len);
			if (apduRespIsValid(resp))
			{
				size_t el = apduRespEnc(0, resp);
				if (el != SIZE_MAX && el <= n + 8)
				{
					unsigned char* back = (unsigned char*)malloc(el ? el : 1);
					if (apduRespEnc(back, resp) == el && el == n && memcmp(back, s, n) == 0) r->flags |= 2;
					free(back);
				}
			}
		}
		free(resp);
	}
	else if (c != SIZE_MAX) r->rret = 0xFE;
	r->oob = oob;
	vh_drop(&pl);
	return 1;
}

size_t vh_c08_apdu_enum(const unsigned char* prefix, size_t plen, size_t n, const unsigned char* alph, size_t asz,
	uint64_t start, uint64_t cnt, int mode, vh_apdu_rec* out)
{
	unsigned char s[64];
	size_t idx[32];
	uint64_t i, t;
	size_t j;
	if (plen + n > sizeof s || n > 32 || !alph) return 0;
	memcpy(s, prefix, plen);
	for (t = start, j = n; j--; t /= asz) idx[j] = (size_t)(t % asz);
	for (i = 0; i < cnt; ++i)
	{
		for (j = 0; j < n; ++j) s[plen + j] = alph[idx[j]];
		if (!vh_c08_apdu1(s, plen + n, mode, out + i)) return (size_t)i;
		for (j = n; j--;) { if (++idx[j] < asz) break; idx[j] = 0; }
	}
	return (size_t)cnt;
}

/* encode a command given by its fields: builds the exact-size apdu_cmd_t, returns the code length (SIZE_MAX: invalid /
 * error) and copies at most cap octets of the code to out */
size_t vh_c08_cmd_enc(unsigned cla, unsigned ins, unsigned p1, unsigned p2, const unsigned char* cdf, size_t cdf_len,
	size_t rdf_len, unsigned char* out, size_t cap, int* valid)
{
	apdu_cmd_t* cmd = (apdu_cmd_t*)malloc(sizeof(apdu_cmd_t) + cdf_len);
	size_t el;
	unsigned char* code;
	memset(cmd, 0, sizeof(apdu_cmd_t));
	cmd->cla = (octet)cla, cmd->ins = (octet)ins, cmd->p1 = (octet)p1, cmd->p2 = (octet)p2;
	cmd->cdf_len = cdf_len, cmd->rdf_len = rdf_len;
	if (cdf_len) memcpy(cmd->cdf, cdf, cdf_len);
	*valid = apduCmdIsValid(cmd) ? 1 : 0;
	if (!*valid) { free(cmd); return SIZE_MAX; }
	el = apduCmdEnc(0, cmd);
	if (el == SIZE_MAX) { free(cmd); return SIZE_MAX; }
	code = (unsigned char*)malloc(el ? el : 1);
	if (apduCmdEnc(code, cmd) != el) { free(code); free(cmd); return SIZE_MAX - 1; }
	memcpy(out, code, el < cap ? el : cap);
	free(code); free(cmd);
	return el;
}

size_t vh_c08_resp_enc(unsigned sw1, unsigned sw2, const unsigned char* rdf, size_t rdf_len, unsigned char* out, size_t cap,
	int* valid)
{
	apdu_resp_t* resp = (apdu_resp_t*)malloc(sizeof(apdu_resp_t) + rdf_len);
	size_t el;
	unsigned char* code;
	memset(resp, 0, sizeof(apdu_resp_t));
	resp->sw1 = (octet)sw1, resp->sw2 = (octet)sw2, resp->rdf_len = rdf_len;
	if (rdf_len) memcpy(resp->rdf, rdf, rdf_len);
	*valid = apduRespIsValid(resp) ? 1 : 0;
	if (!*valid) { free(resp); return SIZE_MAX; }
	el = apduRespEnc(0, resp);
	if (el == SIZE_MAX) { free(resp); return SIZE_MAX; }
	code = (unsigned char*)malloc(el ? el : 1);
	if (apduRespEnc(code, resp) != el) { free(code); free(resp); return SIZE_MAX - 1; }
	memcpy(out, code, el < cap ? el : cap);
	free(code); free(resp);
	return el;
}
