/* vh_c06.c -- helpers for property C06 (elliptic curves): accessors for the ec_o / qr_o structs, bulk
 * import/export of field elements through the qr_o table, and tight loops that only CALL one entry of the
 * ec_o function table (or one affine function) on every pair of a block of prepared inputs and store the
 * raw outputs.  The expected values (reference group law) are computed and compared by the explorer in
 * Python, never here. */
#include <stddef.h>
#include <stdint.h>
#include <string.h>
#include <bee2/defs.h>
#include <bee2/math/qr.h>
#include <bee2/math/ec.h>
#include <bee2/math/ecp.h>
#include <bee2/math/ec2.h>
#include <bee2/crypto/bign.h>
#include <bee2/crypto/bign96.h>
#include <bee2/crypto/g12s.h>
#include <bee2/crypto/dstu.h>

/* ------------------------------------------------------------------ accessors */
void vh_c06_qr_info(const qr_o* f, uint64_t out[8])
{
	out[0] = f->n; out[1] = f->no; out[2] = f->deep;
	out[3] = (uint64_t)(size_t)f->mod; out[4] = (uint64_t)(size_t)f->unity;
	out[5] = f->hdr.keep; out[6] = sizeof(word); out[7] = 0;
}

void vh_c06_ec_info(const ec_o* ec, uint64_t out[16])
{
	out[0] = ec->f->n; out[1] = ec->f->no; out[2] = ec->f->deep;
	out[3] = ec->d; out[4] = ec->deep; out[5] = ec->tpl != 0;
	out[6] = (uint64_t)(size_t)ec->f; out[7] = (uint64_t)(size_t)ec->base;
	out[8] = (uint64_t)(size_t)ec->order; out[9] = (uint64_t)ec->cofactor;
	out[10] = (uint64_t)(size_t)ec->A; out[11] = (uint64_t)(size_t)ec->B;
	out[12] = ec->hdr.keep; out[13] = sizeof(word); out[14] = 0; out[15] = 0;
}

/* dst[count * n words] <- from(src[count * no octets]); returns the number of successful imports */
size_t vh_c06_from(word* dst, const octet* src, size_t count, const qr_o* f, void* stack)
{
	size_t i, ok = 0;
	for (i = 0; i < count; ++i)
		ok += qrFrom(dst + i * f->n, src + i * f->no, f, stack) ? 1 : 0;
	return ok;
}

void vh_c06_to(octet* dst, const word* src, size_t count, const qr_o* f, void* stack)
{
	size_t i;
	for (i = 0; i < count; ++i)
		qrTo(dst + i * f->no, src + i * f->n, f, stack);
}

/* ------------------------------------------------------------------ one call of the function table */
enum {
	OP_ADD = 0, OP_SUB, OP_ADDA, OP_SUBA,		/* c <- a op b */
	OP_NEG, OP_DBL, OP_TPL,						/* proj -> proj */
	OP_FROMA, OP_DBLA,							/* affine -> proj */
	OP_TOA,										/* proj -> affine, bool */
	OP_AA,										/* fn(c, a, b, ec, stack): affine x affine -> affine, bool */
	OP_NEGA										/* fn(b, a, ec): affine -> affine */
};

typedef bool_t (*vh_aa_i)(word c[], const word a[], const word b[], const ec_o* ec, void* stack);
typedef void (*vh_nega_i)(word b[], const word a[], const ec_o* ec);

uint64_t vh_c06_call(const ec_o* ec, uint64_t fn, int op, word* c, const word* a, const word* b, void* stack)
{
	switch (op)
	{
	case OP_ADD: ec->add(c, a, b, ec, stack); return 1;
	case OP_SUB: ec->sub(c, a, b, ec, stack); return 1;
	case OP_ADDA: ec->adda(c, a, b, ec, stack); return 1;
	case OP_SUBA: ec->suba(c, a, b, ec, stack); return 1;
	case OP_NEG: ec->neg(c, a, ec, stack); return 1;
	case OP_DBL: ec->dbl(c, a, ec, stack); return 1;
	case OP_TPL: ec->tpl(c, a, ec, stack); return 1;
	case OP_FROMA: return (uint64_t)(ec->froma(c, a, ec, stack) ? 1 : 0);
	case OP_DBLA: ec->dbla(c, a, ec, stack); return 1;
	case OP_TOA: return (uint64_t)(ec->toa(c, a, ec, stack) ? 1 : 0);
	case OP_AA: return (uint64_t)(((vh_aa_i)(size_t)fn)(c, a, b, ec, stack) ? 1 : 0);
	case OP_NEGA: ((vh_nega_i)(size_t)fn)(c, a, ec); return 1;
	}
	return 0;
}

/* ------------------------------------------------------------------ block of calls
 * repa / repb: arrays of prepared inputs (internal representation), entry i at repa + i * sa words
 *   (sa = 3n for projective, 2n for affine inputs).
 * alias: 0 = all buffers distinct, 1 = c is a, 2 = c is b, 3 = a is b (same pointer; only j == i is run), c distinct.
 * bufs: [0] a (3n words) [1] a (2n words) [2] b (3n) [3] b (2n) [4] c (3n) [5] c (2n) [6] affine result (2n).
 *   An input lives in the 3n buffer when it is projective or when the (projective) output is written over it.
 * out: one record of 2n + 1 words per call: flag (1 = affine result, 0 = infinity) | x | y of the result after toa
 *   (for OP_TOA / OP_AA / OP_NEGA the direct output), x = y = 0 for infinity.
 * stat: [0] calls [1] inputs modified although not aliased with the output [2],[3] i,j of the first such call
 *       [4] froma returned FALSE
 * rows i in [i0, i1), columns j in [j0, j1) (unary operations: pass j0 = 0, j1 = 1). */
void vh_c06_block(const ec_o* ec, uint64_t fn, int op, int alias,
	const word* repa, const word* repb, size_t i0, size_t i1, size_t j0, size_t j1,
	word* out, word** bufs, void* stack, uint64_t* stat)
{
	const size_t n = ec->f->n;
	const int binary = op <= OP_SUBA || op == OP_AA;
	const int a_proj = op <= OP_TPL || op == OP_TOA;
	const int b_proj = op == OP_ADD || op == OP_SUB;
	const int c_proj = op <= OP_DBLA;
	const size_t sa = (a_proj ? 3 : 2) * n, sb = (b_proj ? 3 : 2) * n, sc = (c_proj ? 3 : 2) * n;
	size_t i, j;
	for (i = i0; i < i1; ++i)
	{
		size_t jb = j0, je = j1;
		if (!binary) jb = 0, je = 1;
		else if (alias == 3) jb = i, je = i + 1;
		for (j = jb; j < je; ++j)
		{
			word* a = (a_proj || (alias == 1 && c_proj)) ? bufs[0] : bufs[1];
			word* b = (b_proj || (alias == 2 && c_proj)) ? bufs[2] : bufs[3];
			word* c = c_proj ? bufs[4] : bufs[5];
			word* r = bufs[6];
			const word* srca = repa + i * sa;
			const word* srcb = binary ? repb + j * sb : 0;
			uint64_t ret;
			if (a == bufs[0] && sa < 3 * n) memset(a, 0xFF, 3 * n * sizeof(word));
			memcpy(a, srca, sa * sizeof(word));
			if (binary)
			{
				if (alias == 3)
					b = a;
				else
				{
					if (b == bufs[2] && sb < 3 * n) memset(b, 0xFF, 3 * n * sizeof(word));
					memcpy(b, srcb, sb * sizeof(word));
				}
			}
			if (alias == 1) c = a;
			else if (alias == 2) c = b;
			else memset(c, 0xEE, sc * sizeof(word));
			ret = vh_c06_call(ec, fn, op, c, a, binary ? b : 0, stack);
			++stat[0];
			if (op == OP_FROMA && !ret) ++stat[4], ret = 1;
			/* inputs not aliased with the output must be intact */
			if ((c != a && memcmp(a, srca, sa * sizeof(word)) != 0) ||
				(binary && alias != 3 && c != b && memcmp(b, srcb, sb * sizeof(word)) != 0))
			{
				if (!stat[1]) stat[2] = i, stat[3] = j;
				++stat[1];
			}
			if (c_proj)
				ret = ec->toa(r, c, ec, stack) ? 1 : 0, c = r;
			out[0] = (word)ret;
			if (ret)
				memcpy(out + 1, c, 2 * n * sizeof(word));
			else
				memset(out + 1, 0, 2 * n * sizeof(word));
			out += 2 * n + 1;
		}
	}
}

/* on-curve predicate fn(a, ec, stack) on every one-word pair (x, y), x in [x0, x1), y in [y0, y1); requires n == 1 */
typedef bool_t (*vh_ison_i)(const word a[], const ec_o* ec, void* stack);
void vh_c06_ison(const ec_o* ec, uint64_t fn, uint64_t x0, uint64_t x1, uint64_t y0, uint64_t y1,
	octet* out, word* pt, void* stack)
{
	uint64_t x, y;
	for (x = x0; x < x1; ++x)
		for (y = y0; y < y1; ++y)
		{
			pt[0] = (word)x, pt[1] = (word)y;
			*out++ = ((vh_ison_i)(size_t)fn)(pt, ec, stack) ? 1 : 0;
		}
}

/* every point of pts[np] (affine, 2n words each) x every scalar of ds[nd] (m words each):
 * mode 0: ecMulA -> record flag | x | y (2n + 1 words);  mode 1: ecHasOrderA -> record = one word (0 / 1).
 * a (2n words), d (m words), b (2n words): exact-size work buffers the operands are copied into. */
void vh_c06_mul_block(const ec_o* ec, int mode, const word* pts, size_t np, const word* ds, size_t nd, size_t m,
	word* out, word* a, word* d, word* b, void* stack)
{
	const size_t n = ec->f->n;
	size_t i, j;
	for (i = 0; i < np; ++i)
		for (j = 0; j < nd; ++j)
		{
			memcpy(a, pts + i * 2 * n, 2 * n * sizeof(word));
			memcpy(d, ds + j * m, m * sizeof(word));
			if (mode == 1)
				*out++ = (word)(ecHasOrderA(a, ec, d, m, stack) ? 1 : 0);
			else
			{
				bool_t ret;
				memset(b, 0xEE, 2 * n * sizeof(word));
				ret = ecMulA(b, a, ec, d, m, stack);
				out[0] = (word)(ret ? 1 : 0);
				if (ret) memcpy(out + 1, b, 2 * n * sizeof(word));
				else memset(out + 1, 0, 2 * n * sizeof(word));
				out += 2 * n + 1;
			}
		}
}

/* ------------------------------------------------------------------ standard parameters, flattened
 * kind 0 bign, 1 bign96: out = l (8 octets LE) | p[64] | a[64] | b[64] | q[64] | yG[64]
 * kind 2 g12s: out = l (8) | n (8) | p[68] | a[68] | b[68] | q[64] | xP[68] | yP[68]
 * kind 3 dstu: out = p[0..3] (4 x 8) | A (8) | c (8) | B[64] | n[64] | P[128]
 * returns the err_t of xxxParamsStd */
static void vh_put64(octet* o, uint64_t v) { int i; for (i = 0; i < 8; ++i) o[i] = (octet)(v >> (8 * i)); }

uint64_t vh_c06_params(int kind, const char* name, octet* out)
{
	err_t code;
	if (kind == 0 || kind == 1)
	{
		bign_params p;
		memset(&p, 0, sizeof(p));
		code = kind == 0 ? bignParamsStd(&p, name) : bign96ParamsStd(&p, name);
		if (code != ERR_OK) return code;
		vh_put64(out, p.l); out += 8;
		memcpy(out, p.p, 64); memcpy(out + 64, p.a, 64); memcpy(out + 128, p.b, 64);
		memcpy(out + 192, p.q, 64); memcpy(out + 256, p.yG, 64);
		return code;
	}
	if (kind == 2)
	{
		g12s_params p;
		memset(&p, 0, sizeof(p));
		code = g12sParamsStd(&p, name);
		if (code != ERR_OK) return code;
		vh_put64(out, p.l); vh_put64(out + 8, p.n); out += 16;
		memcpy(out, p.p, 68); memcpy(out + 68, p.a, 68); memcpy(out + 136, p.b, 68);
		memcpy(out + 204, p.q, 64); memcpy(out + 268, p.xP, 68); memcpy(out + 336, p.yP, 68);
		return code;
	}
	if (kind == 3)
	{
		dstu_params p;
		memset(&p, 0, sizeof(p));
		code = dstuParamsStd(&p, name);
		if (code != ERR_OK) return code;
		vh_put64(out, p.p[0]); vh_put64(out + 8, p.p[1]); vh_put64(out + 16, p.p[2]); vh_put64(out + 24, p.p[3]);
		vh_put64(out + 32, p.A); vh_put64(out + 40, p.c); out += 48;
		memset(out, 0, 256);
		memcpy(out, p.B, DSTU_SIZE); memcpy(out + 64, p.n, DSTU_SIZE); memcpy(out + 128, p.P, 2 * DSTU_SIZE);
		return code;
	}
	return (uint64_t)-1;
}
