/* c18_bodies.c -- thread bodies of the C18 harness programs.  Compiled WITH -fsanitize=thread so that the
 * harness's own shared accesses (the data published by the once-initialiser) are seen by the detector. */
#include <string.h>
#include <bee2/core/mt.h>
#include <bee2/core/rng.h>
#include <bee2/core/err.h>
#include <bee2/core/util.h>
#include <bee2/core/tm.h>
#include "c18.h"

c18_prog_t c18_prog;
c18_obs_t c18_obs;
volatile int vs_curop[C18_MAXT];

static size_t g_once;
static int g_data;
static size_t g_ctr;

static void once_init(void)
{
	g_data = 42;
	c18_obs.once_runs++;
}

/* additional entropy source given to rngCreate: deterministic per thread */
typedef struct { unsigned tid; unsigned pos; } tape_t;
static tape_t tapes[C18_MAXT];
static err_t tape_read(size_t* read, void* buf, size_t count, void* file)
{
	tape_t* t = (tape_t*)file;
	size_t i;
	for (i = 0; i < count; ++i)
		((octet*)buf)[i] = (octet)(0xA0 + 17 * t->tid + 29 * t->pos++);
	*read = count;
	return ERR_OK;
}

static int seq_pos;

/* exit-time destructor registered by op 'E' (util.c keeps the list that rngInit() also appends rngDestroy to) */
static size_t g_exit_calls;
static void exit_fn(void) { mtAtomicIncr(&g_exit_calls); }

static void do_op(int tid, int k)
{
	c18_op_t* op = &c18_prog.ops[tid][k];
	octet* out = c18_obs.out[tid][k];
	unsigned long r = 0;
	vs_curop[tid] = k;
	switch (op->code)
	{
	case 'C': r = rngCreate(tape_read, &tapes[tid]); break;
	case 'c': r = rngCreate(0, 0); break;
	case 'S': if (op->arg <= C18_OUT) rngStepR(out, (size_t)op->arg, 0); break;
	case 'R': if (op->arg <= C18_OUT) rngStepR2(out, (size_t)op->arg, 0); break;
	case 'K': rngRekey(); break;
	case 'V': r = rngIsValid() ? 1 : 0; break;
	case 'X': rngClose(); break;
	case 'I': r = mtAtomicIncr(&g_ctr); break;
	case 'D': r = mtAtomicDecr(&g_ctr); break;
	case 'E': r = utilOnExit(exit_fn) ? 1 : 0; break;
	case 'F': r = (unsigned long)tmFreq(); break;        /* once-guarded calibration of tm.c (100 ms inside the initialiser) */
	case 'W': r = mtAtomicCmpSwap(&g_ctr, (size_t)op->arg, (size_t)op->arg + 100); break;
	}
	c18_obs.ret[tid][k] = r;
	c18_obs.done[tid][k] = 1;
	/* sequential replay: the script advances when the op it is waiting for has completed */
	if (c18_prog.kind == 'q' && seq_pos < c18_prog.nseq && c18_prog.seq_tid[seq_pos] == tid && c18_prog.seq_op[seq_pos] == k)
		++seq_pos;
}

static int wanted(void)
{
	return seq_pos < c18_prog.nseq ? c18_prog.seq_tid[seq_pos] : 0;
}

void c18_body(int tid)
{
	int k;
	if (c18_prog.kind == 'o')
	{
		c18_obs.once_ret[tid] = mtCallOnce(&g_once, once_init) ? 1 : 0;
		c18_obs.once_seen[tid] = g_data;      /* must be ordered after the initialiser's write */
		return;
	}
	for (k = 0; k < c18_prog.nops[tid]; ++k)
		do_op(tid, k);
}

void c18_setup(void)
{
	int t;
	memset(&c18_obs, 0, sizeof c18_obs);
	for (t = 0; t < C18_MAXT; ++t) tapes[t].tid = (unsigned)t, tapes[t].pos = 0;
	g_once = 0; g_data = 0; g_ctr = 1000;
	seq_pos = 0;
	vs_want_fn = c18_prog.kind == 'q' ? wanted : 0;
}

void c18_post(void)
{
	c18_obs.ctr_final = g_ctr;
	if (c18_prog.kind == 'r' || c18_prog.kind == 'q')
		c18_obs.valid_after = rngIsValid() ? 1 : 0;
	if (c18_prog.kind == 't')
		c18_obs.ctr_final = (unsigned long)tmFreq();
}

#include <stdlib.h>
/* prog:  once:<n> | atomic:<ops>|<ops>.. | rng:<ops>|<ops>..   "kind*N:<ops>" replicates one thread body N times */
int c18_parse(const char* s, c18_prog_t* p, int maxthr)
{
	int rep = 0, t, k;
	memset(p, 0, sizeof *p);
	if (strncmp(s, "once:", 5) == 0) { p->kind = 'o'; p->nthr = atoi(s + 5); return p->nthr >= 1 && p->nthr <= maxthr; }
	if (strncmp(s, "atomic", 6) == 0) p->kind = 'a', s += 6;
	else if (strncmp(s, "rng", 3) == 0) p->kind = 'r', s += 3;
	else if (strncmp(s, "tm", 2) == 0) p->kind = 't', s += 2;
	else return 0;
	if (*s == '*') rep = (int)strtol(s + 1, (char**)&s, 10);
	if (*s++ != ':') return 0;
	p->nthr = 1;
	while (*s)
	{
		t = p->nthr;
		if (*s == '|') { if (++p->nthr > maxthr) return 0; ++s; continue; }
		if (*s == ',') { ++s; continue; }
		if (p->nops[t] == C18_MAXOPS) return 0;
		p->ops[t][p->nops[t]].code = *s++;
		p->ops[t][p->nops[t]].arg = (int)strtol(s, (char**)&s, 10);
		p->nops[t]++;
	}
	if (rep)
	{
		if (p->nthr != 1 || rep > maxthr) return 0;
		for (t = 2; t <= rep; ++t) { p->nops[t] = p->nops[1]; for (k = 0; k < p->nops[1]; ++k) p->ops[t][k] = p->ops[1][k]; }
		p->nthr = rep;
	}
	return 1;
}
