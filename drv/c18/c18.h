#ifndef C18_H
#define C18_H
#include "vsched.h"
#define C18_MAXOPS 8
#define C18_OUT 64                /* octets per request buffer (requests of up to 64 octets) */
#define C18_MAXT 17              /* free-running pass: up to 16 threads; controlled pass: VS_MAXT-1 */
typedef struct { char code; int arg; } c18_op_t;
typedef struct {
	int kind;                     /* 'o' once, 'a' atomic, 'r' rng, 'q' rng sequential replay */
	int nthr;
	int nops[C18_MAXT];
	c18_op_t ops[C18_MAXT][C18_MAXOPS];
	int nseq; unsigned char seq_tid[64]; unsigned char seq_op[64];
} c18_prog_t;
typedef struct {
	unsigned long ret[C18_MAXT][C18_MAXOPS];
	unsigned char out[C18_MAXT][C18_MAXOPS][C18_OUT];
	unsigned char done[C18_MAXT][C18_MAXOPS];
	int once_runs; int once_seen[C18_MAXT]; int once_ret[C18_MAXT];
	unsigned long ctr_final;
	int valid_after;
	int es_calls;
} c18_obs_t;
extern c18_prog_t c18_prog;
extern c18_obs_t c18_obs;
void c18_body(int tid);
void c18_setup(void);
void c18_post(void);
int c18_parse(const char* s, c18_prog_t* p, int maxthr);
#endif
