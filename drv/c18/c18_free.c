/* c18_free.c -- free-running pass of the same harness bodies under the REAL ThreadSanitizer runtime
 * (linked instead of vsched.c).  A detector, not an enumeration: it is what makes "scheduling points at
 * synchronisation operations only" sound for the controlled pass, and it sees 2..16 OS threads.
 *   c18free <prog> <iterations> <seed>     exit 0: no report; 1: reports (first one printed) */
#define _GNU_SOURCE
#include <stdio.h>
#include <stdlib.h>
#include <string.h>
#include <unistd.h>
#include <pthread.h>
#include <sys/wait.h>
#include "c18.h"

int (*vs_want_fn)(void);
typedef unsigned err_t_;
extern err_t_ (*bee2VerifESRead)(size_t*, void*, size_t, const char*) __attribute__((weak));
static pthread_mutex_t es_mtx = PTHREAD_MUTEX_INITIALIZER;
static unsigned long long es_state = 0x1234567;
static err_t_ es_read(size_t* read, void* buf, size_t count, const char* source)
{
	size_t i;
	pthread_mutex_lock(&es_mtx);
	for (i = 0; i < count; ++i)
	{
		es_state = es_state * 6364136223846793005ULL + 1442695040888963407ULL;
		((unsigned char*)buf)[i] = (unsigned char)(es_state >> 56);
	}
	pthread_mutex_unlock(&es_mtx);
	*read = count;
	return 0;
}

static pthread_barrier_t bar;
static unsigned skew[C18_MAXT];
static void* thr(void* a)
{
	int tid = (int)(long)a;
	pthread_barrier_wait(&bar);
	if (skew[tid]) usleep(skew[tid]);
	c18_body(tid);
	return 0;
}

int main(int argc, char** argv)
{
	int iters, it, t, bad = 0, shown = 0;
	unsigned seed;
	if (argc < 4 || !c18_parse(argv[1], &c18_prog, C18_MAXT - 1)) { fprintf(stderr, "usage\n"); return 3; }
	iters = atoi(argv[2]); seed = (unsigned)atoi(argv[3]);
	for (it = 0; it < iters; ++it)
	{
		int pe[2], st;
		pid_t pid;
		char err[3000]; ssize_t n, got = 0;
		if (pipe(pe)) return 3;
		pid = fork();
		if (pid == 0)
		{
			pthread_t th[C18_MAXT];
			close(pe[0]); dup2(pe[1], 2);
			if (&bee2VerifESRead) bee2VerifESRead = es_read;
			srand(seed * 7919u + (unsigned)it);
			c18_setup();
			pthread_barrier_init(&bar, 0, (unsigned)c18_prog.nthr);
			for (t = 1; t <= c18_prog.nthr; ++t) skew[t] = (it % 3 == 0) ? 0 : (unsigned)(rand() % 200);
			for (t = 1; t <= c18_prog.nthr; ++t) pthread_create(&th[t], 0, thr, (void*)(long)t);
			for (t = 1; t <= c18_prog.nthr; ++t) pthread_join(th[t], 0);
			c18_post();
			exit(0);
		}
		close(pe[1]);
		while ((n = read(pe[0], err + got, sizeof err - 1 - (size_t)got)) > 0) got += n;
		err[got] = 0;
		close(pe[0]);
		waitpid(pid, &st, 0);
		if (!(WIFEXITED(st) && WEXITSTATUS(st) == 0))
		{
			++bad;
			if (!shown) { printf("REPORT iteration %d status %d\n%s\n", it, st, err); shown = 1; }
		}
	}
	printf("FREE prog=%s iterations=%d reports=%d\n", argv[1], iters, bad);
	return bad ? 1 : 0;
}
