#ifndef VSCHED_H
#define VSCHED_H
#include <stddef.h>
#include <stdint.h>
#define VS_MAXT 4
#define VS_MAXPOINTS 512
#define VS_MAXTRACE 1024
#define VS_MAXRACES 8
#define VS_MAXVIOL 8
enum { VS_START = 1, VS_LOCK, VS_UNLOCK, VS_CAS, VS_ATOMIC, VS_MINIT, VS_MDESTROY, VS_JOIN };
typedef struct { int n; int chosen; int running_enabled; int en[VS_MAXT]; } vs_point_t;
typedef struct { const void* addr; int t1, w1, at1, t2, w2, at2; const void* pc1; const void* pc2; } vs_race_t;
typedef struct { int tid; int kind; const void* addr; } vs_ev_t;
typedef struct {
	int detect, deadlock, diverged;
	int npoints; vs_point_t points[VS_MAXPOINTS];
	int nraces; vs_race_t races[VS_MAXRACES];
	int nviol; char viol[VS_MAXVIOL][160];
	int ntrace; vs_ev_t trace[VS_MAXTRACE];
	int nlockorder; unsigned char lockorder[VS_MAXTRACE]; unsigned char lockop[VS_MAXTRACE]; const void* lockaddr[VS_MAXTRACE];
	int mutex_inits, mutex_destroys;
	const void* first_mutex;
	unsigned long shadow_accesses;
} vs_result_t;
extern vs_result_t vs_res;
extern int (*vs_want_fn)(void);   /* scripted mode: thread that should run next */
void vs_init(const int* prefix, int n, int detect, int trace);
void vs_run(int nthr, void (*fn)(int));
int vs_self(void);
void vs_violation(const char* kind, const char* detail);
void vs_finish(int code) __attribute__((noreturn));   /* provided by the harness: report and _exit */
extern volatile int vs_curop[];                  /* provided by the harness: op index a thread is executing */
#endif
