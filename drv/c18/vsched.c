/* vsched.c -- E3: serialising scheduler + happens-before race detector for the real mt.c / rng.c / util.c.
 *
 * The library is compiled with clang -fsanitize=thread but linked against THIS file instead of the
 * ThreadSanitizer runtime: every instrumented memory access (__tsan_readN/__tsan_writeN), every atomic
 * (__tsan_atomic*), every pthread_mutex_* call and memcpy/memset/memmove lands here.  Exactly one thread
 * runs at a time; at each synchronisation operation the running thread offers a choice point and the
 * explorer decides who continues.  Vector clocks over the same synchronisation operations give an exact
 * happens-before relation for the executed schedule; two conflicting accesses (at least one write, at
 * least one non-atomic) that it does not order are a data race.
 * Not compiled with -fsanitize=thread.
 */
#define _GNU_SOURCE
#include <stdint.h>
#include <stddef.h>
#include <string.h>
#include <stdio.h>
#include <stdlib.h>
#include <unistd.h>
#include <pthread.h>
#include <sys/syscall.h>
#include <linux/futex.h>
#include "vsched.h"

#define MAXT VS_MAXT                 /* thread 0 = main, 1..MAXT-1 workers */

/* ------------------------------------------------------------------ scheduler state */
enum { T_UNUSED, T_RUN, T_DONE };
typedef struct {
	int st;
	volatile int go;                 /* futex word: 1 = may run */
	volatile int fin;                /* futex word: 1 = may exit (threads park after their body: thread teardown
	                                    touches the allocator and must not overlap with the still running threads) */
	int pend_kind; const void* pend_addr;
	int spinfail; unsigned long spin_mark; const void* spin_addr;
	unsigned long ops;               /* state-changing sync ops executed by this thread (progress) */
	char* stk_lo; char* stk_hi;
	uint32_t vc[MAXT];
} thr_t;
static thr_t T[MAXT];
static int cur;                      /* running thread */
static int sched_on;                 /* workers under control */
static unsigned long gops;
static __thread int self_id = 0;

static vs_point_t points[VS_MAXPOINTS]; static int npoints;
static int prefix[VS_MAXPOINTS]; static int nprefix;
static int trace_on;
vs_result_t vs_res;
int (*vs_want_fn)(void);

/* mutex / atomic objects (keyed by address) */
typedef struct { const void* addr; int owner; int valid; uint32_t vc[MAXT]; } obj_t;
static obj_t objs[64]; static int nobjs;
static obj_t* obj_get(const void* a)
{
	int i;
	for (i = 0; i < nobjs; ++i) if (objs[i].addr == a) return &objs[i];
	if (nobjs == 64) { fprintf(stderr, "vsched: too many sync objects\n"); _exit(3); }
	memset(&objs[nobjs], 0, sizeof(obj_t)); objs[nobjs].addr = a; objs[nobjs].owner = -1;
	return &objs[nobjs++];
}

static void fwait(volatile int* w)
{
	while (__atomic_load_n(w, __ATOMIC_ACQUIRE) == 0)
		syscall(SYS_futex, w, FUTEX_WAIT, 0, 0, 0, 0);
	__atomic_store_n(w, 0, __ATOMIC_RELAXED);
}
static void fwake(volatile int* w)
{
	__atomic_store_n(w, 1, __ATOMIC_RELEASE);
	syscall(SYS_futex, w, FUTEX_WAKE, 1, 0, 0, 0);
}

static void violation(const char* kind, const char* detail)
{
	if (vs_res.nviol < VS_MAXVIOL)
	{
		snprintf(vs_res.viol[vs_res.nviol], sizeof vs_res.viol[0], "%s %s", kind, detail);
		++vs_res.nviol;
	}
}

static int enabled(int u)
{
	thr_t* t = &T[u];
	if (t->st != T_RUN) return 0;
	if (t->pend_kind == VS_LOCK)
	{
		obj_t* o = obj_get(t->pend_addr);
		if (o->owner >= 0) return 0;
	}
	if (t->pend_kind == VS_JOIN)
	{
		int i;
		for (i = 1; i < MAXT; ++i) if (T[i].st == T_RUN) return 0;
	}
	if (t->spinfail && (gops - t->ops) == t->spin_mark) return 0;
	return 1;
}

/* pick the next thread to run; called by the running thread `me` (which may be finishing) */
static void reschedule(int me)
{
	int en[MAXT], n = 0, u, idx, next;
	if (enabled(me)) en[n++] = me;
	for (u = 0; u < MAXT; ++u) if (u != me && enabled(u)) en[n++] = u;
	if (n == 0)
	{
		int alive = 0, spinning = 0;
		for (u = 0; u < MAXT; ++u) if (T[u].st == T_RUN) ++alive, spinning += T[u].spinfail;
		violation(spinning == alive ? "LIVELOCK" : "DEADLOCK", "no enabled thread");
		vs_res.deadlock = 1;
		vs_finish(2);
	}
	idx = 0;
	if (n > 1 && vs_want_fn)
	{
		/* scripted (sequential replay) mode: run the wanted thread whenever it is enabled; no choice points */
		int w = vs_want_fn();
		for (u = 0; u < n; ++u) if (en[u] == w) idx = u;
	}
	else if (n > 1)
	{
		vs_point_t* p;
		if (npoints == VS_MAXPOINTS) { violation("HORIZON", "too many choice points"); vs_res.deadlock = 1; vs_finish(2); }
		p = &points[npoints];
		p->n = n; p->running_enabled = (en[0] == me && enabled(me));
		memcpy(p->en, en, sizeof(int) * n);
		if (npoints < nprefix)
		{
			idx = prefix[npoints];
			if (idx >= n) { violation("DIVERGENCE", "replayed choice out of range"); vs_res.diverged = 1; vs_finish(4); }
		}
		p->chosen = idx;
		++npoints;
	}
	next = en[idx];
	if (next != me)
	{
		cur = next;
		fwake(&T[next].go);
		if (T[me].st == T_RUN) fwait(&T[me].go);
	}
}

/* a synchronisation point of thread self_id: offer the choice, then the caller performs the operation */
static void point(int kind, const void* addr)
{
	int me = self_id;
	if (!sched_on) return;
	T[me].pend_kind = kind; T[me].pend_addr = addr;
	reschedule(me);
	T[me].pend_kind = 0;
	if (trace_on && vs_res.ntrace < VS_MAXTRACE)
	{
		vs_res.trace[vs_res.ntrace].tid = me; vs_res.trace[vs_res.ntrace].kind = kind;
		vs_res.trace[vs_res.ntrace].addr = addr; ++vs_res.ntrace;
	}
}

static void progress(int me) { T[me].ops++; gops++; T[me].spinfail = 0; T[me].spin_addr = 0; }

/* ------------------------------------------------------------------ vector clocks */
static void vc_join(uint32_t* a, const uint32_t* b) { int i; for (i = 0; i < MAXT; ++i) if (b[i] > a[i]) a[i] = b[i]; }
static void acquire(int me, obj_t* o) { vc_join(T[me].vc, o->vc); }
static void release(int me, obj_t* o) { vc_join(o->vc, T[me].vc); T[me].vc[me]++; }

/* ------------------------------------------------------------------ shadow memory (per byte) */
typedef struct { uintptr_t addr; uint32_t wclk; uint32_t rclk[MAXT]; int8_t wtid; uint8_t wat; uint8_t rat; const void* wpc; const void* rpc[MAXT]; } cell_t;
#define SH_BITS 17
static cell_t* shadow;
static cell_t* cell_of(uintptr_t a)
{
	size_t h = (size_t)((a ^ (a >> 20)) & ((1u << SH_BITS) - 1));
	for (;;)
	{
		cell_t* c = &shadow[h];
		if (c->addr == a) return c;
		if (c->addr == 0) { c->addr = a; c->wtid = -1; return c; }
		h = (h + 1) & ((1u << SH_BITS) - 1);
	}
}
static unsigned long nshadow;
static void race(uintptr_t a, int t1, int w1, int at1, const void* pc1, int t2, int w2, int at2, const void* pc2)
{
	int i;
	if (vs_res.nraces < VS_MAXRACES)
	{
		for (i = 0; i < vs_res.nraces; ++i)
			if (vs_res.races[i].pc1 == pc1 && vs_res.races[i].pc2 == pc2) return;
		vs_res.races[vs_res.nraces].addr = (const void*)a;
		vs_res.races[vs_res.nraces].t1 = t1; vs_res.races[vs_res.nraces].w1 = w1; vs_res.races[vs_res.nraces].at1 = at1;
		vs_res.races[vs_res.nraces].t2 = t2; vs_res.races[vs_res.nraces].w2 = w2; vs_res.races[vs_res.nraces].at2 = at2;
		vs_res.races[vs_res.nraces].pc1 = pc1; vs_res.races[vs_res.nraces].pc2 = pc2;
		++vs_res.nraces;
	}
}
static int on_stack(int me, const char* p) { return p >= T[me].stk_lo && p < T[me].stk_hi; }

static void vs_access(const void* p, size_t n, int is_write, int is_atomic, const void* pc)
{
	int me = self_id, u;
	uintptr_t a = (uintptr_t)p, e = a + n;
	if (!vs_res.detect || !shadow) return;
	if (on_stack(me, (const char*)p)) return;
	for (; a < e; ++a)
	{
		cell_t* c = cell_of(a);
		/* against the last write */
		if (c->wtid >= 0 && c->wtid != me && c->wclk > T[me].vc[c->wtid] && !(c->wat && is_atomic))
			race(a, c->wtid, 1, c->wat, c->wpc, me, is_write, is_atomic, pc);
		if (is_write)
		{
			for (u = 0; u < MAXT; ++u)
				if (u != me && c->rclk[u] > T[me].vc[u] && !(((c->rat >> u) & 1) && is_atomic))
					race(a, u, 0, (c->rat >> u) & 1, c->rpc[u], me, 1, is_atomic, pc);
			c->wtid = (int8_t)me; c->wclk = T[me].vc[me]; c->wat = (uint8_t)is_atomic; c->wpc = pc;
		}
		else
		{
			c->rclk[me] = T[me].vc[me]; c->rpc[me] = pc;
			if (is_atomic) c->rat |= (uint8_t)(1u << me); else c->rat &= (uint8_t)~(1u << me);
		}
		++nshadow;
	}
}

/* ------------------------------------------------------------------ TSan ABI */
#define PC __builtin_return_address(0)
void __tsan_init(void) {}
void __tsan_func_entry(void* pc) {}
void __tsan_func_exit(void) {}
void __tsan_read1(void* a) { vs_access(a, 1, 0, 0, PC); }
void __tsan_read2(void* a) { vs_access(a, 2, 0, 0, PC); }
void __tsan_read4(void* a) { vs_access(a, 4, 0, 0, PC); }
void __tsan_read8(void* a) { vs_access(a, 8, 0, 0, PC); }
void __tsan_read16(void* a) { vs_access(a, 16, 0, 0, PC); }
void __tsan_write1(void* a) { vs_access(a, 1, 1, 0, PC); }
void __tsan_write2(void* a) { vs_access(a, 2, 1, 0, PC); }
void __tsan_write4(void* a) { vs_access(a, 4, 1, 0, PC); }
void __tsan_write8(void* a) { vs_access(a, 8, 1, 0, PC); }
void __tsan_write16(void* a) { vs_access(a, 16, 1, 0, PC); }
void __tsan_unaligned_read2(void* a) { vs_access(a, 2, 0, 0, PC); }
void __tsan_unaligned_read4(void* a) { vs_access(a, 4, 0, 0, PC); }
void __tsan_unaligned_read8(void* a) { vs_access(a, 8, 0, 0, PC); }
void __tsan_unaligned_read16(void* a) { vs_access(a, 16, 0, 0, PC); }
void __tsan_unaligned_write2(void* a) { vs_access(a, 2, 1, 0, PC); }
void __tsan_unaligned_write4(void* a) { vs_access(a, 4, 1, 0, PC); }
void __tsan_unaligned_write8(void* a) { vs_access(a, 8, 1, 0, PC); }
void __tsan_unaligned_write16(void* a) { vs_access(a, 16, 1, 0, PC); }
void __tsan_read_range(void* a, size_t n) { vs_access(a, n, 0, 0, PC); }
void __tsan_write_range(void* a, size_t n) { vs_access(a, n, 1, 0, PC); }
void __tsan_vptr_update(void** a, void* b) {}
void __tsan_vptr_read(void** a) {}

/* a failed CAS / a load: the second consecutive one on the same address with no step of any other thread in
   between is a wait loop -> the thread is disabled until someone else makes a step */
static void spin_note(int me, const void* a)
{
	unsigned long others = gops - T[me].ops;
	if (T[me].spin_addr == a && T[me].spin_mark == others) T[me].spinfail = 1;
	else T[me].spin_addr = a, T[me].spin_mark = others, T[me].spinfail = 0;
}

/* atomics: a choice point, then acquire+release on the address's clock (seq_cst RMW) */
static void atomic_sync(const void* a)
{
	obj_t* o = obj_get(a);
	acquire(self_id, o); release(self_id, o);
}
#define ATOMIC_RMW(bits, ty) \
ty __tsan_atomic##bits##_fetch_add(volatile ty* a, ty v, int mo) { ty r; point(VS_ATOMIC, (const void*)a); \
	vs_access((const void*)a, sizeof(ty), 1, 1, PC); atomic_sync((const void*)a); r = *a; *a = r + v; progress(self_id); return r; } \
ty __tsan_atomic##bits##_fetch_sub(volatile ty* a, ty v, int mo) { ty r; point(VS_ATOMIC, (const void*)a); \
	vs_access((const void*)a, sizeof(ty), 1, 1, PC); atomic_sync((const void*)a); r = *a; *a = r - v; progress(self_id); return r; } \
ty __tsan_atomic##bits##_exchange(volatile ty* a, ty v, int mo) { ty r; point(VS_ATOMIC, (const void*)a); \
	vs_access((const void*)a, sizeof(ty), 1, 1, PC); atomic_sync((const void*)a); r = *a; *a = v; progress(self_id); return r; } \
ty __tsan_atomic##bits##_load(const volatile ty* a, int mo) { ty r; point(VS_ATOMIC, (const void*)a); \
	vs_access((const void*)a, sizeof(ty), 0, 1, PC); acquire(self_id, obj_get((const void*)a)); r = *a; \
	/* a load that is part of a wait loop: treated like a failed CAS (needs progress by someone else) */ \
	spin_note(self_id, (const void*)a); return r; } \
void __tsan_atomic##bits##_store(volatile ty* a, ty v, int mo) { point(VS_ATOMIC, (const void*)a); \
	vs_access((const void*)a, sizeof(ty), 1, 1, PC); release(self_id, obj_get((const void*)a)); *a = v; progress(self_id); } \
ty __tsan_atomic##bits##_compare_exchange_val(volatile ty* a, ty c, ty v, int mo, int fmo) { ty r; int me; \
	point(VS_CAS, (const void*)a); me = self_id; r = *a; \
	if (r == c) { vs_access((const void*)a, sizeof(ty), 1, 1, PC); atomic_sync((const void*)a); *a = v; progress(me); } \
	else { vs_access((const void*)a, sizeof(ty), 0, 1, PC); acquire(me, obj_get((const void*)a)); \
	       spin_note(me, (const void*)a); } \
	return r; } \
int __tsan_atomic##bits##_compare_exchange_strong(volatile ty* a, ty* c, ty v, int mo, int fmo) { \
	ty r = __tsan_atomic##bits##_compare_exchange_val(a, *c, v, mo, fmo); if (r == *c) return 1; *c = r; return 0; } \
int __tsan_atomic##bits##_compare_exchange_weak(volatile ty* a, ty* c, ty v, int mo, int fmo) { \
	return __tsan_atomic##bits##_compare_exchange_strong(a, c, v, mo, fmo); }
ATOMIC_RMW(64, uint64_t)
ATOMIC_RMW(32, uint32_t)
void __tsan_atomic_thread_fence(int mo) {}
void __tsan_atomic_signal_fence(int mo) {}

/* ------------------------------------------------------------------ pthread mutex interposition */
int pthread_mutex_init(pthread_mutex_t* m, const pthread_mutexattr_t* a)
{
	obj_t* o;
	point(VS_MINIT, m);
	o = obj_get(m);
	if (o->valid) violation("MUTEX", "pthread_mutex_init on a live mutex");
	o->valid = 1; o->owner = -1; vs_res.mutex_inits++; progress(self_id);
	if (!vs_res.first_mutex) vs_res.first_mutex = m;
	memset(m, 0, sizeof *m);
	return 0;
}
int pthread_mutex_destroy(pthread_mutex_t* m)
{
	obj_t* o;
	point(VS_MDESTROY, m);
	o = obj_get(m);
	if (!o->valid) violation("MUTEX", "pthread_mutex_destroy on a dead mutex");
	if (o->owner >= 0) violation("MUTEX", "pthread_mutex_destroy on a locked mutex");
	o->valid = 0; vs_res.mutex_destroys++; progress(self_id);
	return 0;
}
int pthread_mutex_lock(pthread_mutex_t* m)
{
	obj_t* o;
	int me;
	o = obj_get(m);
	if (!o->valid) { violation("MUTEX", "pthread_mutex_lock on a mutex that is not initialised"); if (sched_on) { vs_finish(2); } return 22; }
	point(VS_LOCK, m);
	me = self_id;
	o = obj_get(m);
	if (o->owner >= 0) { violation("MUTEX", "lock granted on an owned mutex (scheduler bug)"); vs_finish(3); }
	o->owner = me; acquire(me, o);
	progress(me);
	if (vs_res.nlockorder < VS_MAXTRACE)
	{
		vs_res.lockorder[vs_res.nlockorder] = (unsigned char)me; vs_res.lockop[vs_res.nlockorder] = (unsigned char)vs_curop[me];
		vs_res.lockaddr[vs_res.nlockorder] = m; ++vs_res.nlockorder;
	}
	return 0;
}
int pthread_mutex_unlock(pthread_mutex_t* m)
{
	obj_t* o;
	int me;
	point(VS_UNLOCK, m);
	me = self_id;
	o = obj_get(m);
	if (o->owner != me) violation("MUTEX", "unlock by a thread that does not own the mutex");
	release(me, o); o->owner = -1;
	progress(me);
	return 0;
}

/* ------------------------------------------------------------------ mem* routed through the detector */
void* memcpy(void* d, const void* s, size_t n)
{
	size_t i; volatile unsigned char* dd = d; const volatile unsigned char* ss = s;
	if (vs_res.detect && n) { vs_access(s, n, 0, 0, PC); vs_access(d, n, 1, 0, PC); }
	for (i = 0; i < n; ++i) dd[i] = ss[i];
	return d;
}
void* memmove(void* d, const void* s, size_t n)
{
	size_t i; volatile unsigned char* dd = d; const volatile unsigned char* ss = s;
	if (vs_res.detect && n) { vs_access(s, n, 0, 0, PC); vs_access(d, n, 1, 0, PC); }
	if (dd < ss) for (i = 0; i < n; ++i) dd[i] = ss[i];
	else for (i = n; i--;) dd[i] = ss[i];
	return d;
}
void* memset(void* d, int c, size_t n)
{
	size_t i; volatile unsigned char* dd = d;
	if (vs_res.detect && n) vs_access(d, n, 1, 0, PC);
	for (i = 0; i < n; ++i) dd[i] = (unsigned char)c;
	return d;
}

/* ------------------------------------------------------------------ harness API */
typedef struct { void (*fn)(int); int id; } start_t;
static pthread_t pth[MAXT];
static start_t starts[MAXT];

static void stack_bounds(int id)
{
	pthread_attr_t at; void* lo; size_t sz;
	pthread_getattr_np(pthread_self(), &at);
	pthread_attr_getstack(&at, &lo, &sz);
	pthread_attr_destroy(&at);
	T[id].stk_lo = lo; T[id].stk_hi = (char*)lo + sz;
}

static void* tramp(void* a)
{
	start_t* s = a;
	self_id = s->id;
	stack_bounds(s->id);
	fwake(&T[s->id].fin);             /* initialisation done (fin doubles as the ready signal) */
	fwait(&T[s->id].go);              /* wait to be scheduled for the first time */
	s->fn(s->id);
	/* thread end: release everything to main (join edge), pick a successor */
	progress(s->id);
	T[s->id].st = T_DONE;
	vc_join(T[0].vc, T[s->id].vc);    /* joined by main after all are done */
	reschedule(s->id);
	fwait(&T[s->id].fin);
	return 0;
}

void vs_init(const int* pfx, int n, int detect, int trace)
{
	memset(&vs_res, 0, sizeof vs_res);
	memset(T, 0, sizeof T);
	nobjs = 0; npoints = 0; gops = 0; cur = 0; sched_on = 0;
	nprefix = n; if (n) memcpy(prefix, pfx, sizeof(int) * n);
	vs_res.detect = detect; trace_on = trace;
	if (detect && !shadow)
	{
		shadow = calloc((size_t)1 << SH_BITS, sizeof(cell_t));
		if (!shadow) { fprintf(stderr, "vsched: no shadow\n"); _exit(3); }
	}
	self_id = 0; T[0].st = T_RUN; T[0].vc[0] = 1;
	stack_bounds(0);
}

/* run nthr workers to completion under the scheduler; main is thread 0 and only waits */
void vs_run(int nthr, void (*fn)(int))
{
	int i;
	for (i = 1; i <= nthr; ++i)
	{
		T[i].st = T_RUN; T[i].go = 0; T[i].pend_kind = VS_START;
		memcpy(T[i].vc, T[0].vc, sizeof T[0].vc); T[i].vc[i] = 1;
		starts[i].fn = fn; starts[i].id = i;
		pthread_create(&pth[i], 0, tramp, &starts[i]);
		fwait(&T[i].fin);             /* threads are started one at a time: their start-up code allocates */
	}
	T[0].vc[0]++;
	sched_on = 1;
	T[0].pend_kind = VS_JOIN;
	reschedule(0);                   /* main blocks in JOIN until all workers are done */
	T[0].pend_kind = 0;
	sched_on = 0;
	for (i = 1; i <= nthr; ++i) { fwake(&T[i].fin); pthread_join(pth[i], 0); }
	vs_res.npoints = npoints;
	memcpy(vs_res.points, points, sizeof(vs_point_t) * (size_t)npoints);
	vs_res.shadow_accesses = nshadow;
}

int vs_self(void) { return self_id; }
void vs_violation(const char* kind, const char* detail) { violation(kind, detail); }
