/* c18_main.c -- explorer for the C18 harness programs (not instrumented).
 *   c18 explore <prog> <bound> <maxexec> <deadline_s>     preemption-bounded DFS over all schedules
 *   c18 single  <prog> <c0,c1,...|->                      one schedule (replay); prints observation hash
 * prog:  once:<n>   |  atomic:<ops>|<ops>[|<ops>]   |  rng:<op>,<op>..|<op>,..      ops: C c S<n> R<n> K V X ; I D W<n>
 * Every execution runs in a forked child (rng.c/util.c keep file-scope state that cannot be reset).
 */
#define _GNU_SOURCE
#include <stdio.h>
#include <stdlib.h>
#include <string.h>
#include <unistd.h>
#include <signal.h>
#include <time.h>
#include <stdarg.h>
#include <sys/wait.h>
#include <pthread.h>
#include <malloc.h>
#include "c18.h"

typedef unsigned err_t_;
extern err_t_ (*bee2VerifESRead)(size_t*, void*, size_t, const char*) __attribute__((weak));
static unsigned long long es_state; static int es_calls;
static err_t_ es_read(size_t* read, void* buf, size_t count, const char* source)
{
	size_t i;
	++es_calls;
	for (i = 0; i < count; ++i)
	{
		es_state = es_state * 6364136223846793005ULL + 1442695040888963407ULL;
		((volatile unsigned char*)buf)[i] = (unsigned char)(es_state >> 56);
	}
	*read = count;
	return 0;
}

typedef struct { int ok; int status; vs_result_t res; c18_obs_t obs; char err[200]; } exec_t;
static int report_fd = -1;
static int debug_outs;
static long replay_runs, replay_hits;

static void write_all(int fd, const void* p, size_t n)
{
	const char* c = p;
	while (n) { ssize_t w = write(fd, c, n); if (w <= 0) return; c += w; n -= (size_t)w; }
}
static void final_report(void)
{
	if (report_fd < 0) return;
	c18_obs.es_calls = es_calls;
	write_all(report_fd, &vs_res, sizeof vs_res);
	write_all(report_fd, &c18_obs, sizeof c18_obs);
	report_fd = -1;
}
void vs_finish(int code) { final_report(); _exit(code); }

static int parse_prog(const char* s, c18_prog_t* p) { return c18_parse(s, p, VS_MAXT - 1); }

static void run_child(const c18_prog_t* prog, const int* prefix, int n, int detect, exec_t* ex)
{
	int pr[2], pe[2];
	pid_t pid;
	size_t got = 0, want = sizeof(vs_result_t) + sizeof(c18_obs_t);
	static char buf[sizeof(vs_result_t) + sizeof(c18_obs_t)];
	int st;
	memset(ex, 0, sizeof *ex);
	if (pipe(pr) || pipe(pe)) { perror("pipe"); exit(3); }
	pid = fork();
	if (pid == 0)
	{
		close(pr[0]); close(pe[0]);
		dup2(pe[1], 2);
		report_fd = pr[1];
		atexit(final_report);                 /* registered first: runs after the library's own destructors */
		if (&bee2VerifESRead) { es_state = 0x1234567; bee2VerifESRead = es_read; }
		c18_prog = *prog;
		vs_init(prefix, n, detect, 1);
		c18_setup();
		vs_run(prog->nthr, c18_body);
		c18_post();
		exit(0);
	}
	close(pr[1]); close(pe[1]);
	for (;;)
	{
		ssize_t r = read(pr[0], buf + got, want - got);
		if (r <= 0) break;
		got += (size_t)r;
		if (got == want) break;
	}
	{
		ssize_t r = read(pe[0], ex->err, sizeof ex->err - 1);
		if (r > 0) { ex->err[r] = 0; for (char* c = ex->err; *c; ++c) if (*c == '\n' || *c == '"') *c = ' '; }
	}
	close(pr[0]); close(pe[0]);
	waitpid(pid, &st, 0);
	ex->status = st;
	ex->ok = (got == want);
	if (ex->ok)
	{
		memcpy(&ex->res, buf, sizeof(vs_result_t));
		memcpy(&ex->obs, buf + sizeof(vs_result_t), sizeof(c18_obs_t));
	}
}

/* ------------------------------------------------------------------ oracle */
#define MAXV 6
typedef struct { int n; char msg[MAXV][400]; } verdict_t;
static void vadd(verdict_t* v, const char* fmt, ...)
{
	va_list ap;
	if (v->n >= MAXV) return;
	va_start(ap, fmt); vsnprintf(v->msg[v->n], sizeof v->msg[0], fmt, ap); va_end(ap);
	v->n++;
}


static unsigned long long obs_hash(const exec_t* ex)
{
	const unsigned char* p = (const unsigned char*)&ex->obs;
	unsigned long long h = 1469598103934665603ULL;
	size_t i;
	for (i = 0; i < sizeof(c18_obs_t); ++i) h = (h ^ p[i]) * 1099511628211ULL;
	return h;
}

/* sequential execution of the operations in the given order on a fresh process; memoised per order */
static void seq_replay(const c18_prog_t* q, exec_t* ex2)
{
	static struct { int n; unsigned char t[64], k[64]; int ok; c18_obs_t obs; } memo[4096]; static int nmemo;
	int m;
	for (m = 0; m < nmemo; ++m)
		if (memo[m].n == q->nseq && !memcmp(memo[m].t, q->seq_tid, (size_t)q->nseq) && !memcmp(memo[m].k, q->seq_op, (size_t)q->nseq)) break;
	if (m < nmemo) { ex2->ok = memo[m].ok; ex2->obs = memo[m].obs; ex2->err[0] = 0; ++replay_hits; return; }
	run_child(q, 0, 0, 1, ex2);   /* same memory layout as the explored run (shadow mapped) */
	++replay_runs;
	if (nmemo < 4096)
	{
		memo[nmemo].n = q->nseq; memcpy(memo[nmemo].t, q->seq_tid, 64); memcpy(memo[nmemo].k, q->seq_op, 64);
		memo[nmemo].ok = ex2->ok; memo[nmemo].obs = ex2->obs; ++nmemo;
	}
}
/* do the results of the sequential execution ex2 equal the observed ones for every operation? */
static int explains(const c18_prog_t* q, const exec_t* ex, const exec_t* ex2, int* bt, int* bk)
{
	int i, t, k;
	for (i = 0; i < q->nseq; ++i)
	{
		t = q->seq_tid[i]; k = q->seq_op[i];
		if (ex2->obs.ret[t][k] != ex->obs.ret[t][k] || memcmp(ex2->obs.out[t][k], ex->obs.out[t][k], C18_OUT))
		{ *bt = t; *bk = k; return 0; }
	}
	return 1;
}

static void judge(const c18_prog_t* prog, const exec_t* ex, verdict_t* v)
{
	int t, k, i;
	v->n = 0;
	if (!ex->ok)
	{
		if (WIFSIGNALED(ex->status)) vadd(v, "CRASH signal %d: %s", WTERMSIG(ex->status), ex->err);
		else vadd(v, "CRASH exit %d without report: %s", WEXITSTATUS(ex->status), ex->err);
		return;
	}
	if (WIFSIGNALED(ex->status)) vadd(v, "CRASH signal %d at exit: %s", WTERMSIG(ex->status), ex->err);
	for (i = 0; i < ex->res.nviol; ++i) vadd(v, "%s", ex->res.viol[i]);
	for (i = 0; i < ex->res.nraces; ++i)
	{
		const vs_race_t* r = &ex->res.races[i];
		vadd(v, "RACE %s%s@%p(T%d) %s%s@%p(T%d)", r->at1 ? "atomic-" : "", r->w1 ? "write" : "read", r->pc1, r->t1,
			r->at2 ? "atomic-" : "", r->w2 ? "write" : "read", r->pc2, r->t2);
	}
	if (ex->res.deadlock || ex->res.diverged) return;
	if (prog->kind == 'o')
	{
		if (ex->obs.once_runs != 1) vadd(v, "ONCE initialiser ran %d times", ex->obs.once_runs);
		for (t = 1; t <= prog->nthr; ++t)
		{
			if (ex->obs.once_seen[t] != 42) vadd(v, "ONCE thread %d returned without seeing the initialiser's effect", t);
			if (ex->obs.once_ret[t] != 1) vadd(v, "ONCE thread %d: mtCallOnce returned FALSE", t);
		}
	}
	else if (prog->kind == 'a')
	{
		/* the executed order of atomic operations is a total order: returned values must follow it */
		unsigned long ctr = 1000;
		int next[VS_MAXT] = {0};
		for (i = 0; i < ex->res.ntrace; ++i)
		{
			const vs_ev_t* e = &ex->res.trace[i];
			const c18_op_t* op;
			unsigned long want;
			if (e->kind != VS_ATOMIC && e->kind != VS_CAS) continue;
			t = e->tid; k = next[t]++;
			if (k >= prog->nops[t]) { vadd(v, "ATOMIC more atomic steps than operations in thread %d", t); break; }
			op = &prog->ops[t][k];
			if (op->code == 'I') want = ++ctr;
			else if (op->code == 'D') want = --ctr;
			else { want = ctr; if (ctr == (unsigned long)op->arg) ctr += 100; }
			if (ex->obs.ret[t][k] != want)
				vadd(v, "ATOMIC thread %d op %d (%c) returned %lu, the total order gives %lu", t, k, op->code, ex->obs.ret[t][k], want);
		}
		for (t = 1; t <= prog->nthr; ++t)
			if (next[t] != prog->nops[t]) vadd(v, "ATOMIC thread %d executed %d atomic steps for %d operations", t, next[t], prog->nops[t]);
		if (ex->obs.ctr_final != ctr) vadd(v, "ATOMIC final counter %lu, expected %lu", ex->obs.ctr_final, ctr);
	}
	else if (prog->kind == 't')
	{
		/* tmFreq(): the value is computed once (mtCallOnce) and every caller that returns must see that value */
		for (t = 1; t <= prog->nthr; ++t)
			for (k = 0; k < prog->nops[t]; ++k)
			{
				if (!ex->obs.done[t][k]) vadd(v, "TM thread %d op %d did not complete", t, k);
				else if (ex->obs.ret[t][k] == 0 || ex->obs.ret[t][k] != ex->obs.ctr_final)
					vadd(v, "TM thread %d returned from tmFreq() with another value than the once-computed frequency", t);
			}
	}
	else if (prog->kind == 'r')
	{
		int opens = 0;
		c18_prog_t q = *prog;
		static exec_t ex2_static;
		exec_t* ex2 = &ex2_static;
		unsigned char seen[VS_MAXT][C18_MAXOPS];
		memset(seen, 0, sizeof seen);
		for (t = 1; t <= prog->nthr; ++t)
			for (k = 0; k < prog->nops[t]; ++k)
			{
				char c = prog->ops[t][k].code;
				if (!ex->obs.done[t][k]) vadd(v, "RNG thread %d op %d did not complete", t, k);
				if ((c == 'C' || c == 'c')) { if (ex->obs.ret[t][k] != 0) vadd(v, "RNG rngCreate failed with %lu in thread %d", ex->obs.ret[t][k], t); ++opens; }
				if (c == 'X') --opens;
			}
		if (opens == 0 && ex->obs.valid_after) vadd(v, "RNG generator still valid after the last rngClose (reference count unbalanced)");
		if (opens > 0 && !ex->obs.valid_after) vadd(v, "RNG generator invalid although a reference is still held");
		if (ex->res.mutex_inits != ex->res.mutex_destroys)
			vadd(v, "EXIT %d mutexes created, %d destroyed by the exit-time destructors", ex->res.mutex_inits, ex->res.mutex_destroys);
		/* linearisation = order in which the generator's mutex was taken */
		{
			int structural = 1, bad_t = 0, bad_k = 0, bad_n = 0;
			unsigned char cnt[VS_MAXT][C18_MAXOPS];
			memset(cnt, 0, sizeof cnt);
			q.kind = 'q'; q.nseq = 0;
			for (i = 0; i < ex->res.nlockorder; ++i)
			{
				if (ex->res.lockaddr[i] != ex->res.first_mutex) continue;
				t = ex->res.lockorder[i]; k = ex->res.lockop[i];
				if (t < 1 || t > prog->nthr || k >= prog->nops[t]) continue;
				if (cnt[t][k]++) continue;
				seen[t][k] = 1;
				q.seq_tid[q.nseq] = (unsigned char)t; q.seq_op[q.nseq] = (unsigned char)k; q.nseq++;
			}
			for (t = 1; t <= prog->nthr; ++t)
				for (k = 0; k < prog->nops[t]; ++k)
					if (cnt[t][k] != 1 && !(cnt[t][k] == 0 && prog->ops[t][k].code == 'V' && ex->obs.ret[t][k] == 0))
					{ structural = 0; bad_t = t; bad_k = k; bad_n = cnt[t][k]; }
			/* distinct output blocks */
			{
				const unsigned char* blocks[VS_MAXT * C18_MAXOPS]; int nb = 0, a, b;
				static const unsigned char zero[C18_OUT];
				for (t = 1; t <= prog->nthr; ++t)
					for (k = 0; k < prog->nops[t]; ++k)
						if ((prog->ops[t][k].code == 'S' || prog->ops[t][k].code == 'R'))
						{
							int n = prog->ops[t][k].arg;
							if (n >= 16 && memcmp(ex->obs.out[t][k], zero, (size_t)n) == 0) vadd(v, "RNG thread %d op %d: output buffer not filled", t, k);
							if (n >= 4 && ex->obs.out[t][k][n - 1] == 0 && ex->obs.out[t][k][n - 2] == 0 && ex->obs.out[t][k][n - 3] == 0 && ex->obs.out[t][k][n - 4] == 0)
								vadd(v, "RNG thread %d op %d: tail of the request not filled", t, k);
							if (n == 32) blocks[nb++] = ex->obs.out[t][k];
						}
				for (a = 0; a < nb; ++a) for (b = a + 1; b < nb; ++b)
					if (memcmp(blocks[a], blocks[b], 32) == 0) vadd(v, "RNG two requests received the same output block");
				/* the statement itself ("no two threads receiving the same generator output"): no 8 octets of one request's output occur
				   in another request's output -- requests of any length, so that leftovers of a partly used block are covered as well.
				   (The linearisation oracle below cannot see this: the sequential replay of the same code repeats the same output.) */
				{
					int t2, k2, i, j2, hit = 0;
					for (t = 1; t <= prog->nthr && !hit; ++t) for (k = 0; k < prog->nops[t] && !hit; ++k)
					{
						int n = prog->ops[t][k].arg;
						if ((prog->ops[t][k].code != 'S' && prog->ops[t][k].code != 'R') || n < 8 || !ex->obs.done[t][k]) continue;
						for (t2 = t; t2 <= prog->nthr && !hit; ++t2) for (k2 = (t2 == t ? k + 1 : 0); k2 < prog->nops[t2] && !hit; ++k2)
						{
							int n2 = prog->ops[t2][k2].arg;
							if ((prog->ops[t2][k2].code != 'S' && prog->ops[t2][k2].code != 'R') || n2 < 8 || !ex->obs.done[t2][k2]) continue;
							for (i = 0; i + 8 <= n && !hit; ++i) for (j2 = 0; j2 + 8 <= n2; ++j2)
								if (memcmp(ex->obs.out[t][k] + i, ex->obs.out[t2][k2] + j2, 8) == 0)
								{
									vadd(v, "RNG the same 8 octets of generator output were handed out twice (thread %d op %d offset %d, thread %d op %d offset %d)", t, k, i, t2, k2, j2);
									hit = 1; break;
								}
						}
					}
				}
			}
			if (v->n == 0 && structural)
			{
				/* every operation is one critical section: the lock order is THE candidate linearisation */
				seq_replay(&q, ex2);
				if (!ex2->ok) vadd(v, "RNG sequential replay of the linearisation crashed: %s", ex2->err);
				else
				{
					int bt, bk;
					if (!explains(&q, ex, ex2, &bt, &bk))
						vadd(v, "RNG thread %d op %d (%c): result differs from the sequential execution of the observed lock order", bt, bk, prog->ops[bt][bk].code);
				}
			}
			else if (v->n == 0)
			{
				/* an operation entered the generator's critical section several times or not at all: that alone is not a
				   violation of the property; search ALL sequential orders of the operations (per-thread program order kept)
				   for one that explains every observed result */
				int idx[VS_MAXT]; int total = 0, found_ok = 0; long tried = 0;
				int stack_t[64]; int depth = 0;
				memset(idx, 0, sizeof idx);
				for (t = 1; t <= prog->nthr; ++t) total += prog->nops[t];
				/* iterative DFS over merges */
				{
					int choice[64];
					int d = 0;
					choice[0] = 1;
					while (d >= 0 && !found_ok)
					{
						if (d == total)
						{
							int bt, bk;
							q.nseq = total;
							for (i = 0; i < total; ++i) { q.seq_tid[i] = (unsigned char)stack_t[i]; }
							{ int ii[VS_MAXT]; memset(ii, 0, sizeof ii); for (i = 0; i < total; ++i) q.seq_op[i] = (unsigned char)ii[stack_t[i]]++; }
							seq_replay(&q, ex2); ++tried;
							if (ex2->ok && explains(&q, ex, ex2, &bt, &bk)) found_ok = 1;
							--d; if (d >= 0) { --idx[stack_t[d]]; ++choice[d]; }
							continue;
						}
						for (t = choice[d]; t <= prog->nthr; ++t) if (idx[t] < prog->nops[t]) break;
						if (t > prog->nthr) { --d; if (d >= 0) { --idx[stack_t[d]]; ++choice[d]; } continue; }
						choice[d] = t; stack_t[d] = t; ++idx[t]; ++d; if (d <= total) choice[d] = 1;
					}
					(void)depth;
				}
				if (!found_ok)
					vadd(v, "RNG no sequential order of the operations (%ld tried) explains the observed results; thread %d op %d (%c) entered the generator's critical section %d time(s)",
						tried, bad_t, bad_k, prog->ops[bad_t][bad_k].code, bad_n);
			}
		}
	}
}

/* ------------------------------------------------------------------ DFS */
static c18_prog_t prog;
static const char* prog_str;
static int bound; static long maxexec; static double deadline;
static long nexec, by_cost[8], capped, max_points, total_points;
static unsigned long long outcomes[4096]; static int noutcomes;
typedef struct { char msg[400]; int cost; int n; int choices[VS_MAXPOINTS]; long count; } found_t;
static found_t found[32]; static int nfound;
static exec_t ex_static;

static double now(void) { struct timespec ts; clock_gettime(CLOCK_MONOTONIC, &ts); return (double)ts.tv_sec + 1e-9 * (double)ts.tv_nsec; }

static void key_of(const char* msg, char* key)
{
	/* drop thread numbers so that symmetric schedules give one finding */
	size_t i, j = 0;
	for (i = 0; msg[i] && j < 399; ++i)
	{
		if (msg[i] == 'T' && msg[i + 1] >= '0' && msg[i + 1] <= '9') { key[j++] = 'T'; ++i; continue; }
		if (strncmp(msg + i, "thread ", 7) == 0) { memcpy(key + j, "thread ", 7); j += 7; i += 7; continue; }
		key[j++] = msg[i];
	}
	key[j] = 0;
}

static void record(const verdict_t* v, const vs_result_t* r, int cost)
{
	int i, j;
	for (i = 0; i < v->n; ++i)
	{
		char key[400];
		key_of(v->msg[i], key);
		for (j = 0; j < nfound; ++j) if (strcmp(found[j].msg, key) == 0) break;
		if (j == nfound) { if (nfound == 32) continue; strcpy(found[nfound].msg, key); found[nfound].cost = 99; found[nfound].count = 0; ++nfound; }
		found[j].count++;
		if (cost < found[j].cost)
		{
			found[j].cost = cost; found[j].n = r->npoints;
			for (int k = 0; k < r->npoints; ++k) found[j].choices[k] = r->points[k].chosen;
		}
	}
}

/* the explorer keeps NO heap allocations: a forked child must see the same heap for every execution
   (memWipe's pattern depends on block addresses and rngRekey feeds wiped memory back as input) */
static unsigned char arena[64u << 20]; static size_t arena_top;

static void explore(const int* prefix, int n)
{
	exec_t* ex = &ex_static;
	verdict_t v;
	int i, alt, cost, c, np;
	int* chosen;
	vs_point_t* pts;
	size_t mark = arena_top;
	unsigned long long h;
	if ((maxexec && nexec >= maxexec) || now() > deadline) { capped = 1; return; }
	run_child(&prog, prefix, n, 1, ex);
	++nexec;
	judge(&prog, ex, &v);
	cost = 0;
	if (ex->ok) for (i = 0; i < ex->res.npoints; ++i) if (ex->res.points[i].running_enabled && ex->res.points[i].chosen) ++cost;
	if (cost < 8) by_cost[cost]++;
	if (ex->ok)
	{
		if (ex->res.npoints > max_points) max_points = ex->res.npoints;
		total_points += ex->res.npoints;
		h = obs_hash(ex);
		for (i = 0; i < noutcomes; ++i) if (outcomes[i] == h) break;
		if (i == noutcomes && noutcomes < 4096) outcomes[noutcomes++] = h;
	}
	if (v.n) record(&v, &ex->res, cost);
	if (!ex->ok || ex->res.diverged) return;
	np = ex->res.npoints;
	if (arena_top + (size_t)np * (sizeof(vs_point_t) + sizeof(int)) + 64 > sizeof arena) { capped = 1; return; }
	pts = (vs_point_t*)(arena + arena_top); arena_top += (size_t)np * sizeof(vs_point_t);
	chosen = (int*)(arena + arena_top); arena_top += (size_t)np * sizeof(int);
	memcpy(pts, ex->res.points, sizeof(vs_point_t) * (size_t)np);
	for (i = 0; i < np; ++i) chosen[i] = pts[i].chosen;
	c = 0;
	for (i = 0; i < np; ++i)
	{
		if (i >= n)
			for (alt = 1; alt < pts[i].n; ++alt)
			{
				int save = chosen[i];
				if (c + (pts[i].running_enabled ? 1 : 0) > bound) break;
				chosen[i] = alt;
				explore(chosen, i + 1);
				chosen[i] = save;
			}
		if (pts[i].running_enabled && pts[i].chosen) ++c;
	}
	arena_top = mark;
}

static int parse_choices(const char* s, int* out)
{
	int n = 0;
	if (strcmp(s, "-") == 0) return 0;
	while (*s) { out[n++] = (int)strtol(s, (char**)&s, 10); if (*s == ',') ++s; }
	return n;
}

int main(int argc, char** argv)
{
	int i, j;
	/* one malloc arena: heap addresses then depend on the order of allocations only, not on which thread
	   allocates (memWipe's fill pattern is address-dependent and rngRekey feeds wiped memory back as
	   additional input, so addresses must coincide between a schedule and its sequential replay) */
	mallopt(M_ARENA_MAX, 1);
	if (argc < 3 || !parse_prog(argv[2], &prog)) { fprintf(stderr, "usage\n"); return 3; }
	prog_str = argv[2];
	if (strcmp(argv[1], "single") == 0)
	{
		int pfx[VS_MAXPOINTS], n = argc > 3 ? parse_choices(argv[3], pfx) : 0;
		verdict_t v;
		debug_outs = argc > 4;
		run_child(&prog, pfx, n, 1, &ex_static);
		judge(&prog, &ex_static, &v);
		printf("{\"prog\":\"%s\",\"obs\":\"%016llx\",\"points\":%d,\"violations\":[", prog_str, ex_static.ok ? obs_hash(&ex_static) : 0ULL, ex_static.res.npoints);
		for (i = 0; i < v.n; ++i) printf("%s\"%s\"", i ? "," : "", v.msg[i]);
		printf("],\"trace\":[");
		for (i = 0; i < ex_static.res.ntrace && i < 200; ++i) printf("%s[%d,%d]", i ? "," : "", ex_static.res.trace[i].tid, ex_static.res.trace[i].kind);
		printf("]}\n");
		return v.n ? 1 : 0;
	}
	if (strcmp(argv[1], "seq") == 0)
	{
		/* debugging aid: run the scripted sequential execution t.k,t.k,... and print the outputs */
		const char* c = argv[3];
		prog.kind = 'q'; prog.nseq = 0;
		while (*c)
		{
			prog.seq_tid[prog.nseq] = (unsigned char)strtol(c, (char**)&c, 10); ++c;
			prog.seq_op[prog.nseq++] = (unsigned char)strtol(c, (char**)&c, 10); if (*c == ',') ++c;
		}
		run_child(&prog, 0, 0, 1, &ex_static);
		for (i = 0; i < prog.nseq; ++i)
		{
			int t = prog.seq_tid[i], k = prog.seq_op[i];
			printf("T%d.%d %c ret %lu out ", t, k, prog.ops[t][k].code, ex_static.obs.ret[t][k]);
			for (j = 0; j < C18_OUT; ++j) printf("%02x", ex_static.obs.out[t][k][j]);
			printf("\n");
		}
		return 0;
	}
	bound = argc > 3 ? atoi(argv[3]) : 2;
	maxexec = argc > 4 ? atol(argv[4]) : 0;
	deadline = now() + (argc > 5 ? atof(argv[5]) : 600.0);
	explore(0, 0);
	printf("{\"prog\":\"%s\",\"bound\":%d,\"executions\":%ld,\"by_preemptions\":[%ld,%ld,%ld,%ld,%ld],\"max_points\":%ld,\"transitions\":%ld,"
		"\"outcomes\":%d,\"capped\":%ld,\"linearisations\":%ld,\"violations\":[", prog_str, bound, nexec, by_cost[0], by_cost[1], by_cost[2], by_cost[3], by_cost[4],
		max_points, total_points, noutcomes, capped, replay_runs);
	for (i = 0; i < nfound; ++i)
	{
		printf("%s{\"msg\":\"%s\",\"preemptions\":%d,\"count\":%ld,\"choices\":[", i ? "," : "", found[i].msg, found[i].cost, found[i].count);
		for (j = 0; j < found[i].n; ++j) printf("%s%d", j ? "," : "", found[i].choices[j]);
		printf("]}");
	}
	printf("]}\n");
	return nfound ? 1 : 0;
}
