/* vh_c14.c -- E5: control-flow trace of ONE call of the shipped machine code under x86 single-step.
 *
 * Every executed instruction address is hashed -- inside the library image AND outside it (libc's
 * memcmp/memcpy/strlen are part of the control flow: a data-dependent early exit of memcmp must be seen).
 * The only code excluded is the allocator: from the entry of __wrap_malloc/__wrap_free/__wrap_realloc to
 * the return to their caller (heap state is not an input of the traced routine; the number of allocator
 * calls IS recorded).  The handler runs with TF cleared (the kernel clears it on signal delivery).
 */
#define _GNU_SOURCE
#include <stddef.h>
#include <stdint.h>
#include <string.h>
#include <signal.h>
#include <ucontext.h>

extern void* __wrap_malloc(size_t);
extern void __wrap_free(void*);
extern void* __wrap_realloc(void*, size_t);

static volatile uint64_t t_hash, t_steps, t_img_hash, t_img_steps, t_lo, t_hi, t_nalloc, t_susp_ret;
static volatile int t_active, t_susp;
static uint64_t* t_log; static size_t t_logcap;

static void vh14_trap(int sig, siginfo_t* si, void* uc_)
{
	ucontext_t* uc = (ucontext_t*)uc_;
	uint64_t rip = (uint64_t)uc->uc_mcontext.gregs[REG_RIP];
	(void)sig; (void)si;
	if (!t_active) return;
	if (t_susp)
	{
		if (rip != t_susp_ret) return;
		t_susp = 0;
	}
	else if (rip == (uint64_t)&__wrap_malloc || rip == (uint64_t)&__wrap_free || rip == (uint64_t)&__wrap_realloc)
	{
		t_susp = 1;
		t_susp_ret = *(uint64_t*)uc->uc_mcontext.gregs[REG_RSP];
		++t_nalloc;
		return;
	}
	if (t_log && t_steps < t_logcap) t_log[t_steps] = rip;
	t_hash = (t_hash ^ rip) * 1099511628211ULL;
	++t_steps;
	if (rip >= t_lo && rip < t_hi)
	{
		t_img_hash = (t_img_hash ^ (rip - t_lo)) * 1099511628211ULL;
		++t_img_steps;
	}
}

void vh14_setup(uint64_t lo, uint64_t hi, uint64_t* log, size_t logcap)
{
	struct sigaction sa;
	memset(&sa, 0, sizeof sa);
	sa.sa_sigaction = vh14_trap;
	sa.sa_flags = SA_SIGINFO;
	sigaction(SIGTRAP, &sa, 0);
	t_lo = lo; t_hi = hi; t_log = log; t_logcap = logcap;
}

typedef uint64_t (*vh14_fn6)(uint64_t, uint64_t, uint64_t, uint64_t, uint64_t, uint64_t);

/* out: [0] hash of all RIPs, [1] #instructions, [2] hash of RIP offsets inside the image, [3] #instructions inside,
        [4] #allocator calls */
__attribute__((noinline))
uint64_t vh14_call(void* fn, const uint64_t a[6], uint64_t out[5], int traced)
{
	uint64_t r;
	uint64_t a0 = a[0], a1 = a[1], a2 = a[2], a3 = a[3], a4 = a[4], a5 = a[5];
	t_hash = 1469598103934665603ULL; t_img_hash = t_hash; t_steps = t_img_steps = 0; t_nalloc = 0; t_susp = 0;
	if (traced)
	{
		t_active = 1;
		__asm__ volatile("pushfq\n\torq $0x100, (%%rsp)\n\tpopfq" ::: "memory", "cc");
	}
	r = ((vh14_fn6)fn)(a0, a1, a2, a3, a4, a5);
	if (traced)
	{
		__asm__ volatile("pushfq\n\tandq $~0x100, (%%rsp)\n\tpopfq" ::: "memory", "cc");
		t_active = 0;
	}
	out[0] = t_hash; out[1] = t_steps; out[2] = t_img_hash; out[3] = t_img_steps; out[4] = t_nalloc;
	return r;
}

void* vh14_self(void) { return (void*)&vh14_self; }
