/* vh_c05.c -- tight exhaustive loops for property C05 (word-level helpers of word.h / u16.h / u32.h / u64.h).
 *
 * vh_c05_eval() calls the REAL function / expands the REAL macro of the library headers;
 * vh_c05_naive() is an independent bit-by-bit definition written from the header text;
 * vh_c05_sweep() compares the two over a complete (16 bit) or structured (32/64 bit) value set and
 * reports the number of evaluations, the number of mismatches and the first mismatch.
 */
#include <stdint.h>
#include <stddef.h>
#include "bee2/defs.h"
#include "bee2/core/safe.h"
#include "bee2/core/word.h"
#include "bee2/core/u16.h"
#include "bee2/core/u32.h"
#include "bee2/core/u64.h"

enum {
	F_REV = 0, F_BITREV, F_WEIGHT, F_PARITY, F_CTZ, F_CTZ_SAFE, F_CTZ_FAST, F_CLZ, F_CLZ_SAFE, F_CLZ_FAST,
	F_SHUFFLE, F_DESHUFFLE, F_NEGINV, F_ROTHI, F_ROTLO,
	F_UNARY_END,
	F_CMP = 20	/* 20 + 6 * k + j: k = 0 plain(int), 1 "01", 2 "0M"; j = Eq, Neq, Less, Leq, Greater, Geq */
};

typedef struct { uint64_t evals, bad, x, y, got, want; } vh_c05_rep;

static uint64_t mask_of(int bits) { return bits == 64 ? ~(uint64_t)0 : (((uint64_t)1 << bits) - 1); }

/* ------------------------------------------------------------------ the real code */
uint64_t vh_c05_eval(int bits, int fn, uint64_t x, uint64_t y)
{
	if (fn >= F_CMP)
	{
		word a = (word)x, b = (word)y;
		switch (fn - F_CMP)
		{
		case 0: return (uint64_t)(int64_t)(int)wordEq(a, b);
		case 1: return (uint64_t)(int64_t)(int)wordNeq(a, b);
		case 2: return (uint64_t)(int64_t)(int)wordLess(a, b);
		case 3: return (uint64_t)(int64_t)(int)wordLeq(a, b);
		case 4: return (uint64_t)(int64_t)(int)wordGreater(a, b);
		case 5: return (uint64_t)(int64_t)(int)wordGeq(a, b);
		case 6: return wordEq01(a, b);
		case 7: return wordNeq01(a, b);
		case 8: return wordLess01(a, b);
		case 9: return wordLeq01(a, b);
		case 10: return wordGreater01(a, b);
		case 11: return wordGeq01(a, b);
		case 12: return wordEq0M(a, b);
		case 13: return wordNeq0M(a, b);
		case 14: return wordLess0M(a, b);
		case 15: return wordLeq0M(a, b);
		case 16: return wordGreater0M(a, b);
		case 17: return wordGeq0M(a, b);
		}
		return 0;
	}
#define VH_EVAL(NN, T)\
	{\
		T w = (T)x;\
		switch (fn)\
		{\
		case F_REV: return u##NN##Rev(w);\
		case F_BITREV: return u##NN##Bitrev(w);\
		case F_WEIGHT: return u##NN##Weight(w);\
		case F_PARITY: return (uint64_t)(int64_t)(int)u##NN##Parity(w);\
		case F_CTZ: return u##NN##CTZ(w);\
		case F_CTZ_SAFE: return SAFE(u##NN##CTZ)(w);\
		case F_CTZ_FAST: return FAST(u##NN##CTZ)(w);\
		case F_CLZ: return u##NN##CLZ(w);\
		case F_CLZ_SAFE: return SAFE(u##NN##CLZ)(w);\
		case F_CLZ_FAST: return FAST(u##NN##CLZ)(w);\
		case F_SHUFFLE: return u##NN##Shuffle(w);\
		case F_DESHUFFLE: return u##NN##Deshuffle(w);\
		case F_NEGINV: return u##NN##NegInv(w);\
		case F_ROTHI: return u##NN##RotHi(w, (unsigned)y);\
		case F_ROTLO: return u##NN##RotLo(w, (unsigned)y);\
		}\
		return 0;\
	}
	if (bits == 16) VH_EVAL(16, u16)
	if (bits == 32) VH_EVAL(32, u32)
	VH_EVAL(64, u64)
}

/* ------------------------------------------------------------------ naive definitions (header text, bit by bit) */
uint64_t vh_c05_naive(int bits, int fn, uint64_t x, uint64_t y)
{
	uint64_t m = mask_of(bits), r = 0;
	int i, h = bits / 2;
	x &= m;
	if (fn >= F_CMP)
	{
		int k = (fn - F_CMP) / 6, j = (fn - F_CMP) % 6, t = 0, lt = 0, eq = 1;
		y &= m;
		/* compare from the most significant bit downwards */
		for (i = bits - 1; i >= 0; --i)
		{
			int xa = (int)((x >> i) & 1), yb = (int)((y >> i) & 1);
			if (xa != yb) { eq = 0; lt = xa < yb; break; }
		}
		switch (j)
		{
		case 0: t = eq; break;
		case 1: t = !eq; break;
		case 2: t = lt; break;
		case 3: t = lt || eq; break;
		case 4: t = !lt && !eq; break;
		case 5: t = !lt; break;
		}
		if (k == 0) return (uint64_t)t;		/* "int" result: only truth is documented, see sweep */
		if (k == 1) return (uint64_t)t;
		return t ? m : 0;
	}
	switch (fn)
	{
	case F_REV:
		for (i = 0; i < bits / 8; ++i)
			r |= ((x >> (8 * i)) & 0xFF) << (8 * (bits / 8 - 1 - i));
		return r;
	case F_BITREV:
		for (i = 0; i < bits; ++i)
			r |= ((x >> i) & 1) << (bits - 1 - i);
		return r;
	case F_WEIGHT:
		for (i = 0; i < bits; ++i) r += (x >> i) & 1;
		return r;
	case F_PARITY:
		for (i = 0; i < bits; ++i) r ^= (x >> i) & 1;
		return r;
	case F_CTZ: case F_CTZ_SAFE: case F_CTZ_FAST:
		for (i = 0; i < bits && !((x >> i) & 1); ++i);
		return (uint64_t)i;
	case F_CLZ: case F_CLZ_SAFE: case F_CLZ_FAST:
		for (i = 0; i < bits && !((x >> (bits - 1 - i)) & 1); ++i);
		return (uint64_t)i;
	case F_SHUFFLE:		/* low half -> even positions, high half -> odd positions */
		for (i = 0; i < h; ++i)
			r |= ((x >> i) & 1) << (2 * i), r |= ((x >> (h + i)) & 1) << (2 * i + 1);
		return r;
	case F_DESHUFFLE:	/* even bits -> low half, odd bits -> high half */
		for (i = 0; i < h; ++i)
			r |= ((x >> (2 * i)) & 1) << i, r |= ((x >> (2 * i + 1)) & 1) << (h + i);
		return r;
	case F_NEGINV:		/* r with x * r + 1 == 0 mod 2^bits, built from the low bit upwards */
		for (i = 0; i < bits; ++i)
			if ((((x * r + 1) & m) >> i) & 1)
				r |= (uint64_t)1 << i;
		return r;
	case F_ROTHI:
		for (i = 0; i < bits; ++i)
			r |= ((x >> i) & 1) << ((i + (int)y) % bits);
		return r;
	case F_ROTLO:
		for (i = 0; i < bits; ++i)
			r |= ((x >> ((i + (int)y) % bits)) & 1) << i;
		return r;
	}
	return 0;
}

/* ------------------------------------------------------------------ value sets */
#define VH_MAXSET 5000
static size_t make_set(int bits, uint64_t* v)
{
	/* all values with <= 2 set bits or <= 2 clear bits, plus boundaries */
	uint64_t m = mask_of(bits), half = (uint64_t)1 << (bits - 1);
	size_t n = 0;
	int i, j;
	uint64_t bnd[16];
	v[n++] = 0; v[n++] = m;
	for (i = 0; i < bits; ++i)
	{
		v[n++] = (uint64_t)1 << i; v[n++] = m ^ ((uint64_t)1 << i);
		for (j = i + 1; j < bits; ++j)
		{
			uint64_t t = ((uint64_t)1 << i) | ((uint64_t)1 << j);
			v[n++] = t; v[n++] = m ^ t;
		}
	}
	bnd[0] = 0; bnd[1] = 1; bnd[2] = 2; bnd[3] = 3; bnd[4] = half - 2; bnd[5] = half - 1; bnd[6] = half; bnd[7] = half + 1;
	bnd[8] = half + 2; bnd[9] = m - 2; bnd[10] = m - 1; bnd[11] = m;
	bnd[12] = ((uint64_t)1 << (bits / 2)) - 1; bnd[13] = (uint64_t)1 << (bits / 2); bnd[14] = ((uint64_t)1 << (bits / 2)) + 1;
	bnd[15] = m / 3;	/* 0101...01 */
	for (i = 0; i < 16; ++i) v[n++] = bnd[i] & m;
	v[n++] = (m / 3) << 1 & m;		/* 1010...10 */
	v[n++] = 0x0123456789ABCDEFull & m;
	v[n++] = 0xFEDCBA9876543210ull & m;
	return n;
}

static void note(vh_c05_rep* rep, uint64_t x, uint64_t y, uint64_t got, uint64_t want)
{
	if (!rep->bad)
		rep->x = x, rep->y = y, rep->got = got, rep->want = want;
	++rep->bad;
}

/* unary helpers and rotations: complete != 0 -> all 2^bits values (bits == 16 only) */
void vh_c05_sweep(int bits, int fn, int complete, vh_c05_rep* rep)
{
	static uint64_t set[VH_MAXSET];
	size_t n, k;
	uint64_t x, lim;
	int d, d0 = 0, d1 = 0;
	rep->evals = rep->bad = rep->x = rep->y = rep->got = rep->want = 0;
	if (fn == F_ROTHI || fn == F_ROTLO) d0 = 1, d1 = bits - 1;		/* \pre 0 < d < bits */
	if (complete && bits == 16)
		n = 65536;
	else
		n = make_set(bits, set);
	lim = n;
	for (k = 0; k < lim; ++k)
	{
		x = (complete && bits == 16) ? (uint64_t)k : set[k];
		if (fn == F_NEGINV && !(x & 1))		/* \pre w odd */
			continue;
		for (d = d0; d <= d1; ++d)
		{
			uint64_t got = vh_c05_eval(bits, fn, x, (uint64_t)d);
			uint64_t want = vh_c05_naive(bits, fn, x, (uint64_t)d);
			if (fn == F_PARITY)
				got = got ? 1 : 0;			/* bool_t: truth value */
			++rep->evals;
			if (got != want)
				note(rep, x, (uint64_t)d, got, want);
		}
	}
}

/* word comparison macros over set x set (machine word of this configuration) */
void vh_c05_cmp_sweep(int fn, vh_c05_rep* rep)
{
	static uint64_t set[VH_MAXSET];
	size_t n = make_set(B_PER_W, set), i, j;
	int plain = (fn - F_CMP) / 6 == 0;
	rep->evals = rep->bad = rep->x = rep->y = rep->got = rep->want = 0;
	for (i = 0; i < n; ++i)
		for (j = 0; j < n; ++j)
		{
			uint64_t got = vh_c05_eval(B_PER_W, fn, set[i], set[j]);
			uint64_t want = vh_c05_naive(B_PER_W, fn, set[i], set[j]);
			if (plain)
				got = got ? 1 : 0;			/* int result: truth value */
			++rep->evals;
			if (got != want)
				note(rep, set[i], set[j], got, want);
		}
}

int vh_c05_wordbits(void) { return B_PER_W; }

/* call a function pointer of the qr_o table (or any function) with up to 6 integer arguments */
uint64_t vh_c05_call6(void* fn, uint64_t a, uint64_t b, uint64_t c, uint64_t d, uint64_t e, uint64_t f)
{
	return ((uint64_t (*)(uint64_t, uint64_t, uint64_t, uint64_t, uint64_t, uint64_t))fn)(a, b, c, d, e, f);
}
