/* vh_core.c -- helper linked into every libbee2v.so (never sanitizer-instrumented).
 *  - allocation monitor behind -Wl,--wrap=malloc/free/realloc: counts allocation points, fails exactly
 *    the i-th one, keeps a live table, snapshots every block at the moment it is handed back (E4, C09/C15)
 *  - tape generator usable as gen_i
 *  - deterministic entropy source for hook H3
 *  - single-step control-flow tracer (E5, C14)
 */
#define _GNU_SOURCE
#include <stddef.h>
#include <stdint.h>
#include <string.h>
#include <signal.h>
#include <ucontext.h>
#include <stdlib.h>

extern void* __real_malloc(size_t);
extern void __real_free(void*);
extern void* __real_realloc(void*, size_t);

/* ---------------------------------------------------------------- allocation monitor */
#define VH_MAXLIVE 4096
typedef struct { void* p; size_t n; } vh_ent;
static vh_ent vh_live[VH_MAXLIVE];
static int vh_nlive;
static volatile int vh_on;
static long vh_count, vh_fail_at, vh_fail_from, vh_failed, vh_frees, vh_overflow;
static unsigned char* vh_snap;      /* sequence of records: u64 size, bytes */
static size_t vh_snap_cap, vh_snap_len;

static void vh_track(void* p, size_t n)
{
	if (vh_nlive < VH_MAXLIVE) vh_live[vh_nlive].p = p, vh_live[vh_nlive].n = n, ++vh_nlive;
	else ++vh_overflow;
}
static long vh_find(void* p)
{
	int i;
	for (i = vh_nlive; i--;) if (vh_live[i].p == p) return i;
	return -1;
}
static void vh_snapshot(void* p, size_t n)
{
	uint64_t n64 = n;
	if (!vh_snap || vh_snap_len + 8 + n > vh_snap_cap) { ++vh_overflow; return; }
	memcpy(vh_snap + vh_snap_len, &n64, 8);
	memcpy(vh_snap + vh_snap_len + 8, p, n);
	vh_snap_len += 8 + n;
}
static void vh_release(void* p)
{
	long i = vh_find(p);
	++vh_frees;
	if (i < 0) return;
	vh_snapshot(p, vh_live[i].n);
	vh_live[i] = vh_live[--vh_nlive];
}

/* optional private bump arena: while monitoring, the library's allocations are served from it, so that two executions
   started from the same process state get IDENTICAL block addresses (memWipe's pattern depends on addresses) */
static unsigned char* vh_arena; static size_t vh_arena_size, vh_arena_off;
static void* vh_arena_alloc(size_t n)
{
	size_t need = (n + 15) & ~(size_t)15;
	void* p;
	if (need == 0) need = 16;
	if (vh_arena_off + need > vh_arena_size) { ++vh_overflow; return 0; }
	p = vh_arena + vh_arena_off; vh_arena_off += need;
	return p;
}
static int vh_in_arena(const void* p)
{
	return vh_arena && (const unsigned char*)p >= vh_arena && (const unsigned char*)p < vh_arena + vh_arena_size;
}
void vh_mon_arena(unsigned char* arena, size_t size) { vh_arena = arena; vh_arena_size = size; vh_arena_off = 0; }

void* __wrap_malloc(size_t n)
{
	void* p;
	if (!vh_on) return __real_malloc(n);
	if (++vh_count == vh_fail_at || (vh_fail_from && vh_count >= vh_fail_from)) { ++vh_failed; return 0; }
	p = vh_arena ? vh_arena_alloc(n) : __real_malloc(n);
	if (p) vh_track(p, n);
	return p;
}
void __wrap_free(void* p)
{
	if (vh_on && p) vh_release(p);
	if (vh_in_arena(p)) return;
	__real_free(p);
}
void* __wrap_realloc(void* p, size_t n)
{
	void* q;
	long i;
	if (!vh_on) return __real_realloc(p, n);
	if (++vh_count == vh_fail_at || (vh_fail_from && vh_count >= vh_fail_from)) { ++vh_failed; return 0; }
	/* always move: allocate, copy, snapshot+free the old block (realloc that moves is the worst case) */
	q = vh_arena ? vh_arena_alloc(n) : __real_malloc(n);
	if (!q) return 0;
	if (p)
	{
		size_t old = 0;
		i = vh_find(p);
		if (i >= 0) old = vh_live[i].n;
		else old = n; /* unknown block: cannot happen for blocks allocated while monitoring */
		memcpy(q, p, old < n ? old : n);
		vh_release(p);
		if (!vh_in_arena(p)) __real_free(p);
	}
	vh_track(q, n);
	return q;
}

/* start monitoring; fail_at = 0: never fail, else fail exactly the fail_at-th allocation point */
void vh_mon_start(long fail_at, unsigned char* snapbuf, size_t snapcap)
{
	vh_nlive = 0; vh_count = 0; vh_fail_at = fail_at; vh_fail_from = 0; vh_failed = 0; vh_frees = 0; vh_overflow = 0;
	vh_snap = snapbuf; vh_snap_cap = snapcap; vh_snap_len = 0;
	vh_on = 1;
}
/* after vh_mon_start(0, ..): every allocation point from the from-th on fails (memory stays exhausted: clean-up code that allocates,
   a second attempt after the first failure) */
void vh_mon_sticky(long from) { vh_fail_from = from; }
/* out[0]=allocation points, [1]=live blocks, [2]=failed, [3]=frees, [4]=snap_len, [5]=overflow, [6]=live bytes */
void vh_mon_stop(long out[8])
{
	int i; long b = 0;
	vh_on = 0;
	for (i = 0; i < vh_nlive; ++i) b += (long)vh_live[i].n;
	out[0] = vh_count; out[1] = vh_nlive; out[2] = vh_failed; out[3] = vh_frees;
	out[4] = (long)vh_snap_len; out[5] = vh_overflow; out[6] = b; out[7] = 0;
}
/* release blocks still live after a monitored call (so that a leak found in one case does not pile up) */
void vh_mon_reap(void)
{
	int i;
	for (i = 0; i < vh_nlive; ++i) if (!vh_in_arena(vh_live[i].p)) __real_free(vh_live[i].p);
	vh_nlive = 0;
}

/* plain exact-size allocation for caller buffers (goes through the sanitizer's malloc when present) */
void* vh_alloc(size_t n) { return __real_malloc(n ? n : 1); }
void vh_free(void* p) { __real_free(p); }

/* ---------------------------------------------------------------- tape generator (gen_i) */
typedef struct { const unsigned char* data; size_t len; size_t pos; size_t calls; size_t over; } vh_tape;
/* after the tape is exhausted: continues with a fixed filler stream (counted in over) */
void vh_tape_gen(void* buf, size_t count, void* state)
{
	vh_tape* t = (vh_tape*)state;
	unsigned char* b = (unsigned char*)buf;
	++t->calls;
	while (count--)
	{
		if (t->pos < t->len) *b++ = t->data[t->pos++];
		else *b++ = (unsigned char)(0x5A ^ (t->over * 0x9D)), ++t->over;
	}
}

/* ---------------------------------------------------------------- deterministic entropy (hook H3) */
typedef unsigned err_t_;
extern err_t_ (*bee2VerifESRead)(size_t*, void*, size_t, const char*) __attribute__((weak));
static uint64_t vh_es_state;
static long vh_es_calls;
static err_t_ vh_es_read(size_t* read, void* buf, size_t count, const char* source)
{
	unsigned char* b = (unsigned char*)buf;
	size_t i;
	++vh_es_calls;
	for (i = 0; i < count; ++i)
	{
		vh_es_state = vh_es_state * 6364136223846793005ULL + 1442695040888963407ULL;
		b[i] = (unsigned char)(vh_es_state >> 56);
	}
	*read = count;
	return 0;
}
int vh_es_install(uint64_t seed)
{
	if (!&bee2VerifESRead) return 0;
	vh_es_state = seed; vh_es_calls = 0;
	bee2VerifESRead = vh_es_read;
	return 1;
}
void vh_es_remove(void) { if (&bee2VerifESRead) bee2VerifESRead = 0; }
long vh_es_ncalls(void) { return vh_es_calls; }

/* ---------------------------------------------------------------- control-flow tracer */
static volatile uint64_t vh_tr_hash, vh_tr_steps, vh_tr_lo, vh_tr_hi;
static volatile uint64_t vh_tr_nbr;          /* number of executed control transfers (non-fallthrough) */
static volatile uint64_t vh_tr_prev;
static volatile int vh_tr_active;
static uint64_t* vh_tr_log; static size_t vh_tr_logcap;

static void vh_trap(int sig, siginfo_t* si, void* uc_)
{
	ucontext_t* uc = (ucontext_t*)uc_;
	uint64_t rip = (uint64_t)uc->uc_mcontext.gregs[REG_RIP];
	if (!vh_tr_active) return;
	/* only instructions inside the library image are hashed (libc memcpy/memset are length-driven
	   and resolved per-CPU; they are outside [lo,hi)) */
	if (rip >= vh_tr_lo && rip < vh_tr_hi)
	{
		if (vh_tr_log && vh_tr_steps < vh_tr_logcap) vh_tr_log[vh_tr_steps] = rip - vh_tr_lo;
		vh_tr_hash = (vh_tr_hash ^ (rip - vh_tr_lo)) * 1099511628211ULL;
		++vh_tr_steps;
	}
}

typedef uint64_t (*vh_fn6)(uint64_t, uint64_t, uint64_t, uint64_t, uint64_t, uint64_t);

static inline void vh_tf_on(void)
{
	__asm__ volatile("pushfq\n\torq $0x100, (%%rsp)\n\tpopfq" ::: "memory", "cc");
}
static inline void vh_tf_off(void)
{
	__asm__ volatile("pushfq\n\tandq $~0x100, (%%rsp)\n\tpopfq" ::: "memory", "cc");
}

void vh_trace_setup(uint64_t lo, uint64_t hi, uint64_t* log, size_t logcap)
{
	struct sigaction sa;
	memset(&sa, 0, sizeof sa);
	sa.sa_sigaction = vh_trap;
	sa.sa_flags = SA_SIGINFO;
	sigaction(SIGTRAP, &sa, 0);
	vh_tr_lo = lo; vh_tr_hi = hi; vh_tr_log = log; vh_tr_logcap = logcap;
}

/* call fn(a0..a5) under single-step; out[0]=hash of the RIP sequence inside [lo,hi), out[1]=#instructions */
uint64_t vh_trace_call(void* fn, uint64_t a0, uint64_t a1, uint64_t a2, uint64_t a3, uint64_t a4, uint64_t a5,
	uint64_t out[2])
{
	uint64_t r;
	vh_tr_hash = 1469598103934665603ULL; vh_tr_steps = 0;
	vh_tr_active = 1;
	vh_tf_on();
	r = ((vh_fn6)fn)(a0, a1, a2, a3, a4, a5);
	vh_tf_off();
	vh_tr_active = 0;
	out[0] = vh_tr_hash; out[1] = vh_tr_steps;
	return r;
}

/* address of a byte inside this shared object (to find the image bounds from /proc/self/maps) */
void* vh_self_addr(void) { return (void*)&vh_self_addr; }

#ifdef VERIF_COV
/* development aid: flush gcov counters (forked workers leave through _exit) */
extern void __gcov_dump(void);
void vh_gcov_dump(void) { __gcov_dump(); }
#endif
