"""C07 -- no access outside buffers / declared state / declared stack; no uninitialised or freed memory
influences a result; no built-in self-check fires.
The corpora of the other properties (same case streams) are replayed on the real code built with
AddressSanitizer + -fsanitize=bounds, ASSERT active and exact-size blobs (hook H1, page size 1), every caller
buffer its own exact-size allocation, in the 64-bit and the 32-bit word configuration; each case is executed
with all caller-owned scratch/state/output memory pre-filled with 0x00 and with 0xA5 and the outputs must coincide."""
import json, os, re, subprocess, sys, tempfile
import vf, cat, common, corpora

PROP = 'C07'
CFGS = ['asan', 'asan32']

def classify(stderr):
    m = re.search(r'Assertion in (\S+?)::(\d+)', stderr)
    if m:
        return 'assert:%s' % os.path.basename(m.group(1)), 'built-in self-check fired: Assertion in %s line %s' % (m.group(1), m.group(2))
    m = re.search(r'ERROR: AddressSanitizer: (\S+)', stderr)
    if m:
        kind = m.group(1)
        fr = re.findall(r'#\d+ 0x[0-9a-f]+ in (\w+) ', stderr)
        fr = [f for f in fr if not f.startswith('__') and f not in ('memcpy', 'memset', 'memmove', 'memcmp', 'vh_alloc')]
        top = fr[0] if fr else '?'
        return 'asan:%s:%s' % (kind, top), 'AddressSanitizer: %s in %s (stack: %s)' % (kind, top, ' < '.join(fr[:5]))
    m = re.search(r'runtime error: (.*)', stderr)
    if m:
        return 'ubsan:' + re.sub(r'\W+', '_', m.group(1))[:60], 'UBSan (bounds): ' + m.group(1)
    return 'crash', 'crashed: ' + stderr[-300:]

_cfg = None
def check_case(item):
    fname, case = item
    L = common.lib(_cfg)
    a = common.run_fn(L, fname, case, fill=0x00)
    b = common.run_fn(L, fname, case, fill=0xA5)
    if getattr(cat.CAT[fname], 'nondet', False):
        exp = cat.CAT[fname].ref(case) if cat.CAT[fname].ref else None
        return cat.compare(a, exp) or cat.compare(b, exp)
    if a.get('ret') == b.get('ret') and a.get('ret') not in (0, None) and cat.CAT[fname].ret == 'err':
        return None          # the call failed with the same error both times: output buffers are unspecified (C09 judges them)
    if a != b:
        diff = [k for k in a if a[k] != b.get(k)]
        return 'outputs depend on the prior content of caller-owned scratch/state/output memory (%s)' % diff
    return None

def sub(tier, cfg, out):
    global _cfg
    vf.need_env(cfg)
    _cfg = cfg
    cases = corpora.all_cases('quick' if tier == 'quick' else 'thorough')
    if tier == 'quick':
        cases = thin(cases, cap=60, cheap_cap=500)
    # failing exits are code too: the authentication-failure cases of C09 (corrupted / mismatched tokens, tags, headers -- admissible inputs
    # whose documented result is an error), one in `step` of every (function, altered field) class, on the same exact-size buffers
    import C09
    seen = {}
    for f, c, plain, field, bit in C09.auth_cases('quick'):
        k = (f, field); seen[k] = seen.get(k, 0) + 1
        if (seen[k] - 1) % (9 if tier == 'quick' else 2) == 0:
            cases.append((f, c))
    res = vf.pmap(check_case, cases, case_timeout=300)
    viol = []
    fns = {}
    for (fname, case), r in zip(cases, res):
        fns[fname] = fns.get(fname, 0) + 1
        if r is None:
            continue
        if isinstance(r, dict):
            key, msg = classify(r.get('stderr', '') or r.get('harness_error', '') or r.get('crash', ''))
            if 'harness_error' in r:
                key, msg = 'harness', r['harness_error'][-500:]
        else:
            key, msg = 'uninit:' + fname, r
        viol.append({'key': '%s:%s' % (key, fname), 'fn': fname, 'case': cat.enc_case(case), 'msg': '%s: %s  [%s, cfg %s]' % (fname, msg, cat.short(case), cfg)})
    # word-level layer (the _keep/_deep sweep of the plan): the C05 catalogue re-executed in THIS sanitizer configuration, every
    # operand its own exact-size allocation (no harness guard: the redzone also sees over-reads), every scratch stack exactly
    # xxx_deep() octets; only memory-safety outcomes are judged here (values are C05's business)
    wl = word_level(tier, cfg)
    pr = pri_exact(tier)
    json.dump({'n': len(cases), 'fns': fns, 'viol': viol, 'word': wl, 'pri': pr}, open(out, 'w'))
    return 0

class _Collector:
    """stands in for vf.Check while the C05 catalogue runs inside a C07 sub-exploration"""
    def __init__(self):
        self.viol = []; self.caps = []; self.parts = {}
    def violation(self, key, rec, msg):
        self.viol.append((key, rec, msg))
    def outcome(self, *a, **k): pass
    def sample(self, *a, **k): pass
    def observe(self, *a, **k): pass
    def cap(self, what): self.caps.append(what)
    def expired(self): return False
    def part(self, name, **kw): self.parts[name] = {k: v for k, v in kw.items() if isinstance(v, (int, float))}

MEMCLASS = ('stack-overrun', 'buffer-overrun', 'const-modified', 'crash', 'hang')
def word_level(tier, cfg, classes=MEMCLASS):
    import C05, c05_calls as CC
    CC.CFGS[:] = [cfg]
    t = 'quick' if tier == 'quick' else 'thorough'
    if tier == 'quick':
        C05.NMAX = dict(C05.NMAX, quick=6)          # lengths 0..6 (ppMul additionally 10..13) in the per-change run
    C05.prepare(t)
    col = _Collector()
    C05.catalogue(col, t, None)
    out = []
    for key, rec, msg in col.viol:
        cls = key.split(':', 1)[1] if ':' in key else key
        if classes is None or cls.split('/')[0] in classes:
            out.append({'key': 'word:' + key, 'rec': rec, 'msg': msg})
    p = col.parts.get('catalogue_calls', {})
    return {'viol': out, 'calls': int(p.get('evaluations', 0)), 'cells': int(p.get('cells', 0)), 'functions': int(p.get('functions', 0)), 'caps': col.caps}

# ------------------------------------------------------------------------------------------------ pri.h with exact stacks
# The prime-number layer is not in the C05 catalogue (its values are C12's business) but every function of pri.h takes a caller stack of
# xxx_deep() octets: each is called here with operands of 1..NMAX words in the classes that select its internal sizes (value filling all
# n words -- 2q + 1 then needs n + 1 words --, top word 1, one-word value in n words) on a stack that is its own exact-size allocation.
PRI_FNS = ('priIsSieved', 'priIsSmooth', 'priIsPrimeW', 'priRMTest', 'priIsPrime', 'priIsSGPrime', 'priNextPrimeW', 'priNextPrime', 'priExtendPrime', 'priBaseMod')
def pri_values(n, W):
    import pri as RPRI
    B = 1 << (8 * W)
    top = B ** n
    pr = top - 1
    while not RPRI.is_prime(pr):
        pr -= 2
    vals = {'all-ones': top - 1, 'largest-prime': pr, 'top-word-1': B ** (n - 1) + 1 if n > 1 else 3, 'one-word': 65537, 'filler': (int.from_bytes(vf.filler('pri%d' % n, n * W), 'little') | 1 | (top >> 1))}
    return vals

def pri_items(tier):
    nmax = 4 if tier == 'quick' else 9
    out = []
    for f in PRI_FNS:
        if f in ('priIsPrimeW', 'priNextPrimeW'):
            out += [(f, 1, c) for c in ('all-ones', 'largest-prime', 'one-word')]
            continue
        for n in range(1, nmax + 1):
            for c in ('all-ones', 'largest-prime', 'top-word-1', 'one-word', 'filler'):
                out.append((f, n, c))
    return out

def pri_case(item):
    f, n, cls = item
    L = common.lib(_cfg)
    W = L.wbytes
    v = pri_values(n, W)[cls]
    bc = min(L.sz('priBaseSize'), 20 + 7 * n)
    with vf.Arena(L) as A:
        a = A.buf(v.to_bytes(n * W, 'little'))
        if f == 'priBaseMod':
            L.call(f, A.buf(bc * W), a, n, bc)
        elif f == 'priIsSieved':
            L.call(f, a, n, bc, A.buf(L.sz('priIsSieved_deep', bc)))
        elif f == 'priIsSmooth':
            L.call(f, a, n, bc, A.buf(L.sz('priIsSmooth_deep', n)))
        elif f == 'priIsPrimeW':
            L.call(f, v % (1 << (8 * W)), A.buf(L.sz('priIsPrimeW_deep')))
        elif f == 'priNextPrimeW':
            L.call(f, A.buf(W), v % (1 << (8 * W)), A.buf(L.sz('priNextPrimeW_deep')))
        elif f == 'priRMTest':
            L.call(f, a, n, 3, A.buf(L.sz('priRMTest_deep', n)))
        elif f == 'priIsPrime':
            L.call(f, a, n, A.buf(L.sz('priIsPrime_deep', n)))
        elif f == 'priIsSGPrime':
            L.call(f, a, n, A.buf(L.sz('priIsSGPrime_deep', n)))
        elif f == 'priNextPrime':
            L.call(f, A.buf(n * W), a, n, 4, bc, 2, A.buf(L.sz('priNextPrime_deep', n, bc)))
        elif f == 'priExtendPrime':
            if v.bit_length() <= 8 * W * (n - 1):
                return None              # \pre q[n - 1] != 0
            lb = v.bit_length()
            for l in sorted({lb + 1, 2 * lb, lb + lb // 2}):
                gen, gst, _ = vf.make_tape(A, vf.filler('ext%d' % l, 4 * ((l + 7) // 8)))
                L.call(f, A.buf(((l + 8 * W - 1) // (8 * W)) * W), l, a, n, 3, bc, gen, gst, A.buf(L.sz('priExtendPrime_deep', l, n, bc)))
    return None

def pri_exact(tier):
    items = pri_items(tier)
    res = vf.pmap(pri_case, items, case_timeout=300)
    viol = []
    for it, r in zip(items, res):
        if isinstance(r, dict):
            key, msg = classify(r.get('stderr', '') or r.get('harness_error', '') or r.get('crash', ''))
            viol.append({'key': 'pri:%s:%s' % (key, it[0]), 'rec': {'cfg': _cfg, 'kind': 'pri', 'item': list(it)},
                         'msg': '%s(n = %d words, value class %s) on a stack of exactly %s_deep() octets: %s [cfg %s]' % (it[0], it[1], it[2], it[0], msg, _cfg)})
    return {'viol': viol, 'calls': len(items)}

CHEAP_GROUPS = ('belt', 'misc', 'codec', 'core', 'util', 'bash', 'brng', 'botp')
def case_shape(c):
    """the shape of a case: buffer lengths, NULL-ness, small scalars (values of buffers are not part of it)"""
    out = []
    for k, v in sorted(c.items()):
        if isinstance(v, (bytes, bytearray, list, tuple)):
            out.append((k, len(v)))
        elif v is None or isinstance(v, bool):
            out.append((k, v))
        elif isinstance(v, int):
            out.append((k, v if abs(v) < 100000 else 'big'))
        else:
            out.append((k, str(v)[:24]))
    return tuple(out)

def thin(cases, cap=60, cheap_cap=None):
    """quick tier: at most cap cases per function (cheap_cap for the microsecond-scale groups), chosen so that as many DISTINCT SHAPES
    (length tuples) as possible survive: shapes are spread evenly first, a second case of a shape is taken only when every shape has one
    (the full corpora run in thorough)"""
    by = {}
    for c in cases:
        by.setdefault(c[0], []).append(c)
    out = []
    for f, cs in by.items():
        lim = cheap_cap if (cheap_cap and cat.CAT[f].group in CHEAP_GROUPS) else cap
        if len(cs) <= lim:
            out += cs; continue
        shapes = {}
        for c in cs:
            shapes.setdefault(case_shape(c[1]), []).append(c)
        keys = list(shapes)
        if len(keys) >= lim:
            step = len(keys) / float(lim)
            out += [shapes[keys[int(i * step)]][0] for i in range(lim)]
        else:
            picked = [shapes[k][0] for k in keys]
            rest = [c for k in keys for c in shapes[k][1:]]
            need = lim - len(picked)
            step = max(1, len(rest) // max(1, need))
            out += picked + rest[::step][:need]
    return out

def run(tier):
    chk = vf.Check(PROP, tier, deadline_s=1200 if tier == 'quick' else 7200)
    for cfg in CFGS:
        d, err = vf.run_sub(PROP, tier, cfg, prefix='c07')
        if d is None:
            chk.harness_error('sub-exploration %s failed: %s' % (cfg, err))
            continue
        for v in d['viol']:
            chk.violation(v['key'], {'cfg': cfg, 'kind': 'case', 'fn': v['fn'], 'case': v['case']}, v['msg'])
        chk.part('replay_' + cfg, states=len(d['fns']), transitions=2 * d['n'], traces_validated_against_impl=2 * d['n'], evaluations=2 * d['n'],
                 functions=len(d['fns']))
        for f in d['fns']:
            chk.outcome(f)
        pr = d.get('pri')
        if pr:
            for v in pr['viol']:
                chk.violation(v['key'], v['rec'], v['msg'])
            chk.part('pri_exact_stacks_' + cfg, states=pr['calls'], transitions=pr['calls'], traces_validated_against_impl=pr['calls'], evaluations=pr['calls'])
        w = d.get('word')
        if w:
            for v in w['viol']:
                chk.violation(v['key'], v['rec'], v['msg'])
            for c in w['caps']:
                chk.cap('word level [%s]: %s' % (cfg, c))
            chk.part('word_level_' + cfg, states=w['cells'], transitions=w['calls'], traces_validated_against_impl=w['calls'], evaluations=w['calls'],
                     functions=w['functions'])
    chk.sample({'word_level': 'the C05 catalogue (ww/zz/pp functions, both editions, lengths 0..6 quick / 0..20 thorough, ppMul 10..13) with exact-size operands and exactly xxx_deep() stacks under ASan'})
    chk.sample({'cfg': 'asan', 'fn': 'beltCBCEncr', 'case': 'src[17] key[32] iv[16]', 'fills': ['0x00', '0xA5']})
    chk.assumptions += ['deciding detectors: AddressSanitizer, -fsanitize=bounds, the library ASSERTs (active), two-fill non-interference; other UBSan kinds '
                        '(alignment, signed overflow in u16 promotion, NULL+0) are not memory-safety statements of C07 and are not enabled',
                        '32-bit word configuration = B_PER_W 32 on the LP64 ABI (hook H2); B_PER_S < 64 cannot be built here',
                        'inputs outside documented preconditions are not generated']
    return chk.finish('C07', 'the corpora of C01/C03/... replayed through exact-size allocations (own malloc block per buffer, blob page size 1) under ASan+bounds '
                      'with ASSERT active, twice (fill 0x00 / 0xA5), per word configuration; states = functions covered, transitions = sanitised executions')

def _replay_word(rec):
    import c05_calls as CC
    return CC.replay_call(rec)

def replay(rec):
    global _cfg
    corpora.load_all()
    _cfg = rec['cfg']
    if rec.get('kind') == 'call':          # word-level record: C05's replay in the recorded (sanitizer) configuration
        import C05
        r = vf.pmap(_replay_word, [rec], nproc=1, case_timeout=60)[0]
        if isinstance(r, dict):
            return classify(r.get('stderr', '') or r.get('crash', ''))[1]
        return r
    if rec.get('kind') == 'pri':
        r = vf.pmap(pri_case, [tuple(rec['item'])], nproc=1, case_timeout=300)[0]
        if isinstance(r, dict):
            return classify(r.get('stderr', '') or r.get('crash', ''))[1]
        return None
    if rec.get('kind') != 'case':
        return None
    # run in a child so that a sanitizer abort is observed, not suffered
    res = vf.pmap(check_case, [(rec['fn'], cat.dec_case(rec['case']))], nproc=1)
    r = res[0]
    if r is None:
        return None
    if isinstance(r, dict):
        return classify(r.get('stderr', '') or r.get('crash', ''))[1]
    return r
