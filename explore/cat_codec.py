"""codec part of the catalogue (group 'codec'): DER primitives and typed values, OIDs, APDU, hex / base64 / decimal,
bign parameter sets, CV certificates, bpki containers, secure messaging.
References: ref/codec.py (grammar of the public headers) and ref/codec_st.py (the ASN.1 structures).

The module also holds the thin ctypes runners (c_*) shared with explore/C08.py: each performs ONE documented call
sequence on exact-size buffers and returns plain Python values.

The corpus (gen_cases) holds admissible encode / decode cases only: valid values and encodings, and malformed inputs
whose documented result is a plain rejection.  Inputs that run into the defects C08 reports on the current tree (long-form
tag returning 0, 4-octet tags, length wrap, derTSIZEDec over-read; see DESIGN sec. 5 F10-F12) are enumerated by C08 itself
and are deliberately not part of the shared corpus (C07/C09/C15/C19 replay it under their own property ids)."""
import ctypes, struct
import vf, cat
from cat import Fn, reg
from cat_belt import Composite
import codec as C
import codec_st as S

SIZE_MAX = vf.SIZE_MAX
E = dict(OK=0, BAD_INPUT=109, OUTOFMEMORY=110, BAD_OID=301, BAD_FORMAT=306, BAD_DATE=308, BAD_NAME=309, BAD_APDU=312,
         BAD_PARAMS=502, BAD_PRIVKEY=504, BAD_PUBKEY=505, BAD_SHAREKEY=508, BAD_SIG=510, BAD_MAC=511, BAD_KEYTOKEN=513,
         BAD_LOGIC=517, BAD_SECKEY=503)

# ------------------------------------------------------------------ struct layouts (taken from the headers by the helper)
_lay = {}
def lay(L):
    if L.cfg not in _lay:
        o = (ctypes.c_uint64 * 32)()
        L.dll.vh_c08_layout(o)
        o = list(o)
        _lay[L.cfg] = dict(cmd=o[0], cmd_rdf_len=o[1], cmd_cdf_len=o[2], cmd_cdf=o[3], resp=o[4], resp_rdf_len=o[5], resp_rdf=o[6],
                           anchor=o[7], anchor_len=o[8], anchor_tag=o[9], params=o[10], p=o[11], a=o[12], b=o[13], q=o[14], yG=o[15],
                           seed=o[16], cvc=o[17], authority=o[18], holder=o[19], pubkey=o[20], pubkey_len=o[21], cfrom=o[22],
                           until=o[23], hat_eid=o[24], hat_esign=o[25], sig=o[26], sig_len=o[27])
    return _lay[L.cfg]

def u64(b, off):
    return int.from_bytes(b[off:off + 8], 'little')

# ------------------------------------------------------------------ DER primitives
def c_two_step(L, A, fname, args_after_der, fill=0x00):
    """size_t f(octet der[], ...): length query with der = 0, then the real call into an exact-size buffer"""
    n = L.sz(fname, None, *args_after_der)
    if n == SIZE_MAX or n > (1 << 24):
        return n, None
    b = A.buf(n, fill)
    n2 = L.sz(fname, b, *args_after_der)
    return (n if n2 == n else ('second call returned %d, first %d' % (n2, n))), b.get()

def c_der_enc(L, A, tag, val, fill=0x00):
    return c_two_step(L, A, 'derEnc', (tag, A.buf(val) if val else A.buf(1), len(val)), fill)

def c_der_dec(L, A, der):
    """derDec -> (consumed | SIZE_MAX, tag, value offset, len)"""
    d = A.buf(der); t = A.buf(4, 0xA5); v = A.buf(8, 0xA5); l = A.buf(8, 0xA5)
    c = L.sz('derDec', t, v, l, d, len(der))
    if c == SIZE_MAX:
        return c, None, None, None
    return c, int.from_bytes(t.get(), 'little'), u64(v.get(), 0) - d.addr, u64(l.get(), 0)

def c_tl_dec(L, A, der):
    d = A.buf(der); t = A.buf(4, 0xA5); l = A.buf(8, 0xA5)
    c = L.sz('derTLDec', t, l, d, len(der))
    if c == SIZE_MAX:
        return c, None, None
    return c, int.from_bytes(t.get(), 'little'), u64(l.get(), 0)

# ------------------------------------------------------------------ bign parameters
def params_struct(L, f):
    y = lay(L)
    b = bytearray(y['params'])
    b[0:8] = int(f['l']).to_bytes(8, 'little')
    for k in ('p', 'a', 'b', 'q', 'yG', 'seed'):
        b[y[k]:y[k] + len(f[k])] = f[k]
    return bytes(b)

def params_fields(L, raw):
    y = lay(L)
    l = u64(raw, 0)
    n = l // 4 if l in (128, 192, 256) else 64
    return dict(l=l, p=raw[y['p']:y['p'] + n], a=raw[y['a']:y['a'] + n], b=raw[y['b']:y['b'] + n], q=raw[y['q']:y['q'] + n],
                yG=raw[y['yG']:y['yG'] + n], seed=raw[y['seed']:y['seed'] + 8])

def std_params(l):
    import bign
    ps = bign.params(l)
    n = l // 4
    return dict(l=l, p=ps['p'].to_bytes(n, 'little'), a=ps['a'].to_bytes(n, 'little'), b=ps['b'].to_bytes(n, 'little'),
                q=ps['q'].to_bytes(n, 'little'), yG=ps['yG'].to_bytes(n, 'little'), seed=bytes(ps['seed']))

def c_params_dec(L, A, der, fill=0x00):
    st = A.buf(lay(L)['params'], fill)
    r = L.err('bignParamsDec', st, A.buf(der), len(der))
    return r, st.get()

def c_params_enc(L, A, raw, fill=0x00):
    """bignParamsEnc: length query, then exact-size buffer -> (err, der)"""
    st = A.buf(raw); cnt = A.buf(8, 0)
    r = L.err('bignParamsEnc', None, cnt, st)
    if r:
        return r, None
    n = u64(cnt.get(), 0)
    d = A.buf(n, fill)
    r = L.err('bignParamsEnc', d, cnt, st)
    return r, (d.get()[:u64(cnt.get(), 0)] if r == 0 else None)

# ------------------------------------------------------------------ CV certificates
def cvc_struct(L, f):
    y = lay(L)
    b = bytearray(y['cvc'])
    def put(off, v):
        b[off:off + len(v)] = v
    put(y['authority'], f['authority'].encode('latin1')); put(y['holder'], f['holder'].encode('latin1'))
    pk = f.get('pubkey', b'')
    put(y['pubkey'], pk); put(y['pubkey_len'], len(pk).to_bytes(8, 'little'))
    put(y['cfrom'], f['from']); put(y['until'], f['until'])
    put(y['hat_eid'], f.get('hat_eid', bytes(5))); put(y['hat_esign'], f.get('hat_esign', bytes(2)))
    sg = f.get('sig', b'')
    put(y['sig'], sg); put(y['sig_len'], len(sg).to_bytes(8, 'little'))
    return bytes(b)

def cvc_fields(L, raw):
    y = lay(L)
    def cstr(off):
        return raw[off:off + 13].split(b'\0')[0].decode('latin1')
    pl = min(u64(raw, y['pubkey_len']), 128); sl = min(u64(raw, y['sig_len']), 96)
    return dict(authority=cstr(y['authority']), holder=cstr(y['holder']), pubkey=raw[y['pubkey']:y['pubkey'] + pl],
                hat_eid=raw[y['hat_eid']:y['hat_eid'] + 5], hat_esign=raw[y['hat_esign']:y['hat_esign'] + 2],
                until=raw[y['until']:y['until'] + 6], sig=raw[y['sig']:y['sig'] + sl], **{'from': raw[y['cfrom']:y['cfrom'] + 6]})

def c_cvc_wrap(L, A, f, privkey, fill=0x00):
    """btokCVCWrap: length query then exact-size certificate -> (err, cert, cvc struct after the call)"""
    st = A.buf(cvc_struct(L, f)); pk = A.buf(privkey); cnt = A.buf(8, 0)
    r = L.err('btokCVCWrap', None, cnt, st, pk, len(privkey))
    if r:
        return r, None, st.get()
    n = u64(cnt.get(), 0)
    c = A.buf(n, fill)
    st2 = A.buf(cvc_struct(L, f))
    r = L.err('btokCVCWrap', c, cnt, st2, pk, len(privkey))
    return r, (c.get()[:u64(cnt.get(), 0)] if r == 0 else None), st2.get()

def c_cvc_unwrap(L, A, cert, pubkey=None, fill=0x00):
    st = A.buf(lay(L)['cvc'], fill)
    r = L.err('btokCVCUnwrap', st, A.buf(cert), len(cert), A.buf(pubkey) if pubkey else None, len(pubkey) if pubkey else 0)
    return r, st.get()

# ------------------------------------------------------------------ bpki containers
def c_bpki_wrap(L, A, kind, secret, pwd, salt, it, fill=0x00):
    fn = 'bpkiPrivkeyWrap' if kind == 'privkey' else 'bpkiShareWrap'
    cnt = A.buf(8, 0)
    s = A.buf(secret); p = A.buf(pwd) if pwd else A.buf(1); sl = A.buf(salt)
    r = L.err(fn, None, cnt, s, len(secret), p, len(pwd), sl, it)
    if r:
        return r, None
    e = A.buf(u64(cnt.get(), 0), fill)
    r = L.err(fn, e, cnt, s, len(secret), p, len(pwd), sl, it)
    return r, (e.get() if r == 0 else None)

def c_bpki_unwrap(L, A, kind, epki, pwd, fill=0x00):
    fn = 'bpkiPrivkeyUnwrap' if kind == 'privkey' else 'bpkiShareUnwrap'
    cnt = A.buf(8, 0)
    e = A.buf(epki); p = A.buf(pwd) if pwd else A.buf(1)
    r = L.err(fn, None, cnt, e, len(epki), p, len(pwd))
    if r:
        return r, None
    n = u64(cnt.get(), 0)
    if n > 1024:
        return r, 'length %d' % n
    k = A.buf(n, fill)
    r = L.err(fn, k, cnt, e, len(epki), p, len(pwd))
    return r, (k.get() if r == 0 else None)

# ------------------------------------------------------------------ APDU / secure messaging
def cmd_struct(L, cla, ins, p1, p2, cdf, rdf_len):
    y = lay(L)
    b = bytearray(y['cmd'] + len(cdf))
    b[0:4] = bytes([cla, ins, p1, p2])
    b[y['cmd_rdf_len']:y['cmd_rdf_len'] + 8] = int(rdf_len).to_bytes(8, 'little')
    b[y['cmd_cdf_len']:y['cmd_cdf_len'] + 8] = len(cdf).to_bytes(8, 'little')
    b[y['cmd_cdf']:] = cdf
    return bytes(b)

def cmd_fields(L, raw):
    y = lay(L)
    n = u64(raw, y['cmd_cdf_len'])
    return (raw[0], raw[1], raw[2], raw[3], raw[y['cmd_cdf']:y['cmd_cdf'] + n], u64(raw, y['cmd_rdf_len']))

def resp_struct(L, sw1, sw2, rdf):
    y = lay(L)
    b = bytearray(y['resp'] + len(rdf))
    b[0:2] = bytes([sw1, sw2])
    b[y['resp_rdf_len']:y['resp_rdf_len'] + 8] = len(rdf).to_bytes(8, 'little')
    b[y['resp_rdf']:] = rdf
    return bytes(b)

def resp_fields(L, raw):
    y = lay(L)
    n = u64(raw, y['resp_rdf_len'])
    return (raw[0], raw[1], raw[y['resp_rdf']:y['resp_rdf'] + n])

def sm_state(L, A, key, ctr, fill=0x00):
    """btokSMStart + ctr increments -> state buffer"""
    st = A.buf(L.sz('btokSM_keep'), fill)
    L.call('btokSMStart', st, A.buf(key))
    for _ in range(ctr):
        L.call('btokSMCtrInc', st)
    return st

def c_sm_wrap(L, A, what, st, raw, fill=0x00):
    """btokSMCmdWrap / btokSMRespWrap: st may be None (plain encoding) -> (err, apdu)"""
    fn = 'btokSMCmdWrap' if what == 'cmd' else 'btokSMRespWrap'
    obj = A.buf(raw); cnt = A.buf(8, 0)
    r = L.err(fn, None, cnt, obj, st)
    if r:
        return r, None
    out = A.buf(u64(cnt.get(), 0), fill)
    r = L.err(fn, out, cnt, obj, st)
    return r, (out.get()[:u64(cnt.get(), 0)] if r == 0 else None)

def c_sm_unwrap(L, A, what, st, apdu, fill=0x00):
    """btokSMCmdUnwrap / RespUnwrap: format pass with a null object (size), then the real one -> (err_format, err, object bytes)"""
    fn = 'btokSMCmdUnwrap' if what == 'cmd' else 'btokSMRespUnwrap'
    a = A.buf(apdu); sz = A.buf(8, 0)
    r0 = L.err(fn, None, sz, a, len(apdu), st)
    if r0:
        return r0, r0, None
    n = u64(sz.get(), 0)
    if n > len(apdu) + 64:
        return r0, None, 'size %d' % n
    obj = A.buf(n, fill)
    r = L.err(fn, obj, sz, a, len(apdu), st)
    return r0, r, (obj.get() if r == 0 else None)

# =================================================================== catalogue entries
def _sz(r):
    return r if isinstance(r, int) else -2

def _reg(name, impl, ref, ret='size', faultable=False, **kw):
    """outputs are flat (bytes / ints / lists of ints / str) so that cat.digest and cat.compare apply; a reference
    result is always compared completely (a length is a legitimate non-zero return value here)"""
    def ref2(c):
        e = ref(c)
        if e is not None:
            e.setdefault('_check_outs_on_error', 1)
        return e
    f = reg(Composite(name, impl, ref2, group='codec', **kw))
    f.ret = ret
    f.faultable = faultable
    return f

# ---- DER: TLV encode, decode back
def _impl_tlv(L, c, A, fill):
    n, der = c_der_enc(L, A, c['tag'], c['val'], fill)
    res = {'ret': _sz(n)}
    if der is not None:
        res['der'] = der
        res['tl'] = L.sz('derTLEnc', None, c['tag'], len(c['val']))
        res['dec'] = list(c_der_dec(L, A, der))
        res['valid'] = L.boolean('derIsValid', A.buf(der), len(der))
        res['valid2'] = L.boolean('derIsValid2', A.buf(der), len(der), c['tag'])
        res['starts'] = L.boolean('derStartsWith', A.buf(der), len(der), c['tag'])
    return res
def _ref_tlv(c):
    der = C.der_enc(c['tag'], c['val'])
    if der is None:
        return {'ret': SIZE_MAX}
    tl = len(C.der_tl_enc(c['tag'], len(c['val'])))
    return {'ret': len(der), 'der': der, 'tl': tl, 'dec': [len(der), c['tag'], tl, len(c['val'])], 'valid': 1, 'valid2': 1, 'starts': 1}
_reg('der.TLV', _impl_tlv, _ref_tlv)

# ---- DER: TL prefix for lengths that cannot be materialised
def _impl_tl(L, c, A, fill):
    n, tl = c_two_step(L, A, 'derTLEnc', (c['tag'], c['len']), fill)
    res = {'ret': _sz(n)}
    if tl is not None:
        res['tl'] = tl
        res['dec'] = list(c_tl_dec(L, A, tl))
    return res
def _ref_tl(c):
    tl = C.der_tl_enc(c['tag'], c['len'])
    if tl is None:
        return {'ret': SIZE_MAX}
    return {'ret': len(tl), 'tl': tl, 'dec': [len(tl), c['tag'], c['len']]}
_reg('der.TL', _impl_tl, _ref_tl)

# ---- DER: decode an arbitrary octet string
def _impl_derdec(L, c, A, fill):
    d = c['der']
    r = c_der_dec(L, A, d)
    t = c_tl_dec(L, A, d)
    return {'ret': r[0], 'dec': list(r), 'tl': list(t), 'valid': L.boolean('derIsValid', A.buf(d), len(d))}
def _ref_derdec(c):
    d = c['der']
    r = C.der_dec(d); t = C.der_tl_dec(d)
    return {'ret': r[2] if r else SIZE_MAX,
            'dec': [r[2], r[0], r[2] - len(r[1]), len(r[1])] if r else [SIZE_MAX, None, None, None],
            'tl': [t[2], t[0], t[1]] if t else [SIZE_MAX, None, None], 'valid': int(C.der_is_valid(d))}
_reg('der.decode', _impl_derdec, _ref_derdec)

# ---- DER: typed values (encode, decode back)
def _impl_size(L, c, A, fill):
    n, der = c_two_step(L, A, 'derTSIZEEnc', (c['tag'], c['val']), fill)
    res = {'ret': _sz(n)}
    if der is not None:
        v = A.buf(8, fill)
        res['der'] = der
        res['back'] = [L.sz('derTSIZEDec', v, A.buf(der), len(der), c['tag']), u64(v.get(), 0)]
        res['dec2'] = L.sz('derTSIZEDec2', A.buf(der), len(der), c['tag'], c['val'])
    return res
def _ref_size(c):
    der = C.der_tsize_enc(c['tag'], c['val'])
    if der is None:
        return {'ret': SIZE_MAX}
    return {'ret': len(der), 'der': der, 'back': [len(der), c['val']], 'dec2': len(der)}
_reg('der.SIZE', _impl_size, _ref_size)

def _impl_uint(L, c, A, fill):
    n, der = c_two_step(L, A, 'derTUINTEnc', (c['tag'], A.buf(c['val']), len(c['val'])), fill)
    res = {'ret': _sz(n)}
    if der is not None:
        l = A.buf(8, fill)
        r = L.sz('derTUINTDec', None, l, A.buf(der), len(der), c['tag'])
        ln = u64(l.get(), 0)
        o = A.buf(ln, fill)
        r2 = L.sz('derTUINTDec', o, None, A.buf(der), len(der), c['tag'])
        o2 = A.buf(ln, fill)
        r3 = L.sz('derTUINTDec2', o2, A.buf(der), len(der), c['tag'], ln)
        res.update(der=der, back=[r, r2, r3], v1=o.get(), v2=o2.get())
    return res
def _ref_uint(c):
    der = C.der_tuint_enc(c['tag'], c['val'])
    if der is None:
        return {'ret': SIZE_MAX}
    v = C.der_tuint_dec(der, c['tag'])[0]
    return {'ret': len(der), 'der': der, 'back': [len(der)] * 3, 'v1': v, 'v2': v}
_reg('der.UINT', _impl_uint, _ref_uint)

def _impl_bit(L, c, A, fill):
    n, der = c_two_step(L, A, 'derTBITEnc', (c['tag'], A.buf(c['val']) if c['val'] else A.buf(1), c['bits']), fill)
    res = {'ret': _sz(n)}
    if der is not None:
        l = A.buf(8, fill)
        r = L.sz('derTBITDec', None, l, A.buf(der), len(der), c['tag'])
        bl = u64(l.get(), 0)
        o = A.buf((bl + 7) // 8, fill)
        r2 = L.sz('derTBITDec2', o, A.buf(der), len(der), c['tag'], bl)
        res.update(der=der, back=[r, r2, bl], v=o.get())
    return res
def _ref_bit(c):
    der = C.der_tbit_enc(c['tag'], c['val'], c['bits'])
    if der is None:
        return {'ret': SIZE_MAX}
    v, bl, _ = C.der_tbit_dec(der, c['tag'])
    return {'ret': len(der), 'der': der, 'back': [len(der), len(der), c['bits']], 'v': v}
_reg('der.BIT', _impl_bit, _ref_bit)

def _impl_pstr(L, c, A, fill):
    s = A.buf(c['str'].encode('latin1') + b'\0')
    n, der = c_two_step(L, A, 'derTPSTREnc', (c['tag'], s), fill)
    res = {'ret': _sz(n)}
    if der is not None:
        l = A.buf(8, fill)
        r = L.sz('derTPSTRDec', None, l, A.buf(der), len(der), c['tag'])
        ln = u64(l.get(), 0)
        o = A.buf(ln + 1, fill)
        r2 = L.sz('derTPSTRDec', o, None, A.buf(der), len(der), c['tag'])
        res.update(der=der, back=[r, r2], s=o.get())
    return res
def _ref_pstr(c):
    der = C.der_tpstr_enc(c['tag'], c['str'])
    if der is None:
        return {'ret': SIZE_MAX}
    return {'ret': len(der), 'der': der, 'back': [len(der), len(der)], 's': c['str'].encode('latin1') + b'\0'}
_reg('der.PSTR', _impl_pstr, _ref_pstr)

def _impl_oid(L, c, A, fill):
    s = A.buf(c['oid'].encode('latin1') + b'\0')
    res = {'valid': L.boolean('oidIsValid', s)}
    n, der = c_two_step(L, A, 'oidToDER', (s,), fill)
    res['ret'] = _sz(n)
    cnt = A.buf(8, 0)
    r = L.err('bignOidToDER', None, cnt, s)
    res['bign'] = [r, u64(cnt.get(), 0) if r == 0 else None]
    if der is not None:
        r = L.sz('oidFromDER', None, A.buf(der), len(der))
        o = A.buf(r + 1 if r != SIZE_MAX and r < 4096 else 1, fill)
        r2 = L.sz('oidFromDER', o, A.buf(der), len(der))
        res.update(der=der, back=[r, r2], o=o.get(), dec2=L.sz('derOIDDec2', A.buf(der), len(der), s))
        b = A.buf(len(der), fill)
        cnt = A.buf(len(der).to_bytes(8, 'little'))
        res['bign'] += [L.err('bignOidToDER', b, cnt, s)]; res['bder'] = b.get()
    return res
def _ref_oid(c):
    der = C.oid_to_der(c['oid'])
    if der is None:
        return {'ret': SIZE_MAX, 'valid': 0, 'bign': [E['BAD_OID'], None]}
    o = c['oid'].encode('latin1')
    return {'ret': len(der), 'valid': 1, 'der': der, 'back': [len(o), len(o)], 'o': o + b'\0', 'dec2': len(der), 'bign': [0, len(der), 0], 'bder': der}
_reg('oid.str', _impl_oid, _ref_oid)

def _impl_seq(L, c, A, fill):
    """SEQ with anchors: start, content of the given length, stop; then DecStart / DecStop"""
    y = lay(L)
    body = c['content']
    an = A.buf(y['anchor'], fill)
    n0 = L.sz('derTSEQEncStart', an, None, 0, c['tag'])
    if n0 == SIZE_MAX:
        return {'ret': SIZE_MAX}
    an2 = A.buf(y['anchor'], fill)
    ex = L.sz('derTSEQEncStop', None, n0 + len(body), an)
    total = n0 + len(body) + ex
    buf = A.buf(total, fill)
    n1 = L.sz('derTSEQEncStart', an2, buf, 0, c['tag'])
    buf.set(body, n1)
    ex2 = L.sz('derTSEQEncStop', buf.addr + n1 + len(body), n1 + len(body), an2)
    der = buf.get()
    da = A.buf(y['anchor'], fill)
    d = A.buf(der)
    s = L.sz('derTSEQDecStart', da, d, len(der), c['tag'])
    st = L.sz('derTSEQDecStop', d.addr + len(der), da) if s != SIZE_MAX else None
    st_bad = L.sz('derTSEQDecStop', d.addr + len(der) - 1, da) if s != SIZE_MAX and len(body) else SIZE_MAX
    return {'ret': total, 'der': der, 'steps': [n0, n1, ex, ex2], 'dec': [s, st, st_bad]}
def _ref_seq(c):
    der = C.der_tseq_enc(c['tag'], c['content'])
    if der is None:
        return {'ret': SIZE_MAX}
    n0 = len(C.der_tseq_enc_start(c['tag'])); ex = C.der_tseq_enc_stop(c['tag'], len(c['content']))
    return {'ret': len(der), 'der': der, 'steps': [n0, n0, ex, ex], 'dec': [len(der) - len(c['content']), 0, SIZE_MAX]}
_reg('der.SEQ', _impl_seq, _ref_seq)

# ---- hex / base64 / decimal: one string through the helper battery (exact-size heap copy)
CHR_REC = struct.Struct('<IBBH8Q')
M64 = (1 << 64) - 1
def dig(v):
    v = bytes(v)
    if len(v) <= 8:
        return int.from_bytes(v, 'little')
    h = 1469598103934665603
    for b in v:
        h = ((h ^ b) * 1099511628211) & M64
    return h

def chr_expect(s):
    """the record vh_c08_chr1 must produce for the character string s (bytes without NUL) according to ref/codec.py"""
    n = len(s)
    valid = rel = 0
    v = [0] * 8
    if C.hex_is_valid(s):
        valid |= 1; rel |= 1 | 2 | 4
        v[0] = dig(C.hex_to(s)); v[1] = dig(C.hex_to_rev(s))
        v[2] = dig(C.hex_upper(s).encode()) ^ ((dig(C.hex_lower(s).encode()) * 0x9E3779B97F4A7C15) & M64)
    if C.b64_is_valid(s):
        valid |= 2
        x = C.b64_to(s)
        v[3] = len(x); v[4] = dig(x)
        rel |= 8
        if C.b64_from(x).encode() == bytes(s):
            rel |= 16
    if C.dec_is_valid(s):
        valid |= 4
        v[5] = C.dec_to_u32(s); v[6] = C.dec_to_u64(s)
        if n <= 9: rel |= 32
        if n <= 19: rel |= 64
        v[7] = C.dec_clz(s) | ord(C.dec_luhn_calc(s)) << 8 | ord(C.dec_damm_calc(s)) << 16 | int(C.dec_luhn_verify(s)) << 24 | int(C.dec_damm_verify(s)) << 25
    return CHR_REC.pack(0, valid, rel, 0, *v)

def c_chr1(L, s, mode=0, which=7):
    out = ctypes.create_string_buffer(CHR_REC.size)
    ok = L.dll.vh_c08_chr1(ctypes.c_char_p(bytes(s)), ctypes.c_uint64(len(s)), ctypes.c_int(mode), ctypes.c_uint32(which), out)
    assert ok
    return out.raw

def _impl_chr(L, c, A, fill):
    return {'ret': 0, 'rec': c_chr1(L, c['s'])}
_reg('chr.str', _impl_chr, lambda c: {'ret': 0, 'rec': chr_expect(c['s'])})

def _impl_b64buf(L, c, A, fill):
    n = len(c['buf'])
    o = A.buf(4 * ((n + 2) // 3) + 1, fill)
    L.call('b64From', o, A.buf(c['buf']) if n else A.buf(1), n)
    h = A.buf(2 * n + 1, fill)
    L.call('hexFrom', h, A.buf(c['buf']) if n else A.buf(1), n)
    hr = A.buf(2 * n + 1, fill)
    L.call('hexFromRev', hr, A.buf(c['buf']) if n else A.buf(1), n)
    return {'ret': 0, 'b64': o.get(), 'hex': h.get(), 'hexrev': hr.get()}
_reg('chr.buf', _impl_b64buf, lambda c: {'ret': 0, 'b64': C.b64_from(c['buf']).encode() + b'\0', 'hex': C.hex_from(c['buf']).encode() + b'\0',
                                         'hexrev': C.hex_from_rev(c['buf']).encode() + b'\0'})

def _impl_decfrom(L, c, A, fill):
    o = A.buf(c['count'] + 1, fill); o2 = A.buf(c['count'] + 1, fill)
    L.call('decFromU32', o, c['count'], c['num'] & 0xFFFFFFFF)
    L.call('decFromU64', o2, c['count'], c['num'])
    return {'ret': 0, 'u32': o.get(), 'u64': o2.get()}
_reg('dec.from', _impl_decfrom, lambda c: {'ret': 0, 'u32': C.dec_from_u32(c['count'], c['num']).encode() + b'\0',
                                          'u64': C.dec_from_u64(c['count'], c['num']).encode() + b'\0'})

# ---- APDU
def c_cmd_enc(L, cla, ins, p1, p2, cdf, rdf_len):
    """-> (valid, length | SIZE_MAX, code)"""
    cap = len(cdf) + 16
    out = ctypes.create_string_buffer(cap)
    v = ctypes.c_int(0)
    f = L.dll.vh_c08_cmd_enc; f.restype = ctypes.c_uint64
    n = f(ctypes.c_uint(cla), ctypes.c_uint(ins), ctypes.c_uint(p1), ctypes.c_uint(p2), ctypes.c_char_p(bytes(cdf)), ctypes.c_uint64(len(cdf)),
          ctypes.c_uint64(rdf_len), out, ctypes.c_uint64(cap), ctypes.byref(v))
    return v.value, n, (out.raw[:n] if n <= cap else None)

def c_resp_enc(L, sw1, sw2, rdf):
    cap = len(rdf) + 16
    out = ctypes.create_string_buffer(cap)
    v = ctypes.c_int(0)
    f = L.dll.vh_c08_resp_enc; f.restype = ctypes.c_uint64
    n = f(ctypes.c_uint(sw1), ctypes.c_uint(sw2), ctypes.c_char_p(bytes(rdf)), ctypes.c_uint64(len(rdf)), out, ctypes.c_uint64(cap), ctypes.byref(v))
    return v.value, n, (out.raw[:n] if n <= cap else None)

APDU_REC = struct.Struct('<IBBBB4BIIQIBBHIQ')
def c_apdu1(L, s, mode=0):
    out = ctypes.create_string_buffer(APDU_REC.size)
    ok = L.dll.vh_c08_apdu1(ctypes.c_char_p(bytes(s)), ctypes.c_uint64(len(s)), ctypes.c_int(mode), out)
    assert ok
    return out.raw

def apdu_expect(s):
    """record of vh_c08_apdu1 demanded by apdu.h for a CANONICAL code; None where the header leaves the answer open
    (grammatical but not the shortest form: such a code may be rejected, and if it is accepted it must still decode to
    the grammar's value -- judged by C08, not by this corpus reference)"""
    s = bytes(s)
    g = C.apdu_cmd_dec(s); k = C.apdu_cmd_dec(s, canonical=True)
    if (g is None) != (k is None):
        return None
    rr = C.apdu_resp_dec(s)
    flags = 0
    cv = [0] * 4; cl = rl = el = 0; cd = 0
    if k:
        flags |= 1 | 4
        cv = list(k[:4]); cl = len(k[4]); rl = k[5]; cd = dig(k[4]); el = len(s)
    sw = [0, 0]; rrl = 0; rd = 0
    if rr:
        if len(rr[2]) <= 65536:
            flags |= 2
        flags |= 8
        sw = [rr[0], rr[1]]; rrl = len(rr[2]); rd = dig(rr[2])
    return APDU_REC.pack(0, 1 if k else 0xFF, 1 if rr else 0xFF, flags, 0, *cv, cl, rl, cd, el, sw[0], sw[1], 0, rrl, rd)

def _impl_apdudec(L, c, A, fill):
    return {'ret': 0, 'rec': c_apdu1(L, c['apdu'])}
def _ref_apdudec(c):
    e = apdu_expect(c['apdu'])
    return {'ret': 0, 'rec': e} if e is not None else {'ret': 0}
_reg('apdu.decode', _impl_apdudec, _ref_apdudec)

def _impl_apducmd(L, c, A, fill):
    v, n, code = c_cmd_enc(L, c['cla'], c['ins'], c['p1'], c['p2'], c['cdf'], c['rdf_len'])
    res = {'ret': n, 'valid': v}
    if code is not None:
        res['code'] = code
        sm = c_sm_wrap(L, A, 'cmd', None, cmd_struct(L, c['cla'], c['ins'], c['p1'], c['p2'], c['cdf'], c['rdf_len']), fill)
        res['pw'] = sm[0]; res['pw_code'] = sm[1]
    return res
def _ref_apducmd(c):
    e = C.apdu_cmd_enc(c['cla'], c['ins'], c['p1'], c['p2'], c['cdf'], c['rdf_len'])
    if e is None:
        return {'ret': SIZE_MAX, 'valid': 0}
    return {'ret': len(e), 'valid': 1, 'code': e, 'pw': 0, 'pw_code': e}
_reg('apdu.cmd', _impl_apducmd, _ref_apducmd)

def _impl_apduresp(L, c, A, fill):
    v, n, code = c_resp_enc(L, c['sw1'], c['sw2'], c['rdf'])
    return {'ret': n, 'valid': v, 'code': code}
def _ref_apduresp(c):
    e = C.apdu_resp_enc(c['sw1'], c['sw2'], c['rdf'])
    return {'ret': SIZE_MAX, 'valid': 0} if e is None else {'ret': len(e), 'valid': 1, 'code': e}
_reg('apdu.resp', _impl_apduresp, _ref_apduresp)

# ---- bign parameters
def _impl_params_enc(L, c, A, fill):
    r, der = c_params_enc(L, A, params_struct(L, c), fill)
    return {'ret': r, 'der': der}
def _ref_params_enc(c):
    f = c
    if f['l'] not in (128, 192, 256):
        return {'ret': E['BAD_PARAMS']}
    return {'ret': 0, 'der': S.ecparams_enc(f)}
_reg('bignParamsEnc', _impl_params_enc, _ref_params_enc, ret='err', faultable=True)

def _impl_params_dec(L, c, A, fill):
    r, raw = c_params_dec(L, A, c['der'], fill)
    res = {'ret': r}
    if r == 0:
        res.update(params_fields(L, raw)); res['raw_tail_zero'] = int(params_struct(L, params_fields(L, raw)) == raw)
    return res
def _ref_params_dec(c):
    f = S.ecparams_dec(c['der'])
    if f is None:
        return {'ret': E['BAD_FORMAT']}
    return dict({k: f[k] for k in ('l', 'p', 'a', 'b', 'q', 'yG', 'seed')}, ret=0, raw_tail_zero=1)
_reg('bignParamsDec', _impl_params_dec, _ref_params_dec, ret='err', faultable=True)

# ---- CV certificates
HASH_OID = {24: "1.2.112.0.2.0.34.101.31.81", 32: "1.2.112.0.2.0.34.101.31.81", 48: "1.2.112.0.2.0.34.101.77.12", 64: "1.2.112.0.2.0.34.101.77.13"}
LEVEL = {24: 96, 32: 128, 48: 192, 64: 256}
def cvc_sign(body, privkey):
    import bign, belt, bash
    n = len(privkey); l = LEVEL[n]
    h = belt.hash(body)[:n] if n <= 32 else bash.bash_hash(4 * n, body)
    oid = bign.oid_to_der(HASH_OID[n])
    return bign.bign96_sign2(oid, h, privkey) if n == 24 else bign.sign2(l, oid, h, privkey)

def cvc_model_wrap(f, privkey):
    """-> (fields completed with pubkey / sig, certificate) per btok.h btokCVCWrap"""
    import bign
    g = dict(f)
    if not g.get('pubkey'):
        g['pubkey'] = bign.enc_point(LEVEL[len(privkey)], bign.pubkey_calc(LEVEL[len(privkey)], privkey))
    g['sig'] = cvc_sign(S.cvc_body_enc(g), privkey)
    return g, S.cvc_enc(g)

def _impl_cvc_wrap(L, c, A, fill):
    r, cert, st = c_cvc_wrap(L, A, c, c['privkey'], fill)
    res = {'ret': r, 'cert': cert}
    if r == 0:
        g = cvc_fields(L, st)
        res['pubkey'] = g['pubkey']; res['sig'] = g['sig']
        res['len'] = L.sz('btokCVCLen', A.buf(cert + b'\x00\x01'), len(cert) + 2)
    return res
def _ref_cvc_wrap(c):
    f = {k: v for k, v in c.items() if k != 'privkey'}
    import bign
    n = len(c['privkey'])
    if n not in LEVEL or not bign.privkey_is_valid(LEVEL[n], c['privkey']):
        return {'ret': lambda r: r != 0}          # btok.h: privkey_len in {24, 32, 48, 64}, a valid key
    chk = S.cvc_check(dict(f, pubkey=f.get('pubkey') or bign.enc_point(LEVEL[n], bign.pubkey_calc(LEVEL[n], c['privkey']))))
    if chk != 'OK':
        return {'ret': lambda r: r != 0}          # btok.h: "an error code"; the class is not documented
    g, cert = cvc_model_wrap(f, c['privkey'])
    return {'ret': 0, 'cert': cert, 'pubkey': g['pubkey'], 'sig': g['sig'], 'len': len(cert)}
_reg('btokCVCWrap', _impl_cvc_wrap, _ref_cvc_wrap, ret='err', faultable=True, secrets=('privkey',))

def _impl_cvc_unwrap(L, c, A, fill):
    r, st = c_cvc_unwrap(L, A, c['cert'], c.get('pubkey'), fill)
    res = {'ret': r}
    if r == 0:
        res.update(cvc_fields(L, st))
    return res
def cvc_model_unwrap(cert, pubkey=None):
    """-> (error name, fields)"""
    import bign, belt, bash
    sl = None if not pubkey else (34 if len(pubkey) == 48 else len(pubkey) - len(pubkey) // 4)
    f = S.cvc_dec(cert, sl)
    if f is None:
        return 'BAD_FORMAT', None
    if pubkey:
        n = len(pubkey) // 2; l = LEVEL[n]
        if not bign.pubkey_is_valid(l, pubkey):
            return 'BAD_PUBKEY', None
        h = belt.hash(f['body'])[:n] if n <= 32 else bash.bash_hash(4 * n, f['body'])
        oid = bign.oid_to_der(HASH_OID[n])
        ok = bign.bign96_verify(oid, h, f['sig'], pubkey) if n == 24 else bign.verify(l, oid, h, f['sig'], pubkey)
        if not ok:
            return 'BAD_SIG', None
    return S.cvc_check(f), f
def _ref_cvc_unwrap(c):
    e, f = cvc_model_unwrap(c['cert'], c.get('pubkey'))
    if e == 'BAD_FORMAT':
        return {'ret': E[e]}                       # btok.h: wrong lengths / trailing octets "are a format error"
    if e != 'OK':
        return {'ret': lambda r: r not in (0, E['BAD_FORMAT'])}
    return dict({k: f[k] for k in ('authority', 'holder', 'pubkey', 'hat_eid', 'hat_esign', 'from', 'until', 'sig')}, ret=0)
_reg('btokCVCUnwrap', _impl_cvc_unwrap, _ref_cvc_unwrap, ret='err', faultable=True)

def _impl_cvc_match(L, c, A, fill):
    return {'ret': L.err('btokCVCMatch', A.buf(c['cert']), len(c['cert']), A.buf(c['privkey']), len(c['privkey']))}
def _ref_cvc_match(c):
    import bign
    e, f = cvc_model_unwrap(c['cert'])
    if e != 'OK':
        return {'ret': lambda r: r != 0}
    n = len(c['privkey'])
    ok = n in LEVEL and len(f['pubkey']) == 2 * n and bign.privkey_is_valid(LEVEL[n], c['privkey']) and \
        bign.enc_point(LEVEL[n], bign.pubkey_calc(LEVEL[n], c['privkey'])) == f['pubkey']
    return {'ret': 0} if ok else {'ret': lambda r: r != 0}
_reg('btokCVCMatch', _impl_cvc_match, _ref_cvc_match, ret='err', faultable=True, secrets=('privkey',))

def _impl_bign_oid(L, c, A, fill):
    s = A.buf(c['oid'].encode('latin1') + b'\0')
    cnt = A.buf(int(c['count']).to_bytes(8, 'little'))
    b = A.buf(c['count'], fill)
    r = L.err('bignOidToDER', b, cnt, s)
    n = u64(cnt.get(), 0)
    return {'ret': r, 'n': n if r == 0 else None, 'der': b.get()[:n] if r == 0 else None}
def _ref_bign_oid(c):
    d = C.oid_to_der(c['oid'])
    if d is None:
        return {'ret': E['BAD_OID']}                # bign.h: an incorrect identifier gives ERR_BAD_OID
    if c['count'] < len(d):
        return {'ret': lambda r: r != 0}
    return {'ret': 0, 'n': len(d), 'der': d}
_reg('bignOidToDER', _impl_bign_oid, _ref_bign_oid, ret='err')

# ---- bpki containers
def _impl_bpki_wrap(L, c, A, fill):
    r, e = c_bpki_wrap(L, A, c['kind'], c['secret'], c['pwd'], c['salt'], c['iter'], fill)
    return {'ret': r, 'epki': e}
def _ref_bpki_wrap(c):
    if c['iter'] < 10000:
        return {'ret': E['BAD_INPUT']}
    if c['kind'] == 'privkey' and len(c['secret']) not in (24, 32, 48, 64):
        return {'ret': E['BAD_PRIVKEY']}
    if c['kind'] == 'share' and (len(c['secret']) not in (17, 25, 33) or not 1 <= c['secret'][0] <= 16):
        return {'ret': E['BAD_SHAREKEY']}
    return {'ret': 0, 'epki': S.epki_wrap(c['secret'], c['pwd'], c['salt'], c['iter'], c['kind'])}
_reg('bpki.wrap', _impl_bpki_wrap, _ref_bpki_wrap, ret='err', faultable=True, secrets=('secret', 'pwd'))

def _impl_bpki_unwrap(L, c, A, fill):
    r, k = c_bpki_unwrap(L, A, c['kind'], c['epki'], c['pwd'], fill)
    return {'ret': r, 'secret': k}
def _ref_bpki_unwrap(c):
    e, k = S.epki_unwrap(c['epki'], c['pwd'], c['kind'])
    if e != 'OK':
        return {'ret': E[e]}
    if c['kind'] == 'share' and not 1 <= k[0] <= 16:
        return {'ret': lambda r: r != 0}
    return {'ret': 0, 'secret': k}
_reg('bpki.unwrap', _impl_bpki_unwrap, _ref_bpki_unwrap, ret='err', faultable=True, secrets=('pwd',))
def _bpki_derived(c, res):
    """the PBKDF2 output (key of belt-kwp) and the protected secret, where the reference has them at hand"""
    out = []
    if 'epki' in c:
        e = S.epki_dec(c['epki'])
        k = S._kdf_cache.get((bytes(c['pwd']), e['salt'], e['iter'])) if e else None
        if k:
            out.append(('PBKDF2 key', k))
            import belt
            p = belt.kwp_unwrap(k, e['edata'], None) if len(e['edata']) >= 32 else None
            if p:
                out.append(('PrivateKeyInfo', p))
    else:
        k = S._kdf_cache.get((bytes(c['pwd']), bytes(c['salt']), c['iter']))
        if k:
            out.append(('PBKDF2 key', k))
    return out
cat.CAT['bpki.wrap'].derived = _bpki_derived
cat.CAT['bpki.unwrap'].derived = _bpki_derived

# ---- secure messaging
def _impl_sm_cmd(L, c, A, fill):
    raw = cmd_struct(L, c['cla'], c['ins'], c['p1'], c['p2'], c['cdf'], c['rdf_len'])
    st = sm_state(L, A, c['key'], c['ctr'], fill)
    r, apdu = c_sm_wrap(L, A, 'cmd', st, raw, fill)
    res = {'ret': r, 'apdu': apdu}
    if r == 0:
        st2 = sm_state(L, A, c['key'], c['ctr'], fill)
        r0, r1, obj = c_sm_unwrap(L, A, 'cmd', st2, apdu, fill)
        g = cmd_fields(L, obj) if isinstance(obj, bytes) else None
        res['back'] = [r0, r1] + ([g[0], g[1], g[2], g[3], g[5]] if g else [str(obj)]); res['back_data'] = g[4] if g else None
    return res
def _ref_sm_cmd(c):
    if c['cla'] & 4 or len(c['cdf']) > 65535 or c['rdf_len'] > 65536:
        return {'ret': E['BAD_APDU']}
    if c['ctr'] % 2 != 1:
        return {'ret': E['BAD_LOGIC']}
    w = S.sm_cmd_wrap(c['key'], c['ctr'], c['cla'], c['ins'], c['p1'], c['p2'], c['cdf'], c['rdf_len'])
    if w is None:
        return {'ret': lambda r: r != 0}          # protected data field longer than 65535 octets: cannot be encoded
    return {'ret': 0, 'apdu': w, 'back': [0, 0, c['cla'], c['ins'], c['p1'], c['p2'], c['rdf_len']], 'back_data': c['cdf']}
_reg('btokSM.cmd', _impl_sm_cmd, _ref_sm_cmd, ret='err', secrets=('key',))

def _impl_sm_resp(L, c, A, fill):
    raw = resp_struct(L, c['sw1'], c['sw2'], c['rdf'])
    st = sm_state(L, A, c['key'], c['ctr'], fill)
    r, apdu = c_sm_wrap(L, A, 'resp', st, raw, fill)
    res = {'ret': r, 'apdu': apdu}
    if r == 0:
        st2 = sm_state(L, A, c['key'], c['ctr'], fill)
        r0, r1, obj = c_sm_unwrap(L, A, 'resp', st2, apdu, fill)
        g = resp_fields(L, obj) if isinstance(obj, bytes) else None
        res['back'] = [r0, r1] + ([g[0], g[1]] if g else [str(obj)]); res['back_data'] = g[2] if g else None
    return res
def _ref_sm_resp(c):
    if len(c['rdf']) > 65536:
        return {'ret': E['BAD_APDU']}
    if c['ctr'] % 2 != 0:
        return {'ret': E['BAD_LOGIC']}
    w = S.sm_resp_wrap(c['key'], c['ctr'], c['sw1'], c['sw2'], c['rdf'])
    return {'ret': 0, 'apdu': w, 'back': [0, 0, c['sw1'], c['sw2']], 'back_data': c['rdf']}
_reg('btokSM.resp', _impl_sm_resp, _ref_sm_resp, ret='err', secrets=('key',))

def _impl_sm_unwrap(L, c, A, fill):
    st = sm_state(L, A, c['key'], c['ctr'], fill)
    r0, r1, obj = c_sm_unwrap(L, A, c['what'], st, c['apdu'], fill)
    return {'ret': r1 if r1 is not None else -1, 'fmt': r0}
def _ref_sm_unwrap(c):
    e, v = (S.sm_cmd_unwrap if c['what'] == 'cmd' else S.sm_resp_unwrap)(c['key'], c['ctr'], c['apdu'])
    fmt = (S.sm_cmd_parse(c['apdu'], canonical=False) if c['what'] == 'cmd' else S.sm_resp_parse(c['apdu'])) is not None
    return {'ret': E[e], 'fmt': 0 if fmt else E['BAD_APDU']}
_reg('btokSM.unwrap', _impl_sm_unwrap, _ref_sm_unwrap, ret='err')
for _n in ('btokSM.cmd', 'btokSM.resp'):
    cat.CAT[_n].derived = lambda c, res: [('SM key%d' % (i + 1), k) for i, k in enumerate(S.sm_keys(c['key']))]

# =================================================================== corpus
PWD = b'zed'
SALT = bytes.fromhex('BE32971343FC9A48')
SMKEY = bytes.fromhex('E9DEE72C8F0C0FA62DDB49F46F73964706075316ED247A3739CBA38303A98BF6')

def _seed_kdf_cache():
    """PBKDF2 with 10000 iterations costs seconds in the Python reference: keep the derived keys of the corpus in build/"""
    import os, json
    p = os.path.join(os.environ.get('VERIF_BUILD') or os.path.join(vf.VERIF, 'build'), 'c08_kdf.json')
    want = [(PWD, SALT, 10000), (b'zee', SALT, 10000)]
    try:
        d = json.load(open(p))
    except Exception:
        d = {}
    new = False
    for pwd, salt, it in want:
        k = '%s/%s/%d' % (pwd.hex(), salt.hex(), it)
        if k in d:
            S._kdf_cache[(pwd, salt, it)] = bytes.fromhex(d[k])
        else:
            d[k] = S.epki_key(pwd, salt, it).hex(); new = True
    if new:
        try:
            os.makedirs(os.path.dirname(p), exist_ok=True)
            with open(p + '.tmp%d' % os.getpid(), 'w') as f:
                json.dump(d, f)
            os.replace(p + '.tmp%d' % os.getpid(), p)
        except OSError:
            pass
_seed_kdf_cache()

def privkey(n):
    """a valid private key of n octets (value dimension: one fixed filler per length, reduced below q by its top octet)"""
    k = bytearray(vf.filler('c08priv%d' % n, n, seed=1))
    k[-1] &= 0x3F
    k[0] |= 1
    return bytes(k)

def cvc_base(n=32, hats=(True, True), self_signed=True):
    f = dict(authority='BYCA0000', holder='BYCA0000' if self_signed else 'BYCA1000abcd', pubkey=b'',
             hat_eid=bytes.fromhex('EEEEEEEEEE') if hats[0] else bytes(5), hat_esign=bytes.fromhex('7777') if hats[1] else bytes(2),
             until=bytes([2, 2, 0, 7, 0, 7]))
    f['from'] = bytes([2, 2, 0, 7, 0, 7]) if self_signed else bytes([2, 2, 0, 7, 0, 1])
    return f

def data(n, salt=0):
    return bytes(((i * 7 + 3 + 31 * salt) & 0xFF) for i in range(n))

TAGS_OK = [0x00, 0x01, 0x02, 0x04, 0x1E, 0x30, 0x3E, 0x42, 0x65, 0x7E, 0x80, 0x9E, 0xA0, 0xDE, 0xFE,
           0x1F1F, 0x1F7F, 0x5F20, 0x5F29, 0x7F21, 0x7F4E, 0xFF7F, 0x1F8101, 0x1F817F, 0x7F9F7F, 0xDFFF7F]
TAGS_BAD = [0x1F, 0x3F, 0xFF, 0x1F00, 0x1F1E, 0x1F80, 0x1F81, 0x0030, 0x3000 | 0x100, 0x1F8000, 0x1F0101, 0x1FFF80, 0x100, 0x1FF]
LENS = [0, 1, 127, 128, 255, 256, 65535, 65536]

def gen_cases(tier):
    out = []
    th = tier == 'thorough'
    # --- DER TLV: every tag of the list x every boundary length; invalid tags
    for t in TAGS_OK:
        for n in LENS if (th or t in (0x04, 0x30, 0x5F29, 0x7F21, 0x1F817F)) else [0, 127, 128, 256]:
            out.append(('der.TLV', dict(tag=t, val=data(n))))
    for t in TAGS_BAD:
        out.append(('der.TLV', dict(tag=t, val=data(3))))
    for t in (0x04, 0x7F21, 0x1F817F):
        for n in LENS + [2 ** 24 - 1, 2 ** 24, 2 ** 32 - 1, 2 ** 32, 2 ** 56, 2 ** 63, 2 ** 64 - 2]:
            out.append(('der.TL', dict(tag=t, len=n)))
    # --- DER decode: valid codes and clean rejections
    good = [C.der_enc(0x04, data(n)) for n in (0, 1, 127, 128, 255, 256)] + [C.der_enc(0x5F29, b'\0'), C.der_enc(0x7F21, data(200)),
            C.der_enc(0x1F817F, data(5)), C.der_null_enc(), C.der_size_enc(65535)]
    for d in good:
        out.append(('der.decode', dict(der=d)))
        out.append(('der.decode', dict(der=d + b'\0')))                      # a prefix of the buffer: accepted by derDec, not by derIsValid
        if len(d) > 3:
            out.append(('der.decode', dict(der=d[:-1])))                      # value cut short
    for bad in ('0480', '04FF', '048100', '04817F', '0482007F', '04820080' + '00' * 128, '0489010000000000000000', '048180', '1F1E00', '5F1E00', '04', '0481', '048200', '9F', '9FFF', '9FFFFF'):
        out.append(('der.decode', dict(der=bytes.fromhex(bad))))
    # --- typed values
    sizes = [0, 1, 127, 128, 255, 256, 32767, 32768, 65535, 65536, 2 ** 31 - 1, 2 ** 31, 2 ** 32 - 1, 2 ** 32, 2 ** 63 - 1, 2 ** 63, 2 ** 64 - 2, 2 ** 64 - 1]
    for t in (0x02, 0x5F29, 0x1F817F, 0x1F):
        for v in sizes:
            out.append(('der.SIZE', dict(tag=t, val=v)))
    for t in (0x02, 0x5F29):
        for v in (b'\0', b'\x7f', b'\x80', b'\xff', b'\0\0', b'\x01\0', b'\0\x80', b'\0\x80\0\0', data(32), data(32)[:-1] + b'\x80', data(48), data(64), bytes(31) + b'\x01',
                  data(127), data(127)[:-1] + b'\x80', data(128)):
            out.append(('der.UINT', dict(tag=t, val=v)))
    for bits in list(range(0, 18)) + [63, 64, 65, 1015, 1016, 1024]:
        for pat in (0, 1):
            v = (b'\xff' if pat else b'\xa5') * ((bits + 7) // 8)
            out.append(('der.BIT', dict(tag=0x03, val=v, bits=bits)))
    out.append(('der.BIT', dict(tag=0x9F21, val=b'\xff\xff', bits=9)))
    for st in ('', 'A', 'BYCA0000', "az AZ 09 '()+,-./:=?", 'x' * 127, 'y' * 128, 'bad*', 'bad@', 'bad_', 'bad\x7f', 'bad\x80', 'bad\xff', 'a;b', 'a"b'):
        for t in (0x13, 0x42, 0x5F20):
            out.append(('der.PSTR', dict(tag=t, str=st)))
    oids = ['0.0', '0.39', '1.0', '1.39', '2.0', '2.39', '2.40', '2.47', '2.48', '2.127', '2.4294967215', '1.2.112.0.2.0.34.101.45.2.1', '1.2.840.113549.1.5.13',
            '2.5.4.3', '1.2.0', '1.2.127', '1.2.128', '1.2.16383', '1.2.16384', '1.2.2097151', '1.2.2097152', '1.2.268435455', '1.2.268435456', '1.2.4294967295',
            '2.999.4294967295.0.1', '1.2.' + '.'.join(['4294967295'] * 40)]
    bad_oids = ['', '1', '1.', '.1', '1..2', '3.1', '3.0', '0.40', '1.40', '2.4294967216', '1.2.4294967296', '1.2.42949672950', '01.2', '1.02', '1.2.00', '1.2.-1', '1.2.a', '1.2 ', ' 1.2', '1,2',
                '1.2.3.', '4294967296.1', '1.2.99999999999999999999']
    for o in oids + bad_oids:
        out.append(('oid.str', dict(oid=o)))
    for tg in (0x30, 0x7F21, 0x65, 0x04, 0x1F, 0x5F29):
        for n in LENS if (th or tg == 0x30) else [0, 127, 128, 256]:
            out.append(('der.SEQ', dict(tag=tg, content=data(n, 1))))
    # --- character strings
    strs = [b'', b'0', b'00', b'0a', b'0A', b'aF09', b'ag', b'0G', b'0:', b'0/', b'0@', b'0`', b'0123456789abcdefABCDEF', b'12 ', b'\xff\xff',
            b'AA==', b'AQ==', b'AB==', b'AAA=', b'AAE=', b'AAB=', b'AAAA', b'////', b'++++', b'A===', b'====', b'AA=A', b'=AAA', b'AAAAAA==', b'AA==AAAA', b'QUJD', b'QUI=', b'QQ==', b'A-AA', b'A_AA',
            b'AAA', b'AAAAA', b'0', b'9', b'09', b'90', b'4294967295', b'4294967296', b'04294967295', b'18446744073709551615', b'18446744073709551616', b'0018446744073709551615',
            b'7992739871', b'79927398713', b'79927398710', b'572', b'5724', b'5720', b'12a', b'1 2', b'/', b':']
    for s_ in strs:
        out.append(('chr.str', dict(s=s_)))
    for n in list(range(0, 10)) + [31, 32, 33, 63, 64, 65, 255, 256]:
        out.append(('chr.buf', dict(buf=data(n, 2))))
    for cnt in (0, 1, 5, 9, 10, 11, 19, 20, 21):
        for num in (0, 1, 9, 10, 4294967295, 4294967296, 2 ** 64 - 1, 12345678901234567890):
            out.append(('dec.from', dict(count=cnt, num=num)))
    # --- APDU
    for cl in (0, 1, 2, 255, 256, 257, 65535):
        for rl in (0, 1, 2, 255, 256, 257, 65535, 65536):
            out.append(('apdu.cmd', dict(cla=0x00, ins=0xA4, p1=0x04, p2=0x0C, cdf=data(cl), rdf_len=rl)))
            e = C.apdu_cmd_enc(0x80, 0x01, 0x7F, 0xFF, data(cl), rl)
            out.append(('apdu.decode', dict(apdu=e)))
    out.append(('apdu.cmd', dict(cla=0, ins=0, p1=0, p2=0, cdf=data(65536), rdf_len=0)))
    out.append(('apdu.cmd', dict(cla=0, ins=0, p1=0, p2=0, cdf=b'', rdf_len=65537)))
    for h in ('', '00', '00A404', '00A4040C', '00A4040C00', '00A4040C0000', '00A4040C0201', '00A4040C020102', '00A4040C02010200', '00A4040C0201020000', '00A4040C000000',
              '00A4040C000001', '00A4040C0000', '00A4040C01', '9000', '6A82', '90', '0102039000'):
        out.append(('apdu.decode', dict(apdu=bytes.fromhex(h))))
    for n in (0, 1, 255, 256, 65535, 65536):
        out.append(('apdu.resp', dict(sw1=0x90, sw2=0x00, rdf=data(n, 3))))
    out.append(('apdu.resp', dict(sw1=0x6A, sw2=0x82, rdf=data(65537))))
    # --- bign parameters
    for l in (128, 192, 256):
        f = std_params(l)
        out.append(('bignParamsEnc', dict(f)))
        d = S.ecparams_enc(f)
        out.append(('bignParamsDec', dict(der=d)))
        out.append(('bignParamsDec', dict(der=S.ecparams_enc(f, cofactor=True))))
        out.append(('bignParamsDec', dict(der=d + b'\0')))
        out.append(('bignParamsDec', dict(der=d[:-1])))
        out.append(('bignParamsDec', dict(der=d[:len(d) // 2])))
        out.append(('bignParamsDec', dict(der=b'\x31' + d[1:])))
        out.append(('bignParamsDec', dict(der=b'')))
    out.append(('bignParamsEnc', dict(std_params(128), l=129)))
    # --- CV certificates of every key length, with / without access words, self-signed and issued
    for n in (24, 32, 48, 64):
        for hats in ((True, True), (False, False)) if not th else ((True, True), (True, False), (False, True), (False, False)):
            f = cvc_base(n, hats)
            out.append(('btokCVCWrap', dict(f, privkey=privkey(n))))
            g, cert = cvc_model_wrap(f, privkey(n))
            out.append(('btokCVCUnwrap', dict(cert=cert, pubkey=None)))
            out.append(('btokCVCMatch', dict(cert=cert, privkey=privkey(n))))
            if hats[0]:
                out.append(('btokCVCUnwrap', dict(cert=cert, pubkey=g['pubkey'])))
                out.append(('btokCVCUnwrap', dict(cert=cert + b'\0', pubkey=None)))
                out.append(('btokCVCUnwrap', dict(cert=cert[:-1], pubkey=None)))
                bad = bytearray(cert); bad[-1] ^= 1
                out.append(('btokCVCUnwrap', dict(cert=bytes(bad), pubkey=g['pubkey'])))
    for bad in (dict(authority='short'), dict(holder='thirteenchars'), dict(authority='BYCA*000'), dict(until=bytes([2, 2, 0, 7, 0, 6])), {'from': bytes([2, 2, 1, 3, 0, 1])}):
        out.append(('btokCVCWrap', dict(dict(cvc_base(32), **bad), privkey=privkey(32))))
    # --- bpki containers (PBKDF2 with the minimal admissible iteration count)
    for n in (24, 32, 48, 64):
        out.append(('bpki.wrap', dict(kind='privkey', secret=privkey(n), pwd=PWD, salt=SALT, iter=10000)))
        e = S.epki_wrap(privkey(n), PWD, SALT, 10000, 'privkey')
        out.append(('bpki.unwrap', dict(kind='privkey', epki=e, pwd=PWD)))
        out.append(('bpki.unwrap', dict(kind='privkey', epki=e + b'\0', pwd=PWD)))
        out.append(('bpki.unwrap', dict(kind='privkey', epki=e[:-1], pwd=PWD)))
        out.append(('bpki.unwrap', dict(kind='share', epki=e, pwd=PWD)))
    out.append(('bpki.unwrap', dict(kind='privkey', epki=S.epki_wrap(privkey(32), PWD, SALT, 10000, 'privkey'), pwd=b'zee')))
    for n in (17, 25, 33):
        sh = bytes([n % 16 + 1]) + data(n - 1, 4)
        out.append(('bpki.wrap', dict(kind='share', secret=sh, pwd=PWD, salt=SALT, iter=10000)))
        out.append(('bpki.unwrap', dict(kind='share', epki=S.epki_wrap(sh, PWD, SALT, 10000, 'share'), pwd=PWD)))
    out.append(('bpki.wrap', dict(kind='privkey', secret=privkey(32), pwd=PWD, salt=SALT, iter=9999)))
    out.append(('bpki.wrap', dict(kind='privkey', secret=data(33), pwd=PWD, salt=SALT, iter=10000)))
    out.append(('bpki.wrap', dict(kind='share', secret=bytes([17]) + data(16), pwd=PWD, salt=SALT, iter=10000)))
    out.append(('bpki.wrap', dict(kind='share', secret=data(18), pwd=PWD, salt=SALT, iter=10000)))
    # --- secure messaging: every Lc*/Le* form class
    for cl in (0, 1, 16, 230, 231, 232, 239, 240, 241, 255, 256, 257, 1000) + ((65000, 65500) if th else ()):
        for rl in (0, 1, 255, 256, 257, 65536):
            out.append(('btokSM.cmd', dict(key=SMKEY, ctr=1, cla=0x00, ins=0xA4, p1=4, p2=12, cdf=data(cl, 5), rdf_len=rl)))
    out.append(('btokSM.cmd', dict(key=SMKEY, ctr=3, cla=0x80, ins=1, p1=2, p2=3, cdf=data(20), rdf_len=20)))
    out.append(('btokSM.cmd', dict(key=SMKEY, ctr=2, cla=0x00, ins=1, p1=2, p2=3, cdf=data(20), rdf_len=20)))
    out.append(('btokSM.cmd', dict(key=SMKEY, ctr=1, cla=0x04, ins=1, p1=2, p2=3, cdf=data(20), rdf_len=20)))
    for n in (0, 1, 16, 243, 244, 245, 255, 256, 1000, 65536):
        out.append(('btokSM.resp', dict(key=SMKEY, ctr=2, sw1=0x90, sw2=0x00, rdf=data(n, 6))))
    out.append(('btokSM.resp', dict(key=SMKEY, ctr=1, sw1=0x90, sw2=0x00, rdf=data(5))))
    w = S.sm_cmd_wrap(SMKEY, 1, 0, 0xA4, 4, 12, data(20, 5), 256)
    for k in range(len(w)):
        m = bytearray(w); m[k] ^= 0x01
        out.append(('btokSM.unwrap', dict(what='cmd', key=SMKEY, ctr=1, apdu=bytes(m))))
    w = S.sm_resp_wrap(SMKEY, 2, 0x90, 0, data(20, 6))
    for k in range(len(w)):
        m = bytearray(w); m[k] ^= 0x80
        out.append(('btokSM.unwrap', dict(what='resp', key=SMKEY, ctr=2, apdu=bytes(m))))
    return out

# =================================================================== hooks for C09 / C15
def sweep_cases(tier):
    """out-of-domain arguments whose error the headers document (reference predicates above)"""
    out = []
    for o in ('', '1', '3.1', '1.40', '1.2.4294967296', '01.2', '1.2.', 'a.b'):
        out.append(('bignOidToDER', dict(oid=o, count=32)))
    for cnt in (0, 1, 12, 13, 14):
        out.append(('bignOidToDER', dict(oid='1.2.112.0.2.0.34.101.45.2.1', count=cnt)))
    for l in (0, 64, 127, 129, 160, 255, 257, 512):
        out.append(('bignParamsEnc', dict(std_params(128), l=l)))
    d = S.ecparams_enc(std_params(128))
    for bad in (b'', d[:1], d[:-1], d + b'\0', d[1:], bytes(len(d))):
        out.append(('bignParamsDec', dict(der=bad)))
    for it in (0, 1, 9999):
        out.append(('bpki.wrap', dict(kind='privkey', secret=privkey(32), pwd=PWD, salt=SALT, iter=it)))
        out.append(('bpki.wrap', dict(kind='share', secret=bytes([1]) + data(16), pwd=PWD, salt=SALT, iter=it)))
    for n in (0, 1, 16, 31, 33, 47, 63, 65, 128):
        out.append(('bpki.wrap', dict(kind='privkey', secret=data(n), pwd=PWD, salt=SALT, iter=10000)))
    for n in (0, 1, 16, 18, 24, 26, 32, 34):
        out.append(('bpki.wrap', dict(kind='share', secret=bytes([1]) + data(n - 1) if n else b'', pwd=PWD, salt=SALT, iter=10000)))   # bpki.h: ERR_BAD_SHAREKEY
    for first in (0, 17, 255):
        out.append(('bpki.wrap', dict(kind='share', secret=bytes([first]) + data(16), pwd=PWD, salt=SALT, iter=10000)))                # bpki.h: ERR_BAD_SHAREKEY
    for n in (0, 16, 23, 25, 33, 65):
        out.append(('btokCVCWrap', dict(cvc_base(32), privkey=data(n) if n else b'')))
    out.append(('btokSM.cmd', dict(key=SMKEY, ctr=1, cla=0x04, ins=1, p1=2, p2=3, cdf=data(4), rdf_len=0)))     # btok.h: ERR_BAD_APDU
    out.append(('btokSM.cmd', dict(key=SMKEY, ctr=0, cla=0x00, ins=1, p1=2, p2=3, cdf=data(4), rdf_len=0)))     # btok.h: ERR_BAD_LOGIC
    out.append(('btokSM.cmd', dict(key=SMKEY, ctr=2, cla=0x00, ins=1, p1=2, p2=3, cdf=data(4), rdf_len=0)))
    out.append(('btokSM.resp', dict(key=SMKEY, ctr=1, sw1=0x90, sw2=0, rdf=data(4))))                           # btok.h: ERR_BAD_LOGIC
    out.append(('btokSM.resp', dict(key=SMKEY, ctr=3, sw1=0x90, sw2=0, rdf=data(4))))
    return out

def auth_cases(tier):
    """every single-bit corruption of a bpki container makes the unwrapping fail (and releases nothing of the key)"""
    out = []
    for kind, secret in (('privkey', privkey(32)), ('share', bytes([5]) + data(16, 4))):
        e = S.epki_wrap(secret, PWD, SALT, 10000, kind)
        for b in range(0, 8 * len(e), 1 if tier == 'thorough' else 3):
            m = bytearray(e); m[b // 8] ^= 1 << (b % 8)
            x = S.epki_dec(bytes(m))
            if x is not None and x['iter'] > 40000:
                continue
            out.append(('bpki.unwrap', dict(kind=kind, epki=bytes(m), pwd=PWD), secret, 'epki', b))
    return out
