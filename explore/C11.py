"""C11 -- functions documented as overlap-tolerant give the disjoint-buffer result.
E1: for every function whose header says its buffers may overlap: every relative offset of dest against src in
[-(len+16), len+16] x placements of each auxiliary input inside/outside the output region (header exclusions and
input/input overlaps are not generated); oracle = the same function on pairwise disjoint copies of the same inputs."""
import itertools
import vf, cat, cat_belt, cat_misc, common

PROP = 'C11'
CFG = 'rel'
BASE = 1024
ARENA = 4096

def sizes(fn, case):
    """{name: size in octets} for buffer arguments"""
    out = {}
    for spec in fn.args:
        k, name = spec[0], spec[1]
        if k in ('in', 'io'):
            v = case.get(name)
            if v is not None:
                out[name] = len(v)
        elif k == 'u16in':
            out[name] = 2 * len(case[name])
        elif k == 'out':
            out[name] = cat._size(spec, case)
        elif k == 'u16out':
            out[name] = 2 * cat._size(spec, case)
    return out

def inter(a, la, b, lb):
    return la > 0 and lb > 0 and a < b + lb and b < a + la

def placements(fn, case, tier):
    """yield dict name -> offset (names not in the dict get their own disjoint buffer)"""
    ov = fn.overlap
    sz = sizes(fn, case)
    dest, src = ov['dest'], ov['src']
    D, S = sz[dest], sz.get(src, 0)
    aux = [a for a in ov.get('aux', []) if a in sz]
    excluded = set(tuple(sorted(p)) for p in ov.get('excluded', []))
    span = max(S, D) + 16
    deltas = range(-span, span + 1)
    if tier == 'quick' and span > 40:
        deltas = sorted(set(list(range(-span, -span + 20)) + list(range(-20, 21)) + list(range(span - 19, span + 1)) + list(range(-span, span + 1, 5))))
    def aux_positions(a):
        n = sz[a]
        # inside the output region, and STRADDLING its start / end (an input partly overwritten by the first / last write)
        if tier == 'thorough':
            return [None] + list(range(-n + 1, D))       # every position that intersects the output region
        ps = [None, 0, D // 2, D - n, -(n // 2), D - n // 2, 1 - n, D - 1]
        return [None] + sorted(set(p for p in ps[1:] if -n < p < D))
    for delta in deltas:
        if tuple(sorted((dest, src))) in excluded and inter(BASE, S, BASE + delta, D):
            continue
        base = {src: BASE, dest: BASE + delta}
        yield dict(base)
        # one auxiliary input at a time inside the output region
        for a in aux:
            if tuple(sorted((dest, a))) in excluded:
                continue
            for p in aux_positions(a)[1:]:
                pl = dict(base); pl[a] = BASE + delta + p
                yield pl
        # all auxiliaries inside at distinct places (first fit, back to back from dest+0)
        if len(aux) > 1 and delta in (-span, -1, 0, 1, 8, span):
            pl = dict(base); off = 0
            for a in aux:
                if tuple(sorted((dest, a))) in excluded:
                    continue
                pl[a] = BASE + delta + off; off += sz[a]
            yield pl

def valid_placement(fn, case, pl):
    sz = sizes(fn, case)
    ins = [spec[1] for spec in fn.args if spec[0] in ('in', 'u16in') and spec[1] in pl]
    for a, b in itertools.combinations(ins, 2):
        if inter(pl[a], sz[a], pl[b], sz[b]):
            return False
    outs = [spec[1] for spec in fn.args if spec[0] in ('out', 'u16out') and spec[1] in pl]
    for a, b in itertools.combinations(outs, 2):
        if inter(pl[a], sz[a], pl[b], sz[b]):
            return False
    for n, off in pl.items():
        if off < 0 or off + sz[n] > ARENA:
            return False
    return True

def check_fn_case(job):
    """all placements of one (function, case); returns (n placements, first violation or None)"""
    fname, case, tier = job
    fn = cat.CAT[fname]
    L = common.lib(CFG)
    want = cat.run(L, fn, case)
    n = 0
    with vf.Arena(L) as A:
        arena = A.buf(ARENA, 0x5C)
        for pl in placements(fn, case, tier):
            if not valid_placement(fn, case, pl):
                continue
            n += 1
            ctypes_fill(arena)
            place = {name: (arena, off) for name, off in pl.items()}
            got = cat.run(L, fn, case, place=place, A=A)
            if got != want:
                rel = {k: v - BASE for k, v in pl.items()}
                diff = [k for k in want if got.get(k) != want[k]]
                return n, (rel, 'result differs from the disjoint-buffer run in %s (ret %#x vs %#x)' % (diff, got['ret'], want['ret']))
    return n, None

def ctypes_fill(arena):
    import ctypes
    ctypes.memset(arena.addr, 0x5C, arena.n)

# ---------------------------------------------------------------- special families
def special_jobs(tier):
    jobs = []
    # memMove / memJoin: complete small arenas
    jobs.append(('memMove', None)); jobs.append(('memJoin', None))
    # key inside state for every *Start the headers list; mac/hash inside state for StepG
    for pre in ('beltWBL', 'beltECB', 'beltCBC', 'beltCFB', 'beltCTR', 'beltMAC', 'beltDWP', 'beltCHE', 'beltBDE', 'beltSDE', 'beltKRP', 'beltFMT'):
        for kl in (16, 24, 32):
            jobs.append(('start', (pre, kl)))
    for g in ('beltMACStepG', 'beltMACStepG2', 'beltHashStepG', 'beltHashStepG2', 'beltHMACStepG2', 'bashHashStepG'):
        jobs.append(('stepg', g))
    jobs.append(('keyexpand', None))
    jobs.append(('der', None))
    for f in ('derTUINTEnc', 'derTBITEnc', 'derTPSTREnc', 'derTUINTDec', 'derTUINTDec2', 'derTBITDec', 'derTBITDec2', 'derTOCTDec', 'derTOCTDec2', 'derTPSTRDec'):
        jobs.append(('der2', f))
    return jobs

def _bundle_run(L, A, pre, st, key_addr, kl):
    """Start(state, key at key_addr) then one step and/or get: returns observable bytes"""
    iv = A.buf(cat_belt.IV0); msg = cat_belt.data(48)
    if pre == 'beltWBL':
        L.call('beltWBLStart', st, key_addr, kl); b = A.buf(msg); L.call('beltWBLStepE', b, 48, st); return b.get()
    if pre == 'beltECB':
        L.call('beltECBStart', st, key_addr, kl); b = A.buf(msg); L.call('beltECBStepE', b, 48, st); return b.get()
    if pre in ('beltCBC', 'beltCFB', 'beltCTR', 'beltBDE'):
        L.call(pre + 'Start', st, key_addr, kl, iv); b = A.buf(msg); L.call(pre + 'StepE', b, 48, st); return b.get()
    if pre == 'beltSDE':
        L.call('beltSDEStart', st, key_addr, kl); b = A.buf(msg); L.call('beltSDEStepE', b, 48, iv, st); return b.get()
    if pre == 'beltMAC':
        L.call('beltMACStart', st, key_addr, kl); L.call('beltMACStepA', A.buf(msg), 48, st); m = A.buf(8); L.call('beltMACStepG', m, st); return m.get()
    if pre in ('beltDWP', 'beltCHE'):
        L.call(pre + 'Start', st, key_addr, kl, iv); L.call(pre + 'StepI', A.buf(msg), 20, st); b = A.buf(msg)
        L.call(pre + 'StepE', b, 48, st); L.call(pre + 'StepA', b, 48, st); m = A.buf(8); L.call(pre + 'StepG', m, st); return b.get() + m.get()
    if pre == 'beltKRP':
        L.call('beltKRPStart', st, key_addr, kl, A.buf(bytes(12))); o = A.buf(kl); L.call('beltKRPStepG', o, kl, A.buf(bytes(16)), st); return o.get()
    if pre == 'beltFMT':
        L.call('beltFMTStart', st, 10, 9, key_addr, kl); b = A.buf(b''.join(int(i % 10).to_bytes(2, 'little') for i in range(9)))
        L.call('beltFMTStepE', b, iv, st); return b.get()
    raise ValueError(pre)

def special(job):
    kind, arg = job
    L = common.lib(CFG)
    n = 0
    import ctypes
    if kind == 'memMove':
        for cnt in range(0, 9):
            for s in range(0, 12):
                for d in range(0, 12):
                    with vf.Arena(L) as A:
                        a = A.buf(bytes(range(1, 21)))
                        want = bytearray(a.get()); want[d:d + cnt] = a.get()[s:s + cnt]
                        L.call('memMove', a.addr + d, a.addr + s, cnt)
                        n += 1
                        if a.get() != bytes(want):
                            return n, ({'count': cnt, 'src': s, 'dest': d}, 'memMove: result differs from the disjoint copy')
        return n, None
    if kind == 'memJoin':
        for c1 in range(0, 7):
            for c2 in range(0, 7):
                for s1 in range(0, 20 - c1 + 1, 1 if c1 + c2 < 9 else 3):
                    for s2 in range(0, 20 - c2 + 1, 1 if c1 + c2 < 9 else 3):
                        for d in range(0, 20 - c1 - c2 + 1):
                            with vf.Arena(L) as A:
                                a = A.buf(bytes(range(1, 21)))
                                src = a.get()
                                want = bytearray(src); want[d:d + c1 + c2] = src[s1:s1 + c1] + src[s2:s2 + c2]
                                L.call('memJoin', a.addr + d, a.addr + s1, c1, a.addr + s2, c2)
                                n += 1
                                if a.get() != bytes(want):
                                    return n, ({'c1': c1, 'c2': c2, 's1': s1, 's2': s2, 'dest': d}, 'memJoin: result differs from joining disjoint copies')
        return n, None
    if kind == 'start':
        pre, kl = arg
        key = cat_belt.KEYS[kl]
        keep = L.sz(pre + '_keep', 10, 9) if pre == 'beltFMT' else L.sz(pre + '_keep')
        with vf.Arena(L) as A:
            st = A.buf(keep, 0); want = _bundle_run(L, A, pre, st, A.buf(key).addr, kl)
        for off in sorted(set([0, 1, 4, 8, 16, 32, keep // 2, keep - kl - 8, keep - kl])):
            if off < 0 or off + kl > keep:
                continue
            with vf.Arena(L) as A:
                st = A.buf(keep, 0); st.set(key, off)
                got = _bundle_run(L, A, pre, st, st.addr + off, kl)
                n += 1
                if got != want:
                    return n, ({'bundle': pre, 'keylen': kl, 'key_at_state_plus': off}, '%sStart with the key inside the state: results differ from a disjoint key' % pre)
        return n, None
    if kind == 'stepg':
        g = arg
        pre = g[:g.index('Step')]
        hl = {'beltMAC': 8, 'beltHash': 32, 'beltHMAC': 32, 'bashHash': 32}[pre]
        keep = L.sz(pre + '_keep')
        def prep(A):
            st = A.buf(keep, 0)
            if pre == 'beltMAC': L.call('beltMACStart', st, A.buf(cat_belt.KEYS[32]), 32); L.call('beltMACStepA', A.buf(cat_belt.data(21)), 21, st)
            elif pre == 'beltHash': L.call('beltHashStart', st); L.call('beltHashStepH', A.buf(cat_belt.data(45)), 45, st)
            elif pre == 'beltHMAC': L.call('beltHMACStart', st, A.buf(cat_belt.KEYS[32]), 32); L.call('beltHMACStepA', A.buf(cat_belt.data(45)), 45, st)
            else: L.call('bashHashStart', st, 128); L.call('bashHashStepH', A.buf(cat_belt.data(45)), 45, st)
            return st
        def get(A, st, addr, ln):
            if g.endswith('G2') or pre == 'bashHash':
                L.call(g, addr, ln, st)
            else:
                L.call(g, addr, st)
        lens = [hl] if not (g.endswith('G2') or pre == 'bashHash') else sorted(set([1, hl // 2, hl]))
        for ln in lens:
            with vf.Arena(L) as A:
                st = prep(A); o = A.buf(ln); get(A, st, o.addr, ln); want = o.get()
            for off in sorted(set([0, 1, 8, 16, 24, 32, 40, 64, keep // 2, keep - ln - 8, keep - ln])):
                if off < 0 or off + ln > keep:
                    continue
                with vf.Arena(L) as A:
                    st = prep(A); get(A, st, st.addr + off, ln); n += 1
                    if st.get(ln, off) != want:
                        return n, ({'fn': g, 'len': ln, 'mac_at_state_plus': off}, '%s with the result inside the state: value differs from a disjoint buffer' % g)
        return n, None
    if kind == 'keyexpand':
        for kl in (16, 24, 32):
            key = cat_belt.KEYS[kl]
            import belt as R
            for off in range(-kl, 33):
                with vf.Arena(L) as A:
                    a = A.buf(128, 0); a.set(key, 48 + off)
                    L.call('beltKeyExpand', a.addr + 48, a.addr + 48 + off, kl); n += 1
                    if a.get(32, 48) != R.key_expand(key):
                        return n, ({'keylen': kl, 'key_minus_key_': off}, 'beltKeyExpand with overlapping key/key_ differs from the disjoint result')
                if off % 4 == 0:
                    with vf.Arena(L) as A:
                        a = A.buf(128, 0); a.set(key, 48 + off)
                        L.call('beltKeyExpand2', a.addr + 48, a.addr + 48 + off, kl); n += 1
                        if a.get(32, 48) != R.key_expand(key):
                            return n, ({'keylen': kl, 'key_minus_key_': off, 'fn': 'beltKeyExpand2'}, 'beltKeyExpand2 with overlapping buffers differs from the disjoint result')
        return n, None
    if kind == 'der':
        # derEnc(der, tag, val, len): der and val may overlap
        for ln in (0, 1, 5, 127, 128, 200):
            val = cat_belt.data(ln, 3)
            with vf.Arena(L) as A:
                o = A.buf(ln + 8, 0); cnt = L.sz('derEnc', o, 0x04, A.buf(val) if ln else A.buf(1), ln); want = o.get(cnt)
            for off in range(-(ln + 8), ln + 9):
                with vf.Arena(L) as A:
                    B0 = ln + 16
                    a = A.buf(3 * ln + 64, 0); a.set(val, B0 + off)
                    c2 = L.sz('derEnc', a.addr + B0, 0x04, a.addr + B0 + off, ln); n += 1
                    if c2 != cnt or a.get(cnt, B0) != want:
                        return n, ({'fn': 'derEnc', 'len': ln, 'val_minus_der': off}, 'derEnc with overlapping der/val differs from the disjoint result')
        return n, None
    if kind == 'der2':
        # typed DER helpers whose headers allow val to overlap der: T{UINT,BIT,PSTR}Enc, T{UINT,BIT,OCT,PSTR}Dec(2)
        def vals(ln):
            return [cat_belt.data(ln, 3), b'\xff' * ln, bytes([1] * (ln - 1) + [0x80]) if ln else b'', bytes(ln - 1) + b'\x01' if ln else b'']
        def enc_disjoint(A, f, tag, v, arg):
            o = A.buf(len(v) + 16, 0)
            c = L.sz(f, o, tag, A.buf(v) if v else A.buf(1), *arg)
            return c, (o.get(c) if c != vf.SIZE_MAX else None)
        for f, tag, lens in (('derTUINTEnc', 0x02, (1, 2, 5, 17, 33, 127, 128)), ('derTBITEnc', 0x03, (1, 2, 5, 17, 33, 127)), ('derTPSTREnc', 0x13, (1, 2, 5, 17, 33, 127))):
            if not L.has(f) or f != arg: continue
            for ln in lens:
                for v in vals(ln):
                    if f == 'derTUINTEnc':
                        arg = (ln,); raw = v
                    elif f == 'derTBITEnc':
                        arg = (8 * ln - 3,); raw = v
                    else:
                        raw = bytes((x % 26) + 65 for x in v) + b'\0'; arg = ()
                    with vf.Arena(L) as A:
                        cnt, want = enc_disjoint(A, f, tag, raw, arg)
                    if cnt == vf.SIZE_MAX:
                        continue
                    for off in range(-(len(raw) + 8), len(raw) + 9):
                        with vf.Arena(L) as A:
                            B0 = len(raw) + 16
                            a = A.buf(3 * len(raw) + 64, 0); a.set(raw, B0 + off)
                            c2 = L.sz(f, a.addr + B0, tag, a.addr + B0 + off, *arg); n += 1
                            if c2 != cnt or a.get(cnt, B0) != want:
                                return n, ({'fn': f, 'len': ln, 'val_minus_der': off, 'val': raw.hex()}, '%s with overlapping der/val differs from the disjoint result' % f)
        # decoders: val may overlap der
        for f, enc, tag, lens in (('derTUINTDec', 'derTUINTEnc', 0x02, (1, 2, 5, 17, 33, 127, 128)), ('derTUINTDec2', 'derTUINTEnc', 0x02, (1, 5, 33, 128)),
                                  ('derTBITDec', 'derTBITEnc', 0x03, (1, 2, 5, 17, 33, 127)), ('derTBITDec2', 'derTBITEnc', 0x03, (1, 5, 33)),
                                  ('derTOCTDec', 'derEnc', 0x04, (0, 1, 5, 17, 33, 127, 128)), ('derTOCTDec2', 'derEnc', 0x04, (1, 5, 33, 128)),
                                  ('derTPSTRDec', 'derTPSTREnc', 0x13, (1, 2, 5, 17, 33))):
            if not (L.has(f) and L.has(enc)) or f != arg: continue
            for ln in lens:
                for v in vals(ln)[:3]:
                    bits = 8 * ln - 3
                    if enc == 'derTUINTEnc':
                        v = v[:-1] + bytes([v[-1] | 1]) if ln else v      # exact length for Dec2: top octet non-zero
                        raw = v; earg = (ln,); outn = ln
                    elif enc == 'derTBITEnc':
                        raw = v; earg = (bits,); outn = ln
                    elif enc == 'derEnc':
                        raw = v; earg = (ln,); outn = ln
                    else:
                        raw = bytes((x % 26) + 65 for x in v) + b'\0'; earg = (); outn = ln + 1
                    with vf.Arena(L) as A:
                        cnt, code = enc_disjoint(A, enc, tag, raw, earg)
                    if cnt == vf.SIZE_MAX:
                        continue
                    two = f.endswith('2')
                    def call(valaddr, deraddr, lenbuf):
                        if two:
                            return L.sz(f, valaddr, deraddr, cnt, tag, bits if enc == 'derTBITEnc' else ln)
                        return L.sz(f, valaddr, lenbuf, deraddr, cnt, tag)
                    with vf.Arena(L) as A:
                        o = A.buf(outn + 8, 0xEE); d = A.buf(code); lb = A.buf(8, 0)
                        r0 = call(o.addr, d.addr, lb); want = (r0, o.get(outn), lb.get())
                    for off in range(-(outn + 8), cnt + 9):
                        with vf.Arena(L) as A:
                            B0 = outn + 16
                            a = A.buf(B0 + cnt + outn + 32, 0xEE); a.set(code, B0); lb = A.buf(8, 0)
                            r = call(a.addr + B0 + off, a.addr + B0, lb); n += 1
                            got = (r, a.get(outn, B0 + off), lb.get())
                            if got != want:
                                return n, ({'fn': f, 'len': ln, 'val_minus_der': off, 'der': code.hex()}, '%s with val overlapping der: (ret, val, len) = %s, disjoint buffers give %s' % (f, (got[0], got[1].hex()[:40], got[2].hex()), (want[0], want[1].hex()[:40], want[2].hex())))
                    if not two:
                        # the len output may overlap der as well (val kept disjoint)
                        for off in range(-7, cnt):
                            with vf.Arena(L) as A:
                                a = A.buf(cnt + 32, 0xEE); a.set(code, 8); o = A.buf(outn + 8, 0xEE)
                                r = L.sz(f, o.addr, a.addr + 8 + off, a.addr + 8, cnt, tag); n += 1
                                got = (r, o.get(outn), a.get(8, 8 + off))
                                if got != want:
                                    return n, ({'fn': f, 'len': ln, 'lenptr_minus_der': off, 'der': code.hex()}, '%s with the len output overlapping der: (ret, val, len) = %s, disjoint buffers give %s' % (f, (got[0], got[1].hex()[:40], got[2].hex()), (want[0], want[1].hex()[:40], want[2].hex())))
        return n, None
    return 0, None

def fn_cases(tier):
    k32, k16 = cat_belt.KEYS[32], cat_belt.KEYS[16]
    iv = cat_belt.IV0
    d = cat_belt.data
    out = []
    for n in (16, 17, 33, 48):
        for f in ('beltCBCEncr', 'beltCBCDecr', 'beltCFBEncr', 'beltCFBDecr', 'beltCTR'):
            out.append((f, dict(src=d(n), key=k32, iv=iv)))
        out.append(('beltMAC', dict(src=d(n), key=k32)))
        out.append(('beltHash', dict(src=d(n))))
        out.append(('beltHMAC', dict(src=d(n), key=d(40, 3))))
        out.append(('bashHash', dict(l=128, src=d(n))))
        for pre in ('beltDWP', 'beltCHE'):
            out.append((pre + 'Wrap', dict(src1=d(n), src2=d(9, 3), key=k32, iv=iv)))
            import belt as R
            y, t = (R.dwp_wrap if pre == 'beltDWP' else R.che_wrap)(k32, iv, d(n), d(9, 3))
            out.append((pre + 'Unwrap', dict(src1=y, src2=d(9, 3), mac=t, key=k32, iv=iv)))
        for hdr in (None, bytes(range(16))):
            out.append(('beltKWPWrap', dict(src=d(n), header=hdr, key=k32)))
            import belt as R
            out.append(('beltKWPUnwrap', dict(src=R.kwp_wrap(k32, d(n), hdr), header=hdr, key=k32)))
    for n in (16, 32, 48):
        for f in ('beltBDEEncr', 'beltBDEDecr'):
            out.append((f, dict(src=d(n), key=k32, iv=iv)))
    for n in (32, 48, 64):
        for f in ('beltSDEEncr', 'beltSDEDecr'):
            out.append((f, dict(src=d(n), key=k32, iv=iv)))
    for cnt in (2, 9, 21):
        src = [(7 * i + 1) % 10 for i in range(cnt)]
        for f in ('beltFMTEncr', 'beltFMTDecr'):
            out.append((f, dict(mod=10, src=src, key=k32, iv=iv)))
            out.append((f, dict(mod=65536, src=[(i * 7919) % 65536 for i in range(cnt)], key=k16, iv=None)))
    for (n, m) in ((32, 32), (32, 16), (24, 16)):
        out.append(('beltKRP', dict(m=m, src=cat_belt.KEYS[n], level=bytes(range(12)), header=bytes(range(16)))))
    return out

# overlap descriptors for functions registered without one
cat.CAT['beltKRP'].overlap = dict(dest='dest', src='src', aux=['level', 'header'])

def run(tier):
    chk = vf.Check(PROP, tier, deadline_s=900 if tier == 'quick' else 3600)
    own = fn_cases(tier)
    # overlap-tolerant functions declared by the other catalogue modules (e.g. dstuPointCompress / dstuPointRecover): up to 8
    # of their admissible corpus cases each (evenly spread, first and last included)
    import corpora
    named = set(f for f, _ in own)
    by = {}
    for f, c in corpora.all_cases('quick'):
        fn = cat.CAT[f]
        if fn.overlap and f not in named and getattr(fn, 'impl', None) is None and (fn.ref is None or (fn.ref(c) or {}).get('ret', 0) == 0):
            by.setdefault(f, []).append((f, c))
    for f, cs in sorted(by.items()):
        step = max(1, (len(cs) - 1) // 7)
        own += cs[::step][:8] + cs[-1:]
    jobs = [(f, c, tier) for f, c in own if cat.CAT[f].overlap]
    res = vf.pmap(check_fn_case, jobs, case_timeout=600)
    total = 0
    for (f, c, _), r in zip(jobs, res):
        key = '%s:%s' % (f, cat.short(c))
        rec = {'cfg': CFG, 'kind': 'fn', 'fn': f, 'case': cat.enc_case(c)}
        if isinstance(r, dict):
            chk.violation(key, rec, '%s: %s' % (f, str(r)[:500])); continue
        n, viol = r
        total += n
        chk.outcome(f)
        if viol:
            rec['placement'] = viol[0]
            chk.violation(f + ':overlap', rec, '%s: %s; placement relative to src: %s  [%s]' % (f, viol[1], viol[0], cat.short(c)))
    chk.part('high_level_functions', states=total, transitions=total, traces_validated_against_impl=total, evaluations=total, functions=len(set(j[0] for j in jobs)))
    chk.sample({'fn': 'beltCBCEncr', 'len': 17, 'placement': {'src': 0, 'dest': -5, 'iv': 'dest+8'}})
    sj = special_jobs(tier)
    sres = vf.pmap(special, sj, case_timeout=900)
    stot = 0
    for j, r in zip(sj, sres):
        key = 'special:%s:%s' % (j[0], j[1])
        rec = {'cfg': CFG, 'kind': 'special', 'job': [j[0], list(j[1]) if isinstance(j[1], tuple) else j[1]]}
        if isinstance(r, dict):
            chk.violation(key, rec, '%s: %s' % (key, str(r)[:500])); continue
        n, viol = r
        stot += n
        chk.outcome('special ' + j[0])
        if viol:
            chk.violation(key, rec, '%s  %s' % (viol[1], viol[0]))
    chk.part('mem_start_stepg_der', states=stot, transitions=stot, traces_validated_against_impl=stot, evaluations=stot)
    chk.sample({'memJoin': 'all (count1,count2) in 0..6^2 x all positions of src1, src2, dest in a 20-octet arena'})
    chk.assumptions += ['input/input overlaps and the combinations each header forbids (DWP/CHE dest x mac, FMT dest x iv) are not generated',
                        'oracle is relational (same code, disjoint buffers): no reference model can introduce a false alarm']
    return chk.finish('C11', 'function x len in {16,17,33,48,...} x EVERY offset dest-src in [-(len+16), len+16] x each auxiliary input outside / at dest+0 / dest+len/2 / '
                      'dest+len-size; memMove/memJoin complete on a 20-octet arena; key-in-state for every *Start; result-in-state for every StepG the headers list')

def replay(rec):
    if rec['kind'] == 'fn':
        n, viol = check_fn_case((rec['fn'], cat.dec_case(rec['case']), 'thorough'))
        return viol[1] + ' ' + str(viol[0]) if viol else None
    j = rec['job']
    n, viol = special((j[0], tuple(j[1]) if isinstance(j[1], list) else j[1]))
    return (viol[1] + ' ' + str(viol[0])) if viol else None
