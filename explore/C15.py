"""C15 -- secret state is wiped before its memory is released.
E4 monitor at the deallocator (link-time --wrap of free/realloc): at the moment a block is handed back the wrapper copies
it.  For every secret-taking high-level call of the corpora x every exit (success, authentication failure, each
allocation-fault index): no released block may contain an 8-octet window of the caller's secret, of its expanded
form (belt key schedule, HMAC ipad/opad blocks, hashed long key) or of the secret output."""
import ctypes, json, os, subprocess, sys, tempfile, struct, pickle
import vf, cat, cat_belt, common, corpora
import C07, C09

PROP = 'C15'
CFG = 'asan'
# blob page size 1 (exact size, under ASan), 8 (page arithmetic of blobClose/blobResize exercised on every size class) and the
# shipped 1024: a wipe that skips the tail of the last page shows only when size + header meets a page boundary
CFGS = {'quick': ['asan', 'pg8'], 'thorough': ['asan', 'pg8', 'rel']}
SNAP = 1 << 18

def needles(fname, case, res):
    """8-octet windows that must not survive in released memory: {window: label}"""
    import belt as R
    fn = cat.CAT[fname]
    out = {}
    def add(b, label):
        b = bytes(b)
        if len(set(b)) <= 2:        # constant patterns (all-zero keys etc.) cannot be told from wiped memory
            return
        for i in range(0, len(b) - 7):
            w = b[i:i + 8]
            if len(set(w)) > 3:
                out.setdefault(w, '%s[%d..%d)' % (label, i, i + 8))
    for name in fn.secrets:
        v = case.get(name)
        if not isinstance(v, (bytes, bytearray)) or len(v) < 8:
            continue
        add(v, name)
        if fn.group == 'belt' and name == 'key' and len(v) in (16, 24, 32) and fname not in ('beltHMAC',):
            add(R.key_expand(v), 'expanded ' + name)
        if fname in ('beltHMAC', 'beltPBKDF2') or (fn.group == 'botp'):
            k = bytes(v)
            if len(k) > 32:
                k = R.hash(k); add(k, 'hashed ' + name)
            k = k.ljust(32, b'\0')
            add(bytes(a ^ 0x36 for a in k), name + '^ipad'); add(bytes(a ^ 0x5C for a in k), name + '^opad')
    if hasattr(fn, 'derived'):
        for label, b in fn.derived(case, res):
            add(b, label)
    return out

def run_monitored(item):
    """-> list of findings (strings); executes success exit and every allocation-fault exit"""
    fname, case = item[0], item[1]
    plain = item[2] if len(item) > 2 else None
    L = common.lib(CFG)
    snap = (ctypes.c_ubyte * SNAP)()
    stats = (ctypes.c_long * 8)()
    def once(fail_at, sticky=False):
        L.dll.vh_mon_start(ctypes.c_long(0 if sticky else fail_at), snap, ctypes.c_size_t(SNAP))
        if sticky:
            L.dll.vh_mon_sticky(ctypes.c_long(fail_at))
        try:
            res = common.run_fn(L, fname, case, fill=0x00)
        finally:
            L.dll.vh_mon_stop(stats); L.dll.vh_mon_reap()
        raw = bytes(snap[:stats[4]])
        blocks = []
        off = 0
        while off < len(raw):
            n = struct.unpack_from('<Q', raw, off)[0]; blocks.append(raw[off + 8:off + 8 + n]); off += 8 + n
        return res, blocks, list(stats)
    res, blocks, st = once(0)
    nd = needles(fname, case, res)
    if plain and len(set(plain)) > 2:
        # a failing unwrap of an AUTHENTIC token (wrong expected header, wrong side input) has decrypted the real content: it is a secret
        # of this call although the caller never receives it
        for i in range(0, len(plain) - 7):
            w = bytes(plain[i:i + 8])
            if len(set(w)) > 3:
                nd.setdefault(w, 'content protected by the presented token[%d..%d)' % (i, i + 8))
    found = []
    nblocks = len(blocks)
    nsticky = 0
    def scan(blocks, exitname):
        for bi, b in enumerate(blocks):
            for i in range(0, len(b) - 7):
                w = b[i:i + 8]
                if w in nd:
                    found.append('%s exit: released block %d (%d octets) holds %s at offset %d' % (exitname, bi, len(b), nd[w], i))
                    return
    if st[5]:
        found.append('HARNESS: snapshot buffer overflow')
    scan(blocks, 'ret=%#x' % res['ret'])
    for i in range(1, st[0] + 1):
        r2, b2, s2 = once(i)
        nblocks += len(b2)
        scan(b2, 'allocation %d/%d failed (ret=%#x)' % (i, st[0], r2['ret']))
        if i < st[0]:          # memory stays exhausted from the i-th point on: the exit taken when the clean-up path itself cannot allocate
            r2, b2, s2 = once(i, sticky=True)
            nblocks += len(b2); nsticky += 1
            scan(b2, 'every allocation from %d/%d on failed (ret=%#x)' % (i, st[0], r2['ret']))
    # oracle 2 (the statement literally): what is released must not depend on the secret.  Two executions forked from
    # the same process state (same addresses, same memWipe counter) that differ only in the secret inputs: every octet
    # of a released block that differs is secret-derived; unless it is part of the call's public output it is a violation.
    ndiff = 0
    if res['ret'] == 0:
        case2 = perturbed(fname, case)
        if case2 is not None:
            a = forked(lambda: once2(L, fname, case, snap, stats)); b = forked(lambda: once2(L, fname, case2, snap, stats))
            if a and b and a[0]['ret'] == b[0]['ret'] == 0 and [len(x) for x in a[1]] == [len(x) for x in b[1]]:
                ndiff = 1
                pub = b''.join(v for v in a[0].values() if isinstance(v, bytes)) + b''.join(v for k, v in case.items() if isinstance(v, (bytes, bytearray)) and k not in cat.CAT[fname].secrets)
                for bi, (x, y) in enumerate(zip(a[1], b[1])):
                    if x == y:
                        continue
                    d = [i for i in range(len(x)) if x[i] != y[i]]
                    lo, hi = d[0], d[-1] + 1
                    # a window of the differing region that is not public output
                    secretish = None
                    for i in range(max(0, lo - 7), min(hi, len(x) - 7)):
                        w = x[i:i + 8]
                        if any(lo <= j < hi for j in range(i, i + 8)) and w not in pub:
                            secretish = i; break
                    if secretish is None and hi - lo < 8:
                        secretish = lo if x[lo:hi] not in pub else None
                    if secretish is not None:
                        found.append('success exit: released block %d (%d octets) differs between two runs that differ only in %s: %d secret-dependent octet(s) in [%d,%d) that are not part of the output (e.g. offset %d: %s)'
                                     % (bi, len(x), '/'.join(cat.CAT[fname].secrets), len(d), lo, hi, secretish, x[secretish:secretish + 8].hex()))
                        break
    return found[:3], nblocks, st[0] + 1 + nsticky + 2 * ndiff, len(nd)

def run_overlap(item):
    """the success exit again, under the buffer placements of C11 (dest against src at every offset, auxiliary inputs inside / straddling
    the output): overlap-specific code paths (temporary copies made only when buffers collide) must not leave the secret in released memory"""
    import C11
    fname, case = item
    fn = cat.CAT[fname]
    L = common.lib(CFG)
    snap = (ctypes.c_ubyte * SNAP)()
    stats = (ctypes.c_long * 8)()
    want = cat.run(L, fn, case)
    nd = needles(fname, case, want)
    found = []; n = 0; nblocks = 0
    with vf.Arena(L) as A:
        arena = A.buf(C11.ARENA, 0x5C)
        ov = fn.overlap; k = 0
        for pl in C11.placements(fn, case, 'quick'):
            if not C11.valid_placement(fn, case, pl):
                continue
            # quick selection of C11's list: dest - src in {0, +-1, +-8, +-16, +-32} with every auxiliary position, every 4th of the rest
            delta = pl[ov['dest']] - pl[ov['src']]; k += 1
            if not (abs(delta) in (0, 1, 8, 16, 32) or (len(pl) == 2 and k % 4 == 0)):
                continue
            n += 1
            C11.ctypes_fill(arena)
            place = {name: (arena, off) for name, off in pl.items()}
            L.dll.vh_mon_start(ctypes.c_long(0), snap, ctypes.c_size_t(SNAP))
            try:
                res = cat.run(L, fn, case, place=place, A=A)
            finally:
                L.dll.vh_mon_stop(stats); L.dll.vh_mon_reap()
            raw = bytes(snap[:stats[4]]); off = 0; bi = 0
            while off < len(raw):
                ln = struct.unpack_from('<Q', raw, off)[0]; b = raw[off + 8:off + 8 + ln]; off += 8 + ln; nblocks += 1
                for i in range(0, len(b) - 7):
                    if b[i:i + 8] in nd:
                        rel = {k: v - C11.BASE for k, v in pl.items()}
                        found.append('placement %s (offsets relative to src): released block %d (%d octets) holds %s at offset %d' % (rel, bi, len(b), nd[b[i:i + 8]], i))
                        break
                bi += 1
                if found:
                    break
            if found:
                break
    return found, nblocks, n, len(nd)

_arena = None
def once2(L, fname, case, snap, stats):
    """one monitored execution whose library allocations are served from a private bump arena (identical addresses in
    every execution forked from the same parent; memWipe's pattern depends on addresses)"""
    global _arena
    if _arena is None:
        _arena = (ctypes.c_ubyte * (1 << 20))()
    L.dll.vh_mon_arena(_arena, ctypes.c_size_t(1 << 20))
    L.dll.vh_mon_start(ctypes.c_long(0), snap, ctypes.c_size_t(SNAP))
    try:
        res = common.run_fn(L, fname, case, fill=0x00)
    finally:
        L.dll.vh_mon_stop(stats); L.dll.vh_mon_reap(); L.dll.vh_mon_arena(None, ctypes.c_size_t(0))
    raw = bytes(snap[:stats[4]]); blocks = []; off = 0
    while off < len(raw):
        n = struct.unpack_from('<Q', raw, off)[0]; blocks.append(raw[off + 8:off + 8 + n]); off += 8 + n
    return res, blocks

def perturbed(fname, case):
    """the same case with every secret input replaced by another value of the same length (the top octet is kept so that
    range-checked private keys stay in range); None if there is nothing to perturb"""
    fn = cat.CAT[fname]
    c2 = dict(case); ch = False
    for name in fn.secrets:
        v = case.get(name)
        if isinstance(v, (bytes, bytearray)) and len(v) >= 8:
            m = bytearray(v)
            for i in range(len(m) - 1):
                m[i] ^= 0x5A
            if hasattr(fn, 'fix_secret'):
                m = bytearray(fn.fix_secret(name, bytes(m), case))
            c2[name] = bytes(m); ch = True
    return c2 if ch else None

def forked(f):
    """run f() in a forked child (so both differential runs start from the same process state); -> result or None"""
    r, w = os.pipe()
    pid = os.fork()
    if pid == 0:
        os.close(r)
        try:
            data = pickle.dumps(f())
        except BaseException:
            data = pickle.dumps(None)
        with os.fdopen(w, 'wb') as o:
            o.write(data)
        vf.cov_dump()
        os._exit(0)
    os.close(w)
    with os.fdopen(r, 'rb') as i:
        data = i.read()
    os.waitpid(pid, 0)
    try:
        return pickle.loads(data)
    except Exception:
        return None

def cases_for(tier):
    cs = [c for c in corpora.all_cases('quick') if cat.CAT[c[0]].secrets and cat.CAT[c[0]].ret == 'err'
          and (getattr(cat.CAT[c[0]], 'impl', None) is None or getattr(cat.CAT[c[0]], 'faultable', False))]
    # error exits reached after the allocation: authentication failures
    # thinned per (function, altered field) class, the first member of every class always kept: classes such as
    # 'authentic token, other expected header' have one or two members only
    if tier == 'quick':
        cs = C07.thin(cs)
    seen = {}
    for f, c, plain, field, bit in C09.auth_cases('quick'):
        k = (f, field); seen[k] = seen.get(k, 0) + 1
        if cat.CAT[f].secrets and (seen[k] - 1) % (7 if tier == 'quick' else 2) == 0:
            cs.append((f, c, plain))
    return cs

def sub(tier, what, out):
    global CFG
    CFG = what
    vf.need_env(CFG)
    cs = cases_for(tier)
    res = vf.pmap(run_monitored, cs, case_timeout=300)
    viol = []; nblocks = 0; nruns = 0; nneedles = 0; fns = set()
    for item, r in zip(cs, res):
        f, c = item[0], item[1]
        rec = {'cfg': CFG, 'kind': 'wipe', 'fn': f, 'case': cat.enc_case(c)}
        if len(item) > 2 and item[2]:
            rec['plain'] = bytes(item[2]).hex()
        if isinstance(r, dict) and CFG != 'asan':
            continue          # crashes are C07's / C09's business and are judged there under the sanitizer
        if isinstance(r, dict):
            k, m = C07.classify(r.get('stderr', '') or r.get('harness_error', '') or r.get('crash', ''))
            viol.append({'key': 'wipe:%s:%s' % (k, f), 'rec': rec, 'msg': '%s: %s [%s]' % (f, m, cat.short(c))}); continue
        found, nb, nr, nn = r
        nblocks += nb; nruns += nr; nneedles += nn; fns.add(f)
        for m in found:
            what = m.split(' holds ')[1].split('[')[0] if ' holds ' in m else 'x'
            viol.append({'key': 'wipe:%s:%s' % (f, what.strip()), 'rec': rec, 'msg': '%s: %s  [%s]' % (f, m, cat.short(c))})
    # overlap placements (C11's enumeration) of the secret-taking functions whose headers allow overlapping buffers
    oc = []
    seenf = {}
    for f, c in corpora.all_cases('quick'):
        fn = cat.CAT[f]
        if getattr(fn, 'overlap', None) and fn.secrets and getattr(fn, 'impl', None) is None and fn.ref is not None and seenf.get(f, 0) < (2 if tier == 'quick' else 6):
            sz = sum(len(v) for v in c.values() if isinstance(v, (bytes, bytearray)))
            if 16 <= sz <= 160 and (fn.ref(c) or {}).get('ret') == 0 and all(c.get(a) is not None for a in fn.overlap.get('aux', [])):
                seenf[f] = seenf.get(f, 0) + 1; oc.append((f, c))
    res = vf.pmap(run_overlap, oc, case_timeout=600)
    nov = 0
    for (f, c), r in zip(oc, res):
        rec = {'cfg': CFG, 'kind': 'wipe-overlap', 'fn': f, 'case': cat.enc_case(c)}
        if isinstance(r, dict):
            if CFG == 'asan':
                k, m = C07.classify(r.get('stderr', '') or r.get('harness_error', '') or r.get('crash', ''))
                viol.append({'key': 'wipe-overlap:%s:%s' % (k, f), 'rec': rec, 'msg': '%s under overlap placements: %s [%s]' % (f, m, cat.short(c))})
            continue
        found, nb, n, nn = r
        nblocks += nb; nruns += n; nov += n; fns.add(f)
        for m in found:
            viol.append({'key': 'wipe-overlap:%s' % f, 'rec': rec, 'msg': '%s: %s  [%s]' % (f, m, cat.short(c))})
    json.dump({'viol': viol, 'blocks': nblocks, 'runs': nruns, 'calls': len(cs), 'needles': nneedles, 'fns': sorted(fns), 'overlap_runs': nov, 'overlap_calls': len(oc)}, open(out, 'w'))
    return 0

def run(tier):
    chk = vf.Check(PROP, tier, level='fault_enumeration', deadline_s=1800 if tier == 'quick' else 7200)
    for cfg in CFGS[tier]:
        d, err = vf.run_sub(PROP, tier, cfg, prefix='c15')
        if d is None:
            chk.harness_error('sub-exploration %s failed: %s' % (cfg, err))
            continue
        for v in d['viol']:
            chk.violation(v['key'], v['rec'], v['msg'] + ' [cfg %s]' % cfg)
        chk.part('released_blocks_' + cfg, states=d['blocks'], transitions=d['runs'], traces_validated_against_impl=d['runs'], evaluations=d['runs'],
                 distinct_nontrivial=d['calls'], functions=len(d['fns']), needle_windows=d['needles'], overlap_placement_runs=d.get('overlap_runs', 0),
                 overlap_placement_calls=d.get('overlap_calls', 0))
        for f in d['fns']:
            chk.outcome(f)
    chk.sample({'fn': 'beltCBCEncr', 'exits': ['success', 'allocation 1/1 failed'], 'needles': ['key windows', 'expanded key windows'], 'blob page sizes': CFGS[tier]})
    chk.sample({'differential': 'two executions forked from one process state, library allocations served from a private arena (identical addresses), secrets perturbed: released blocks must be identical except for octets that are part of the public output'})
    chk.assumptions += ['blocks are inspected at the moment they are passed to free()/realloc() (link-time --wrap); realloc always moves',
                        'needles: every 8-octet window (with > 3 distinct octet values) of each secret input, of the belt key schedule, of HMAC ipad/opad blocks and hashed long keys, '
                        'and of module-specific derived secrets; constant keys (all-zero / all-ones) are skipped because they cannot be told from wiped memory',
                        'differential oracle on the success exit only; both runs must return ERR_OK and release blocks of equal sizes, otherwise the pair is not compared',
                        'blob page sizes 1 and 8 through the guarded hook BEE2_VERIF_BLOB_PAGE_SIZE, 1024 = the shipped value (thorough)']
    return chk.finish('C15', 'every secret-taking high-level call of the quick corpora x {success exit, authentication-failure exit, each allocation-fault exit} x blob page sizes: all blocks '
                      'released during the call are snapshotted at release time and scanned for the needle windows, and compared octet-wise between two runs that differ only in the secret; states = released blocks inspected')

def replay(rec):
    global CFG
    corpora.load_all()
    if rec.get('kind') == 'wipe-overlap':
        CFG = rec.get('cfg', 'asan')
        r = vf.pmap(run_overlap, [(rec['fn'], cat.dec_case(rec['case']))], nproc=1)[0]
        if isinstance(r, dict):
            return C07.classify(r.get('stderr', '') or r.get('crash', ''))[1]
        return r[0][0] if r[0] else None
    if rec.get('kind') != 'wipe':
        return None
    CFG = rec.get('cfg', 'asan')
    item = (rec['fn'], cat.dec_case(rec['case'])) + ((bytes.fromhex(rec['plain']),) if rec.get('plain') else ())
    r = vf.pmap(run_monitored, [item], nproc=1)[0]
    if isinstance(r, dict):
        return C07.classify(r.get('stderr', '') or r.get('crash', ''))[1]
    return r[0][0] if r[0] else None
