"""C14 -- regularity.  (A) SAFE == FAST for every pair the headers declare, over a structured operand alphabet and
every length 0..N;  (B) E5 control-flow trace enumeration: for a fixed public shape (lengths, modulus) the shipped
machine code of every regular routine / verification entry point / symmetric primitive is executed under x86
single-step on EVERY tuple of a secret-value alphabet and the set of distinct instruction-address traces must have
size 1 (verification entry points: one trace per public outcome accept / reject)."""
import os, re, sys, time, ctypes, itertools, subprocess
import vf, build as vbuild

PROP = 'C14'
_libs = {}
def lib(cfg):
    if cfg not in _libs:
        L = vf.Lib(cfg)
        lo = hi = None
        for line in open('/proc/self/maps'):
            if L.path in line:
                a, b = line.split()[0].split('-')
                a, b = int(a, 16), int(b, 16)
                lo = a if lo is None else min(lo, a); hi = b if hi is None else max(hi, b)
        L.img = (lo, hi)
        L.logcap = 1 << 16
        L.log = (ctypes.c_uint64 * L.logcap)()
        L.dll.vh14_setup(ctypes.c_uint64(lo), ctypes.c_uint64(hi), L.log, ctypes.c_size_t(L.logcap))
        L.dll.vh14_call.restype = ctypes.c_uint64
        _libs[cfg] = L
    return _libs[cfg]

def tcall(L, name, args, traced=True):
    """-> (ret, (hash, steps, img_hash, img_steps, nalloc))"""
    a = (ctypes.c_uint64 * 6)()
    for i, v in enumerate(args):
        a[i] = (v.addr if isinstance(v, vf.Buf) else (0 if v is None else int(v))) & vf.SIZE_MAX
    out = (ctypes.c_uint64 * 5)()
    r = L.dll.vh14_call(ctypes.c_void_p(L.addr(name)), a, out, ctypes.c_int(1 if traced else 0))
    return r, tuple(out)

# --------------------------------------------------------------------------------------------- the 33 pairs
def pairs_from_headers():
    """SAFE/FAST pairs as the sources declare them (a 34th pair is picked up automatically)"""
    names = set()
    for root, _, files in os.walk(os.path.join(vbuild.REPO, 'src')):
        for f in files:
            if f.endswith('.c'):
                names |= set(re.findall(r'\bFAST\((\w+)\)', open(os.path.join(root, f), errors='replace').read()))
    return sorted(names)

W = 8
def wpat(n, wb):
    """value patterns of an n-word operand (ints)"""
    B = 1 << (8 * wb)
    full = (1 << (8 * wb * n)) - 1 if n else 0
    out = [0, full]
    if n:
        out += [1, full - 1, 1 << (8 * wb * n - 1), int.from_bytes(vf.filler('c14w%d' % n, wb * n), 'little')]
        for i in range(n):
            out.append(1 << (8 * wb * i)); out.append((B - 1) << (8 * wb * i))
        out.append(int.from_bytes(bytes([0x55]) * (wb * n), 'little'))
    return sorted(set(out))

def wpick(n, wb, k):
    """k patterns of wpat spread over the whole (sorted) list, the largest (all ones) always among them: a prefix of the sorted list
    would hold small values only and never an all-ones word under an incoming carry"""
    ps = wpat(n, wb)
    if len(ps) <= k:
        return ps
    idx = sorted(set([0, 1, len(ps) - 1, len(ps) - 2] + [round(i * (len(ps) - 1) / (k - 1)) for i in range(k)]))
    return [ps[i] for i in idx]

def mods(n, wb, odd=False, crand=False):
    B = 1 << (8 * wb)
    if n == 0:
        return []
    top = B ** n
    out = []
    if crand:
        if n < 2:
            return []
        return [top - 3, top - 59, top - (B - 1)]
    out += [top - 1, top - 59, (top >> 1) + 1, B ** (n - 1) + 1 if n > 1 else 3,
            int.from_bytes(vf.filler('c14m%d' % n, wb * n), 'little') | (1 << (8 * wb * n - 1)) | 1]
    if not odd:
        out += [top - 2, (top >> 1)] if top > 2 else []
    out = [m for m in out if m >= 2 and (m >> (8 * wb * (n - 1))) != 0 and (not odd or m & 1)]
    return sorted(set(out))

def modvals(m, n, wb):
    """values < m"""
    vs = {0, 1, m - 1, m - 2 if m > 2 else 0, (m - 1) // 2, (m + 1) // 2 if m > 2 else 0, m >> 1,
          int.from_bytes(vf.filler('c14v%d' % n, wb * n), 'little') % m}
    return sorted(v for v in vs if 0 <= v < m)

class R:
    """one routine: shapes(tier, wb) -> list of public shapes; tuples(shape, wb) -> secret tuples;
    run(L, A, shape, bufs, tup, name, traced) -> (result, trace)"""
    def __init__(self, name, shapes, tuples, prep, run, outcome=None, symbols=None):
        self.name, self.shapes, self.tuples, self.prep, self.run, self.outcome = name, shapes, tuples, prep, run, outcome
        self.symbols = symbols

ROUT = {}
def NS(tier): return list(range(0, 9)) if tier == 'quick' else list(range(0, 17))
def NS1(tier): return [n for n in NS(tier) if n >= 1]

def octs(count, tag):
    """pairs of octet strings of length count: equal, differing at every position (both directions), extremes"""
    base = vf.filler('c14o' + tag, count)
    out = [(base, base), (bytes(count), bytes(count)), (b'\xff' * count, b'\xff' * count)]
    for i in range(count):
        m = bytearray(base); m[i] ^= 0x01; out.append((base, bytes(m))); out.append((bytes(m), base))
        m = bytearray(base); m[i] ^= 0x80; out.append((base, bytes(m)))
    if count:
        out.append((bytes(count), b'\xff' * count)); out.append((b'\xff' * count, bytes(count)))
    return out

# ---- mem
def _mem2(name):
    cs = lambda tier, wb: [dict(count=c) for c in (list(range(0, 20)) + [31, 32, 33] if tier == 'quick' else range(0, 70))]
    def prep(L, A, sh): return (A.buf(sh['count']), A.buf(sh['count']))
    def run(L, A, sh, bufs, tup, sym, traced):
        bufs[0].set(tup[0]); bufs[1].set(tup[1])
        r, tr = tcall(L, sym, [bufs[0], bufs[1], sh['count']], traced)
        return ctypes.c_int32(r & 0xFFFFFFFF).value, tr
    ROUT[name] = R(name, cs, lambda sh, wb: octs(sh['count'], name), prep, run)
for _n in ('memEq', 'memCmp', 'memCmpRev'):
    _mem2(_n)

def _mem1(name, rep):
    cs = lambda tier, wb: [dict(count=c) for c in (list(range(0, 20)) + [31, 32, 33] if tier == 'quick' else range(0, 70))]
    def tuples(sh, wb):
        c = sh['count']
        out = [bytes(c), b'\xff' * c, b'\x5a' * c]
        for i in range(c):
            m = bytearray(c); m[i] = 1; out.append(bytes(m))
            m = bytearray(b'\x5a' * c); m[i] ^= 0x80; out.append(bytes(m))
        return [(t,) for t in out]
    def prep(L, A, sh): return (A.buf(sh['count']),)
    def run(L, A, sh, bufs, tup, sym, traced):
        bufs[0].set(tup[0])
        r, tr = tcall(L, sym, [bufs[0], sh['count'], 0x5a] if rep else [bufs[0], sh['count']], traced)
        return r & 0xFFFFFFFF, tr
    ROUT[name] = R(name, cs, tuples, prep, run)
_mem1('memIsZero', False); _mem1('memIsRep', True)

def _hex(name):
    cs = lambda tier, wb: [dict(count=c) for c in (range(0, 12) if tier == 'quick' else range(0, 40))]
    def tuples(sh, wb):
        out = []
        for a, b in octs(sh['count'], name):
            h = (b[::-1] if name.endswith('Rev') else b).hex()
            out.append((a, h.upper().encode())); out.append((a, h.lower().encode()))
        return out
    def prep(L, A, sh): return (A.buf(sh['count']), A.buf(2 * sh['count'] + 1))
    def run(L, A, sh, bufs, tup, sym, traced):
        bufs[0].set(tup[0]); bufs[1].set(tup[1] + b'\0')
        r, tr = tcall(L, sym, [bufs[0], bufs[1]], traced)
        return r & 0xFFFFFFFF, tr
    ROUT[name] = R(name, cs, tuples, prep, run)
_hex('hexEq'); _hex('hexEqRev')

# ---- uNN count zeros
def _clz(name, bits):
    def tuples(sh, wb):
        vs = {0, 1, (1 << bits) - 1, 1 << (bits - 1)}
        for i in range(bits):
            vs.add(1 << i); vs.add(((1 << bits) - 1) >> i); vs.add((((1 << bits) - 1) << i) & ((1 << bits) - 1))
        if bits == 16 and sh.get('full'):
            vs = set(range(1 << 16))
        return [(v,) for v in sorted(vs)]
    def run(L, A, sh, bufs, tup, sym, traced):
        r, tr = tcall(L, sym, [tup[0]], traced)
        return r, tr
    ROUT[name] = R(name, lambda tier, wb: [dict(full=(tier == 'thorough'))], tuples, lambda L, A, sh: (), run)
for _b in (16, 32, 64):
    _clz('u%dCLZ' % _b, _b); _clz('u%dCTZ' % _b, _b)

# ---- ww
def _wbuf(A, n, wb): return A.buf(max(n, 0) * wb)
def _setw(b, v, n, wb): b.set(int(v).to_bytes(n * wb, 'little'))
def _pairs(n, wb):
    ps = wpat(n, wb)
    out = [(a, a) for a in ps]
    base = ps[-1] if ps else 0
    B = 1 << (8 * wb)
    for i in range(n):
        out.append((base, base ^ (1 << (8 * wb * i)))); out.append((base ^ (1 << (8 * wb * i)), base))
        out.append((base, base ^ ((B >> 1) << (8 * wb * i))))
    out += [(ps[0], ps[1]), (ps[1], ps[0])] if len(ps) > 1 else []
    return out

def _ww2(name):
    def prep(L, A, sh): return (_wbuf(A, sh['n'], L.wbytes), _wbuf(A, sh['n'], L.wbytes))
    def run(L, A, sh, bufs, tup, sym, traced):
        _setw(bufs[0], tup[0], sh['n'], L.wbytes); _setw(bufs[1], tup[1], sh['n'], L.wbytes)
        r, tr = tcall(L, sym, [bufs[0], bufs[1], sh['n']], traced)
        return ctypes.c_int32(r & 0xFFFFFFFF).value, tr
    ROUT[name] = R(name, lambda tier, wb: [dict(n=n) for n in NS(tier)], lambda sh, wb: _pairs(sh['n'], wb), prep, run)
_ww2('wwEq'); _ww2('wwCmp')

def _wwcmp2():
    def shapes(tier, wb):
        ns = [0, 1, 2, 3, 5] if tier == 'quick' else list(range(0, 9))
        return [dict(n=n, m=m) for n in ns for m in ns]
    def tuples(sh, wb):
        return [(a, b) for a in wpick(sh['n'], wb, 7) for b in wpick(sh['m'], wb, 7)]
    def prep(L, A, sh): return (_wbuf(A, sh['n'], L.wbytes), _wbuf(A, sh['m'], L.wbytes))
    def run(L, A, sh, bufs, tup, sym, traced):
        _setw(bufs[0], tup[0], sh['n'], L.wbytes); _setw(bufs[1], tup[1], sh['m'], L.wbytes)
        r, tr = tcall(L, sym, [bufs[0], sh['n'], bufs[1], sh['m']], traced)
        return ctypes.c_int32(r & 0xFFFFFFFF).value, tr
    ROUT['wwCmp2'] = R('wwCmp2', shapes, tuples, prep, run)
_wwcmp2()

def _www(name, kind):
    def tuples(sh, wb):
        B = 1 << (8 * wb)
        ws = [0, 1, B - 1, 0x5a5a5a5a5a5a5a5a & (B - 1)]
        out = []
        for a in wpat(sh['n'], wb):
            for w in ws:
                out.append((a, w))
        for w in ws:     # a == w (IsW) / a == w repeated (IsRepW)
            out.append((w, w) if sh['n'] else (0, w))
            out.append((sum(w << (8 * wb * i) for i in range(sh['n'])), w))
        return out
    def prep(L, A, sh): return (_wbuf(A, sh['n'], L.wbytes),)
    def run(L, A, sh, bufs, tup, sym, traced):
        _setw(bufs[0], tup[0], sh['n'], L.wbytes)
        r, tr = tcall(L, sym, [bufs[0], sh['n'], tup[1]] if kind == 'w' else [bufs[0], sh['n']], traced)
        return ctypes.c_int32(r & 0xFFFFFFFF).value, tr
    ROUT[name] = R(name, lambda tier, wb: [dict(n=n) for n in NS(tier)], tuples, prep, run)
_www('wwCmpW', 'w'); _www('wwIsW', 'w'); _www('wwIsRepW', 'w'); _www('wwIsZero', '0')

# ---- zz predicates
def _zzsum():
    def tuples(sh, wb):
        n = sh['n']; M = 1 << (8 * wb * n)
        out = []
        ps = wpick(n, wb, 8)
        for a in ps:
            for b in ps:
                out.append(((a + b) % M, a, b))                 # equal modulo B^n (carry lost): header says a + b == c
                out.append((((a + b) % M) ^ 1 if n else 0, a, b))
        return out
    def prep(L, A, sh): return tuple(_wbuf(A, sh['n'], L.wbytes) for _ in range(3))
    def run(L, A, sh, bufs, tup, sym, traced):
        for b, v in zip(bufs, tup): _setw(b, v, sh['n'], L.wbytes)
        r, tr = tcall(L, sym, [bufs[0], bufs[1], bufs[2], sh['n']], traced)
        return r & 0xFFFFFFFF, tr
    ROUT['zzIsSumEq'] = R('zzIsSumEq', lambda tier, wb: [dict(n=n) for n in NS(tier)], tuples, prep, run)
    def tuples2(sh, wb):
        n = sh['n']; M = 1 << (8 * wb * n); B = 1 << (8 * wb)
        out = []
        for a in wpick(n, wb, 10):
            for w in (0, 1, B - 1):
                out.append(((a + w) % M if n else 0, a, w)); out.append((((a + w) % M) ^ 1 if n else 0, a, w))
        return out
    def run2(L, A, sh, bufs, tup, sym, traced):
        _setw(bufs[0], tup[0], sh['n'], L.wbytes); _setw(bufs[1], tup[1], sh['n'], L.wbytes)
        r, tr = tcall(L, sym, [bufs[0], bufs[1], sh['n'], tup[2]], traced)
        return r & 0xFFFFFFFF, tr
    ROUT['zzIsSumWEq'] = R('zzIsSumWEq', lambda tier, wb: [dict(n=n) for n in NS(tier)], tuples2,
                           lambda L, A, sh: tuple(_wbuf(A, sh['n'], L.wbytes) for _ in range(2)), run2)
_zzsum()

# ---- zz modular
def _zzmod(name, kind):
    odd = name == 'zzHalfMod'
    def shapes(tier, wb):
        return [dict(n=n, mod=m) for n in NS1(tier) for m in mods(n, wb, odd=odd)]
    def tuples(sh, wb):
        vs = modvals(sh['mod'], sh['n'], wb)
        B = 1 << (8 * wb)
        if kind == 'ab':
            return [(a, b) for a in vs for b in vs]
        if kind == 'aw':
            ws = [w for w in (0, 1, B - 1, B >> 1) if w < sh['mod']]
            return [(a, w) for a in vs for w in ws]
        return [(a,) for a in vs]
    def prep(L, A, sh):
        n, wb = sh['n'], L.wbytes
        m = _wbuf(A, n, wb); _setw(m, sh['mod'], n, wb)
        return (_wbuf(A, n, wb), _wbuf(A, n, wb), _wbuf(A, n, wb), m)
    def run(L, A, sh, bufs, tup, sym, traced):
        n, wb = sh['n'], L.wbytes
        c, a, b, m = bufs
        c.set(b'\xee' * (n * wb)); _setw(a, tup[0], n, wb)
        if kind == 'ab':
            _setw(b, tup[1], n, wb); args = [c, a, b, m, n]
        elif kind == 'aw':
            args = [c, a, tup[1], m, n]
        else:
            args = [c, a, m, n]
        r, tr = tcall(L, sym, args, traced)
        return c.get().hex(), tr
    ROUT[name] = R(name, shapes, tuples, prep, run)
for _n, _k in (('zzAddMod', 'ab'), ('zzSubMod', 'ab'), ('zzAddWMod', 'aw'), ('zzSubWMod', 'aw'), ('zzNegMod', 'a'),
               ('zzDoubleMod', 'a'), ('zzHalfMod', 'a')):
    _zzmod(_n, _k)

# ---- reductions
def _zzred(name, kind):
    def shapes(tier, wb):
        ns = [n for n in NS1(tier) if n >= (2 if 'Crand' in name else 1)]
        return [dict(n=n, mod=m) for n in ns for m in mods(n, wb, odd=('Mont' in name), crand=('Crand' in name))]
    def tuples(sh, wb):
        n, m = sh['n'], sh['mod']
        R_ = 1 << (8 * wb * n)
        lim = m * R_ if 'Mont' in name else R_ * R_          # documented domain of a
        vs = {0, 1, m - 1, m, m + 1, 2 * m, 3 * m, m * (R_ - 1), m * R_ - 1, (m - 1) * (m - 1), R_ - 1, R_, R_ * R_ - 1,
              (R_ - 1) * m, m * (R_ >> 1), int.from_bytes(vf.filler('c14r%d' % n, 2 * wb * n), 'little')}
        for k in (1, 2, 3, 5, 7, 1 << (8 * wb - 1), (1 << (8 * wb)) - 1, 1 << (8 * wb), (1 << (8 * wb)) + 1):
            vs.add(k * m)
        return [(v,) for v in sorted(vs) if 0 <= v < lim]
    def prep(L, A, sh):
        n, wb = sh['n'], L.wbytes
        m = _wbuf(A, n, wb); _setw(m, sh['mod'], n, wb)
        a = _wbuf(A, 2 * n, wb)
        st = A.buf(L.sz(name + '_deep', n))
        par = None
        if kind == 'barr':
            par = _wbuf(A, n + 2, wb)
            L.call('zzRedBarrStart', par, m, n, A.buf(L.sz('zzRedBarrStart_deep', n)))
        elif kind == 'mont':
            par = (-pow(sh['mod'], -1, 1 << (8 * wb))) % (1 << (8 * wb))
        return (a, m, st, par)
    def run(L, A, sh, bufs, tup, sym, traced):
        n, wb = sh['n'], L.wbytes
        a, m, st, par = bufs
        _setw(a, tup[0], 2 * n, wb)
        args = [a, m, n, st] if kind == 'plain' else [a, m, n, par, st]
        r, tr = tcall(L, sym, args, traced)
        return a.get(n * wb).hex(), tr
    ROUT[name] = R(name, shapes, tuples, prep, run)
_zzred('zzRedCrand', 'plain'); _zzred('zzRedBarr', 'barr'); _zzred('zzRedMont', 'mont'); _zzred('zzRedCrandMont', 'mont')

def red_expected(name, sh, tup, wb):
    n, m, a = sh['n'], sh['mod'], tup[0]
    if 'Mont' in name:
        return (a * pow(1 << (8 * wb * n), -1, m)) % m
    return a % m

# --------------------------------------------------------------------------------------------- verification entry points
KEYS = [bytes(range(32)), bytes(32), b'\xff' * 32, vf.filler('c14k', 32)]
def _flips(tag):
    """right tag + wrong in each octet (two masks) + all-zero / all-ones"""
    out = [('accept', tag)]
    for i in range(len(tag)):
        for msk in (0x01, 0x80):
            m = bytearray(tag); m[i] ^= msk; out.append(('reject', bytes(m)))
    if tag:
        for v in (bytes(len(tag)), b'\xff' * len(tag)):
            if v != tag:
                out.append(('reject', v))
    return out

class V:
    """verification entry point: shapes (public: data length, tag length, key length); per shape a list of secret
    worlds (key, data); per world: set the state up untraced, compute the right tag, then trace StepV on the right tag
    and on each altered tag.  One trace per (shape, outcome)."""
    def __init__(self, name, shapes, setup, vcall):
        self.name, self.shapes, self.setup, self.vcall = name, shapes, setup, vcall
VER = {}

def _data(n, i): return [bytes(n), b'\xff' * n, vf.filler('c14d%d' % i, n)][i % 3]

def _mac():
    def shapes(tier): return [dict(dl=dl, tl=tl) for dl in ((0, 17) if tier == 'quick' else (0, 1, 15, 16, 17, 32, 33)) for tl in ((8, 1, 7) if tier == 'quick' else (8, 0, 1, 4, 7))]
    def setup(L, A, sh, world, fx):
        key, data = world
        st = fx('st', L.sz('beltMAC_keep'))
        L.call('beltMACStart', st, A.buf(key), len(key)); L.call('beltMACStepA', A.buf(data), len(data), st)
        t = A.buf(8); L.call('beltMACStepG', t, st)
        return st, t.get()[:sh['tl']]
    def vcall(L, sh, st, tagbuf):
        return ('beltMACStepV', [tagbuf, st]) if sh['tl'] == 8 else ('beltMACStepV2', [tagbuf, sh['tl'], st])
    VER['beltMACStepV'] = V('beltMACStepV', shapes, setup, vcall)
_mac()

def _hashv():
    def shapes(tier): return [dict(dl=dl, tl=tl) for dl in ((0, 33) if tier == 'quick' else (0, 1, 31, 32, 33, 64, 65)) for tl in ((32, 1, 16) if tier == 'quick' else (32, 0, 1, 16, 31))]
    def setup(L, A, sh, world, fx):
        key, data = world
        st = fx('st', L.sz('beltHash_keep'))
        L.call('beltHashStart', st); L.call('beltHashStepH', A.buf(data), len(data), st)
        t = A.buf(32); L.call('beltHashStepG', t, st)
        return st, t.get()[:sh['tl']]
    def vcall(L, sh, st, tagbuf):
        return ('beltHashStepV', [tagbuf, st]) if sh['tl'] == 32 else ('beltHashStepV2', [tagbuf, sh['tl'], st])
    VER['beltHashStepV'] = V('beltHashStepV', shapes, setup, vcall)
    def setup2(L, A, sh, world, fx):
        key, data = world
        st = fx('st', L.sz('beltHMAC_keep'))
        L.call('beltHMACStart', st, A.buf(key), len(key)); L.call('beltHMACStepA', A.buf(data), len(data), st)
        t = A.buf(32); L.call('beltHMACStepG', t, st)
        return st, t.get()[:sh['tl']]
    def vcall2(L, sh, st, tagbuf):
        return ('beltHMACStepV', [tagbuf, st]) if sh['tl'] == 32 else ('beltHMACStepV2', [tagbuf, sh['tl'], st])
    VER['beltHMACStepV'] = V('beltHMACStepV', shapes, setup2, vcall2)
    def shapes3(tier): return [dict(dl=dl, tl=tl, l=l) for l in ((128, 256) if tier == 'quick' else (128, 192, 256)) for dl in ((1,) if tier == 'quick' else (0, 1, 33)) for tl in ((l // 4, 1) if tier == 'quick' else (l // 4, 0, 1, l // 8))]
    def setup3(L, A, sh, world, fx):
        key, data = world
        st = fx('st', L.sz('bashHash_keep'))
        L.call('bashHashStart', st, sh['l']); L.call('bashHashStepH', A.buf(data), len(data), st)
        t = A.buf(sh['l'] // 4); L.call('bashHashStepG', t, sh['l'] // 4, st)
        return st, t.get()[:sh['tl']]
    VER['bashHashStepV'] = V('bashHashStepV', shapes3, setup3, lambda L, sh, st, tagbuf: ('bashHashStepV', [tagbuf, sh['tl'], st]))
_hashv()

def _aead(pre):
    def shapes(tier): return [dict(il=il, xl=xl) for il in ((0, 17) if tier == 'quick' else (0, 1, 16, 17)) for xl in ((0, 16, 33) if tier == 'quick' else (0, 1, 16, 17, 33))]
    def setup(L, A, sh, world, fx):
        key, data = world
        iv = bytes(range(16))
        crit = _data(sh['xl'], 2)
        st = A.buf(L.sz(pre + '_keep'))
        L.call(pre + 'Start', st, A.buf(key), len(key), A.buf(iv))
        L.call(pre + 'StepI', A.buf(data), len(data), st)
        x = A.buf(crit); L.call(pre + 'StepE', x, len(crit), st); L.call(pre + 'StepA', x, len(crit), st)
        t = A.buf(8); L.call(pre + 'StepG', t, st)
        # the verifying side
        st2 = fx('st', L.sz(pre + '_keep'))
        L.call(pre + 'Start', st2, A.buf(key), len(key), A.buf(iv))
        L.call(pre + 'StepI', A.buf(data), len(data), st2)
        L.call(pre + 'StepA', x, len(crit), st2)
        return st2, t.get()
    VER[pre + 'StepV'] = V(pre + 'StepV', shapes, setup, lambda L, sh, st, tagbuf: (pre + 'StepV', [tagbuf, st]))
    VER[pre + 'StepV'].datalen = 'il'
_aead('beltDWP'); _aead('beltCHE')

# --------------------------------------------------------------------------------------------- workers
def divergence(L, log_a, n_a, log_b, n_b):
    """first differing instruction of two logged traces -> text (symbolised when possible)"""
    k = 0
    while k < min(n_a, n_b, L.logcap) and log_a[k] == log_b[k]:
        k += 1
    def sym(addr):
        lo, hi = L.img
        if lo <= addr < hi:
            try:
                r = subprocess.run(['addr2line', '-f', '-e', L.path, hex(addr - lo)], stdout=subprocess.PIPE, text=True, timeout=20)
                return 'lib+%#x %s' % (addr - lo, ' '.join(r.stdout.split()[:2]))
            except Exception:
                return 'lib+%#x' % (addr - lo)
        return 'outside the library image (libc) %#x' % addr
    at = []
    if k > 0: at.append('last common instruction ' + sym(log_a[k - 1]))
    if k < min(n_a, L.logcap): at.append('then A executes ' + sym(log_a[k]))
    if k < min(n_b, L.logcap): at.append('B executes ' + sym(log_b[k]))
    return 'traces diverge after %d instructions: %s' % (k, '; '.join(at))

def cell_routine(item):
    """one (cfg, routine, shape): SAFE == FAST == expected on every tuple, and one trace for the SAFE edition"""
    cfg, name, sh, do_trace = item
    L = lib(cfg)
    r = ROUT[name]
    safe_sym = name if L.has(name + '_fast') else name + '_safe'
    fast_sym = name + '_fast' if L.has(name + '_fast') else name
    if not (L.has(safe_sym) and L.has(fast_sym)):
        return {'skipped': 'symbols %s/%s not present' % (safe_sym, fast_sym)}
    tups = r.tuples(sh, L.wbytes)
    res = {'n': len(tups), 'bad': [], 'traces': {}, 'steps': 0}
    with vf.Arena(L) as A:
        bufs = r.prep(L, A, sh)
        first = None
        for ti, tup in enumerate(tups):
            vs, _ = r.run(L, A, sh, bufs, tup, safe_sym, False)
            vf_, _ = r.run(L, A, sh, bufs, tup, fast_sym, False)
            if vs != vf_:
                res['bad'].append(('safe!=fast', ti, repr(vs)[:80], repr(vf_)[:80]))
            if name.startswith('zzRed'):
                want = '%0*x' % (2 * sh['n'] * L.wbytes, red_expected(name, sh, tup, L.wbytes))
                want = bytes.fromhex(want)[::-1].hex()
                if vs != want:
                    res['bad'].append(('safe!=formula', ti, vs[:80], want[:80]))
            if do_trace:
                if ti == 0:
                    r.run(L, A, sh, bufs, tup, safe_sym, True)      # warm-up (lazy binding, caches)
                v2, tr = r.run(L, A, sh, bufs, tup, safe_sym, True)
                res['steps'] += tr[1]
                key = (tr[0], tr[1], tr[4])
                if key not in res['traces']:
                    res['traces'][key] = ti
                    if first is None:
                        first = (ti, list(L.log[:min(tr[1], L.logcap)]), tr[1])
                    elif len(res['traces']) == 2:
                        res['div'] = divergence(L, first[1], first[2], list(L.log[:min(tr[1], L.logcap)]), tr[1])
                        res['div_tuples'] = (first[0], ti)
    res['traces'] = {('%x/%d/%d' % k): v for k, v in res['traces'].items()}
    return res

def cell_verify(item):
    """verification entry point: ONE trace over keys x data x {right tag, tag wrong in each octet}: the comparison and the
    computation before it execute no branch that depends on key, data or tag -- accept and reject included (StepV
    returns the comparison result without acting on it)"""
    cfg, name, sh = item
    L = lib(cfg)
    v = VER[name]
    res = {'n': 0, 'bad': [], 'traces': {}, 'steps': 0}
    worlds = [(k, _data(sh.get('dl', sh.get('il', 0)), i)) for i, k in enumerate(KEYS)]
    first = None
    with vf.Arena(L) as A:
        fixed = {}
        def fx(nm, n):
            if nm not in fixed:
                fixed[nm] = A.buf(n)
            return fixed[nm]
        for wi, world in enumerate(worlds):
            st, tag = v.setup(L, A, sh, world, fx)
            snap = st.get()
            tagbuf = fx('tag', len(tag))
            fl = _flips(tag)
            if wi > 0:      # later worlds: right tag, wrong in the first / last octet
                fl = [fl[0]] + ([fl[1], fl[-3]] if len(fl) > 3 else fl[1:])
            for oi, (outcome, t) in enumerate(fl):
                st.set(snap); tagbuf.set(t)
                sym, args = v.vcall(L, sh, st, tagbuf)
                if not L.has(sym):
                    return {'skipped': sym + ' not present'}
                if wi == 0 and oi == 0:
                    tcall(L, sym, args, True); st.set(snap)
                r, tr = tcall(L, sym, args, True)
                res['n'] += 1; res['steps'] += tr[1]
                ok = 1 if (r & 0xFFFFFFFF) else 0
                if ok != (1 if outcome == 'accept' else 0):
                    res['bad'].append(('verdict', wi, oi, outcome, ok))
                key = (tr[0], tr[1], tr[4])
                if key not in res['traces']:
                    res['traces'][key] = (wi, oi, outcome)
                    cur = list(L.log[:min(tr[1], L.logcap)])
                    if first is None:
                        first = (cur, tr[1], (wi, oi, outcome))
                    elif 'div' not in res:
                        res['div'] = divergence(L, first[0], first[1], cur, tr[1])
                        res['div_tuples'] = (first[2], (wi, oi, outcome))
    res['traces'] = {('%x/%d/%d' % k): v_ for k, v_ in res['traces'].items()}
    return res

def cell_prim(item):
    """symmetric primitives and high-level key unwrap: key and data secret, one trace per shape (and outcome)"""
    cfg, name, sh = item
    L = lib(cfg)
    res = {'n': 0, 'bad': [], 'traces': {}, 'steps': 0}
    logs = {}
    def record(outcome, tr, ident):
        res['n'] += 1; res['steps'] += tr[1]
        key = (outcome, tr[0], tr[1], tr[4])
        if key not in res['traces']:
            res['traces'][key] = ident
            cur = list(L.log[:min(tr[1], L.logcap)])
            if outcome not in logs:
                logs[outcome] = (cur, tr[1], ident)
            elif 'div' not in res:
                res['div'] = '[%s] ' % outcome + divergence(L, logs[outcome][0], logs[outcome][1], cur, tr[1])
                res['div_tuples'] = (logs[outcome][2], ident)
    datas = lambda n: [bytes(n), b'\xff' * n, vf.filler('c14p', n), bytes(range(n % 256)) if n < 256 else bytes(n)]
    with vf.Arena(L) as A:
        if name in ('beltBlockEncr', 'beltBlockDecr'):
            blk = A.buf(16); k32 = A.buf(32)
            for ki, key in enumerate(KEYS):
                k32.set(key)
                for di, d in enumerate(datas(16)):
                    blk.set(d)
                    if ki == 0 and di == 0: tcall(L, name, [blk, k32], True); blk.set(d)
                    r, tr = tcall(L, name, [blk, k32], True); record('-', tr, (ki, di))
        elif name in ('beltWBLStepE', 'beltWBLStepD'):
            n = sh['count']
            buf = A.buf(n); st = A.buf(L.sz('beltWBL_keep'))
            for ki, key in enumerate(KEYS):
                L.call('beltWBLStart', st, A.buf(key), 32)
                snap = st.get()
                for di, d in enumerate(datas(n)):
                    buf.set(d); st.set(snap)
                    if ki == 0 and di == 0: tcall(L, name, [buf, n, st], True); buf.set(d); st.set(snap)
                    r, tr = tcall(L, name, [buf, n, st], True); record('-', tr, (ki, di))
        elif name == 'beltCompr':
            h = A.buf(32); x = A.buf(32); stack = A.buf(L.sz('beltCompr_deep'))
            for ki, key in enumerate(KEYS):
                for di, d in enumerate(datas(32)):
                    h.set(key); x.set(d)
                    if ki == 0 and di == 0: tcall(L, name, [h, x, stack], True); h.set(key)
                    r, tr = tcall(L, name, [h, x, stack], True); record('-', tr, (ki, di))
        elif name == 'bashF':
            b = A.buf(192); stack = A.buf(L.sz('bashF_deep'))
            vals = datas(192) + [bytes([0] * i + [1] + [0] * (191 - i)) for i in (0, 7, 8, 95, 191)]
            for di, d in enumerate(vals):
                b.set(d)
                if di == 0: tcall(L, name, [b, stack], True); b.set(d)
                r, tr = tcall(L, name, [b, stack], True); record('-', tr, di)
        elif name == 'beltKWPUnwrap':
            n = sh['count']; hdr = sh['hdr']
            import belt as RB
            dest = A.buf(n - 16); src = A.buf(n); hb = A.buf(16) if hdr else None; kb = A.buf(32)
            first = True
            for ki, key in enumerate(KEYS[:2] + KEYS[3:]):
                kb.set(key)
                for di, d in enumerate(datas(n - 16)[1:3]):
                    header = bytes(range(16)) if hdr else None
                    tok = RB.kwp_wrap(key, d, header)
                    muts = [('accept', tok)]
                    for i in range(0, n, 7):
                        m = bytearray(tok); m[i] ^= 1 << (i % 8); muts.append(('reject', bytes(m)))
                    for mi, (outcome, t) in enumerate(muts):
                        src.set(t)
                        if hb: hb.set(header)
                        args = [dest, src, n, hb, kb, 32]
                        if first:
                            tcall(L, name, args, True); first = False
                        r, tr = tcall(L, name, args, True)
                        ok = (r & 0xFFFFFFFF) == 0
                        if ok != (outcome == 'accept'):
                            res['bad'].append(('verdict', ki, di, mi, outcome, r & 0xFFFFFFFF))
                        record(outcome, tr, (ki, di, mi))
    res['traces'] = {('%s:%x/%d/%d' % k): v_ for k, v_ in res['traces'].items()}
    return res

PRIMS = {
    'beltBlockEncr': lambda tier: [dict()], 'beltBlockDecr': lambda tier: [dict()],
    'beltWBLStepE': lambda tier: [dict(count=c) for c in ((32, 33, 48, 64, 80) if tier == 'quick' else (32, 33, 47, 48, 49, 63, 64, 65, 79, 80, 81, 96))],
    'beltWBLStepD': lambda tier: [dict(count=c) for c in ((32, 33, 48, 64, 80) if tier == 'quick' else (32, 33, 47, 48, 49, 63, 64, 65, 79, 80, 81, 96))],
    'beltCompr': lambda tier: [dict()], 'bashF': lambda tier: [dict()],
    'beltKWPUnwrap': lambda tier: [dict(count=c, hdr=h) for c in ((32, 33, 48) if tier == 'quick' else (32, 33, 40, 48, 49, 64)) for h in (0, 1)],
}

def _dispatch(item):
    kind = item[0]
    if kind == 'R': return cell_routine(item[1:])
    if kind == 'V': return cell_verify(item[1:])
    return cell_prim(item[1:])

def run(tier):
    chk = vf.Check(PROP, tier, deadline_s=900 if tier == 'quick' else 3000)
    names = pairs_from_headers()
    missing = [n for n in names if n not in ROUT]
    for n in missing:
        chk.violation('pair:undescribed:' + n, {'kind': 'undescribed', 'name': n},
                      'the sources declare a SAFE/FAST pair %s that this check has no descriptor for (add one to C14.py)' % n)
    trace_cfgs = ['rel', 'rel3'] if tier == 'quick' else ['rel', 'rel3', 'clang', 'O1']
    items = []
    for n in names:
        if n not in ROUT: continue
        for cfg in trace_cfgs + (['w32'] if True else []):
            wb = 4 if cfg == 'w32' else 8
            for sh in ROUT[n].shapes(tier, wb):
                items.append(('R', cfg, n, sh, cfg != 'w32' or tier == 'thorough'))
    for n, v in VER.items():
        for cfg in trace_cfgs:
            for sh in v.shapes(tier):
                items.append(('V', cfg, n, sh))
    for n, shf in PRIMS.items():
        for cfg in trace_cfgs:
            for sh in shf(tier):
                items.append(('P', cfg, n, sh))
    only = os.environ.get('C14_ONLY')        # development aid: restrict to some routines (evidence then says so)
    if only:
        items = [it for it in items if it[2] in only.split(',')]
        chk.cap('restricted by C14_ONLY=' + only)
    res = vf.pmap(_dispatch, items, case_timeout=600)
    ncalls = nsteps = 0
    groups = 0
    per = {}
    for it, r in zip(items, res):
        kind, cfg, name, sh = it[0], it[1], it[2], it[3]
        shs = ','.join('%s=%s' % (k, (hex(v) if isinstance(v, int) and v > 1 << 20 else v)) for k, v in sorted(sh.items()))
        rec = {'kind': kind, 'cfg': cfg, 'name': name, 'shape': {k: (str(v) if isinstance(v, int) and v > 1 << 60 else v) for k, v in sh.items()},
               'trace': it[4] if kind == 'R' else True}
        if r is None or 'crash' in r or 'harness_error' in r:
            chk.violation('%s:%s:crash' % (name, cfg), rec, '%s[%s] in %s: %s' % (name, shs, cfg, str(r)[:600]))
            continue
        if 'skipped' in r:
            chk.observe('%s: %s' % (name, r['skipped'])); continue
        ncalls += r['n']; nsteps += r['steps']; groups += 1
        p = per.setdefault(name, [0, 0, 0]); p[0] += 1; p[1] += r['n']; p[2] += r['steps']
        for b in r['bad']:
            chk.violation('%s:%s' % (name, b[0]), rec, '%s[%s] in %s: %s' % (name, shs, cfg, b))
        by_out = {}
        for k in r['traces']:
            o = k.split(':')[0] if ':' in k else '-'
            by_out.setdefault(o, []).append(k)
        for o, ks in by_out.items():
            chk.outcome('%s distinct traces per (shape, outcome)=%d' % ('routine' if kind == 'R' else 'verify/primitive', len(ks)))
            if len(ks) > 1:
                chk.violation('%s:control-flow' % name, rec,
                              '%s[%s] in build %s: %d distinct instruction traces over the secret alphabet (outcome %s) -- %s; tuples %s'
                              % (name, shs, cfg, len(ks), o, r.get('div', ''), r.get('div_tuples')))
    # SAFE == FAST on the operand patterns of the arithmetic catalogue (C05's cross product: multiples of the modulus, all-ones words under
    # carries, words equal to mod[0], ...): both editions are judged against the exact formula there; an edition pair of which exactly one
    # member deviates is a SAFE != FAST violation here
    if not only:
        import C05, C07, c05_calls as CC
        pair_fns = set(n for n in names if n in CC.CAT and CC.CAT[n].fast)
        CC.CFGS[:] = ['rel']
        if tier == 'quick':
            C05.NMAX = dict(C05.NMAX, quick=6)
        C05.prepare(tier)
        col = C07._Collector()
        C05.catalogue(col, tier, pair_fns)
        bykey = {}
        for key, rec2, msg in col.viol:
            fn, cls = key.split(':', 1)
            base = fn[:-5] if fn.endswith('_fast') else fn
            if cls.split('/')[0] in ('value', 'return', 'relation') and base in pair_fns:
                bykey.setdefault(base, {}).setdefault(fn, (key, rec2, msg))
        for base, eds in sorted(bykey.items()):
            if len(eds) == 1:
                fn, (key, rec2, msg) = list(eds.items())[0]
                chk.violation('%s:safe!=fast(catalogue)' % base, dict(rec2, via='C05'), 'SAFE != FAST for %s: the %s edition deviates from the formula, the other one does not -- %s' % (
                    base, 'fast' if fn.endswith('_fast') else 'regular', msg))
        pc = col.parts.get('catalogue_calls', {})
        chk.part('safe_fast_pairs_on_catalogue_patterns', states=int(pc.get('cells', 0)), transitions=int(pc.get('evaluations', 0)),
                 traces_validated_against_impl=int(pc.get('evaluations', 0)), evaluations=int(pc.get('evaluations', 0)), functions=len(pair_fns))
    chk.part('safe_fast_pairs_and_traces', states=groups, transitions=ncalls, traces_validated_against_impl=ncalls, evaluations=ncalls,
             distinct_nontrivial=groups, single_steps=nsteps, pairs=len(names), routines={k: v for k, v in sorted(per.items())})
    chk.sample({'pairs': names})
    chk.sample({'trace_builds': trace_cfgs, 'lengths': 'n = 0..%d words; octet counts see C14.py' % (8 if tier == 'quick' else 16)})
    chk.sample({'verification entry points': sorted(VER), 'primitives': sorted(PRIMS)})
    chk.assumptions += ['control flow = sequence of instruction addresses executed by the call (library image and libc), allocator internals excluded; addresses of data accesses are not compared (safe.h excludes cache effects)',
                        'secret values by alphabets (equal / first difference at every position / boundary / multiples of the modulus); lengths and moduli are public and enumerated',
                        'decided on the machine code built here from the working tree: gcc -O2 (the baseline codegen), gcc -O3' + (', clang -O2, gcc -O1' if tier == 'thorough' else ''),
                        'verification entry points: one trace per public outcome (accept / reject)']
    return chk.finish('C14', 'per (build, routine, public shape): SAFE == FAST (== exact formula for the reductions) on every tuple and '
                      '|{instruction trace of the SAFE edition over the secret alphabet}| == 1')

def replay(rec):
    if rec.get('via') == 'C05':
        import C05
        return C05.replay({k: v for k, v in rec.items() if k != 'via'})
    if rec.get('kind') == 'undescribed':
        return None if rec['name'] not in pairs_from_headers() or rec['name'] in ROUT else 'pair %s still undescribed' % rec['name']
    sh = {k: (int(v) if isinstance(v, str) and v.isdigit() else v) for k, v in rec['shape'].items()}
    item = (rec['kind'], rec['cfg'], rec['name'], sh) + ((rec.get('trace', True),) if rec['kind'] == 'R' else ())
    r = _dispatch(item)
    if 'skipped' in r:
        return None
    if r['bad']:
        return '%s: %s' % (rec['name'], r['bad'][:3])
    by = {}
    for k in r['traces']:
        by.setdefault(k.split(':')[0] if ':' in k else '-', []).append(k)
    for o, ks in by.items():
        if len(ks) > 1:
            return '%s %s in %s: %d distinct traces (outcome %s): %s' % (rec['name'], sh, rec['cfg'], len(ks), o, r.get('div'))
    return None
