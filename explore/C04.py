"""C04 -- bake / BAUTH: honest runs agree on one key, tampered runs never do.
E1 over protocol histories; the deciding oracle is relational (the implementation against itself), ref/bake.py is a bonus
oracle for the honest runs of BMQV / BSTS / BPACE (keys, every message, generator consumption).

A scenario = curve (3 standard bign curves) x protocol {BMQV, BSTS, BPACE, BAUTH} x admissible (kca, kcb) x hello x generator
tapes x ONE adversary action:
    none | flip mask m of octet j of message Mi (every i, every j) | the point carried by Mi replaced by (x, y+1), (p, y), (x, p),
    (0, 0), a twist point, (x+1, y), -P, G | variable-length messages cut / extended | peers hold different passwords, private
    keys, certificates, hello messages | certificate validator call k answers an error | AUTHENTICATED INSIDER: the legitimate peer
    (it holds the session keys K1, K2; the reference model derives them from the tapes) sends BSTS M2 / BSTS M3 / BAUTH M3 with a
    correct tag and a correctly encrypted body whose number s is q, q + 1, 2^2l - 1 (on a general base, and as the alias r + q of an
    honest s = r on bases engineered for r = 0, 1, 2^2l - 1 - q), or whose certificate carries an off-curve key, another party's key,
    or is one octet long; control: the honest s re-sealed by the model
executed step by step on fresh objects (bake states may not be copied: a state is its history) and through RunA / RunB against a
scripted read_i / write_i channel replaying the recorded transcript, where additionally every read / write call index answers an
error, a short read and a premature end of data.

Oracle.
  honest      every step ERR_OK, keyA == keyB (== ref/bake.py where the model has the protocol), messages == model.
  invalid     a point outside E* (coordinate >= p or off the curve) must be refused by the step that receives it.
  bound       never "all steps OK and both keys equal"; if a confirmation tag is exchanged at all (kca or kcb; BSTS, BAUTH always)
              some party returns an error; with kca = kcb = 0 the two keys differ.
  unbound     (x, p - y) in BPACE M2/M3 and in BAUTH M1 with kcb = 0: STB 34.101.66 / 34.101.79 derive every key from
              x-coordinates only, so the negated point is accepted with equal keys BY THE STANDARD; recorded as an observation,
              checked to behave exactly so (a deviation is reported as an observation, not as a violation).
  val         the step that called the failing validator returns an error.
  insider     s outside {0..q-1} (STB 34.101.66 7.5 / STB 34.101.79 BAUTH: "s in {0, 1, ..., q - 1}") or a foreign / invalid certificate:
              the receiving step returns an error (so the run never ends with both parties OK and equal keys); the control is
              accepted with the model's key; the same through bakeBSTSRunA / RunB, with nothing left allocated.
  drivers     honest: ERR_OK, key and written messages equal to the step-by-step run, nothing left allocated, whole transcript
              consumed; error answer of the channel -> that error comes back, nothing left allocated; short read / premature
              end -> never "ERR_OK with the honest key while part of the transcript was not consumed"; altered incoming message
              -> never "ERR_OK and the honest key", invalid point -> error.
"""
import ctypes, collections
import vf, cat, cat_belt, cat_bake, common
from cat_bake import dialogue, first_error, flags, run_driver, split_msgs, ctx, le, E

PROP = 'C04'
CFG = 'rel'
ENAME = {v: k for k, v in E.items()}

def ename(r):
    return ENAME.get(r, '%#x' % r)

# ------------------------------------------------------------------ geometry of the messages
def point_fields(c):
    """[(message index i (1-based), offset of <P>_4l inside Mi)]"""
    no = c['l'] // 4
    return {'BMQV': [(1, 0), (2, 0)], 'BSTS': [(1, 0), (2, 0)], 'BPACE': [(2, no // 2), (3, 0)], 'BAUTH': [(1, 0)]}[c['proto']]

def receiver(i):
    """the step that consumes message Mi"""
    return '%s.Step%d' % ('A' if i % 2 else 'B', i + 2)

VAL_STEPS = {'BMQV': ['B.Start', 'A.Start', 'A.Step3', 'B.Step4'], 'BSTS': ['B.Start', 'A.Start', 'B.Step4', 'A.Step5'],
             'BAUTH': ['B.Start', 'A.Start', 'B.Step2', 'A.Step5'], 'BPACE': []}

def classify(c, i, orig, alt):
    """class of the alteration orig -> alt of message Mi: ('invalid', step) | ('bound',) | ('unbound',)"""
    l = c['l']; no = l // 4
    ps, Ecv, G, q, _ = ctx(l)
    for mi, off in point_fields(c):
        if mi != i or len(alt) < off + 2 * no:
            continue
        a, b = orig[off:off + 2 * no], alt[off:off + 2 * no]
        if a == b:
            continue
        x, y = int.from_bytes(b[:no], 'little'), int.from_bytes(b[no:], 'little')
        if x >= ps['p'] or y >= ps['p'] or not Ecv.is_on((x, y)):
            return ('invalid', receiver(i))
        x0, y0 = int.from_bytes(a[:no], 'little'), int.from_bytes(a[no:], 'little')
        if x == x0 and (y + y0) % ps['p'] == 0:
            if c['proto'] == 'BPACE' or (c['proto'] == 'BAUTH' and not flags(c)[1]):
                return ('unbound',)
    return ('bound',)

def judge(c, cls, d, honest_key):
    """-> (verdict label, violation message or None, observation or None)"""
    trace = d['trace']
    allok = all(r == 0 for _, r in trace)
    fe = first_error(trace)
    ka, kb = d['keyA'], d['keyB']
    kca, kcb = flags(c)
    steps = ' '.join('%s=%s' % (n, ename(r)) for n, r in trace)
    if cls[0] == 'honest':
        if not allok:
            return 'honest:error', 'honest run: %s returned %s (%#x) [%s]' % (fe[0], ename(fe[1]), fe[1], steps), None
        if ka is None or kb is None or ka != kb or len(ka) != 32:
            return 'honest:keys', 'honest run: every step ERR_OK but keyA=%s keyB=%s' % (ka and ka.hex(), kb and kb.hex()), None
        return 'ok', None, None
    if cls[0] == 'invalid':
        if fe[0] != cls[1]:
            return 'invalid:accepted', 'a point outside E* was not refused by %s [%s]%s' % (
                cls[1], steps, '' if not allok else ' keys %s' % ('EQUAL' if ka == kb else 'differ')), None
        return '%s=%s' % (fe[0], ename(fe[1])), None, None
    if cls[0] == 'val':
        if fe[0] != cls[1]:
            return 'val:ignored', 'certificate validator call %d answered %#x but %s did not fail [%s]' % (c['val_fail'], c['val_code'], cls[1], steps), None
        return '%s=%s%s' % (fe[0], ename(fe[1]), '' if fe[1] == c['val_code'] else '(code changed)'), None, None
    if cls[0] == 'unbound':
        if allok and ka == kb == honest_key:
            # literal violation of the property statement ("if any transmitted message is altered ... a party that requires
            # confirmation returns an error, and without confirmation the two derived keys differ"); it is the behaviour the
            # standards prescribe, so it is listed in known_findings.txt (KNOWN-FINDING, not repaired) -- see DESIGN.md 9.5
            return 'unbound:accepted', ('the transmitted point P replaced by -P = (x, p-y): every step ERR_OK and both parties hold the honest key '
                                        '(key and tags are derived from x-coordinates only, as STB 34.101.66 / 34.101.79 prescribe) [%s]' % steps), None
        return 'unbound:other', None, 'negated point (x, p-y) in %s: unexpected behaviour [%s] keys %s' % (c['proto'], steps, 'equal' if ka == kb else 'differ')
    # bound
    if allok and ka == kb:
        return 'bound:undetected', 'altered run: every step ERR_OK and both parties hold the SAME key %s [%s]' % (ka.hex(), steps), None
    must = c['proto'] in ('BSTS', 'BAUTH') or kca or kcb
    if allok and must:
        return 'bound:noerror', 'altered run with confirmation (kca=%d kcb=%d): no party returned an error (keys differ) [%s]' % (kca, kcb, steps), None
    if allok:
        return 'keys differ', None, None
    return '%s=%s' % (fe[0], ename(fe[1])), None, None

# ------------------------------------------------------------------ honest corpus
def check_honest(item):
    """-> (violation message or None, ret, cause label)"""
    fname, case = item
    L = common.lib(CFG)
    fn = cat.CAT[fname]
    if 'proto' not in case:                      # bakeKDF, bake.SWU: plain reference comparison
        msg, ret = common.check_ref_case(item, CFG)
        return (('%s: %s' % (fname, msg)) if msg else None), ret, 'ref'
    res = common.run_fn(L, fname, case)
    if res['ret']:
        if 'steps' in res:
            bad = [s for s in res['steps'] if not s.endswith('=0x0')][0]
            cause = '%s=%s' % (bad.split('=')[0], ename(int(bad.split('=')[1], 16)))
        else:
            cause = 'RunA=%s,RunB=%s' % (ename(res.get('retA', 0)), ename(res.get('retB', 0)))
        return '%s: %s; an honest run must succeed at every step; steps: %s' % (fname, cause, res.get('steps') or cause), res['ret'], cause
    if res['keyA'] != res['keyB'] or len(res['keyA']) != 32:
        return '%s honest run: every step ERR_OK but keyA=%s keyB=%s' % (fname, res['keyA'].hex(), res['keyB'].hex()), 0, 'keys differ'
    if 'keyS' in res and res['keyS'] != res['keyA']:
        return '%s: RunA/RunB key %s differs from the step-by-step key %s' % (fname, res['keyA'].hex(), res['keyS'].hex()), 0, 'run key'
    exp = fn.ref(case) if fn.ref else None
    msg = cat.compare(res, exp)
    return (('%s: %s' % (fname, msg)) if msg else None), 0, ('ref:' + msg.split()[1] if msg else '')

def honest_part(chk, cases):
    res = vf.pmap(check_honest, cases, case_timeout=300)
    shapes = set()
    for (fname, case), r in zip(cases, res):
        rec = {'cfg': CFG, 'kind': 'case', 'fn': fname, 'case': cat.enc_case(case)}
        lv = case.get('l', 0)
        sc = '%s l=%d kca=%d kcb=%d' % ((fname, lv) + (flags(case) if 'proto' in case else (0, 0)))
        if isinstance(r, dict):
            chk.violation('honest:%s:l=%d:crash' % (fname, lv), rec, '%s: %s %s [%s]' % (
                fname, r.get('crash') or 'harness error', (r.get('stderr') or r.get('harness_error') or '')[-600:], cat.short(case)))
            continue
        msg, ret, cause = r
        shapes.add(sc)
        chk.outcome('%s honest -> %s' % (fname, 'agreed key' if not msg else cause))
        if msg:
            chk.violation('honest:%s:l=%d:%s' % (fname, lv, cause), rec, '%s  [%s]' % (msg, cat.short(case)))
    chk.part('honest_dialogues', states=len(shapes), transitions=len(cases), traces_validated_against_impl=len(cases), evaluations=len(cases),
             distinct_nontrivial=len(shapes))
    for i in (0, len(cases) // 2, len(cases) - 1):
        chk.sample({'fn': cases[i][0], 'case': cat.short(cases[i][1])})

# ------------------------------------------------------------------ adversary, step by step
def bases(tier):
    """honest base scenarios the adversary actions are applied to"""
    out = []
    for l in (128, 192, 256):
        hs = cat_bake.hello_sets(tier)
        hs = [hs[0], hs[2]] if tier == 'quick' else hs
        no = l // 4
        for proto in ('BMQV', 'BSTS', 'BPACE', 'BAUTH'):
            for kca, kcb in cat_bake.kc_sets(proto):
                for h in hs:
                    out.append(cat_bake.base_case(proto, l, kca, kcb, h))
                if tier == 'thorough':
                    # further tapes: the responder's generator first returns 0 (rejected, all positions shift); boundary value u = q - 1
                    pre = {'BPACE': vf.filler('c04.Rb/%d' % l, no // 2), 'BAUTH': vf.filler('c04.Rct/%d' % l, no // 2)}.get(proto, b'')
                    out.append(cat_bake.base_case(proto, l, kca, kcb, hs[1], tapeb=pre + le(l, 0) + le(l, cat_bake.scalar('c04.ub2/%d' % l, l)),
                                                  keys=None if proto == 'BPACE' else cat_bake.privkeys(l, 1)))
                    out.append(cat_bake.base_case(proto, l, kca, kcb, hs[0], tapeb=pre + le(l, ctx(l)[3] - 1)))
    return out

def masks(tier, l):
    if tier == 'quick':
        return [0x01, 0x80]
    return [1 << b for b in range(8)]

def tamper_jobs(tier):
    jobs = []
    for b in bases(tier):
        nm = {'BMQV': 2 + b['kcb'], 'BSTS': 3, 'BPACE': 3 + b['kca'], 'BAUTH': 2 + b['kcb']}[b['proto']]
        for i in range(1, nm + 1):
            jobs.append((b, 'flip', i, masks(tier, b['l'])))
        jobs.append((b, 'point', 0, None))
        jobs.append((b, 'other', 0, None))
    return jobs

def actions(c, fam, i, arg, hon):
    """yield (label, altered case, class) for one family on the base c with honest transcript hon"""
    l = c['l']; no = l // 4
    ps, Ecv, G, q, _ = ctx(l)
    p = ps['p']
    msgs = hon['msgs']
    if fam == 'flip':
        m = msgs[i - 1]
        for j in range(len(m)):
            for mk in arg:
                w = bytearray(m); w[j] ^= mk
                yield ('flip', dict(c, act='flip', act_i=i, act_j=j, act_m=mk), classify(c, i, m, bytes(w)))
    elif fam == 'point':
        for mi, off in point_fields(c):
            m = msgs[mi - 1]
            x = int.from_bytes(m[off:off + no], 'little'); y = int.from_bytes(m[off + no:off + 2 * no], 'little')
            xt = x
            while True:                      # x-coordinate of a point of the quadratic twist: the right-hand side is a non-residue
                xt = (xt + 1) % p
                if pow(Ecv.rhs(xt), (p - 1) // 2, p) == p - 1:
                    break
            subs = [('y+1', x, (y + 1) % p), ('y-1', x, (y - 1) % p), ('x=p', p, y), ('y=p', x, p), ('x=2^2l-1', (1 << (2 * l)) - 1, y),
                    ('y=2^2l-1', x, (1 << (2 * l)) - 1), ('(0,0)', 0, 0), ('(0,y)', 0, y), ('(x,0)', x, 0), ('twist', xt, y), ('x+1', (x + 1) % p, y),
                    ('(p,p)', p, p), ('-P', x, (p - y) % p), ('G', 0, ps['yG']), ('-G', 0, p - ps['yG']), ('2P',) + Ecv.dbl((x, y))]
            if x + p < (1 << (2 * l)):
                subs.append(('x+p', x + p, y))
            if y + p < (1 << (2 * l)):
                subs.append(('y+p', x, y + p))
            for lab, nx, ny in subs:
                alt = m[:off] + le(l, nx) + le(l, ny) + m[off + 2 * no:]
                if alt == m:
                    continue
                yield ('point ' + lab, dict(c, act='subst', act_i=mi, act_data=alt), classify(c, mi, m, alt))
    elif fam == 'other':
        proto = c['proto']
        # variable-length messages: cut / extended
        var = {'BSTS': [(2, 3 * no + 8), (3, no + 8)], 'BAUTH': [(3, no + 8)] if flags(c)[1] else []}.get(proto, [])
        for mi, minlen in var:
            m = msgs[mi - 1]
            for lab, alt in (('cut1', m[:-1]), ('cut9', m[:-9]), ('min', m[:minlen]), ('min+1', m[:minlen + 1]), ('min-1', m[:minlen - 1]),
                             ('ext1', m + b'\0'), ('dropfirst', m[1:]), ('cert-1', m[:-9] + m[-8:])):
                yield ('len ' + lab, dict(c, act='subst', act_i=mi, act_data=alt), ('bound',))
        # the peers' views differ
        ha, hb = c['helloa'], c['hellob']
        yield ('hello', dict(c, helloa_b=(ha or b'') + b'\x00'), ('bound',))
        yield ('hello', dict(c, hellob_b=(bytes([hb[0] ^ 1]) + hb[1:]) if hb else b'\x01'), ('bound',))
        if ha and hb and ha + hb != hb + ha:
            yield ('hello', dict(c, helloa_b=hb, hellob_b=ha), ('bound',))
        if proto == 'BPACE':
            pw = c['pwd']
            for alt in (pw + b'\x00', pw[:-1], bytes([pw[0] ^ 1]) + pw[1:], b''):
                if alt != pw:
                    yield ('pwd', dict(c, pwd_b=alt), ('bound',))
        else:
            da, db = int.from_bytes(c['da'], 'little'), int.from_bytes(c['db'], 'little')
            d3 = cat_bake.scalar('c04.d3/%d' % l, l)
            yield ('key', dict(c, da_x=le(l, da ^ 1)), ('bound',))
            yield ('key', dict(c, da_x=le(l, d3)), ('bound',))
            if proto != 'BAUTH' or flags(c)[1]:       # the token's private key takes part only when it authenticates itself
                yield ('key', dict(c, db_x=le(l, db ^ 1)), ('bound',))
                yield ('key', dict(c, db_x=le(l, d3)), ('bound',))
            if proto == 'BMQV':
                yield ('cert', dict(c, certb_a=cat_bake.cert(l, d3, b'Bob')), ('bound',))
                yield ('cert', dict(c, certa_b=cat_bake.cert(l, d3, b'Alice')), ('bound',))
                yield ('cert', dict(c, certb_a=b'Bub' + c['certb'][3:]), ('bound',))        # same key, other name: certificates are hashed into K
                yield ('cert', dict(c, certa_b=b'\x00' + c['certa']), ('bound',))
                yield ('cert', dict(c, certb_a=c['certa'], certa_b=c['certb']), ('bound',))  # certificates swapped
            if proto == 'BAUTH':
                yield ('cert', dict(c, certa_b=cat_bake.cert(l, d3, b'Alice')), ('bound',))
            # certificate validator errors
            for k, step in enumerate(VAL_STEPS[proto][:hon['nval']], 1):
                for code in (E['BAD_CERT'], 0x7A7A):
                    yield ('val', dict(c, val_fail=k, val_code=code), ('val', step))

def rec_of(c, cls):
    return {'cfg': CFG, 'kind': 'dlg', 'case': cat.enc_case(c), 'cls': list(cls)}

def short_sc(c):
    s = '%s l=%d kca=%d kcb=%d hello=%s/%s' % ((c['proto'], c['l']) + flags(c) + (None if c['helloa'] is None else len(c['helloa']),
                                                                                   None if c['hellob'] is None else len(c['hellob'])))
    if c.get('act') == 'flip':
        s += ' flip M%d[%d]^%#04x' % (c['act_i'], c['act_j'], c['act_m'])
    elif c.get('act') == 'subst':
        s += ' M%d:=%s' % (c['act_i'], c['act_data'].hex())
    for k in ('da_x', 'db_x', 'certb_a', 'certa_b', 'pwd_b', 'helloa_b', 'hellob_b', 'val_fail', 'val_code'):
        if k in c:
            v = c[k]
            s += ' %s=%s' % (k, v.hex() if isinstance(v, bytes) else v)
    return s

def tamper_job(job):
    c, fam, i, arg = job
    L = common.lib(CFG)
    with vf.Arena(L) as A:
        hon = dialogue(L, c, A)
    out = {'n': 0, 'outcomes': collections.Counter(), 'viol': [], 'obs': [], 'classes': collections.Counter()}
    lab, msg, _ = judge(c, ('honest',), hon, None)
    if msg:
        out['viol'].append(('honest:%s:%s' % (c['proto'], lab), rec_of(c, ('honest',)), msg + '  [' + short_sc(c) + ']'))
        return out
    if fam == 'other' and c['proto'] != 'BPACE' and hon['nval'] != len(VAL_STEPS[c['proto']]) - (1 if c['proto'] == 'BAUTH' and not flags(c)[1] else 0):
        raise RuntimeError('validator call count %d unexpected' % hon['nval'])
    for alab, c2, cls in actions(c, fam, i, arg, hon):
        with vf.Arena(L) as A:
            d = dialogue(L, c2, A)
        v, msg, obs = judge(c2, cls, d, hon['keyA'])
        out['n'] += 1
        mi = c2.get('act_i', 0)
        out['outcomes']['%s %s%s -> %s' % (c['proto'], alab, ' M%d' % mi if mi else '', v)] += 1
        out['classes'][cls[0]] += 1
        if msg:
            key = '%s:%s%s:%s:kc=%d%d' % ((c['proto'], alab.split()[0], ':M%d' % mi if mi else '', v) + flags(c))
            if len(out['viol']) < 4:
                out['viol'].append((key, rec_of(c2, cls), msg + '  [' + short_sc(c2) + ']'))
        if obs and len(out['obs']) < 2:
            o = '%s M%d (l=%d): %s' % (c['proto'], mi, c['l'], obs)
            if o not in out['obs']:
                out['obs'].append(o)
    return out

# ------------------------------------------------------------------ RunA / RunB
def monitored_run(L, c, side, incoming, fault=None):
    st = (ctypes.c_long * 8)()
    with vf.Arena(L) as A:
        L.dll.vh_mon_start(ctypes.c_long(0), None, ctypes.c_size_t(0))
        try:
            r = run_driver(L, c, A, 0x00, side, incoming, fault)
        finally:
            L.dll.vh_mon_stop(st); L.dll.vh_mon_reap()
    r['live'] = int(st[1]); r['allocs'] = int(st[0])
    return r

def read_plan(calls, incoming):
    """octets left in the current message at every read call of the honest run (channel semantics of drv/vh_c04.c)"""
    cur, off, left = 0, 0, []
    for w, n in calls:
        if w:
            left.append(None); continue
        if cur >= len(incoming):
            left.append(0); continue
        rem = len(incoming[cur]) - off
        left.append(rem)
        if n > rem:
            cur += 1; off = 0
        else:
            off += n
            if off == len(incoming[cur]):
                cur += 1; off = 0
    return left

def driver_jobs(tier):
    jobs = []
    for fname, c in cat_bake.run_cases(tier):
        jobs.append((c, 'faults', 0))
        jobs.append((c, 'tamper', 1 if tier == 'thorough' else 5))
    return jobs

def driver_job(job):
    c, what, stride = job
    L = common.lib(CFG)
    out = {'n': 0, 'outcomes': collections.Counter(), 'viol': [], 'obs': [], 'classes': collections.Counter()}
    def viol(key, rec, msg):
        if len(out['viol']) < 4:
            out['viol'].append((key, rec, msg + '  [' + short_sc(c) + ']'))
    with vf.Arena(L) as A:
        hon = dialogue(L, c, A)
    lab, msg, _ = judge(c, ('honest',), hon, None)
    if msg:
        viol('honest:%s:%s' % (c['proto'], lab), rec_of(c, ('honest',)), msg)
        return out
    sent = dict(zip('AB', split_msgs(c['proto'], hon['msgs'])))
    for side in 'AB':
        peer = 'B' if side == 'A' else 'A'
        incoming = sent[peer]
        base_rec = {'cfg': CFG, 'kind': 'run', 'case': cat.enc_case(c), 'side': side}
        h = monitored_run(L, c, side, incoming)
        out['n'] += 1
        fn = 'bake%sRun%s' % (c['proto'], side)
        if h['ret'] or h['key'] != hon['keyA'] or h['written'] != sent[side] or h['live'] or h['unread']:
            viol('run:%s:honest' % fn, dict(base_rec, what='honest'),
                 '%s honest: ret=%s key %s the step-by-step key, written messages %s, %d allocation(s) left, %d message(s) unread' % (
                     fn, ename(h['ret']), 'equals' if h['key'] == hon['keyA'] else 'DIFFERS from', 'equal' if h['written'] == sent[side] else 'DIFFER', h['live'], h['unread']))
            continue
        if what == 'faults':
            left = read_plan(h['calls'], incoming)
            for k, (w, n) in enumerate(h['calls'], 1):
                faults = [(k, 1, E['FILE_WRITE'] if w else E['FILE_READ'], 0), (k, 1, 0x7A7A, 0)]
                if not w:
                    if left[k - 1]:
                        faults += [(k, 3, 0, 0), (k, 3, 0, left[k - 1] // 2), (k, 3, 0, left[k - 1] - 1),
                                   (k, 2, 0, 0), (k, 2, 0, left[k - 1] // 2)]
                for f in faults:
                    r = monitored_run(L, c, side, incoming, f)
                    out['n'] += 1
                    kind = {1: 'error', 2: 'short', 3: 'eof'}[f[1]]
                    lab = '%s call %d (%s) %s' % (fn, k, 'write' if w else 'read', kind)
                    out['outcomes']['%s %s -> %s' % (fn, kind, ename(r['ret']) if r['ret'] not in (0x7A7A,) else 'code')] += 1
                    rec = dict(base_rec, what='fault', fault=list(f))
                    if r['live']:
                        viol('run:%s:leak:%s' % (fn, kind), rec, '%s: returned %s and left %d allocation(s) behind' % (lab, ename(r['ret']), r['live']))
                    elif f[1] == 1 and (r['ret'] != f[2] if f[2] != E['MAX'] else r['ret'] == 0):
                        viol('run:%s:errorlost' % fn, rec, '%s: the channel answered %#x, the driver returned %s' % (lab, f[2], ename(r['ret'])))
                    elif f[1] == 3 and r['ret'] == 0:
                        viol('run:%s:eof' % fn, rec, '%s: data ended after %d of %d octets but the driver returned ERR_OK' % (lab, f[3], left[k - 1]))
                    elif f[1] == 2 and r['ret'] == 0 and r['key'] == hon['keyA'] and r['unread']:
                        viol('run:%s:short' % fn, rec, '%s: short read, transcript not consumed, yet ERR_OK with the honest key' % lab)
        else:
            for mi, m in enumerate(incoming):
                gi = [i + 1 for i, w in enumerate(cat_bake.SENDER[c['proto']]) if w == peer][mi]      # global message index
                pos = sorted(set(list(range(0, len(m), stride)) + [len(m) - 1]))
                for j in pos:
                    w = bytearray(m); w[j] ^= 0x01
                    alt = bytes(w)
                    cls = classify(c, gi, m, alt)
                    inc2 = incoming[:mi] + [alt] + incoming[mi + 1:]
                    r = monitored_run(L, c, side, inc2)
                    out['n'] += 1
                    out['outcomes']['%s flip M%d -> %s' % (fn, gi, ename(r['ret']) if r['ret'] else 'other key')] += 1
                    out['classes'][cls[0]] += 1
                    rec = dict(base_rec, what='flip', mi=mi, j=j)
                    lab = '%s with M%d[%d]^0x01' % (fn, gi, j)
                    if r['live']:
                        viol('run:%s:leak:flip' % fn, rec, '%s: returned %s and left %d allocation(s) behind' % (lab, ename(r['ret']), r['live']))
                    elif cls[0] == 'invalid' and r['ret'] == 0:
                        viol('run:%s:invalid' % fn, rec, '%s: a point outside E* was accepted' % lab)
                    elif cls[0] == 'bound' and r['ret'] == 0 and r['key'] == hon['keyA']:
                        viol('run:%s:undetected' % fn, rec, '%s: ERR_OK with the honest key' % lab)
    return out

# ------------------------------------------------------------------ authenticated insider
def insider_groups(tier):
    """the insider cases of the catalogue, grouped by base dialogue (one reference-model session per group)"""
    groups = collections.OrderedDict()
    for fname, c in cat_bake.insider_cases(tier):
        groups.setdefault((fname, c['act_i']) + cat_bake._base_tag(c), []).append((fname, c))
    return list(groups.values())

def ins_label(c):
    return '%s l=%d M%d %s' % (c['proto'], c['l'], c['act_i'], c['ins'])

def judge_insider(c, res):
    """-> (outcome label, violation key suffix or None, message, observation)"""
    recv = cat_bake.INS_RECV[(c['proto'], c['act_i'])]
    v = cat_bake.insider_verdict(c)
    control = c['ins'].startswith('control')
    if v is None or (v[0] is None) != control:
        raise RuntimeError('reference model verdict %r does not fit the class of %s' % (v, ins_label(c)))
    steps = ' '.join(res['steps'])
    if res['ret']:
        return 'error', 'error', 'a step of the honest part of the dialogue failed with %s [%s]' % (ename(res['ret']), steps), None
    if not res['sync']:
        return 'desync', 'desync', ('the honest M%d of the implementation differs from the reference model\'s: the authenticated message could not be formed [%s]'
                                    % (c['act_i'], steps)), None
    if control:
        if res['rejected'] or res['keyA'] != res['keyB'] or res['keyA'] != v[1]:
            return 'control refused', 'control', ('the honest number s and the genuine certificate, sealed by the reference model under the session keys: %s returned %s, '
                                                   'keyA=%s keyB=%s model=%s [%s]' % (recv, ename(res['rej']), res['keyA'].hex(), res['keyB'].hex(), v[1].hex(), steps)), None
        return 'accepted (control)', None, None, None
    what = ('s = %s (>= q)' % c['ins'].replace('alias:', 'honest s + q = ')) if c.get('ins_s') is not None else 'certificate: ' + c['ins']
    if not res['rejected']:
        eq = res['keyA'] == res['keyB'] != b''
        return 'ACCEPTED', 'accepted', ('M%d with a correct confirmation tag and a correctly encrypted body, %s: %s returned ERR_OK%s; the standard admits only '
                                        's in {0..q-1} and a certificate of the sender\'s own key [%s]' % (c['act_i'], what, recv, ' and both parties hold the same key' if eq else '', steps)), None
    obs = None
    if res['rej'] != E.get(v[0]):
        obs = '%s: %s refuses with %s, the reference model with ERR_%s' % (ins_label(c), recv, ename(res['rej']), v[0])
    return '%s=%s' % (recv, ename(res['rej'])), None, None, obs

def insider_run(L, c):
    """the same insider message through the Run driver of the receiving side -> (outcome, key suffix or None, message)"""
    base = {k: v for k, v in c.items() if not (k.startswith('act') or k.startswith('ins'))}
    with vf.Arena(L) as A:
        hon = dialogue(L, base, A)
    if first_error(hon['trace'])[1]:
        return 'honest error', 'run:error', 'the honest dialogue failed'
    side = 'B' if c['act_i'] == 2 else 'A'
    msgs = list(hon['msgs'])
    msgs[c['act_i'] - 1] = cat_bake.insider(c)['msg']
    sent = dict(zip('AB', split_msgs(c['proto'], msgs)))
    r = monitored_run(L, c, side, sent['A' if side == 'B' else 'B'])
    fn = 'bake%sRun%s' % (c['proto'], side)
    if r['live']:
        return 'leak', 'run:leak', '%s: returned %s and left %d allocation(s) behind' % (fn, ename(r['ret']), r['live'])
    if c['ins'].startswith('control'):
        if r['ret'] or r['key'] != hon['keyA']:
            return 'control refused', 'run:control', '%s: the control message (honest s, genuine certificate, sealed by the model) gives %s' % (fn, ename(r['ret']))
        return '%s accepted (control)' % fn, None, None
    if r['ret'] == 0:
        return 'ACCEPTED', 'run:accepted', '%s returned ERR_OK for an authenticated M%d carrying %s' % (fn, c['act_i'], c['ins'])
    return '%s=%s' % (fn, ename(r['ret'])), None, None

def insider_job(group):
    L = common.lib(CFG)
    out = {'n': 0, 'outcomes': collections.Counter(), 'viol': [], 'obs': [], 'classes': collections.Counter()}
    for fname, c in group:
        rec = {'cfg': CFG, 'kind': 'ins', 'fn': fname, 'case': cat.enc_case(c)}
        res = common.run_fn(L, fname, c)
        lab, key, msg, obs = judge_insider(c, res)
        kind = c['ins'].split(':')[0] if not c['ins'].startswith('cert') else c['ins']
        out['n'] += 1
        out['classes'][kind] += 1
        out['outcomes']['%s insider M%d %s -> %s' % (c['proto'], c['act_i'], kind, lab)] += 1
        if msg:
            out['viol'].append(('insider:%s:M%d:%s:%s' % (c['proto'], c['act_i'], kind, key), rec, msg + '  [' + ins_label(c) + ' ' + cat.short(c) + ']'))
        if obs:
            out['obs'].append(obs)
        if c['proto'] == 'BSTS' and not res['ret'] and res['sync']:
            lab, key, msg = insider_run(L, c)
            out['n'] += 1
            out['outcomes']['%s insider M%d %s -> %s' % (c['proto'], c['act_i'], kind, lab)] += 1
            if msg:
                out['viol'].append(('insider:%s:M%d:%s:%s' % (c['proto'], c['act_i'], kind, key), dict(rec, kind='insrun'), msg + '  [' + ins_label(c) + ']'))
    return out

def _replay_insrun(rec):
    return insider_run(common.lib(rec.get('cfg', CFG)), cat.dec_case(rec['case']))[2]

# ------------------------------------------------------------------ top level
def collect(chk, jobs, res, part, keyfn):
    n = 0; classes = collections.Counter()
    for job, r in zip(jobs, res):
        if isinstance(r, dict) and ('crash' in r or 'harness_error' in r):
            c = job[0]
            chk.violation('%s:crash:%s' % (part, keyfn(job)), rec_of(c, ('honest',)),
                          '%s: %s %s [%s]' % (part, r.get('crash') or 'harness error', (r.get('stderr') or r.get('harness_error') or '')[-700:], short_sc(c)))
            continue
        n += r['n']
        classes.update(r['classes'])
        for o, k in r['outcomes'].items():
            chk.outcome(o, k)
        for key, rec, msg in r['viol']:
            chk.violation(key, rec, msg)
        for o in r['obs']:
            chk.observe(o)
    chk.part(part, states=len(jobs), transitions=n, traces_validated_against_impl=n, evaluations=n, distinct_nontrivial=len(jobs),
             classes=dict(classes))
    return n

def run(tier):
    chk = vf.Check(PROP, tier, deadline_s=900 if tier == 'quick' else 3600)
    # 1. honest dialogues (catalogue corpus), relational oracle + reference model
    cases = [x for x in cat_bake.gen_cases(tier) if x[1].get('act') != 'insider']
    honest_part(chk, cases)
    # 2. one adversary action per run, step by step
    jobs = tamper_jobs(tier)
    res = vf.pmap(tamper_job, jobs, case_timeout=900)
    collect(chk, jobs, res, 'adversary_step_by_step', lambda j: '%s:%s' % (j[0]['proto'], j[1]))
    # 3. RunA / RunB against the scripted channel
    djobs = driver_jobs(tier)
    res = vf.pmap(driver_job, djobs, case_timeout=900)
    collect(chk, djobs, res, 'run_drivers', lambda j: '%s:%s' % (j[0]['proto'], j[1]))
    # 4. the authenticated insider: out-of-range s / foreign certificate behind a correct tag (messages sealed by the reference model)
    igroups = insider_groups(tier)
    res = vf.pmap(insider_job, igroups, case_timeout=900)
    collect(chk, [(g[0][1], 'insider') for g in igroups], res, 'authenticated_insider', lambda j: '%s:insider' % j[0]['proto'])
    chk.sample({'scenario': ins_label(igroups[0][1][1]), 'oracle': 'B.Step4 must return an error: s = q is outside {0..q-1} although tag and encryption are correct'})
    b0 = jobs[0][0]
    chk.sample({'scenario': short_sc(dict(b0, act='flip', act_i=1, act_j=0, act_m=1)), 'oracle': 'invalid point -> A.Step3 must fail'})
    chk.sample({'scenario': short_sc(dict(b0, val_fail=3, val_code=E['BAD_CERT'])), 'oracle': 'A.Step3 must fail'})
    chk.sample({'driver': 'bakeBSTSRunB', 'faults': 'every read/write call index x {error codes, premature end = ERR_MAX (0, half, all-1 octets), short read (0, half)}'})
    chk.observe('BPACE M2/M3 and BAUTH M1 (kcb=0): replacing the transmitted point P by -P = (x, p-y) is not detected and both parties derive the same key, '
                'because BPACE (STB 34.101.66: K = <ua Vb>_2l, Y = belt-hash(<K>_2l || <Va>_2l || <Vb>_2l || hello)) and BAUTH (K = <dt Vct>_2l) use x-coordinates only; '
                'the implementation follows the standards (in BSTS, BMQV and BAUTH with kcb=1 the sign of y IS bound and -P is rejected)')
    chk.assumptions += ['certificates: opaque prefix || <Q>_4l with the validator of bake_test.c (last l/2 octets); the validator is drv/vh_c04.c',
                        'the peer of a Run driver is the recorded step-by-step transcript (read never crosses a message boundary, ERR_MAX at the end of a message that is shorter than the request)',
                        'tamper classes are decided by ref/ecp.py (on-curve test) on the altered octets; filler values only in keys, tapes, hello, passwords',
                        'BAUTH: the reference model (ref/bake.py) has no published vector; it reproduces every honest BAUTH dialogue of the corpus octet for octet, the deciding oracle stays relational',
                        'authenticated insider: the session keys K1, K2 come from the reference model run on the same tapes; a case counts only if the model\'s honest message '
                        'equals the real one (sync), so that the insider message is authentic by construction; the control (honest s re-sealed) must be accepted']
    return chk.finish('C04', 'curve x protocol x (kca,kcb) x hello x tape x one adversary action: every (message, octet, mask) flip, point substitutions on every '
                      'point-carrying message, length changes of variable-length messages, mismatched passwords/keys/certificates/hello, every validator call failing; '
                      'drivers: every channel call index x fault kinds, flips of incoming messages; authenticated insider: 3 levels x {BSTS M2, BSTS M3, BAUTH M3} x '
                      '{s = q, q+1, 2^2l-1 on a general base and as alias of an honest s = 0, 1, 2^2l-1-q; 3 certificate alterations; 4 controls}, stepwise and through RunA/RunB; '
                      'states = base scenarios x families, transitions = complete dialogues executed')

def replay(rec):
    k = rec.get('kind')
    L = common.lib(rec.get('cfg', CFG))
    if k == 'case':
        return check_honest((rec['fn'], cat.dec_case(rec['case'])))[0]
    c = cat.dec_case(rec['case'])
    if k == 'dlg':
        cls = tuple(rec['cls'])
        hk = None
        if cls[0] == 'unbound':
            base = {k: v for k, v in c.items() if not k.startswith('act')}
            with vf.Arena(L) as A:
                hk = dialogue(L, base, A)['keyA']
        with vf.Arena(L) as A:
            d = dialogue(L, c, A)
        return judge(c, cls, d, hk)[1]
    if k == 'ins':
        cc = cat.dec_case(rec['case'])
        return judge_insider(cc, common.run_fn(L, rec['fn'], cc))[2]
    if k == 'insrun':
        r = vf.pmap(_replay_insrun, [rec], nproc=1)[0]
        return ('driver crashed: %s' % str(r)[:500]) if isinstance(r, dict) else r
    if k == 'run':
        r = vf.pmap(replay_run, [rec], nproc=1)[0]
        if isinstance(r, dict):
            return 'driver crashed: %s' % str(r)[:500]
        return r
    return None

def replay_run(rec):
    """re-executes one driver observation; returns the violation message or None"""
    c = cat.dec_case(rec['case'])
    L = common.lib(rec.get('cfg', CFG))
    with vf.Arena(L) as A:
        hon = dialogue(L, c, A)
    if judge(c, ('honest',), hon, None)[1]:
        return judge(c, ('honest',), hon, None)[1]
    side = rec['side']; peer = 'B' if side == 'A' else 'A'
    sent = dict(zip('AB', split_msgs(c['proto'], hon['msgs'])))
    incoming = sent[peer]
    fn = 'bake%sRun%s' % (c['proto'], side)
    if rec['what'] == 'honest':
        h = monitored_run(L, c, side, incoming)
        if h['ret'] or h['key'] != hon['keyA'] or h['written'] != sent[side] or h['live'] or h['unread']:
            return '%s honest: ret=%s, key %s, messages %s, %d allocation(s) left, %d unread' % (
                fn, ename(h['ret']), 'equal' if h['key'] == hon['keyA'] else 'DIFFERS', 'equal' if h['written'] == sent[side] else 'DIFFER', h['live'], h['unread'])
        return None
    if rec['what'] == 'fault':
        f = tuple(rec['fault'])
        r = monitored_run(L, c, side, incoming, f)
        if r['live']:
            return '%s fault %s: returned %s and left %d allocation(s) behind' % (fn, f, ename(r['ret']), r['live'])
        if f[1] == 1 and (r['ret'] != f[2] if f[2] != E['MAX'] else r['ret'] == 0):
            return '%s fault %s: the channel answered %#x, the driver returned %s' % (fn, f, f[2], ename(r['ret']))
        if f[1] == 3 and r['ret'] == 0:
            return '%s fault %s: data ended early but the driver returned ERR_OK' % (fn, f)
        if f[1] == 2 and r['ret'] == 0 and r['key'] == hon['keyA'] and r['unread']:
            return '%s fault %s: short read, transcript not consumed, yet ERR_OK with the honest key' % (fn, f)
        return None
    if rec['what'] == 'flip':
        mi, j = rec['mi'], rec['j']
        m = incoming[mi]
        gi = [i + 1 for i, w in enumerate(cat_bake.SENDER[c['proto']]) if w == peer][mi]
        w = bytearray(m); w[j] ^= 0x01
        cls = classify(c, gi, m, bytes(w))
        r = monitored_run(L, c, side, incoming[:mi] + [bytes(w)] + incoming[mi + 1:])
        if r['live']:
            return '%s flip M%d[%d]: returned %s and left %d allocation(s) behind' % (fn, gi, j, ename(r['ret']), r['live'])
        if cls[0] == 'invalid' and r['ret'] == 0:
            return '%s flip M%d[%d]: a point outside E* was accepted' % (fn, gi, j)
        if cls[0] == 'bound' and r['ret'] == 0 and r['key'] == hon['keyA']:
            return '%s flip M%d[%d]: ERR_OK with the honest key' % (fn, gi, j)
    return None
