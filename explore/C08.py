"""C08 -- decoders are total, bounded and canonical; encode / decode are mutually inverse.

E1 shape explorer on the real object code (cfg 'asan': ASan + bounds, ASSERT active, exact-size inputs):
  A  exhaustive octet strings (length 0..3 complete; thorough: + 4-octet strings opened by a long-tag introducer and
     4-octet strings with a long / reserved length introducer) through derTLDec, derDec, derIsValid(2), derStartsWith,
     derTSIZEDec, derTUINTDec, derTBITDec, derTOCTDec, derTPSTRDec, derOIDDec(2), oidFromDER, derNULLDec,
     derTSEQDecStart/Stop, btokCVCLen -- tight C loop (drv/vh_c08.c), every string on an exact-size copy
     (guard page: over-reads are caught per string; malloc copy: ASan redzones), table compared with ref/codec.py
  B  exhaustive character strings over the alphabet of hex / base64 / decimal and its neighbours
  C  exhaustive APDU strings over {00,01,7F,80,FF} up to 7 octets + all Lc/Le form combinations with boundary data lengths
  D  encoders over the boundary alphabets (tags of 1..4 octets, lengths, SIZE values, OID arcs, bit lengths, APDU lengths)
  E  structure-aware mutants of valid encodings (bign parameters, OIDs, CV certificates, bpki containers, SM APDUs)
  F  the shared corpus of explore/cat_codec.py against its references
Oracle: no sanitizer report / crash / over-read; failure or consumed <= input; accept iff the reference accepts; accepted
=> decoded value equals the reference's and re-encoding reproduces the octets (DER, OID, APDU, base64, decimal; not hex);
encoder output equals the reference code and decodes to the encoded value."""
import ctypes, struct, itertools, os, re, sys, time
import vf, cat, common, cat_codec as K
import codec as C
import codec_st as S
import C07

PROP = 'C08'
CFG = 'asan'
SIZE_MAX = vf.SIZE_MAX
C.LEN_MAX = SIZE_MAX - 1          # der.h: "length fits size_t"; SIZE_MAX itself is the error value of every decoder (see assumptions)

# ================================================================================================ A. DER strings
D_TL, D_DEC, D_SIZE, D_UINT, D_BIT, D_OCT, D_PSTR, D_OID, D_OIDFROM, D_NULL, D_SEQ, D_CVCLEN, D_TLNULL, D_ISVALID, D_ISVALID2, D_STARTS = range(16)
DNAME = ['derTLDec', 'derDec', 'derTSIZEDec', 'derTUINTDec', 'derTBITDec', 'derTOCTDec', 'derTPSTRDec', 'derOIDDec', 'oidFromDER', 'derNULLDec',
         'derTSEQDecStart', 'btokCVCLen', 'derTLDec(null outputs)', 'derIsValid', 'derIsValid2', 'derStartsWith']
W_FULL = 0xFFFF
W_TL = (1 << D_TL) | (1 << D_DEC) | (1 << D_TLNULL) | (1 << D_ISVALID) | (1 << D_ISVALID2) | (1 << D_STARTS)
DER_REC = struct.Struct('<IHH' + 'BBIQ' * 12)
assert DER_REC.size == 176
dig = K.dig

def sat(r):
    return 0xFF if r is None or r == SIZE_MAX else (r if r <= 0xFD else 0xFE)

def tagk(s, k):
    return int.from_bytes(s[:k], 'big')

def taglen(s):
    n = len(s)
    if n == 0:
        return 0
    if (s[0] & 31) != 31:
        return 1
    for k in range(1, min(n, 4)):
        if not s[k] & 128:
            return k + 1
    return min(n, 4)

def der_expect(s, which=W_FULL):
    """the record vh_c08_der1 must produce for the octet string s according to ref/codec.py: list of 12 entries
    (ret, aux, a, b) + bits; gate = whether the typed tag T is a valid tag word"""
    n = len(s)
    e = [(0xFF, 0, 0, 0)] * 12
    e[D_SEQ] = (0, 0, 0, 0)
    bits = 0
    T = tagk(s, taglen(s))
    tl = C.der_tl_dec(s)
    if which >> D_TL & 1:
        if tl:
            e[D_TL] = (sat(tl[2]), 0, tl[0], tl[1])
    if which >> D_TLNULL & 1:
        bits |= 1 << 9
    dec = C.der_dec(s)
    if which >> D_DEC & 1:
        if dec:
            e[D_DEC] = (sat(dec[2]), sat(dec[2] - len(dec[1])), dec[0], len(dec[1]))
    if which >> D_ISVALID & 1 and dec and dec[2] == n:
        bits |= 1
    if which >> D_ISVALID2 & 1 and dec and dec[2] == n:
        for k in range(1, min(n, 4) + 1):
            if dec[0] == tagk(s, k) and C.der_is_valid2(s, tagk(s, k)):
                bits |= 1 << k
    if which >> D_STARTS & 1:
        t = C.der_t_dec(s)
        if t:
            for k in range(1, min(n, 4) + 1):
                if t[0] == tagk(s, k):
                    bits |= 1 << (4 + k)
    if which >> D_SIZE & 1:
        r = C.der_tsize_dec(s, T)
        if r:
            e[D_SIZE] = (sat(r[1]), 0, 0, r[0])
    if which >> D_UINT & 1:
        r = C.der_tuint_dec(s, T)
        if r:
            e[D_UINT] = (sat(r[1]), 1, len(r[0]), dig(r[0]))
    if which >> D_BIT & 1:
        r = C.der_tbit_dec(s, T)
        if r:
            e[D_BIT] = (sat(r[2]), 1, r[1], dig(r[0]))
    if which >> D_OCT & 1:
        r = C.der_toct_dec(s, T)
        if r:
            e[D_OCT] = (sat(r[1]), 1, len(r[0]), dig(r[0]))
    if which >> D_PSTR & 1:
        r = C.der_tpstr_dec(s, T)
        if r:
            e[D_PSTR] = (sat(r[1]), 3, len(r[0]), dig(r[0].encode('latin1')))
    if which >> D_OID & 1:
        r = C.der_oid_dec(s)
        if r:
            e[D_OID] = (sat(r[1]), 7, len(r[0]), dig(r[0].encode()))
    if which >> D_OIDFROM & 1:
        r = C.oid_from_der(s)
        if r is not None:
            e[D_OIDFROM] = (sat(len(r)), 3 | (4 if C.oid_to_der(r) == bytes(s) else 0), len(r), dig(r.encode()))
    if which >> D_NULL & 1:
        r = C.der_null_dec(s)
        if r:
            e[D_NULL] = (sat(r), 0, 0, 0)
    gate = n > 0 and C.der_tag_is_valid(T)
    if which >> D_SEQ & 1 and gate:
        r = C.der_tseq_dec_start(s, T)
        e[D_SEQ] = (sat(r[1]), 1 if r[0] <= n else 0, T, r[0]) if r else (0xFF, 0, 0, 0)
    if which >> D_CVCLEN & 1:
        r = C.der_dec2(s, 0x7F21)
        if r:
            e[D_CVCLEN] = (sat(r[1]), 0, 0, 0)
    for d in range(12):
        if not which >> d & 1:
            e[d] = (0, 0, 0, 0)          # decoder not run: the helper leaves an empty entry
    return e, bits, gate

def tag_class(s):
    n = len(s)
    if n == 0:
        return 'none'
    if (s[0] & 31) != 31:
        return 'short'
    if n == 1:
        return 'long-alone'
    if (s[1] & 127) == 0:
        return 'long-first-group-zero'
    for k in range(1, min(n, 4)):
        if not s[k] & 128:
            if k == 1 and s[1] < 31:
                return 'long-for-small-number'
            return 'long-%d%s' % (k + 1, '-ending-at-limit' if k + 1 == min(n, 4) else '')
    return 'long-unterminated'

def len_class(rest):
    if not rest:
        return 'none'
    b = rest[0]
    if b < 128:
        return 'short'
    if b == 128:
        return '80'
    if b == 255:
        return 'FF'
    r = b & 127
    if len(rest) < 1 + r:
        return 'long-%d-truncated' % r
    if r > 8:
        return 'long-%d' % r
    v = int.from_bytes(rest[1:1 + r], 'big')
    if rest[1] == 0 or v < 128:
        return 'long-%d-nonminimal' % r
    if v >= 2 ** 64 - 32:
        return 'long-8-near-SIZE_MAX'
    return 'long-%d' % r

def shape(s):
    t = C.der_t_dec(s)
    tc = tag_class(s)
    lc = len_class(s[t[1]:]) if t else '-'
    return tc, lc

def root_cause(s, d, kind, got=None):
    """group a disagreement on string s of decoder index d by the spec-level shape of s (not by reading the C code)"""
    tc, lc = shape(s)
    if tc in ('long-alone', 'long-first-group-zero') and kind in ('accepts', 'value', 'oob-read', 'consumed>input'):
        return 'F10:der-tag-long-form-without-number-accepted'
    if tc.endswith('-ending-at-limit') and kind == 'rejects':
        return 'F11:der-tag-ending-at-4th-or-last-octet-rejected'
    tl = C.der_tl_dec(s)
    if lc == 'long-8-near-SIZE_MAX' and kind in ('accepts', 'oob-read', 'value', 'consumed>input'):
        return 'F12a:der-length-near-SIZE_MAX-wraps'
    if d == D_SIZE and kind in ('accepts', 'oob-read', 'consumed>input') and tl and (tl[1] == 0 or tl[1] > len(s) - tl[2]):
        return 'F12b:der-TSIZE-value-absent-or-short'
    v = C.der_dec2(s, 0x06)
    if d in (D_OID, D_OIDFROM) and kind == 'accepts' and v and (len(v[0]) == 0 or v[0][-1] & 0x80):
        return 'G4:der-OID-empty-or-unterminated-subidentifier-accepted'
    if d == D_PSTR and kind == 'accepts' and tl and b'\0' in s[tl[2]:]:
        return 'G5:der-PSTR-NUL-accepted'
    v = C.der_dec(s)
    if d == D_BIT and kind == 'accepts' and v and len(v[1]) >= 2 and 1 <= v[1][0] <= 7 and v[1][-1] & ((1 << v[1][0]) - 1):
        return 'G6:der-BIT-nonzero-padding-accepted'
    if d == D_SEQ and kind == 'gate':
        return 'G3:der-encoder-rejects-valid-tag'
    lcn = re.sub(r'-\d+', '', lc)
    if lcn not in ('short', 'long', 'none', '-'):
        return 'other:%s:length-form=%s' % (kind, lcn)
    if tc not in ('short', 'none') and not re.match(r'long-\d$', tc):
        return 'other:%s:tag-form=%s' % (kind, re.sub(r'-\d+', '', tc))
    return 'other:%s:%s' % (DNAME[d], kind)

def der_judge(s, raw, which=W_FULL):
    """compare one record with the reference -> list of (key, decoder name, kind, detail)"""
    f = DER_REC.unpack(raw)
    oob, bits = f[0], f[1]
    ents = [f[3 + 4 * i:7 + 4 * i] for i in range(12)]
    exp, xbits, gate = der_expect(s, which)
    out = []
    n = len(s)
    def add(d, kind, detail):
        out.append((root_cause(s, d, kind), DNAME[d], kind, detail))
    for d in range(16):
        if oob >> d & 1:
            add(d, 'oob-read', 'reads past the end of the exact-size input')
    cgate = bits >> 10 & 1
    if which >> D_SEQ & 1 and n and bool(cgate) != bool(gate):
        T = tagk(s, taglen(s))
        add(D_SEQ, 'gate', 'derTLEnc(0, tag %#x, 0) %s, the tag word is %s by the grammar of der.h' %
            (T, 'succeeds' if cgate else 'returns SIZE_MAX', 'valid' if gate else 'invalid'))
    for d in range(12):
        if not which >> d & 1 or oob >> d & 1:
            continue
        if d == D_SEQ and not (cgate and gate):
            continue
        g, x = ents[d], exp[d]
        if g == x:
            continue
        if g[0] != 0xFF and x[0] == 0xFF:
            kind = 'accepts'
        elif g[0] == 0xFF and x[0] != 0xFF:
            kind = 'rejects'
        else:
            kind = 'value'
        add(d, kind, 'returns (ret, aux, a, b) = %s, reference %s' % (fmt_ent(d, g), fmt_ent(d, x)))
        if g[0] != 0xFF and (g[0] == 0xFE or g[0] > n) and d != D_OIDFROM:
            add(d, 'consumed>input', 'reports %s consumed octets for an input of %d' % ('>253' if g[0] == 0xFE else g[0], n))
    xb = xbits
    for d, lo, hi, nm in ((D_ISVALID, 0, 0, 'derIsValid'), (D_ISVALID2, 1, 4, 'derIsValid2'), (D_STARTS, 5, 8, 'derStartsWith'), (D_TLNULL, 9, 9, 'derTLDec(null)')):
        if not which >> d & 1 or oob >> d & 1:
            continue
        m = ((1 << (hi + 1)) - 1) & ~((1 << lo) - 1)
        if (bits & m) != (xb & m):
            kind = 'accepts' if (bits & m) & ~(xb & m) else 'rejects'
            if d == D_TLNULL:
                kind = 'value'
            add(d, kind, 'result bits %s, reference %s (bit k: tag word = first k octets)' % (bin((bits & m) >> lo), bin((xb & m) >> lo)))
    return out

def fmt_ent(d, e):
    if e[0] == 0xFF:
        return 'SIZE_MAX'
    return '(consumed %d, %d, %#x, %#x)' % e

ALL256 = None
def enum_call(L, kind, prefix, n, alph, start, cnt, mode, which, skip=None):
    """one call of the C enumerator -> raw record table"""
    rs = {'der': 176, 'chr': K.CHR_REC.size, 'apdu': K.APDU_REC.size}[kind]
    out = ctypes.create_string_buffer(rs * cnt)
    args = [ctypes.c_char_p(bytes(prefix)), ctypes.c_uint64(len(prefix)), ctypes.c_uint64(n),
            ctypes.c_char_p(bytes(alph)) if alph is not None else None, ctypes.c_uint64(len(alph) if alph is not None else 256),
            ctypes.c_uint64(start), ctypes.c_uint64(cnt), ctypes.c_int(mode)]
    if kind == 'der':
        f = L.dll.vh_c08_der_enum
        args += [ctypes.c_uint32(which), skip, out]
    elif kind == 'chr':
        f = L.dll.vh_c08_chr_enum
        args += [ctypes.c_uint32(which), out]
    else:
        f = L.dll.vh_c08_apdu_enum
        args += [out]
    f.restype = ctypes.c_uint64
    done = f(*args)
    if done != cnt:
        raise RuntimeError('enumerator stopped at %d of %d' % (done, cnt))
    return out

def strings(prefix, n, alph, start, cnt):
    a = list(alph) if alph is not None else list(range(256))
    asz = len(a)
    for i in range(start, start + cnt):
        t = i; w = []
        for _ in range(n):
            w.append(a[t % asz]); t //= asz
        yield bytes(prefix) + bytes(reversed(w))

class Findings:
    """per root-cause key: the smallest witness and a count"""
    def __init__(self):
        self.d = {}
    def add(self, key, sortkey, rec, msg, fn=''):
        cur = self.d.get(key)
        rec = dict(rec, key=key)
        if cur is None:
            self.d[key] = [sortkey, rec, msg, 1, [fn]]
        else:
            cur[3] += 1
            if fn not in cur[4] and len(cur[4]) < 24:
                cur[4].append(fn)
            if sortkey < cur[0]:
                cur[0], cur[1], cur[2] = sortkey, rec, msg
    def merge(self, other):
        for k, (sk, rec, msg, n, fns) in other.items():
            cur = self.d.get(k)
            if cur is None:
                self.d[k] = [sk, rec, msg, n, list(fns)]
            else:
                cur[3] += n
                for f in fns:
                    if f not in cur[4] and len(cur[4]) < 24:
                        cur[4].append(f)
                if sk < cur[0]:
                    cur[0], cur[1], cur[2] = sk, rec, msg

def der_job(job):
    """(cfg, prefix, n, alph, start, cnt, which) -> {'n':..., 'find': {key: [sortkey, rec, msg, count]}, 'accepted': ...}"""
    cfg, prefix, n, alph, start, cnt, which = job
    L = common.lib(cfg)
    t1 = enum_call(L, 'der', prefix, n, alph, start, cnt, 1, which)
    t0 = enum_call(L, 'der', prefix, n, alph, start, cnt, 0, which, t1) if cfg in vf.SAN_CFGS else None
    raw1 = t1.raw
    raw0 = t0.raw if t0 is not None else None
    F = Findings()
    acc = 0
    outcomes = {}
    for i, s in enumerate(strings(prefix, n, alph, start, cnt)):
        r = raw1[176 * i:176 * i + 176]
        if r[8] != 0xFF:
            acc += 1
        # fast path: the record is exactly the reference's record
        exp, xbits, gate = der_expect(s, which)
        flat = []
        for e in exp:
            flat += e
        if which >> D_SEQ & 1 and gate:
            xbits |= 1 << 10
        if r == DER_REC.pack(0, xbits, 0, *flat) and (raw0 is None or raw0[176 * i:176 * i + 176] == r):
            continue
        js = der_judge(s, r, which)
        for key, fn, kind, detail in js:
            rec = {'cfg': cfg, 'kind': 'der', 'hex': s.hex(), 'which': which}
            F.add(key, (len(s), s.hex(), DNAME.index(fn)), rec, '%s(%s): %s [%s]' % (fn, s.hex() or '<empty>', detail, kind), fn)
        if raw0 is not None:
            q = raw0[176 * i:176 * i + 176]
            if q != r:
                oob = struct.unpack_from('<I', r)[0]
                # decoders skipped in the malloc pass (they faulted on the guard page) leave empty entries
                same = oob != 0 or q[4:8] == r[4:8]
                for d in range(12):
                    if not oob >> d & 1 and q[8 + 14 * d:22 + 14 * d] != r[8 + 14 * d:22 + 14 * d]:
                        same = False
                if not same:
                    rec = {'cfg': cfg, 'kind': 'der', 'hex': s.hex(), 'which': which}
                    F.add('der:result-depends-on-placement', (len(s), s.hex(), 0), rec,
                          'DER battery on %s: results differ between the guard-page copy and the malloc copy (%s vs %s)' % (s.hex(), r.hex()[:80], q.hex()[:80]))
    return {'n': cnt, 'find': F.d, 'accepted': acc}

def der_jobs(tier, cfg):
    jobs = []
    for n in (0, 1, 2):
        jobs.append((cfg, b'', n, None, 0, 256 ** n, W_FULL))
    firsts = range(256) if tier == 'thorough' else [0x00, 0x04, 0x1F, 0x30, 0x3F, 0x7F, 0x9F, 0xBF, 0xDF, 0xFF]
    for b0 in firsts:
        for b1 in range(0, 256, 64):
            jobs.append((cfg, bytes([b0]), 2, None, b1 * 256, 64 * 256, W_FULL))
    # 4-octet strings T 02 xx yy (a two-octet value under every typed decoder's tag)
    for b0 in (0x02, 0x03, 0x04, 0x06, 0x13) + ((0x05, 0x30, 0x42) if tier == 'thorough' else ()):
        if tier == 'thorough':
            jobs.append((cfg, bytes([b0, 2]), 2, None, 0, 65536, W_FULL))
        else:
            a2 = bytes([0x00, 0x01, 0x07, 0x08, 0x2A, 0x41, 0x7F, 0x80, 0x81, 0xFE, 0xFF])
            jobs.append((cfg, bytes([b0, 2]), 2, a2, 0, len(a2) ** 2, W_FULL))
    if tier == 'thorough':
        # 4-octet strings opened by a long-tag introducer: complete
        for b0 in (0x1F, 0x3F, 0x5F, 0x7F, 0x9F, 0xBF, 0xDF, 0xFF):
            for b1 in range(256):
                jobs.append((cfg, bytes([b0, b1]), 2, None, 0, 65536, W_TL))
        # 4-octet strings with a short tag and a long / indefinite / reserved length introducer: complete
        for b0 in (0x00, 0x02, 0x03, 0x04, 0x05, 0x06, 0x13, 0x30, 0x7E, 0xA0):
            for b1 in (0x80, 0x81, 0x82, 0x83, 0x84, 0x87, 0x88, 0x89, 0xFE, 0xFF):
                jobs.append((cfg, bytes([b0, b1]), 2, None, 0, 65536, W_FULL))
    else:
        # quick: the same two families over the boundary alphabet
        alph = bytes([0x00, 0x01, 0x1E, 0x1F, 0x7F, 0x80, 0x81, 0xFF])
        for b0 in (0x1F, 0x7F, 0xFF):
            jobs.append((cfg, bytes([b0]), 3, alph, 0, len(alph) ** 3, W_TL))
        for b0 in (0x02, 0x04, 0x30):
            for b1 in (0x80, 0x81, 0x82, 0x88, 0xFF):
                jobs.append((cfg, bytes([b0, b1]), 2, alph, 0, len(alph) ** 2, W_FULL))
    return jobs

def replay_der(rec):
    s = bytes.fromhex(rec['hex'])
    L = common.lib(rec['cfg'])
    out = ctypes.create_string_buffer(176)
    L.dll.vh_c08_der1(ctypes.c_char_p(s), ctypes.c_uint64(len(s)), ctypes.c_int(1), ctypes.c_uint32(rec['which']), ctypes.c_uint32(0), out)
    js = der_judge(s, out.raw, rec['which'])
    want = rec.get('key')
    js = [j for j in js if want is None or j[0] == want] or js
    if not js:
        return None
    return '; '.join('%s(%s): %s [%s]' % (fn, s.hex() or '<empty>', detail, kind) for key, fn, kind, detail in js[:4])

# ================================================================================================ B. character strings
B64 = b'ABCDEFGHIJKLMNOPQRSTUVWXYZabcdefghijklmnopqrstuvwxyz0123456789+/'
CHR_ALPH = B64 + b'=:@[`{-_ *' + bytes([0x80, 0xFF])          # the 64 symbols + padding + the neighbours of every range
CHR_LEAD = b'AQgZaf09+/=:'                                       # quick tier: leading pair of 4-character strings

def chr_judge(s, raw):
    exp = K.chr_expect(s)
    if raw == exp:
        return []
    g = K.CHR_REC.unpack(raw); x = K.CHR_REC.unpack(exp)
    out = []
    names = ('hex', 'b64', 'dec')
    if g[0]:
        for i in range(3):
            if g[0] >> i & 1:
                out.append(('chr:%s:oob-read' % names[i], names[i], 'oob-read', 'reads past the terminating NUL of the exact-size string'))
    for i in range(3):
        if g[0] >> i & 1:
            continue
        gv, xv = g[1] >> i & 1, x[1] >> i & 1
        if gv != xv:
            kind = 'accepts' if gv else 'rejects'
            out.append(('chr:%sIsValid:%s' % (names[i], kind), names[i], kind, '%sIsValid returns %d, reference %d' % (names[i], gv, xv)))
            continue
        if not gv:
            continue
        relmask = (7, 24, 96)[i]
        cols = ((4, 5, 6), (7, 8), (9, 10, 11))[i]
        if (g[2] & relmask) != (x[2] & relmask):
            what = {0: 'hexEq / hexFrom(hexTo(s)) == upper(s) / hexEqRev', 1: 'b64To length agreement / b64From(b64To(s)) == s', 2: 'decFromU32(decToU32(s)) == s / decFromU64'}[i]
            out.append(('chr:%s:relation' % names[i], names[i], 'value', 'relation bits %s, reference %s (%s)' % (bin(g[2] & relmask), bin(x[2] & relmask), what)))
        for c in cols:
            if g[c] != x[c]:
                out.append(('chr:%s:value' % names[i], names[i], 'value', 'decoded value field %d = %#x, reference %#x' % (c, g[c], x[c])))
                break
    return out

def chr_job(job):
    cfg, prefix, n, start, cnt = job
    L = common.lib(cfg)
    raw1 = enum_call(L, 'chr', prefix, n, CHR_ALPH, start, cnt, 1, 7).raw
    raw0 = enum_call(L, 'chr', prefix, n, CHR_ALPH, start, cnt, 0, 7).raw if cfg in vf.SAN_CFGS else None
    F = Findings()
    rs = K.CHR_REC.size
    acc = [0, 0, 0]
    for i, s in enumerate(strings(prefix, n, CHR_ALPH, start, cnt)):
        r = raw1[rs * i:rs * i + rs]
        for k in range(3):
            acc[k] += r[4] >> k & 1
        for key, fn, kind, detail in chr_judge(s, r):
            F.add(key, (len(s), s.hex(), 0), {'cfg': cfg, 'kind': 'chr', 'hex': s.hex()}, '%s on %r: %s [%s]' % (fn, s, detail, kind), fn)
        if raw0 is not None and raw0[rs * i:rs * i + rs] != r and r[0:4] == b'\0\0\0\0':
            F.add('chr:result-depends-on-placement', (len(s), s.hex(), 0), {'cfg': cfg, 'kind': 'chr', 'hex': s.hex()},
                  'character battery on %r: guard-page copy and malloc copy disagree' % s)
    return {'n': cnt, 'find': F.d, 'accepted': acc}

def chr_jobs(tier, cfg):
    A = len(CHR_ALPH)
    jobs = [(cfg, b'', n, 0, A ** n) for n in (0, 1, 2)]
    for c in CHR_ALPH:
        jobs.append((cfg, bytes([c]), 2, 0, A * A))
    if tier == 'thorough':
        for a in CHR_ALPH:
            for b in CHR_ALPH:
                jobs.append((cfg, bytes([a, b]), 2, 0, A * A))
    else:
        for a in CHR_LEAD:
            for b in CHR_LEAD:
                jobs.append((cfg, bytes([a, b]), 2, 0, A * A))
    return jobs

def replay_chr(rec):
    s = bytes.fromhex(rec['hex'])
    L = common.lib(rec['cfg'])
    js = chr_judge(s, K.c_chr1(L, s, mode=1))
    js = [j for j in js if j[0] == rec.get('key')] or js
    return '; '.join('%s on %r: %s [%s]' % (fn, s, detail, kind) for key, fn, kind, detail in js[:3]) if js else None

# ================================================================================================ C. APDU
APDU_ALPH = bytes([0x00, 0x01, 0x7F, 0x80, 0xFF])

def apdu_judge(s, raw):
    g = K.APDU_REC.unpack(raw)
    (oob, cret, rret, flags, _, cla, ins, p1, p2, cdf_len, rdf_len, cdf, enc_len, sw1, sw2, _, r_len, r_rdf) = g
    out = []
    gram = C.apdu_cmd_dec(s)
    canon = C.apdu_cmd_dec(s, canonical=True)
    if oob & 1:
        out.append(('apdu:cmd:oob-read', 'apduCmdDec', 'oob-read', 'reads past the end of the exact-size input'))
    elif cret == 0xFE:
        out.append(('apdu:cmd:size', 'apduCmdDec', 'value', 'returned size is not sizeof(apdu_cmd_t) + a data length within the input'))
    elif cret == 1:
        if gram is None:
            body = s[4:]
            key = 'G7:apdu-cmd-extended-Lc-0000-accepted' if len(body) >= 3 and body[0] == 0 and body[1:3] == b'\0\0' and len(body) != 3 else 'apdu:cmd:accepted-outside-grammar'
            out.append((key, 'apduCmdDec', 'accepts', 'accepted (cdf_len %d, rdf_len %d); apdu.h items 2-5 admit no such command' % (cdf_len, rdf_len)))
        else:
            want = (gram[0], gram[1], gram[2], gram[3], len(gram[4]), gram[5], dig(gram[4]))
            if (cla, ins, p1, p2, cdf_len, rdf_len, cdf) != want:
                out.append(('apdu:cmd:value', 'apduCmdDec', 'value', 'decoded (cla, ins, p1, p2, cdf_len, rdf_len, cdf) = %s, apdu.h gives %s' % ((cla, ins, p1, p2, cdf_len, rdf_len, cdf), want)))
            elif not flags & 4:
                out.append(('apdu:cmd:size', 'apduCmdDec', 'value', 'size of the first (null output) and the second call differ or != sizeof + cdf_len'))
            elif not flags & 1:
                forms = C.apdu_cmd_forms(s)
                key = 'apdu:cmd:non-shortest-form-accepted:Lc=%s,Le=%s' % forms
                # ruling (coordinator): an extended Lc < 256 WITHOUT Le is admitted by apdu.h items 4-5 (no shortest-form rule is
                # documented, APDU is not documented as canonical): not a violation of C08, recorded as an observation in run()
                if forms != ('ext', None):
                  out.append((key, 'apduCmdDec', 'accepts',
                            'accepted (cdf_len %d, rdf_len %d) but apduCmdEnc of the decoded command gives %d octets, not these %d (Lc/Le forms %s)' %
                            (cdf_len, rdf_len, enc_len, len(s), C.apdu_cmd_forms(s))))
    else:
        if canon is not None:
            out.append(('apdu:cmd:canonical-code-rejected', 'apduCmdDec', 'rejects', 'rejected; it is the code apdu.h assigns to cdf_len %d, rdf_len %d' % (len(canon[4]), canon[5])))
    rr = C.apdu_resp_dec(s)
    if oob & 2:
        out.append(('apdu:resp:oob-read', 'apduRespDec', 'oob-read', 'reads past the end of the exact-size input'))
    elif (rret == 1) != (rr is not None) or rret == 0xFE:
        out.append(('apdu:resp:accept', 'apduRespDec', 'accepts' if rret == 1 else 'rejects', 'returns %s, apdu.h: a response is RDF || SW1 || SW2' % ('a size' if rret == 1 else 'SIZE_MAX')))
    elif rr is not None:
        if (sw1, sw2, r_len, r_rdf) != (rr[0], rr[1], len(rr[2]), dig(rr[2])) or not flags & 8:
            out.append(('apdu:resp:value', 'apduRespDec', 'value', 'decoded (sw1, sw2, rdf_len) = %s' % ((sw1, sw2, r_len),)))
        elif not flags & 2 and len(rr[2]) <= 65536:
            out.append(('apdu:resp:reencode', 'apduRespEnc', 'value', 're-encoding the decoded response does not reproduce the octets'))
    return out

def apdu_job(job):
    cfg, prefix, n, start, cnt = job
    L = common.lib(cfg)
    raw1 = enum_call(L, 'apdu', prefix, n, APDU_ALPH, start, cnt, 1, 0).raw
    raw0 = enum_call(L, 'apdu', prefix, n, APDU_ALPH, start, cnt, 0, 0).raw if cfg in vf.SAN_CFGS else None
    F = Findings()
    rs = K.APDU_REC.size
    acc = 0
    for i, s in enumerate(strings(prefix, n, APDU_ALPH, start, cnt)):
        r = raw1[rs * i:rs * i + rs]
        acc += r[4] == 1
        for key, fn, kind, detail in apdu_judge(s, r):
            F.add(key, (len(s), s.hex(), 0), {'cfg': cfg, 'kind': 'apdu', 'hex': s.hex()}, '%s(%s): %s [%s]' % (fn, s.hex() or '<empty>', detail, kind), fn)
        if raw0 is not None and raw0[rs * i:rs * i + rs] != r and r[0:4] == b'\0\0\0\0':
            F.add('apdu:result-depends-on-placement', (len(s), s.hex(), 0), {'cfg': cfg, 'kind': 'apdu', 'hex': s.hex()}, 'APDU battery on %s: placements disagree' % s.hex())
    return {'n': cnt, 'find': F.d, 'accepted': acc}

def apdu_jobs(tier, cfg):
    jobs = [(cfg, b'', n, 0, 5 ** n) for n in range(0, 5)]
    for a in APDU_ALPH:
        jobs.append((cfg, bytes([a]), 4, 0, 5 ** 4))
        for b in APDU_ALPH:
            jobs.append((cfg, bytes([a, b]), 4, 0, 5 ** 4))
            for c in APDU_ALPH:
                jobs.append((cfg, bytes([a, b, c]), 4, 0, 5 ** 4))
    return jobs

def apdu_form_cases():
    """all Lc / Le form combinations around data lengths {0,1,255,256,257,65535}: header || Lc form || data || Le form"""
    out = []
    hdr = bytes([0x00, 0xA4, 0x04, 0x0C])
    les = [b''] + [bytes([v]) for v in (0x00, 0x01, 0xFF)] + [bytes.fromhex(h) for h in ('0000', '0001', '00FF', '0100', '0101', 'FFFF')] + \
          [bytes.fromhex(h) for h in ('000000', '000001', '0000FF', '000100', '000101', '00FFFF', '010000', '010101')]
    for n in (0, 1, 255, 256, 257, 65535):
        d = K.data(n, 7)
        lcs = [b'']
        for v in (n - 1, n, n + 1):
            if 0 <= v <= 255:
                lcs.append(bytes([v]))
            if 0 <= v <= 65535:
                lcs.append(b'\x00' + v.to_bytes(2, 'big'))
        for lc in lcs:
            for le in les:
                out.append(hdr + lc + d + le)
    return sorted(set(out), key=lambda x: (len(x), x))

def apdu_form_job(s):
    L = common.lib(CFG)
    F = Findings()
    r = K.c_apdu1(L, s, 1)
    for key, fn, kind, detail in apdu_judge(s, r):
        F.add(key, (len(s), s.hex(), 0), {'cfg': CFG, 'kind': 'apdu', 'hex': s.hex()}, '%s(%s...[%d]): %s [%s]' % (fn, s[:12].hex(), len(s), detail, kind), fn)
    r0 = K.c_apdu1(L, s, 0)
    if r0 != r and r[0:4] == b'\0\0\0\0':
        F.add('apdu:result-depends-on-placement', (len(s), s.hex(), 0), {'cfg': CFG, 'kind': 'apdu', 'hex': s.hex()}, 'APDU battery: placements disagree')
    return {'n': 1, 'find': F.d, 'accepted': int(r[4] == 1)}

def replay_apdu(rec):
    s = bytes.fromhex(rec['hex'])
    L = common.lib(rec['cfg'])
    js = apdu_judge(s, K.c_apdu1(L, s, 1))
    js = [j for j in js if j[0] == rec.get('key')] or js
    return '; '.join('%s(%s%s): %s [%s]' % (fn, s[:24].hex(), '' if len(s) <= 24 else '...[%d]' % len(s), detail, kind) for key, fn, kind, detail in js[:3]) if js else None

# ================================================================================================ D. encoders over boundary alphabets
def tag_alphabet(tier):
    """tag words: every 1- and 2-octet word (65536), 3- and 4-octet words over the octet alphabet of the tag grammar"""
    tags = list(range(0, 0x10000))
    firsts = [0x1F, 0x3F, 0x5F, 0x7F, 0x9F, 0xBF, 0xDF, 0xFF, 0x1E, 0x00, 0x30]
    mid = [0x00, 0x01, 0x1E, 0x1F, 0x7F, 0x80, 0x81, 0x9E, 0x9F, 0xFE, 0xFF]
    for f in firsts:
        for a in mid:
            for b in mid:
                tags.append(f << 16 | a << 8 | b)
                for c in mid if tier == 'thorough' else [0x00, 0x01, 0x7F, 0x80, 0xFF]:
                    tags.append(f << 24 | a << 16 | b << 8 | c)
    return tags

LEN_ALPH = [0, 1, 127, 128, 255, 256, 65535, 65536, 2 ** 24 - 1, 2 ** 24, 2 ** 32 - 1, 2 ** 32, 2 ** 56 - 1, 2 ** 56, 2 ** 63, 2 ** 64 - 2, 2 ** 64 - 1]
SIZE_ALPH = [0, 1, 127, 128, 255, 256, 32767, 32768, 65535, 65536, 2 ** 31 - 1, 2 ** 31, 2 ** 32 - 1, 2 ** 32, 2 ** 56 - 1, 2 ** 56, 2 ** 63 - 1, 2 ** 63, 2 ** 64 - 2, 2 ** 64 - 1]

def tagsweep_job(job):
    """derTLEnc(0, tag, 0) for a block of tag words against der_tag_is_valid; valid tags also round-trip through derTLDec"""
    lo, tags = job
    L = common.lib(CFG)
    F = Findings()
    n = 0
    with vf.Arena(L) as A:
        for t in tags:
            n += 1
            r = L.sz('derTLEnc', None, t, 0)
            v = C.der_tag_is_valid(t)
            if (r != SIZE_MAX) != v:
                key = 'G3:der-encoder-rejects-valid-tag' if v else 'der:encoder-accepts-invalid-tag'
                F.add(key, (t.bit_length(), '%08x' % t, 0), {'cfg': CFG, 'kind': 'case', 'fn': 'der.TL', 'case': {'tag': t, 'len': 0}},
                      'derTLEnc(0, tag %#x, 0) returns %s; by the tag grammar of der.h the word is %s' % (t, 'SIZE_MAX' if r == SIZE_MAX else r, 'a valid tag' if v else 'not a tag'), 'derTLEnc')
    return {'n': n, 'find': F.d, 'accepted': 0}

def enc_cases(tier):
    th = tier == 'thorough'
    out = []
    d = K.data
    # tags of 1..4 octets x lengths
    tags = [0x00, 0x04, 0x1E, 0x30, 0xFE, 0x1F1F, 0x1F7F, 0x5F29, 0x7F21, 0xFF7F, 0x1F8100, 0x1F8101, 0x1F817F, 0x1F9E00, 0x1F9F00, 0x7FFF7F, 0xDF8180 | 0,
            0x1F818000, 0x1F818001, 0x1F81807F, 0x1FFFFF7F, 0x7F81FF7F, 0xFF9E8000, 0x1F, 0x1F00, 0x1F80, 0x1F8000, 0x1F808001]
    for t in tags:
        for n in LEN_ALPH:
            out.append(('der.TL', dict(tag=t, len=n)))
        for n in (0, 127, 128, 255, 256, 65535, 65536):
            out.append(('der.TLV', dict(tag=t, val=d(n))))
        for v in SIZE_ALPH if (th or t in (0x04, 0x5F29, 0x1F818001, 0x1F8100)) else (0, 127, 128, 2 ** 64 - 1):
            out.append(('der.SIZE', dict(tag=t, val=v)))
        for n in (0, 127, 128, 256, 65536):
            out.append(('der.SEQ', dict(tag=t | (0x20 << 8 * ((t.bit_length() - 1) // 8)) if t else 0x20, content=d(n, 1))))
    for t in (0x02, 0x1F818001):
        for nb in (1, 2, 8, 9, 32, 127, 128, 129, 255, 256):
            for top in (0x00, 0x01, 0x7F, 0x80, 0xFF):
                for pad in (0, 1, 3):
                    out.append(('der.UINT', dict(tag=t, val=d(nb - 1, 2) + bytes([top]) + bytes(pad))))
    for bits in range(0, 34):
        for pat in (b'\xff', b'\x00', b'\xa5'):
            out.append(('der.BIT', dict(tag=0x03, val=pat * ((bits + 7) // 8), bits=bits)))
    for bits in (1016, 1017, 1023, 1024, 1025, 8 * 65535, 8 * 65535 + 1, 8 * 65536):
        out.append(('der.BIT', dict(tag=0x03, val=b'\xff' * ((bits + 7) // 8), bits=bits)))
    arcs = ['0', '1', '39', '40', '47', '48', '127', '128', '16383', '16384', '2097151', '2097152', '268435455', '268435456', '4294967215', '4294967216', '4294967295', '4294967296', '00', '01', '']
    for d1 in ('0', '1', '2', '3', '', '00'):
        for d2 in arcs:
            out.append(('oid.str', dict(oid=d1 + '.' + d2)))
            for d3 in arcs if th else ('0', '127', '128', '4294967295', '4294967296', '01', ''):
                out.append(('oid.str', dict(oid='%s.%s.%s' % (d1, d2, d3))))
    for o in ('1', '1.', '.', '..', '1.2.', '1.2..3', '1.2.3.4.5.6.7.8.9', '1.2.a', '1.2.-3', '1.2.+3', '1.2. 3', '1.2.3 ', '1.2.:', '1.2./'):
        out.append(('oid.str', dict(oid=o)))
    for ch in range(1, 256):
        out.append(('der.PSTR', dict(tag=0x13, str='ab' + chr(ch) + 'c')))
    for n in (0, 1, 127, 128, 255, 256, 65535, 65536):
        out.append(('der.PSTR', dict(tag=0x5F20, str='Z' * n)))
    # APDU: every (cdf_len, rdf_len) pair of the boundary alphabet, plain and SM-protected
    for cl in (0, 1, 2, 254, 255, 256, 257, 65534, 65535, 65536):
        for rl in (0, 1, 2, 255, 256, 257, 65535, 65536, 65537):
            out.append(('apdu.cmd', dict(cla=0x00, ins=0xA4, p1=0x04, p2=0x0C, cdf=d(cl), rdf_len=rl)))
    for n in (0, 1, 255, 256, 65535, 65536, 65537):
        out.append(('apdu.resp', dict(sw1=0x90, sw2=0x00, rdf=d(n, 3))))
    for cl in (0, 1, 229, 230, 231, 232, 233, 239, 240, 241, 242, 243, 255, 256, 257, 65500, 65519, 65520, 65521, 65522, 65523, 65525, 65526, 65527, 65534, 65535):
        for rl in (0, 1, 256, 257, 65536):
            out.append(('btokSM.cmd', dict(key=K.SMKEY, ctr=1, cla=0x00, ins=0xA4, p1=4, p2=12, cdf=d(cl, 5), rdf_len=rl)))
    for n in (0, 1, 242, 243, 244, 245, 246, 255, 256, 65535, 65536):
        out.append(('btokSM.resp', dict(key=K.SMKEY, ctr=2, sw1=0x90, sw2=0x00, rdf=d(n, 6))))
    for n in list(range(0, 8)) + [255, 256]:
        out.append(('chr.buf', dict(buf=d(n, 2))))
        out.append(('chr.buf', dict(buf=b'\xff' * n)))
    for cnt in (0, 1, 9, 10, 11, 19, 20, 21):
        for num in (0, 9, 10, 99, 4294967295, 4294967296, 9999999999, 2 ** 64 - 1, 10 ** 19):
            out.append(('dec.from', dict(count=cnt, num=num)))
    for l in (128, 192, 256):
        out.append(('bignParamsEnc', dict(K.std_params(l))))
    return out

def enc_classify(fname, case, res, exp, msg):
    tag = case.get('tag')
    if fname in ('der.TL', 'der.TLV', 'der.SIZE', 'der.UINT', 'der.SEQ', 'der.BIT', 'der.PSTR') and tag is not None and C.der_tag_is_valid(tag):
        if res.get('ret') == SIZE_MAX and callable(exp.get('ret')) is False and exp.get('ret') != SIZE_MAX:
            return 'G3:der-encoder-rejects-valid-tag'
        if len(C.der_t_enc(tag)) == 4 and res.get('ret') == exp.get('ret'):
            return 'F11:der-tag-ending-at-4th-or-last-octet-rejected'
    if fname in ('der.TL',) and case.get('len') == SIZE_MAX:
        return 'obs:length-SIZE_MAX'
    if fname == 'btokSM.cmd' and callable(exp.get('ret')):
        return 'G2:sm-cmd-wrap-protected-field-over-65535-encoded'
    return 'enc:%s:%s' % (fname, re.sub(r'[0-9a-f]{6,}|\d+', '#', msg)[:60])

def enc_job(item):
    fname, case = item
    fn = cat.CAT[fname]
    L = common.lib(CFG)
    res = common.run_fn(L, fname, case)
    exp = fn.ref(case)
    msg = cat.compare(res, exp)
    F = Findings()
    if msg:
        key = enc_classify(fname, case, res, exp, msg)
        F.add(key, (len(cat.short(case)), cat.short(case), 0), {'cfg': CFG, 'kind': 'case', 'fn': fname, 'case': cat.enc_case(case)},
              '%s [%s]: %s' % (fname, describe_case(case), msg), fname)
    return {'n': 1, 'find': F.d, 'accepted': int(res.get('ret') not in (SIZE_MAX, None))}

def describe_case(case):
    out = []
    for k, v in case.items():
        if isinstance(v, (bytes, bytearray)):
            out.append('%s=%s' % (k, v.hex() if len(v) <= 24 else '%s..[%d]' % (v[:8].hex(), len(v))))
        elif isinstance(v, int) and k in ('tag', 'len', 'val'):
            out.append('%s=%#x' % (k, v))
        else:
            out.append('%s=%r' % (k, v))
    return ' '.join(out)

def replay_case(rec):
    global CFG
    CFG = rec.get('cfg', CFG)
    r = enc_job((rec['fn'], cat.dec_case(rec['case'])))
    for k, (sk, rc, msg, n, fns) in r['find'].items():
        return msg
    return None

# ================================================================================================ E. structure-aware mutants
class Node:
    """one TLV of a valid code: raw tag octets, raw length octets (None = minimal encoding of the actual content length),
    value octets or children"""
    __slots__ = ('t', 'l', 'v', 'kids')
    def __init__(self, t, l, v, kids):
        self.t, self.l, self.v, self.kids = t, l, v, kids
    def copy(self):
        return Node(self.t, self.l, self.v, [k.copy() for k in self.kids] if self.kids is not None else None)
    def body(self):
        return self.v if self.kids is None else b''.join(k.ser() for k in self.kids)
    def ser(self):
        b = self.body()
        return self.t + (self.l if self.l is not None else C.der_l_enc(len(b))) + b
    def walk(self, path=()):
        yield path, self
        if self.kids is not None:
            for i, k in enumerate(self.kids):
                yield from k.walk(path + (i,))
    def at(self, path):
        n = self
        for i in path:
            n = n.kids[i]
        return n

def parse_forest(data):
    """valid DER contents -> list of Nodes (constructed tags are descended)"""
    out = []
    pos = 0
    while pos < len(data):
        r = C.der_dec(data[pos:])
        assert r is not None, data[pos:pos + 8].hex()
        tag, val, cons = r
        t = C.der_t_enc(tag)
        kids = parse_forest(val) if t[0] & 0x20 else None
        out.append(Node(t, None, val if kids is None else None, kids))
        pos += cons
    return out

def tag_forms(t):
    """every tag form in place of t: other short tags, class / constructed bit, long forms of 2..5 octets, leading 80,
    number < 31 in long form, unterminated"""
    f = []
    b0 = t[0]
    num = t[0] & 31 if len(t) == 1 else None
    f += [('tag:other-short', bytes([x])) for x in (0x00, 0x04, 0x30) if bytes([x]) != t]
    f += [('tag:class-flipped', bytes([b0 ^ 0x40]) + t[1:]), ('tag:constructed-flipped', bytes([b0 ^ 0x20]) + t[1:])]
    hi = b0 | 0x1F
    if num is not None:
        f += [('tag:long-form-of-small-number', bytes([hi, num])), ('tag:long-leading-80', bytes([hi, 0x80, max(num, 31)]))]
    else:
        f += [('tag:truncated', t[:-1]), ('tag:last-octet-continued', t[:-1] + bytes([t[-1] | 0x80])), ('tag:long-leading-80', t[:1] + b'\x80' + t[1:]),
              ('tag:short-with-same-bits', bytes([b0 & 0xE0 | 0x1E]))]
    f += [('tag:long-zero-number', bytes([hi, 0x00])), ('tag:long-alone', bytes([hi])),
          ('tag:long-2', bytes([hi, 0x1F])), ('tag:long-2', bytes([hi, 0x7F])), ('tag:long-3', bytes([hi, 0x81, 0x00])), ('tag:long-3', bytes([hi, 0xFF, 0x7F])),
          ('tag:long-4', bytes([hi, 0x81, 0x80, 0x01])), ('tag:long-5', bytes([hi, 0x81, 0x80, 0x80, 0x01])),
          ('tag:unterminated', bytes([hi, 0xFF])), ('tag:unterminated', bytes([hi, 0xFF, 0xFF])), ('tag:unterminated', bytes([hi, 0xFF, 0xFF, 0xFF])),
          ('tag:unterminated', bytes([hi, 0xFF, 0xFF, 0xFF, 0xFF]))]
    return [(n, x) for n, x in f if x != t]

def len_forms(n, tier):
    """every length form in place of the minimal code of n"""
    f = []
    canon = C.der_l_enc(n)
    minr = len(canon) - 1
    for r in range(1, 9):
        if r > minr or (minr == 0 and r >= 1):
            f.append(('len:non-minimal-%d' % r, bytes([0x80 | r]) + n.to_bytes(r, 'big')))
    f.append(('len:long-9', b'\x89' + n.to_bytes(9, 'big')))
    f.append(('len:80', b'\x80')); f.append(('len:FF', b'\xff'))
    if n:
        f.append(('len:minus-1', C.der_l_enc(n - 1)))
    f.append(('len:plus-1', C.der_l_enc(n + 1)))
    f.append(('len:2^32-1', b'\x84\xff\xff\xff\xff'))
    f.append(('len:2^63', b'\x88\x80' + bytes(7)))
    for k in range(0, 17) if tier == 'thorough' else (0, 1, 2, 7, 8, 9, 10, 16):
        f.append(('len:SIZE_MAX-k', b'\x88' + (SIZE_MAX - k).to_bytes(8, 'big')))
    return [(a, b) for a, b in f if b != canon]

INT_TAGS = (b'\x02', b'\x5f\x29')
PSTR_TAGS = (b'\x13', b'\x42', b'\x5f\x20')

def value_forms(node):
    """type-specific content mutants of a primitive node"""
    t, v = node.t, node.v
    f = []
    if t in INT_TAGS:
        f += [('int:empty', b''), ('int:negative', b'\x80'), ('int:negative', b'\xff' + v), ('int:zero-padded', b'\x00' + v), ('int:zero-padded', b'\x00\x00'),
              ('int:negative', bytes([v[0] | 0x80]) + v[1:] if v else b'\xff')]
    # a well-formed value LONGER than any destination field of the decoded structure (one octet, twice, 400 and 1000 octets):
    # a decoder that copies before it checks the length writes outside its output
    if t in INT_TAGS and len(v) < 400:
        f += [('size:int-longer', b'\x01' + v), ('size:int-longer', b'\x01' + v + v), ('size:int-longer', b'\x01' * 400), ('size:int-longer', b'\x01' * 1000)]
    if t == b'\x04' and len(v) < 400:
        f += [('size:oct-longer', v + b'\x01'), ('size:oct-longer', v + v + b'\x01'), ('size:oct-longer', b'\x01' * 400), ('size:oct-longer', b'\x01' * 1000)]
    if t == b'\x03' and 2 <= len(v) < 400:
        f += [('size:bit-longer', v + b'\x00'), ('size:bit-longer', v + v[1:] + b'\x00'), ('size:bit-longer', b'\x00' + b'\x01' * 400), ('size:bit-longer', b'\x00' + b'\x01' * 1000)]
    if t == b'\x06' and v:
        starts = [i for i in range(len(v)) if i == 0 or not v[i - 1] & 0x80]
        last = starts[-1]
        f += [('oid:empty', b''), ('oid:unterminated', v[:-1] + bytes([v[-1] | 0x80])), ('oid:last-octet-dropped', v[:-1]),
              ('oid:80-prefixed', b'\x80' + v), ('oid:80-prefixed', v[:last] + b'\x80' + v[last:]),
              ('oid:arc-2^32', v[:last] + bytes.fromhex('9080808000')), ('oid:arc-2^32-1', v[:last] + bytes.fromhex('8FFFFFFF7F')),
              ('oid:arc-2^35', v[:last] + bytes.fromhex('FFFFFFFF7F')), ('oid:arc-2^42', v[:last] + bytes.fromhex('FFFFFFFFFF7F')),
              ('oid:other', v[:-1] + bytes([(v[-1] + 1) & 0x7F]))]
    if t in PSTR_TAGS and v:
        for pos in sorted(set((0, min(8, len(v) - 1), len(v) - 1))):
            for ch in (0x00, 0x2A, 0x80):
                f.append(('pstr:octet-%02X' % ch, v[:pos] + bytes([ch]) + v[pos + 1:]))
        f += [('pstr:longer', v + b'A' * (13 - len(v))), ('pstr:shorter', v[:7])]
    if t == b'\x03' and len(v) >= 2:
        for u in range(1, 9):
            f.append(('bit:unused-%d' % u, bytes([u]) + v[1:]))
        f.append(('bit:unused-1-zero-padding', b'\x01' + v[1:-1] + bytes([v[-1] & 0xFE])))
        # well-formed BIT STRINGs whose BIT length is not a whole number of octets: k unused bits with clean padding, same octet
        # count (8n - k bits) and one more content octet (8n + 8 - k bits: the octet count a bit-length test in octets would let through)
        for u in range(1, 8):
            f.append(('bit:length-8n-%d' % u, bytes([u]) + v[1:-1] + bytes([v[-1] & (0xFF << u) & 0xFF])))
            f.append(('bit:length-8n+8-%d' % u, bytes([u]) + v[1:] + b'\x00'))
            f.append(('bit:length-8n+8-%d' % u, bytes([u]) + v[1:] + bytes([(0xFF << u) & 0xFF])))
        f.append(('bit:no-unused-octet', v[1:]))
    return [(a, b) for a, b in f if b != v]

def mutants(code, tier, forest_prefix=b'', forest_suffix=b'', fix=None):
    """structure-aware mutants of a valid code.  code: the DER part (a forest); fix(body) re-frames a mutated DER part
    (default: prefix || body || suffix).  Yields (label, octets)."""
    roots = parse_forest(code)
    assert b''.join(r.ser() for r in roots) == code
    frame = fix or (lambda b: forest_prefix + b + forest_suffix)
    seen = set()
    def emit(label, body, raw=False):
        m = body if raw else frame(body)
        if m not in seen:
            seen.add(m)
            return [(label, m)]
        return []
    whole = frame(code)
    for k in range(len(whole)):
        yield from emit('truncate', whole[:k], raw=True)
    yield from emit('trailing:octet-after', whole + b'\x00', raw=True)
    yield from emit('trailing:tlv-after', whole + b'\x05\x00', raw=True)
    class Top:
        pass
    paths = []
    for ri, r in enumerate(roots):
        for p, n in r.walk():
            paths.append((ri, p))
    def rebuild(ri, p, fn, freeze=False):
        rs = [r.copy() for r in roots]
        if freeze:
            # ancestors keep their original length octets
            n = rs[ri]
            chain = [n]
            for i in p:
                n = n.kids[i]; chain.append(n)
            for a in chain[:-1]:
                a.l = C.der_l_enc(len(a.body()))
        fn(rs[ri].at(p))
        return b''.join(r.ser() for r in rs)
    for ri, p in paths:
        n0 = roots[ri].at(p)
        where = '%s@%s' % (n0.t.hex(), '.'.join(map(str, (ri,) + p)))
        n = len(n0.body())
        for lab, tf in tag_forms(n0.t):
            yield from emit(lab + ' ' + where, rebuild(ri, p, lambda x: setattr(x, 't', tf)))
        for lab, lf in len_forms(n, tier):
            body = rebuild(ri, p, lambda x: setattr(x, 'l', lf), freeze=True)
            yield from emit(lab + ' ' + where, body)
            # the same, cut right behind the mutated length field
            off = body.find(n0.t + lf)
            if off >= 0:
                m = frame(body)
                cut = m.find(n0.t + lf)
                yield from emit(lab + '+cut ' + where, m[:cut + len(n0.t) + len(lf)], raw=True)
        if n0.kids is None:
            for lab, vf_ in value_forms(n0):
                yield from emit(lab + ' ' + where, rebuild(ri, p, lambda x: setattr(x, 'v', vf_)))
                yield from emit(lab + '+outer-lengths-kept ' + where, rebuild(ri, p, lambda x: setattr(x, 'v', vf_), freeze=True))
        else:
            def add_kid(x, extra):
                x.kids.append(Node(extra[:1], None, extra[2:], None))
            yield from emit('trailing:inside ' + where, rebuild(ri, p, lambda x: x.kids.append(Node(b'\x05', None, b'', None))))
            yield from emit('trailing:octet-inside ' + where, rebuild(ri, p, lambda x: x.kids.append(Node(b'', b'', b'\x00', None))))
            if n0.kids:
                yield from emit('element:dropped-last ' + where, rebuild(ri, p, lambda x: x.kids.pop()))
                yield from emit('element:dropped-first ' + where, rebuild(ri, p, lambda x: x.kids.pop(0)))
                yield from emit('element:duplicated ' + where, rebuild(ri, p, lambda x: x.kids.append(x.kids[-1].copy())))
            if len(n0.kids) >= 2:
                yield from emit('element:swapped ' + where, rebuild(ri, p, lambda x: x.kids.reverse()))

def mut_class(label):
    return label.split(' ')[0]

OIDS_MUT = ['1.2.112.0.2.0.34.101.45.2.1', '2.999.4294967295.127.128', '0.0', '1.39.16383.16384']
SM_SHAPES = [(0, 0), (0, 1), (0, 256), (0, 257), (0, 65536), (1, 0), (16, 0), (16, 256), (16, 257), (16, 65536), (239, 256), (240, 256), (256, 0), (256, 256), (300, 65536)]

def sm_frame(hdr, rdf_len):
    def fix(body):
        short = len(body) < 256 and rdf_len <= 256
        lc = bytes([len(body)]) if short else b'\x00' + (len(body) & 0xFFFF).to_bytes(2, 'big')
        return hdr + lc + body + (b'' if rdf_len == 0 else (b'\x00' if short else b'\x00\x00'))
    return fix

def sm_field_mutants(w, f):
    """Lc* / Le* / CLA forms around a valid protected command w (f = its parsed fields)"""
    hdr = w[:4]; lcl = f['lc_len']
    body = w[4 + lcl:4 + lcl + len(f['maced']) - 4 + 10]
    n = len(body)
    tail = w[4 + lcl + n:]
    out = []
    lcs = [('lc:short', bytes([n & 255])), ('lc:extended', b'\x00' + n.to_bytes(2, 'big')), ('lc:minus-1', C_lc(n - 1, lcl)), ('lc:plus-1', C_lc(n + 1, lcl)),
           ('lc:zero', b'\x00' if lcl == 1 else b'\x00\x00\x00'), ('lc:absent', b''), ('lc:extended-nonzero-first', b'\x01' + n.to_bytes(2, 'big'))]
    les = [('le:absent', b''), ('le:00', b'\x00'), ('le:0000', b'\x00\x00'), ('le:01', b'\x01'), ('le:0001', b'\x00\x01'), ('le:000000', b'\x00\x00\x00')]
    for a, lc in lcs:
        for b, le in les:
            out.append(('%s+%s' % (a, b), hdr + lc + body + le))
    out.append(('cla:unprotected', bytes([hdr[0] & 0xFB]) + w[1:]))
    return [(l, m) for l, m in out if m != w]

def C_lc(n, lcl):
    n = max(n, 0)
    return bytes([n & 255]) if lcl == 1 else b'\x00' + (n & 0xFFFF).to_bytes(2, 'big')

def mutant_items(tier):
    """-> list of (fname, case, target, label)"""
    import belt
    th = tier == 'thorough'
    items = []
    # bign parameters of every level (+ the optional cofactor)
    for l, cof in ((128, False), (192, False), (256, False), (128, True)):
        d = S.ecparams_enc(K.std_params(l), cofactor=cof)
        for label, m in mutants(d, tier):
            items.append(('bignParamsDec', dict(der=m), 'params%d%s' % (l, '+cofactor' if cof else ''), label))
    # CV certificates of every key length
    for n in (24, 32, 48, 64):
        for hats in ((True, True), (False, False)):
            base = dict(K.cvc_base(n, hats, self_signed=False))
            g, cert = K.cvc_model_wrap(base, K.privkey(n))
            for label, m in mutants(cert, tier):
                if not th and n in (24, 48) and not hats[0] and mut_class(label).startswith('len:SIZE_MAX'):
                    continue
                items.append(('btokCVCUnwrap', dict(cert=m, pubkey=None), 'cvc%d%s' % (n, '+hats' if hats[0] else ''), label))
            # the signature check sees every truncation / trailing octet too
            for label, m in mutants(cert, tier):
                if mut_class(label) in ('truncate', 'trailing:octet-after', 'trailing:inside', 'len:plus-1', 'len:minus-1') and (th or len(m) % 4 == 0):
                    items.append(('btokCVCUnwrap', dict(cert=m, pubkey=g['pubkey']), 'cvc%d+sigcheck' % n, label))
        # documented exception: zero access words may be present
        z = dict(K.cvc_base(n, (False, False)), pubkey=g['pubkey'])
        body = C.der_tsize_enc(0x5F29, 0) + C.der_tpstr_enc(0x42, z['authority']) + \
            C.der_tseq_enc(0x7F49, C.der_oid_enc(S.OID_BIGN_PUBKEY) + C.der_bit_enc(z['pubkey'], 8 * len(z['pubkey']))) + C.der_tpstr_enc(0x5F20, z['holder']) + \
            C.der_tseq_enc(0x7F4C, C.der_oid_enc(S.OID_EID_ACCESS) + C.der_oct_enc(bytes(5))) + C.der_toct_enc(0x5F25, z['from']) + C.der_toct_enc(0x5F24, z['until']) + \
            C.der_tseq_enc(0x65, C.der_tseq_enc(0x73, C.der_oid_enc(S.OID_ESIGN_AUTH_EXT) + C.der_tseq_enc(0x7F4C, C.der_oid_enc(S.OID_ESIGN_ACCESS) + C.der_oct_enc(bytes(2)))))
        body = C.der_tseq_enc(0x7F4E, body)
        certz = C.der_tseq_enc(0x7F21, body + C.der_toct_enc(0x5F37, K.cvc_sign(body, K.privkey(n))))
        items.append(('btokCVCUnwrap', dict(cert=certz, pubkey=g['pubkey']), 'cvc%d+zero-hats' % n, 'valid'))
    # bpki containers: the outer EncryptedPrivateKeyInfo ...
    key = S.epki_key(K.PWD, K.SALT, 10000)
    for kind, secret in (('privkey', K.privkey(32)), ('privkey', K.privkey(64)), ('share', bytes([3]) + K.data(16, 4)), ('share', bytes([16]) + K.data(32, 4))):
        e = S.epki_wrap(secret, K.PWD, K.SALT, 10000, kind)
        for label, m in mutants(e, tier):
            x = S.epki_dec(m)
            if x is not None and (x['salt'], x['iter']) != (K.SALT, 10000):
                continue                                   # another (admissible) iteration count / salt: hours of PBKDF2, not generated
            if not th and len(secret) in (64, 33) and mut_class(label).startswith(('len:', 'tag:')) and not mut_class(label).startswith('len:SIZE_MAX'):
                continue
            items.append(('bpki.unwrap', dict(kind=kind, epki=m, pwd=K.PWD), 'epki-%s%d' % (kind, len(secret)), label))
        # ... and the PrivateKeyInfo inside the (valid) protection
        pki = S.pki_enc(secret, kind)
        for label, m in mutants(pki, tier):
            if len(m) < 16:
                continue
            mc = mut_class(label)
            if not th and (len(secret) in (64, 33) or (mc.startswith('len:SIZE_MAX') and '+cut' in mc) or (mc == 'truncate' and len(m) % 3)):
                continue
            items.append(('bpki.unwrap', dict(kind=kind, epki=S.epki_enc(K.SALT, 10000, belt.kwp_wrap(key, m, None)), pwd=K.PWD), 'pki-%s%d' % (kind, len(secret)), label))
    # SM-protected commands and responses
    for cl, rl in SM_SHAPES if th else SM_SHAPES[::2] + [(16, 256)]:
        w = S.sm_cmd_wrap(K.SMKEY, 1, 0x00, 0xA4, 4, 12, K.data(cl, 5), rl)
        f = S.sm_cmd_parse(w)
        lcl = f['lc_len']
        n = len(w) - 4 - lcl - (0 if rl == 0 else (1 if lcl == 1 else 2))
        code = w[4 + lcl:4 + lcl + n]
        seen = set()
        for fix in (sm_frame(w[:4], rl), lambda b, w=w, lcl=lcl, n=n: w[:4 + lcl] + b + w[4 + lcl + n:]):
            for label, m in mutants(code, tier, fix=fix):
                if m not in seen and len(m) <= 70000:
                    seen.add(m)
                    items.append(('btokSM.unwrap', dict(what='cmd', key=K.SMKEY, ctr=1, apdu=m), 'smcmd(%d,%d)' % (cl, rl), label))
        for label, m in sm_field_mutants(w, dict(f, maced=f['maced'])):
            if m not in seen:
                seen.add(m)
                items.append(('btokSM.unwrap', dict(what='cmd', key=K.SMKEY, ctr=1, apdu=m), 'smcmd(%d,%d)' % (cl, rl), label))
        # Lc* overshooting the input by 1..8 octets while the real remainder is a run of COMPLETE protected objects (optionally
        # one more octet): a decoder that bounds its inner TLV parsing by the declared Lc* instead of the input reads behind it
        ends = []; pos = 0
        for r in parse_forest(code):
            pos += len(r.ser()); ends.append(pos)
        for end in ends:
            for extra in (0, 1):
                part = code[:end + extra]
                if len(part) > len(code):
                    continue
                for d in range(1, 9):
                    L = len(part) + d
                    for lab, lc in (('short', bytes([L & 255]) if L < 256 else None), ('extended', b'\x00' + L.to_bytes(2, 'big'))):
                        if lc is None:
                            continue
                        m = w[:4] + lc + part
                        if m not in seen and len(m) >= 15:
                            seen.add(m)
                            items.append(('btokSM.unwrap', dict(what='cmd', key=K.SMKEY, ctr=1, apdu=m), 'smcmd(%d,%d)' % (cl, rl),
                                          'lc:overshoot-%s objects=%d%s' % (lab, ends.index(end) + 1, '+1octet' if extra else '')))
    for n in (0, 1, 16, 243, 244, 300) if th else (0, 16, 244):
        w = S.sm_resp_wrap(K.SMKEY, 2, 0x90, 0x00, K.data(n, 6))
        for label, m in mutants(w[:-2], tier, forest_suffix=w[-2:]):
            items.append(('btokSM.unwrap', dict(what='resp', key=K.SMKEY, ctr=2, apdu=m), 'smresp(%d)' % n, label))
    return items

def oid_mutant_strings(tier):
    out = []
    for o in OIDS_MUT:
        for label, m in mutants(C.oid_to_der(o), tier):
            out.append((label, m))
    return out

ROOT_BY_CLASS = (('int:empty', 'F12b:der-TSIZE-value-absent-or-short'), ('pstr:octet-00', 'G5:der-PSTR-NUL-accepted'), ('oid:unterminated', 'G4:der-OID-empty-or-unterminated-subidentifier-accepted'),
                 ('oid:empty', 'G4:der-OID-empty-or-unterminated-subidentifier-accepted'), ('oid:last-octet-dropped', 'G4:der-OID-empty-or-unterminated-subidentifier-accepted'),
                 ('len:SIZE_MAX-k', 'F12a:der-length-near-SIZE_MAX-wraps'), ('bit:unused', 'G6:der-BIT-nonzero-padding-accepted'))

def crash_key(stderr, label):
    k, m = C07.classify(stderr)
    fr = re.findall(r'#\d+ 0x[0-9a-f]+ in (\w+) ', stderr)
    if 'derTSIZEDec' in fr[:2]:
        return 'F12b:der-TSIZE-value-absent-or-short', m
    if mut_class(label).startswith('len:SIZE_MAX-k') and any(f.startswith('der') for f in fr[:3]):
        return 'F12a:der-length-near-SIZE_MAX-wraps', m
    return 'crash:' + k, m

def mut_job(item):
    fname, case, tgt, label = item
    fn = cat.CAT[fname]
    L = common.lib(CFG)
    res = common.run_fn(L, fname, case)
    exp = fn.ref(case)
    msg = cat.compare(res, exp)
    out = {'ret': res.get('ret'), 'msg': None}
    want = exp.get('ret')
    if msg is None and fname == 'bignParamsDec' and res['ret'] == 0:
        # accepted: re-encoding the decoded parameters reproduces the accepted octets (cofactor is OPTIONAL: dropped by the encoder)
        with vf.Arena(L) as A:
            r, raw = K.c_params_dec(L, A, case['der'])
            r2, der2 = K.c_params_enc(L, A, raw)
        f = S.ecparams_dec(case['der'])
        if r2 == 0 and der2 != S.ecparams_enc(f):
            msg = 're-encoding of the decoded parameters gives %s..., the canonical code is %s...' % (der2[:16].hex(), S.ecparams_enc(f)[:16].hex())
        elif r2 == 0 and not f['cofactor'] and der2 != case['der']:
            msg = 'accepted code is not reproduced by bignParamsEnc'
    if msg:
        acc = res.get('ret') == 0
        wacc = (want == 0) if not callable(want) else False
        kind = 'accepts' if acc and not wacc else 'rejects' if wacc and not acc else ('error-class' if not acc and not wacc else 'value')
        mc = mut_class(label)
        key = None
        if kind in ('accepts', 'error-class', 'value'):
            for pre, k in ROOT_BY_CLASS:
                if mc.startswith(pre):
                    key = k
        if key is None and tgt.startswith('smcmd') and mc.startswith('lc:') and kind == 'accepts':
            key = 'G9:sm-cmd-mismatching-Lc-Le-forms-accepted'
        if key is None:
            key = 'mut:%s:%s' % (re.sub(r'-\d+|\+cut|\+outer-lengths-kept', '', mc), kind)
        out['msg'] = msg; out['key'] = key; out['kind'] = kind
    return out

def replay_mut(rec):
    global CFG
    CFG = rec.get('cfg', CFG)
    item = (rec['fn'], cat.dec_case(rec['case']), rec.get('target', ''), rec.get('label', ''))
    r = vf.pmap(mut_job, [item], nproc=1)[0]
    if 'crash' in r or 'harness_error' in r:
        if 'harness_error' in r:
            return 'harness error: ' + r['harness_error'][-300:]
        return '%s on mutant "%s" of %s: %s' % (rec['fn'], rec.get('label'), rec.get('target'), crash_key(r.get('stderr', ''), rec.get('label', ''))[1])
    if r['msg']:
        return '%s on mutant "%s" of %s: %s [%s]' % (rec['fn'], rec.get('label'), rec.get('target'), r['msg'], r['kind'])
    return None

# ================================================================================================ crash reports without the in-process symbolizer
_sym_cache = {}
def symbolize(stderr):
    """the sub-exploration runs with symbolize=0 (a report costs milliseconds, not a second); the frames inside the
    library are resolved here, once per distinct address"""
    import subprocess
    fr = re.findall(r'#(\d+) 0x[0-9a-f]+ +\((\S+?)\+0x([0-9a-f]+)\)', stderr)
    out = []
    for idx, mod, off in fr[:8]:
        if 'libbee2v' not in mod:
            continue
        k = (mod, off)
        if k not in _sym_cache:
            nm = nm_lookup(mod, int(off, 16))
            try:
                r = subprocess.run([vf.vbuild.symbolizer(), '--obj=' + mod, '--functions=short', '--no-inlines', '0x' + off],
                                   stdout=subprocess.PIPE, stderr=subprocess.DEVNULL, text=True, timeout=60)
                ls = r.stdout.strip().splitlines()
                name = ls[0] if ls and ls[0] != '??' else nm
                _sym_cache[k] = (name, ls[1] if len(ls) > 1 else '')
            except Exception:
                _sym_cache[k] = (nm, '')
        out.append(_sym_cache[k])
    return out

_nm = {}
def nm_lookup(mod, off):
    """symbol table lookup (static functions included): name of the function containing the offset"""
    import subprocess, bisect
    if mod not in _nm:
        tab = []
        try:
            r = subprocess.run(['nm', '-n', '--defined-only', mod], stdout=subprocess.PIPE, stderr=subprocess.DEVNULL, text=True, timeout=120)
            for line in r.stdout.splitlines():
                p = line.split()
                if len(p) == 3 and p[1] in 'tTwW':
                    tab.append((int(p[0], 16), p[2]))
        except Exception:
            pass
        _nm[mod] = (sorted(tab), [a for a, _ in sorted(tab)])
    tab, addrs = _nm[mod]
    i = bisect.bisect_right(addrs, off) - 1
    return tab[i][1] if i >= 0 else '?'

def crash_info(r, label=''):
    """pmap crash record -> (root-cause key, message)"""
    err = r.get('stderr', '') or ''
    m = re.search(r'Assertion in (\S+?)::(\d+)', err)
    if m:
        return 'crash:assert:%s' % os.path.basename(m.group(1)), 'built-in self-check fired: Assertion in %s line %s' % (m.group(1), m.group(2))
    m = re.search(r'ERROR: AddressSanitizer: (\S+)', err)
    if m:
        kind = m.group(1)
        acc = re.search(r'(READ|WRITE) of size (\d+)', err)
        fr = [f for f in symbolize(err) if not f[0].startswith('vh_')]
        if not fr:
            fr = [(f, '') for f in re.findall(r'#\d+ 0x[0-9a-f]+ in (\w+) ', err) if not f.startswith(('__', 'vh_')) and f not in ('memcpy', 'memmove', 'memcmp', 'memset')]
        names = [f[0] for f in fr]
        top = names[0] if names else '?'
        msg = 'AddressSanitizer: %s (%s) in %s %s (stack: %s)' % (kind, ' of size '.join(acc.groups()) if acc else '?', top, fr[0][1].split('/')[-1] if fr else '', ' < '.join(names[:5]))
        if 'derTSIZEDec' in names[:2]:
            return 'F12b:der-TSIZE-value-absent-or-short', msg
        if mut_class(label).startswith('len:SIZE_MAX-k') and any(f.startswith('der') for f in names[:3]):
            return 'F12a:der-length-near-SIZE_MAX-wraps', msg
        if 'derSIDDec2' in names[:2]:
            return 'G1:der-OIDDec2-reads-past-the-end-of-the-expected-identifier', msg
        return 'crash:asan:%s:%s' % (kind, top), msg
    if r.get('crash') == 'timeout':
        return 'crash:timeout', 'does not terminate within the case timeout'
    return 'crash:%s' % r.get('crash'), 'crashed (%s): %s' % (r.get('crash'), err[-300:])

# ================================================================================================ the exploration
def corpus_job(item):
    msg, ret = common.check_ref_case(item, CFG)
    return {'msg': msg, 'ret': ret}

def oid_job(item):
    label, s = item
    L = common.lib(CFG)
    which = (1 << D_TL) | (1 << D_DEC) | (1 << D_OID) | (1 << D_OIDFROM) | (1 << D_ISVALID)
    out = ctypes.create_string_buffer(176)
    L.dll.vh_c08_der1(ctypes.c_char_p(s), ctypes.c_uint64(len(s)), ctypes.c_int(1), ctypes.c_uint32(which), ctypes.c_uint32(0), out)
    oob = struct.unpack_from('<I', out.raw)[0]
    out0 = ctypes.create_string_buffer(176)
    L.dll.vh_c08_der1(ctypes.c_char_p(s), ctypes.c_uint64(len(s)), ctypes.c_int(0), ctypes.c_uint32(which), ctypes.c_uint32(oob), out0)
    F = Findings()
    for key, fn, kind, detail in der_judge(s, out.raw, which):
        F.add(key, (len(s), s.hex(), DNAME.index(fn)), {'cfg': CFG, 'kind': 'der', 'hex': s.hex(), 'which': which},
              '%s(%s) [OID mutant "%s"]: %s [%s]' % (fn, s.hex(), label, detail, kind), fn)
    return {'n': 1, 'find': F.d, 'accepted': int(out.raw[8 + 14 * D_OIDFROM] != 0xFF)}

def sub(tier, what, outpath):
    """runs inside a child of run(): sanitizer runtime preloaded, reports unsymbolized"""
    import json
    global CFG
    t00 = time.time()
    common.lib(CFG)                     # loaded once, inherited by every forked worker
    F = Findings()
    parts = {}
    outcomes = {}
    samples = []
    harness = []
    deadline = t00 + (400 if tier == 'quick' else 3000)
    capped = []
    def run_jobs(name, jobs, fn, describe, timeout=600):
        if time.time() > deadline:
            capped.append(name); return
        t0 = time.time()
        res = vf.pmap(fn, jobs, case_timeout=timeout)
        n = acc = 0
        for j, r in zip(jobs, res):
            if 'harness_error' in r:
                harness.append('%s: %s' % (name, r['harness_error'][-600:])); continue
            if 'crash' in r:
                k, m = crash_info(r, describe(j))
                F.add(k, (0, describe(j), 0), {'cfg': CFG, 'kind': 'job', 'part': name, 'job': jsonable(j)}, '%s %s: %s' % (name, describe(j), m), name)
                continue
            F.merge(r['find']); n += r['n']
            a = r['accepted']
            acc += sum(a) if isinstance(a, list) else a
        parts[name] = dict(states=n, transitions=n, traces_validated_against_impl=n, evaluations=n, accepted=acc, jobs=len(jobs), wall_s=round(time.time() - t0, 1))
    # A
    dj = der_jobs(tier, CFG)
    run_jobs('A_der_strings', dj, der_job, lambda j: 'prefix %s + %d octets' % (j[1].hex(), j[2]))
    if 'A_der_strings' in parts:
        parts['A_der_strings']['decoder_calls'] = parts['A_der_strings']['states'] * 20
    # B
    run_jobs('B_char_strings', chr_jobs(tier, CFG), chr_job, lambda j: 'prefix %r + %d chars' % (j[1], j[2]))
    # C
    run_jobs('C_apdu_strings', apdu_jobs(tier, CFG), apdu_job, lambda j: 'prefix %s + %d octets' % (j[1].hex(), j[2]))
    run_jobs('C_apdu_forms', apdu_form_cases(), apdu_form_job, lambda j: j[:12].hex())
    # D
    tags = tag_alphabet(tier)
    run_jobs('D_tag_words', [(i, tags[i:i + 4096]) for i in range(0, len(tags), 4096)], tagsweep_job, lambda j: 'tags from index %d' % j[0])
    run_jobs('D_encoders', enc_cases(tier), enc_job, lambda j: '%s %s' % (j[0], describe_case(j[1])))
    run_jobs('E_oid_mutants', oid_mutant_strings(tier), oid_job, lambda j: '%s %s' % (j[0], j[1].hex()))
    # E
    if time.time() < deadline:
        t0 = time.time()
        items = mutant_items(tier)
        res = vf.pmap(mut_job, items, case_timeout=300)
        nacc = 0
        classes = set(); targets = set()
        for it, r in zip(items, res):
            fname, case, tgt, label = it
            classes.add(mut_class(label)); targets.add(tgt)
            rec = {'cfg': CFG, 'kind': 'mut', 'fn': fname, 'case': cat.enc_case(case), 'target': tgt, 'label': label}
            inp = [v for v in case.values() if isinstance(v, bytes)][0]
            if 'harness_error' in r:
                harness.append('mutant %s %s: %s' % (tgt, label, r['harness_error'][-600:])); continue
            if 'crash' in r:
                k, m = crash_info(r, label)
                F.add(k, (len(inp), inp.hex(), 0), rec, '%s on mutant "%s" of %s (input %s): %s' % (fname, label, tgt, short_hex(inp), m), fname)
                outcomes['%s crash' % fname] = outcomes.get('%s crash' % fname, 0) + 1
                continue
            o = '%s ret=%s' % (fname, r['ret'])
            outcomes[o] = outcomes.get(o, 0) + 1
            nacc += r['ret'] == 0
            if r['msg']:
                F.add(r['key'], (len(inp), inp.hex(), 0), rec, '%s on mutant "%s" of %s (input %s): %s [%s]' % (fname, label, tgt, short_hex(inp), r['msg'], r['kind']), fname)
        parts['E_structure_mutants'] = dict(states=len(items), transitions=len(items), traces_validated_against_impl=len(items), evaluations=len(items), accepted=nacc,
                                            mutation_classes=len(classes), targets=len(targets), wall_s=round(time.time() - t0, 1))
        for i in (0, len(items) // 3, 2 * len(items) // 3):
            samples.append({'mutant': items[i][3], 'of': items[i][2], 'fn': items[i][0]})
    else:
        capped.append('E_structure_mutants')
    # F
    if time.time() < deadline:
        t0 = time.time()
        cs = K.gen_cases(tier)
        res = vf.pmap(corpus_job, cs, case_timeout=300)
        for (f, c), r in zip(cs, res):
            rec = {'cfg': CFG, 'kind': 'case', 'fn': f, 'case': cat.enc_case(c)}
            if 'harness_error' in r:
                harness.append('corpus %s: %s' % (f, r['harness_error'][-600:]))
            elif 'crash' in r:
                k, m = crash_info(r)
                F.add(k, (0, cat.short(c), 0), rec, '%s [%s]: %s' % (f, describe_case(c), m), f)
            else:
                o = '%s ret=%s' % (f, r['ret'] if (r['ret'] or 0) < 1000 else 'len')
                outcomes[o] = outcomes.get(o, 0) + 1
                if r['msg']:
                    F.add('corpus:%s' % f, (0, cat.short(c), 0), rec, '%s [%s]: %s' % (f, describe_case(c), r['msg']), f)
        parts['F_corpus'] = dict(states=len(cs), transitions=len(cs), traces_validated_against_impl=len(cs), evaluations=len(cs), wall_s=round(time.time() - t0, 1))
    else:
        capped.append('F_corpus')
    samples += [{'der_string': '1f0000', 'battery': DNAME[:12]}, {'char_alphabet': CHR_ALPH.decode('latin1'), 'size': len(CHR_ALPH)}, {'apdu_alphabet': APDU_ALPH.hex()}]
    json.dump({'find': {k: [list(v[0]), v[1], v[2], v[3], v[4]] for k, v in F.d.items()}, 'parts': parts, 'outcomes': outcomes, 'samples': samples,
               'harness': harness[:20], 'capped': capped}, open(outpath, 'w'))
    return 0

def jsonable(j):
    if isinstance(j, (bytes, bytearray)):
        return 'hex:' + bytes(j).hex()
    if isinstance(j, (tuple, list)):
        return [jsonable(x) for x in j][:8] if len(j) <= 8 or not all(isinstance(x, int) for x in j) else [int(j[0]), '...', int(j[-1])]
    if isinstance(j, dict):
        return {k: jsonable(v) for k, v in j.items()}
    return j

def short_hex(b):
    return b.hex() if len(b) <= 40 else '%s..%s [%d octets]' % (b[:24].hex(), b[-8:].hex(), len(b))

OBSERVATION_KEYS = ('obs:',)
WHY = {
    'F10:der-tag-long-form-without-number-accepted': 'der.h: a long tag is (t_{r-1}|128)...t_0 with t_{r-1} != 0 and number >= 31, and decoders return SIZE_MAX on a format error',
    'F11:der-tag-ending-at-4th-or-last-octet-rejected': 'der.h: the tag is a u32 word that is the ready code, so 4-octet tags are tags (derEnc emits them); a tag whose last octet is the 4th / the last one of the buffer is complete',
    'F12a:der-length-near-SIZE_MAX-wraps': 'der.h: derDec returns the exact length of the DER code [<=count]der, i.e. T, L and L octets of V lie inside the buffer',
    'F12b:der-TSIZE-value-absent-or-short': 'der.h: INTEGER contents are o1...on with n >= 1 inside [<=count]der; the return value is the exact code length',
    'G4:der-OID-empty-or-unterminated-subidentifier-accepted': 'oid.h: n >= 2 numbers, every sub-identifier complete; property: accepted codes re-encode to themselves',
    'G1:der-OIDDec2-reads-past-the-end-of-the-expected-identifier': 'C08: a decoder touches nothing outside its input and the documented arguments (here: the NUL-terminated string oid)',
    'G5:der-PSTR-NUL-accepted': 'der.h / str.h: a printable string consists of letters, digits and " \'()+,-./:=?"; NUL is not among them',
    'G6:der-BIT-nonzero-padding-accepted': 'der.h: the bit string is padded with ZERO bits (DER, X.690 11.2.1); accepted code does not re-encode to itself',
    'G3:der-encoder-rejects-valid-tag': 'der.h: "the error is a wrong format of tag"; the word follows the tag grammar of der.h (and derTLDec accepts its code)',
    'G7:apdu-cmd-extended-Lc-0000-accepted': 'apdu.h item 5: the two value octets of an extended Lc are different from 0x0000',
    'G8:apdu-cmd-non-shortest-form-accepted': 'C08 (accepted => re-encodes to itself); apduCmdDec itself rejects the other non-shortest forms',
    'G9:sm-cmd-mismatching-Lc-Le-forms-accepted': 'apdu.h item 4: the form of Le must correspond to the form of Lc (short with short, extended with extended)',
    'G2:sm-cmd-wrap-protected-field-over-65535-encoded': 'btok.h: ERR_OK = the command was encoded and protected; here Lc* is truncated mod 65536 and btokSMCmdUnwrap rejects the result',
}

def unused_macros(_):
    """derPSTREnc / derPSTRDec / derOCTDec3 (macros of der.h that no library source uses, through drv/vh_macros.c): the universal tags 0x13 / 0x04,
    round trip, and refusal of the neighbouring tags -> (calls, [messages])"""
    L = common.lib('rel')
    if not L.has('vm_derPSTREnc'):
        return 0, []
    bad = []; calls = 0
    SM = (1 << 64) - 1
    with vf.Arena(L) as A:
        for txt in (b'', b'A', b'BY', b"Printable 09 '()+,-./:=?", b'x' * 127, b'y' * 128, b'z' * 300):
            n = L.sz('vm_derPSTREnc', None, A.buf(txt + b'\0')); calls += 1
            exp = S_tlv(0x13, txt)
            if n != len(exp):
                bad.append('derPSTREnc(0, %r...) = %d, DER PrintableString has %d octets' % (txt[:12], n, len(exp))); continue
            der = A.buf(n, 0xEE)
            L.sz('vm_derPSTREnc', der, A.buf(txt + b'\0')); calls += 1
            if der.get() != exp:
                bad.append('derPSTREnc(%r...) = %s, DER: %s' % (txt[:12], der.get().hex()[:40], exp.hex()[:40]))
            val = A.buf(len(txt) + 1, 0xEE); ln = A.buf(8, 0)
            r = L.sz('vm_derPSTRDec', val, ln, A.buf(exp), len(exp)); calls += 1
            if r != len(exp) or val.get(len(txt)) != txt or int.from_bytes(ln.get(), 'little') != len(txt):
                bad.append('derPSTRDec of the PrintableString %r... returned %d / %r' % (txt[:12], r if r != SM else -1, val.get(len(txt))[:12]))
            for tag in (0x0C, 0x12, 0x14, 0x16, 0x04):
                wrong = bytes([tag]) + exp[1:]
                if L.sz('vm_derPSTRDec', A.buf(len(txt) + 1), A.buf(8), A.buf(wrong), len(wrong)) != SM:
                    bad.append('derPSTRDec accepts tag %#x' % tag)
                calls += 1
        for v in (b'', b'\x00', b'\x80', vf.filler('oct3', 127), vf.filler('oct3b', 128)):
            exp = S_tlv(0x04, v)
            if L.sz('vm_derOCTDec3', A.buf(exp), len(exp), A.buf(v) if v else A.buf(1), len(v)) != len(exp):
                bad.append('derOCTDec3 refuses the OCTET STRING %s against its own value' % exp.hex()[:24])
            if v and L.sz('vm_derOCTDec3', A.buf(exp), len(exp), A.buf(bytes([v[0] ^ 1]) + v[1:]), len(v)) != SM:
                bad.append('derOCTDec3 accepts another value')
            for tag in (0x03, 0x05, 0x24):
                wrong = bytes([tag]) + exp[1:]
                if L.sz('vm_derOCTDec3', A.buf(wrong), len(wrong), A.buf(v) if v else A.buf(1), len(v)) != SM:
                    bad.append('derOCTDec3 accepts tag %#x' % tag)
            calls += 5
    return calls, bad

def S_tlv(tag, v):
    n = len(v)
    if n < 128:
        return bytes([tag, n]) + v
    b = n.to_bytes((n.bit_length() + 7) // 8, 'big')
    return bytes([tag, 0x80 | len(b)]) + b + v

def run(tier):
    import json, subprocess, tempfile
    import build as vbuild
    chk = vf.Check(PROP, tier, deadline_s=600 if tier == 'quick' else 3600)
    env = dict(os.environ)
    env['LD_PRELOAD'] = vbuild.asan_runtime()
    env['ASAN_OPTIONS'] = 'detect_leaks=0:abort_on_error=1:halt_on_error=1:allocator_may_return_null=1:detect_stack_use_after_return=0:handle_segv=1:' \
                          'symbolize=0:fast_unwind_on_malloc=1:malloc_context_size=0:max_redzone=256:quarantine_size_mb=16:print_legend=0:print_summary=0'
    vbuild.build('asan')                # build before the child starts (build errors surface here)
    d, err = vf.run_sub(PROP, tier, 'all', env=env, prefix='c08')
    if d is None:
        chk.harness_error('sub-exploration failed: ' + err)
        return chk.finish('C08', '')
    for h in d['harness']:
        chk.harness_error(h)
    for name, p in d['parts'].items():
        chk.part(name, **p)
        chk.cov['distinct_nontrivial'] += p.get('accepted', 0)
    um = vf.pmap(unused_macros, [0], nproc=1, case_timeout=120)[0]
    if isinstance(um, dict):
        chk.violation('macros:crash', {'cfg': 'rel', 'kind': 'unused_macros'}, 'typed DER macros of der.h: %s' % str(um)[-600:])
    else:
        chk.part('unused_der_macros', states=3, transitions=um[0], traces_validated_against_impl=um[0], evaluations=um[0])
        for m in um[1]:
            chk.violation('macros:' + m.split('(')[0].split(' ')[0], {'cfg': 'rel', 'kind': 'unused_macros'}, m)
    for c in d['capped']:
        chk.cap(c + ' not run: deadline')
    for o, n in d['outcomes'].items():
        chk.outcome(o, n)
    for s in d['samples']:
        chk.sample(s)
    for key, (sk, rec, msg, n, fns) in sorted(d['find'].items()):
        full = '%s\n(%d disagreeing executions in this class; functions: %s)' % (msg, n, ', '.join(sorted(set(fns)))[:300])
        if key in WHY:
            full += '\nrule: ' + WHY[key]
        if key.startswith(OBSERVATION_KEYS):
            chk.observe('%s: %s (%d cases)' % (key, msg[:300], n)); continue
        chk.outcome('finding ' + key, n)
        chk.violation(key, rec, full)
    chk.observe('apduCmdDec accepts an extended Lc (00 xx yy) with a value < 256 when no Le follows (e.g. 00A4040C 000001 AA) although apduCmdEnc would use the short form; '
                'apdu.h does not document a shortest-form rule for this case, so it is not counted (the decoder rejects the other non-shortest forms)')
    chk.assumptions += [
        'oracle = ref/codec.py (grammar of the public headers der.h, oid.h, apdu.h, hex.h, b64.h, dec.h) and ref/codec_st.py (ASN.1 structures parsed nested); gated by `--selftest` vectors',
        'a DER length equal to SIZE_MAX is treated as outside the implementation limit (codec.LEN_MAX = SIZE_MAX - 1): SIZE_MAX is the error value of every decoder; derTLEnc emitting 88 FF..FF is logged as an observation',
        'APDU: acceptance is judged against the grammar of apdu.h; a grammatical but non-shortest code may be rejected, but if accepted it must re-encode to itself (property statement)',
        'secure messaging: non-shortest Lc* forms accepted by btokSMCmdUnwrap are not judged (neither btok.h nor apdu.h demands the shortest form); mismatching Lc*/Le* forms are (apdu.h item 4)',
        'hex is case-insensitive by documentation: the re-encoding relation is hexFrom(hexTo(s)) == upper(s)',
        'bpki: only the iteration count 10000 and one salt are used (any other admissible count costs up to hours of PBKDF2); CV certificates are decoded without and with signature check',
        'over-reads are observed per string by a guard page behind the exact-size copy and, for every string, by ASan redzones around an exact-size malloc copy; reads BEFORE the copy only by ASan',
        'the cofactor of ECParameters (OPTIONAL) and zero access words of CV certificates (btok.h: may be present, are dropped on encoding) are the documented exceptions from re-encoding identity']
    return chk.finish('C08', 'A: every octet string of the stated length families through 16 DER decoders on exact-size copies, table vs codec.py; B: every string over the '
                      '%d-character alphabet; C: every APDU string over 5 octets up to length 7 + Lc/Le form products; D: encoders over boundary alphabets; '
                      'E: structure-aware mutants (truncations, tag forms, length forms, INTEGER / OID / PSTR / BIT content forms, container edits) of valid codes; '
                      'states = distinct inputs, transitions = executions of the battery / call sequence' % len(CHR_ALPH))

def replay(rec):
    global CFG
    k = rec.get('kind')
    CFG = rec.get('cfg', CFG)
    if k == 'unused_macros':
        um = vf.pmap(unused_macros, [0], nproc=1, case_timeout=120)[0]
        return (str(um)[-400:] if isinstance(um, dict) else '; '.join(um[1][:3])) or None
    if k == 'der':
        return replay_der(rec)
    if k == 'chr':
        return replay_chr(rec)
    if k == 'apdu':
        return replay_apdu(rec)
    if k == 'mut':
        return replay_mut(rec)
    if k == 'case':
        r = vf.pmap(enc_job, [(rec['fn'], cat.dec_case(rec['case']))], nproc=1)[0]
        if 'crash' in r:
            return crash_info(r)[1]
        if 'harness_error' in r:
            return 'harness error ' + r['harness_error'][-300:]
        for kk, (sk, rc, msg, n, fns) in r['find'].items():
            return msg
        return None
    if k == 'job':
        return 'a whole enumeration job crashed: ' + str(rec.get('job'))[:200]
    return None
