"""bign part of the catalogue (STB 34.101.45): function descriptors, reference bindings (ref/bign.py over ref/ecp.py),
the alphabets / engineered tuples shared with explore/C02.py, and the admissible corpus replayed by C07/C09/C15/C19.

bign_params is passed as one 'in' buffer of 336 octets: size_t l | p[64] a[64] b[64] q[64] yG[64] | seed[8].
A case is judged by the reference only when its params are one of the three standard sets (else ref -> None),
except for bignParamsVal, whose reference re-validates arbitrary parameter sets (alg. 6.1.4)."""
import hashlib, json, os, pickle
import vf, cat
from cat import Fn, reg
from cat_belt import Composite
import bign as R, ecp
import belt as RB

E = dict(OK=0, BAD_INPUT=109, OUTOFMEMORY=110, FILE_NOT_FOUND=202, BAD_OID=301, BAD_RNG=304, BAD_PARAMS=502, BAD_PRIVKEY=504,
         BAD_PUBKEY=505, BAD_SHAREDKEY=507, BAD_SIG=510, BAD_KEYTOKEN=513)
ENAME = {v: k for k, v in E.items()}
def NONZERO(r):                     # "an error code" where the header names none
    return r != 0

LEVELS = (128, 192, 256)
STD_NAME = {128: '1.2.112.0.2.0.34.101.45.3.1', 192: '1.2.112.0.2.0.34.101.45.3.2', 256: '1.2.112.0.2.0.34.101.45.3.3'}
PARAMS_SIZE = 8 + 5 * 64 + 8

# ------------------------------------------------------------------ parameters
def params_pack(l, p, a, b, q, yG, seed):
    f = lambda v: int(v).to_bytes(64, 'little')
    return int(l).to_bytes(8, 'little') + f(p) + f(a) + f(b) + f(q) + f(yG) + bytes(seed)

_PB = {}
def params_bytes(l):
    if l not in _PB:
        ps = R.params(l)
        _PB[l] = params_pack(l, ps['p'], ps['a'], ps['b'], ps['q'], ps['yG'], ps['seed'])
    return _PB[l]

def params_unpack(pb):
    pb = bytes(pb)
    d = {'l': int.from_bytes(pb[:8], 'little')}
    for i, k in enumerate(('p', 'a', 'b', 'q', 'yG')):
        d[k + '_raw'] = pb[8 + 64 * i:8 + 64 * (i + 1)]
        d[k] = int.from_bytes(d[k + '_raw'], 'little')
    d['seed'] = pb[328:336]
    return d

def level_of(c):
    """level l if the case carries one of the standard parameter sets, else None"""
    pb = bytes(c['params'])
    l = int.from_bytes(pb[:8], 'little')
    return l if l in LEVELS and pb == params_bytes(l) else None

def _no(c):
    l = int.from_bytes(bytes(c['params'] or b'')[:8], 'little')
    return l // 4 if l in LEVELS else 64

def q_of(l): return R.params(l)['q']
def p_of(l): return R.params(l)['p']
def enc(l, v): return R.enc_int(l, v)
def encp(l, P): return R.enc_point(l, P)
def dec(b): return R.dec_int(b)

def params_valid(pb):
    """alg. 6.1.4 on an arbitrary bign_params image (plus the layout rules of bign.h)"""
    d = params_unpack(pb)
    l = d['l']
    if l not in LEVELS:
        return False
    no = l // 4
    for k in ('p', 'a', 'b', 'q', 'yG'):
        if any(d[k + '_raw'][no:]):
            return False
    if not (0 < d['a'] < d['p'] and 0 < d['b'] < d['p'] and d['yG'] < d['p']):
        return False
    ps = dict(l=l, p=d['p'], a=d['a'], b=d['b'], q=d['q'], yG=d['yG'], xG=0, seed=d['seed'])
    return ecp.validate_params(ps, belt_hash=RB.hash) == []

# ------------------------------------------------------------------ tapes (vf.make_tape / vh_tape_gen)
def tape_stream(n):
    """what vh_tape_gen returns after the tape is exhausted"""
    return bytes((0x5A ^ ((j * 0x9D) & 0xFF)) & 0xFF for j in range(n))

def _full_tape(c, no):
    t = bytes(c.get('rng') or b'')
    return t, t + tape_stream(66 * no)

def _tape_out(c, used):
    n = len(bytes(c.get('rng') or b''))
    return {'rng_used': min(used, n), 'rng_over': max(0, used - n)}

# ------------------------------------------------------------------ reference bindings
def _expected(c):
    """sweep cases (C09) carry the documented result of the rule they violate"""
    e = c['_expect']
    return {'ret': NONZERO if e == 'nonzero' else e}

def _ref(f):
    def ref(c):
        if '_expect' in c:
            return _expected(c)
        l = level_of(c)
        if l is None:
            return None
        try:
            return f(l, c)
        except R.BignError as e:
            return {'ret': E[e.code]}
    return ref

def _r_keypair_gen(l, c):
    t, full = _full_tape(c, l // 4)
    d, Q, used = R.keypair_gen(l, full)
    return dict({'ret': 0, 'privkey': enc(l, d), 'pubkey': encp(l, Q)}, **_tape_out(c, used))

def _r_keypair_val(l, c):
    return {'ret': 0 if R.keypair_val(l, c['privkey'], c['pubkey']) == 'OK' else NONZERO}

def _r_pubkey_val(l, c):
    return {'ret': 0 if R.pubkey_is_valid(l, c['pubkey']) else NONZERO}

def _r_pubkey_calc(l, c):
    return {'ret': 0, 'pubkey': encp(l, R.pubkey_calc(l, c['privkey']))}

def _r_dh(l, c):
    return {'ret': 0, 'key': R.dh(l, c['privkey'], c['pubkey'], c['key_len'])}

def _r_sign(l, c):
    t, full = _full_tape(c, l // 4)
    sig = R.sign(l, c['oid_der'], c['hash'], c['privkey'], full)
    return dict({'ret': 0, 'sig': sig}, **_tape_out(c, R.last_consumed))

def _r_sign2(l, c):
    return {'ret': 0, 'sig': R.sign2(l, c['oid_der'], c['hash'], c['privkey'], c.get('t'))}

def _r_verify(l, c):
    return {'ret': 0 if R.verify_ex(l, c['oid_der'], c['hash'], c['sig'], c['pubkey']) == 'OK' else NONZERO}

def _r_key_wrap(l, c):
    t, full = _full_tape(c, l // 4)
    tok = R.key_wrap(l, c['key'], c.get('header'), c['pubkey'], full)
    return dict({'ret': 0, 'token': tok}, **_tape_out(c, R.last_consumed))

def _r_key_unwrap(l, c):
    k = R.key_unwrap(l, c['token'], c.get('header'), c['privkey'])
    return {'ret': E['BAD_KEYTOKEN']} if k is None else {'ret': 0, 'key': k}

def _r_id_extract(l, c):
    try:
        r = R.id_extract(l, c['oid_der'], c['id_hash'], c['sig'], c['pubkey'])
    except R.BignError as e:
        if e.code == 'BAD_PUBKEY':      # bign.h asks for a correct public key; the property only says "rejected"
            return {'ret': NONZERO}
        raise
    if r is None:
        return {'ret': E['BAD_SIG']}
    return {'ret': 0, 'id_privkey': enc(l, r[0]), 'id_pubkey': encp(l, r[1])}

def _r_id_sign(l, c):
    t, full = _full_tape(c, l // 4)
    sig = R.id_sign(l, c['oid_der'], c['id_hash'], c['hash'], c['id_privkey'], full)
    return dict({'ret': 0, 'id_sig': sig}, **_tape_out(c, R.last_consumed))

def _r_id_sign2(l, c):
    return {'ret': 0, 'id_sig': R.id_sign2(l, c['oid_der'], c['id_hash'], c['hash'], c['id_privkey'], c.get('t'))}

def _r_id_verify(l, c):
    return {'ret': 0 if R.id_verify_ex(l, c['oid_der'], c['id_hash'], c['hash'], c['id_sig'], c['id_pubkey'], c['pubkey']) == 'OK' else NONZERO}

def _r_params_std(c):
    for l, nm in STD_NAME.items():
        if c['name'] == nm:
            return {'ret': 0, 'params': params_bytes(l)}
    return {'ret': NONZERO}

def _r_params_val(c):
    return {'ret': 0 if params_valid(c['params']) else NONZERO}

# ------------------------------------------------------------------ descriptors
P = ('in', 'params')
OID = [('in', 'oid_der'), ('len', 'oid_der')]
def _sz(mul, div=1):
    return lambda c: _no(c) * mul // div

def _d_nonce(fname):
    """C15 needles: the one-time key and secret outputs"""
    def derived(case, res):
        out = []
        l = level_of(case)
        if l is None:
            return out
        no = l // 4
        try:
            if 'rng' in case and fname != 'bignKeypairGen':
                k, _ = R.rand_nz(l, _full_tape(case, no)[1])
                if k:
                    out.append(('one-time key k', enc(l, k)))
            if fname == 'bignSign2':
                out.append(('one-time key k', enc(l, R.gen_k(l, case['oid_der'], case['privkey'], case['hash'], case.get('t')))))
            if fname == 'bignIdSign2':
                out.append(('one-time key k', enc(l, R.gen_k(l, case['oid_der'], case['id_privkey'], case['hash'], case.get('t')))))
            ps, Ec, G, q, _ = R._ctx(l)
            if fname == 'bignKeyWrap':              # key protection key theta = <x(kQ)>_256
                k, _ = R.rand_nz(l, _full_tape(case, no)[1])
                Qp = R._as_point(l, case['pubkey'])
                if k and Ec.is_on(Qp):
                    out.append(('key protection key theta', enc(l, Ec.mul(k, Qp)[0])[:32]))
            if fname == 'bignKeyUnwrap':            # theta = <x(dR)>_256
                x, d = dec(case['token'][:no]), dec(case['privkey'])
                pts = Ec.lift_x(x) if x < ps['p'] else []
                if pts and 0 < d < q:
                    out.append(('key protection key theta', enc(l, Ec.mul(d, pts[0])[0])[:32]))
        except Exception:
            pass
        for nm in {'bignKeypairGen': ('privkey',), 'bignDH': ('key',), 'bignKeyUnwrap': ('key',), 'bignIdExtract': ('id_privkey',)}.get(fname, ()):
            v = res.get(nm)
            if isinstance(v, bytes) and res.get('ret') == 0:
                out.append((nm + ' (output)', v))
        return out
    return derived

class BFn(Fn):
    """plain descriptor (cat.Fn, executed by cat.run); when the call fails the content of its output buffers is unspecified,
    so octets still equal to the pre-fill pattern are reported as 00: an untouched or zeroed output looks the same whatever the
    fill was (C07 two-fill replay), octets the library did write on a failure path stay visible (C09 'no release')"""
    faultable = True                # C09 / C15: a plain err_t function with one allocation point
    def impl(self, lib, case, A, fill):
        res = cat.run(lib, self, case, fill if fill is not None else 0, None, A)
        if res.get('ret') != 0:
            f = fill if fill is not None else 0
            for spec in self.args:
                if spec[0] == 'out' and isinstance(res.get(spec[1]), bytes):
                    res[spec[1]] = bytes(0 if o == f else o for o in res[spec[1]])
        return res

def _reg(name, args, ref, secrets=()):
    fn = reg(BFn(name, args, ref, group='bign', secrets=secrets))
    fn.derived = _d_nonce(name)
    return fn

_reg('bignParamsStd', [('out', 'params', PARAMS_SIZE), ('str', 'name')], _r_params_std)
_reg('bignParamsVal', [P], _r_params_val)
_reg('bignKeypairGen', [('out', 'privkey', _sz(1)), ('out', 'pubkey', _sz(2)), P, ('gen', 'rng')], _ref(_r_keypair_gen), secrets=('privkey',))    # the secret is an output: see derived
_reg('bignKeypairVal', [P, ('in', 'privkey'), ('in', 'pubkey')], _ref(_r_keypair_val), secrets=('privkey',))
_reg('bignPubkeyVal', [P, ('in', 'pubkey')], _ref(_r_pubkey_val))
_reg('bignPubkeyCalc', [('out', 'pubkey', _sz(2)), P, ('in', 'privkey')], _ref(_r_pubkey_calc), secrets=('privkey',))
_reg('bignDH', [('out', 'key', lambda c: c['key_len']), P, ('in', 'privkey'), ('in', 'pubkey'), ('val', 'key_len')], _ref(_r_dh), secrets=('privkey',))
_reg('bignSign', [('out', 'sig', _sz(3, 2)), P] + OID + [('in', 'hash'), ('in', 'privkey'), ('gen', 'rng')], _ref(_r_sign), secrets=('privkey',))
_reg('bignSign2', [('out', 'sig', _sz(3, 2)), P] + OID + [('in', 'hash'), ('in', 'privkey'), ('in', 't'), ('len', 't')], _ref(_r_sign2), secrets=('privkey',))
_reg('bignVerify', [P] + OID + [('in', 'hash'), ('in', 'sig'), ('in', 'pubkey')], _ref(_r_verify))
_reg('bignKeyWrap', [('out', 'token', lambda c: _no(c) + 16 + c.get('key_len', len(c['key'] or b''))), P, ('in', 'key'), ('len', 'key'), ('in', 'header'), ('in', 'pubkey'), ('gen', 'rng')],
     _ref(_r_key_wrap), secrets=('key',))
_reg('bignKeyUnwrap', [('out', 'key', lambda c: max(c.get('token_len', len(c['token'] or b'')) - 16 - _no(c), 0)), P, ('in', 'token'), ('len', 'token'), ('in', 'header'), ('in', 'privkey')],
     _ref(_r_key_unwrap), secrets=('privkey',))
_reg('bignIdExtract', [('out', 'id_privkey', _sz(1)), ('out', 'id_pubkey', _sz(2)), P] + OID + [('in', 'id_hash'), ('in', 'sig'), ('in', 'pubkey')], _ref(_r_id_extract), secrets=('id_privkey',))
_reg('bignIdSign', [('out', 'id_sig', _sz(3, 2)), P] + OID + [('in', 'id_hash'), ('in', 'hash'), ('in', 'id_privkey'), ('gen', 'rng')], _ref(_r_id_sign),
     secrets=('id_privkey',))
_reg('bignIdSign2', [('out', 'id_sig', _sz(3, 2)), P] + OID + [('in', 'id_hash'), ('in', 'hash'), ('in', 'id_privkey'), ('in', 't'), ('len', 't')], _ref(_r_id_sign2),
     secrets=('id_privkey',))
_reg('bignIdVerify', [P] + OID + [('in', 'id_hash'), ('in', 'hash'), ('in', 'id_sig'), ('in', 'id_pubkey'), ('in', 'pubkey')], _ref(_r_id_verify))

def _impl_oid(lib, c, A, fill):
    """bignOidToDER: length query (der = NULL), exact-size encoding, a buffer one octet short"""
    s = A.buf(c['oid'].encode('latin1') + b'\0')
    cnt = A.buf(8, fill)
    r = lib.err('bignOidToDER', None, cnt, s)
    if r:
        return {'ret': r}
    n = int.from_bytes(cnt.get(), 'little')
    if not 0 < n <= 4096:
        return {'ret': 0, 'count': n}
    der = A.buf(n, fill)
    cnt.set(n.to_bytes(8, 'little'))
    r = lib.err('bignOidToDER', der, cnt, s)
    res = {'ret': r, 'count': int.from_bytes(cnt.get(), 'little'), 'der': der.get()}
    small = A.buf(n - 1, fill)
    cnt.set((n - 1).to_bytes(8, 'little'))
    res['short_rejected'] = int(lib.err('bignOidToDER', small, cnt, s) != 0)
    return res
def _r_oid(c):
    try:
        der = R.oid_to_der(c['oid'])
    except (R.BignError, ValueError):
        return {'ret': E['BAD_OID']}
    return {'ret': 0, 'count': len(der), 'der': der, 'short_rejected': 1}
reg(Composite('bign.oidToDER', _impl_oid, _r_oid, group='bign'))

# ------------------------------------------------------------------ alphabets (shared with C02)
_V = None
def appendix():
    """values of the standard's appendix G (l = 128) from ref/vectors/bign.json"""
    global _V
    if _V is None:
        doc = json.load(open(os.path.join(os.path.dirname(os.path.abspath(R.__file__)), 'vectors', 'bign.json')))
        by = {(v['kind'], v.get('name')): v for v in doc['vectors']}
        h = bytes.fromhex
        _V = dict(d=h(by[('keypair_gen', 'G.1')]['privkey']), H=h(by[('sign', 'G.2')]['hash']), H2=h(by[('sign', 'G.3')]['hash']),
                  k=h(by[('sign', 'G.2')]['tape']), k2=h(by[('key_wrap', 'G.4')]['tape']), t=h(by[('sign2', 'G.7')]['t']),
                  key=h(by[('key_wrap', 'G.5')]['key']), header=h(by[('key_wrap', 'G.5')]['header']), kid=h(by[('id_sign', 'G.9')]['tape']))
    return _V

def _ext(b, n):
    """appendix value stretched to n octets for l = 192, 256 (fixed, not seed dependent)"""
    return (b + RB.hash(b) + RB.hash(b + b'\x01'))[:n]

def _in_range(v, q):
    return v % (q - 1) + 1

def fill_int(tag, l):
    return dec(vf.filler('bign.%s.%d' % (tag, l), l // 4))

def d_alphabet(l):
    q = q_of(l)
    return [('1', 1), ('2', 2), ('q-2', q - 2), ('q-1', q - 1), ('appendix', _in_range(dec(_ext(appendix()['d'], l // 4)), q)),
            ('filler', _in_range(fill_int('d', l), q))]

def k_alphabet(l):
    q = q_of(l)
    return [('appendix', _in_range(dec(_ext(appendix()['k'], l // 4)), q)), ('filler', _in_range(fill_int('k', l), q)),
            ('1', 1), ('2', 2), ('q-2', q - 2), ('q-1', q - 1)]

def h_alphabet(l):
    q = q_of(l); no = l // 4
    return [('0', enc(l, 0)), ('1', enc(l, 1)), ('q-1', enc(l, q - 1)), ('q', enc(l, q)), ('q+1', enc(l, q + 1)), ('max', b'\xff' * no),
            ('appendix', _ext(appendix()['H'], no)), ('filler', vf.filler('bign.H.%d' % l, no))]

def h0_alphabet(l):
    q = q_of(l); no = l // 4
    return [('appendix', _ext(appendix()['H'], no)), ('0', enc(l, 0)), ('q', enc(l, q)), ('max', b'\xff' * no)]

def e_alphabet(l):
    q = q_of(l)
    return [('filler', fill_int('e', l) % q), ('0', 0), ('1', 1), ('q-1', q - 1), ('appendix', dec(_ext(appendix()['kid'], l // 4)) % q)]

OID_STR = [('belt-hash', '1.2.112.0.2.0.34.101.31.81'), ('bash256', '1.2.112.0.2.0.34.101.77.11'), ('bash384', '1.2.112.0.2.0.34.101.77.12'),
           ('bash512', '1.2.112.0.2.0.34.101.77.13'), ('short', '1.2'), ('value127', '1.2' + '.4294967295' * 25 + '.0'),
           ('value128', '1.2' + '.4294967295' * 25 + '.128')]
def oid_alphabet(long_form=False):
    """DER codes: belt-hash, bash256/384/512, the 3-octet code of 1.2, a 127-octet value (longest short-form length) and,
    with long_form, a 128-octet value (first long-form length 06 81 80)"""
    out = [(n, R.oid_to_der(s)) for n, s in OID_STR]
    assert len(out[4][1]) == 3 and len(out[5][1]) == 2 + 127 and out[6][1][:3] == b'\x06\x81\x80'
    return out if long_form else out[:6]
OID_BELT = R.oid_to_der(OID_STR[0][1])

T_ALPHABET = [('NULL', None), ('empty', b''), ('1', b'\xA5'), ('64', bytes((11 * i + 7) & 0xFF for i in range(64)))]

def tape_shapes(l):
    """(label, builder(v) -> tape, expected BAD_RNG?) : rejection-sampling shapes in front of the accepted value v"""
    q, p, no = q_of(l), p_of(l), l // 4
    top = (1 << (2 * l)) - 1
    u = q + fill_int('u', l) % (p - q)
    e = lambda *vs: b''.join(enc(l, x) for x in vs)
    mix = [0, q, u, p - 1, top, q + 1, p]
    return [('v', lambda v: e(v), False), ('0,v', lambda v: e(0, v), False), ('q,v', lambda v: e(q, v), False),
            ('q+1,v', lambda v: e(q + 1, v), False), ('u,v', lambda v: e(u, v), False), ('p-1,v', lambda v: e(p - 1, v), False),
            ('p,v', lambda v: e(p, v), False), ('max,v', lambda v: e(top, v), False),
            ('q*64,v', lambda v: e(*([q] * 64 + [v])), False), ('mix*64,v', lambda v: e(*([mix[i % 7] for i in range(64)] + [v])), False),
            ('q*65', lambda v: e(*([q] * 65)), True), ('mix*65', lambda v: e(*[mix[i % 7] for i in range(65)]), True)]

def tape_menu(l):
    """the tapes used for nonce-taking functions: every nonce value alone, every rejection shape with a rotating nonce value
    -> list of (label, tape, bad_rng)"""
    ks = k_alphabet(l)
    out = [('v=' + n, enc(l, k), False) for n, k in ks]
    for i, (n, f, bad) in enumerate(tape_shapes(l)[1:]):
        kn, k = ks[i % len(ks)]
        out.append(('%s(v=%s)' % (n, kn), f(k), bad))
    return out

# ------------------------------------------------------------------ reference points (memoised scalar multiples of G)
_MG = {}
def mulG(l, k):
    key = (l, k)
    if key not in _MG:
        ps, Ec, G, q, no = R._ctx(l)
        _MG[key] = Ec.mul(k, G)
    return _MG[key]
def pub(l, d):
    return encp(l, mulG(l, d))

# ------------------------------------------------------------------ engineered tuples
def eng_sign_d(l, oid, H, k, a):
    """private key d with (k - (s0 + 2^l) d) mod q == a for the one-time key k (s0 depends on k, H, oid only); None if d = 0"""
    q = q_of(l)
    s0 = dec(R._s0(l, oid, mulG(l, k), bytes(H)))
    d = (k - a) * pow(s0 + 2 ** l, -1, q) % q
    return d or None

def eng_idsign_e(l, oid, H0, H, k, a):
    q = q_of(l)
    s0 = dec(R._s0(l, oid, mulG(l, k), bytes(H0), bytes(H)))
    return (k - a) * pow(s0 + 2 ** l, -1, q) % q

def eng_tp(l, oid, H0, e, ktp):
    """trusted party whose signature of H0 (one-time key ktp) makes bignIdExtract return the private key e:
    -> dict(sig, id_pubkey, pubkey, dtp) or None.  e = ktp - (S0 + 2^l) dtp, R = ktp G."""
    q = q_of(l)
    Rp = mulG(l, ktp)
    S0 = R._s0(l, oid, Rp, bytes(H0))
    dtp = (ktp - e) * pow(dec(S0) + 2 ** l, -1, q) % q
    if dtp == 0:
        return None
    ps, Ec, G, q, no = R._ctx(l)
    return dict(sig=S0 + enc(l, (e - dec(H0)) % q), id_pubkey=encp(l, Rp), pubkey=encp(l, Ec.mul(dtp, G)), dtp=dtp)

def boundary_a(l, H):
    """classes of the intermediate a = k - (s0 + 2^l) d mod q around the reduction of a hash value H >= q"""
    q = q_of(l); h = dec(H)
    assert h >= q
    return [(n, v) for n, v in (('0', 0), ('1', 1), ('H-q-1', h - q - 1), ('H-q', h - q), ('H-q+1', h - q + 1), ('q-1', q - 1)) if 0 <= v < q]

def big_hashes(l):
    q = q_of(l); no = l // 4; top = 1 << (2 * l)
    return [('q', enc(l, q)), ('q+1', enc(l, q + 1)), ('q+2', enc(l, q + 2)), ('mid', enc(l, q + fill_int('Hbig', l) % (top - q))), ('max-1', enc(l, top - 2)),
            ('max', enc(l, top - 1))]

# ------------------------------------------------------------------ boundary substitutions for verifier inputs
def twist_point(l):
    ps, Ec, G, q, no = R._ctx(l)
    p = ps['p']
    x = 1
    while ecp.legendre(Ec.rhs(x), p) != -1:
        x += 1
    y = ecp.sqrt_mod((-Ec.rhs(x)) % p, p)
    assert y is not None and not Ec.is_on((x, y))
    return (x, y)

def point_subs(l, Qb):
    """(label, octets) replacements of the public key <x>||<y>"""
    p = p_of(l); no = l // 4; top = 1 << (2 * l)
    x, y = dec(Qb[:no]), dec(Qb[no:])
    X, Y = Qb[:no], Qb[no:]
    ps, Ec, G, q, _ = R._ctx(l)
    out = [('x:=p', enc(l, p) + Y), ('y:=p', X + enc(l, p)), ('y:=p-y', X + enc(l, (p - y) % p)), ('y:=y+1', X + enc(l, (y + 1) % p)),
           ('x:=x+1', enc(l, (x + 1) % p) + Y), ('(0,0)', bytes(2 * no)), ('(max,max)', b'\xff' * (2 * no)), ('x:=p-1', enc(l, p - 1) + Y),
           ('twist', encp(l, twist_point(l))), ('G', encp(l, G)), ('swap', Y + X)]
    if x + p < top:
        out.append(('x:=x+p', enc(l, x + p) + Y))
    if y + p < top:
        out.append(('y:=y+p', X + enc(l, y + p)))
    return [(n, v) for n, v in out if v != Qb]

def sig_subs(l, sig):
    q = q_of(l); no = l // 4; top = 1 << (2 * l)
    S0, s1 = sig[:no // 2], dec(sig[no // 2:])
    out = [('s1:=q', S0 + enc(l, q)), ('s1:=q-1', S0 + enc(l, q - 1)), ('s1:=0', S0 + enc(l, 0)), ('s1:=max', S0 + enc(l, top - 1)), ('s1:=q+1', S0 + enc(l, q + 1)),
           ('s0:=0', bytes(no // 2) + sig[no // 2:]), ('s0:=max', b'\xff' * (no // 2) + sig[no // 2:]), ('s1:=s1+1', S0 + enc(l, (s1 + 1) % q)),
           ('s1:=-s1', S0 + enc(l, (-s1) % q))]
    if s1 + q < top:
        out.append(('s1:=s1+q', S0 + enc(l, s1 + q)))
    return [(n, v) for n, v in out if v != sig]

def flips(b, every_bit=True):
    """(bit index, mutated octets): every single-bit flip, or one bit per octet (bit j mod 8 of octet j)"""
    out = []
    for i in (range(8 * len(b)) if every_bit else [8 * j + (j % 8) for j in range(len(b))]):
        m = bytearray(b); m[i // 8] ^= 1 << (i % 8)
        out.append((i, bytes(m)))
    return out

# ------------------------------------------------------------------ case constructors
def c_sign(l, oid, H, d, tape): return dict(params=params_bytes(l), oid_der=oid, hash=H, privkey=enc(l, d), rng=tape)
def c_sign2(l, oid, H, d, t): return dict(params=params_bytes(l), oid_der=oid, hash=H, privkey=enc(l, d), t=t)
def c_verify(l, oid, H, sig, Q): return dict(params=params_bytes(l), oid_der=oid, hash=H, sig=sig, pubkey=Q)
def c_wrap(l, key, hdr, Q, tape): return dict(params=params_bytes(l), key=key, header=hdr, pubkey=Q, rng=tape)
def c_unwrap(l, tok, hdr, d): return dict(params=params_bytes(l), token=tok, header=hdr, privkey=enc(l, d))
def c_idextract(l, oid, H0, sig, Q): return dict(params=params_bytes(l), oid_der=oid, id_hash=H0, sig=sig, pubkey=Q)
def c_idsign(l, oid, H0, H, e, tape): return dict(params=params_bytes(l), oid_der=oid, id_hash=H0, hash=H, id_privkey=enc(l, e), rng=tape)
def c_idsign2(l, oid, H0, H, e, t): return dict(params=params_bytes(l), oid_der=oid, id_hash=H0, hash=H, id_privkey=enc(l, e), t=t)
def c_idverify(l, oid, H0, H, sig, Rb, Q): return dict(params=params_bytes(l), oid_der=oid, id_hash=H0, hash=H, id_sig=sig, id_pubkey=Rb, pubkey=Q)

def keydata(n):
    return (appendix()['key'] + bytes((29 * i + 3) & 0xFF for i in range(64)))[:n]

def bad_params():
    """(label, image) of parameter sets bignParamsVal has to refuse"""
    out = []
    for l in LEVELS:
        ps = R.params(l); no = l // 4
        f = lambda **kw: params_pack(*[kw.get(k, dflt) for k, dflt in (('l', l), ('p', ps['p']), ('a', ps['a']), ('b', ps['b']), ('q', ps['q']), ('yG', ps['yG']), ('seed', ps['seed']))])
        out += [('seed+1', f(seed=((dec(ps['seed']) + 1) % 2 ** 64).to_bytes(8, 'little'))), ('yG:=p-yG', f(yG=ps['p'] - ps['yG'])), ('b+1', f(b=ps['b'] + 1)),
                ('q+2', f(q=ps['q'] + 2)), ('a:=0', f(a=0)), ('l:=100', f(l=100)), ('l:=0', f(l=0))]
        if l < 256:
            out.append(('unused octet', f(p=ps['p'] + (1 << (8 * no)))))
            out.append(('next level', f(l={128: 192, 192: 256}[l])))
    return out

OID_STRINGS_OK = [s for _, s in OID_STR] + ['0.0', '0.39', '1.39', '2.0', '2.40', '2.4294967215', '1.2.0', '1.2.127', '1.2.128', '1.2.16383', '1.2.16384', '1.2.4294967295', '2.999.3']
OID_STRINGS_BAD = ['', '1', '1.', '.1', '1..2', '3.1', '0.40', '1.40', '01.2', '1.02', '1.2.4294967296', '1.2.a', '1.2 ', '-1.2', '1.2.', '1,2', '1.2.99999999999999999999']

# ------------------------------------------------------------------ the shared corpus
def _corpus(tier):
    """admissible inputs (or inputs whose documented result is an error): a thinned projection of the C02 spaces"""
    full = tier == 'thorough'
    out = []
    oids = oid_alphabet(long_form=full)
    rot = lambda seq, i: seq[i % len(seq)]
    for nm in list(STD_NAME.values()) + ['1.2.112.0.2.0.34.101.45.3.4', '1.2.112.0.2.0.34.101.45.3.0', '', 'bign-curve256v1', STD_NAME[128] + '.1', STD_NAME[128][:-1]]:
        out.append(('bignParamsStd', dict(name=nm)))
    for l in LEVELS:
        out.append(('bignParamsVal', dict(params=params_bytes(l))))
    for _, pb in bad_params():
        out.append(('bignParamsVal', dict(params=pb)))
    for s in OID_STRINGS_OK + OID_STRINGS_BAD:
        out.append(('bign.oidToDER', dict(oid=s)))
    for l in LEVELS:
        PB = params_bytes(l); no = l // 4; q = q_of(l); p = p_of(l)
        ds = d_alphabet(l); hs = h_alphabet(l); ks = k_alphabet(l); tm = tape_menu(l)
        # key pairs
        for i, (dn, d) in enumerate(ds):
            out.append(('bignKeypairGen', dict(params=PB, rng=enc(l, d))))
            out.append(('bignPubkeyCalc', dict(params=PB, privkey=enc(l, d))))
            out.append(('bignKeypairVal', dict(params=PB, privkey=enc(l, d), pubkey=pub(l, d))))
            out.append(('bignPubkeyVal', dict(params=PB, pubkey=pub(l, d))))
            out.append(('bignKeypairVal', dict(params=PB, privkey=enc(l, d), pubkey=pub(l, rot(ds, i + 1)[1]))))
        for i, (n, f, bad) in enumerate(tape_shapes(l)[1:]):
            out.append(('bignKeypairGen', dict(params=PB, rng=f(rot(ds, i)[1]))))
        for v in (0, q, q + 1, (1 << (2 * l)) - 1):
            out.append(('bignPubkeyCalc', dict(params=PB, privkey=enc(l, v))))
            out.append(('bignKeypairVal', dict(params=PB, privkey=enc(l, v), pubkey=pub(l, 1))))
        Qf = pub(l, ds[5][1])
        for n, Qm in point_subs(l, Qf) + point_subs(l, pub(l, 1)):
            out.append(('bignPubkeyVal', dict(params=PB, pubkey=Qm)))
        # DH
        lens = [0, 1, no - 1, no, no + 1, 2 * no] if full else [0, no, no + 1, 2 * no]
        for i, (an, da) in enumerate(ds):
            for j, (bn, db) in enumerate(ds):
                if full or (i + j) % 3 == 0:
                    out.append(('bignDH', dict(params=PB, privkey=enc(l, da), pubkey=pub(l, db), key_len=rot(lens, i + j) if not full else 2 * no)))
        for n in lens + [2 * no + 1]:
            out.append(('bignDH', dict(params=PB, privkey=enc(l, ds[4][1]), pubkey=pub(l, ds[5][1]), key_len=n)))
        for v in (0, q):
            out.append(('bignDH', dict(params=PB, privkey=enc(l, v), pubkey=Qf, key_len=no)))
        for n, Qm in point_subs(l, Qf):
            if not R.pubkey_is_valid(l, Qm):
                out.append(('bignDH', dict(params=PB, privkey=enc(l, ds[4][1]), pubkey=Qm, key_len=no)))
        # signatures: d x H with rotating OID / tape; every OID; every tape
        sigs = []
        for i, (dn, d) in enumerate(ds):
            for j, (hn, H) in enumerate(hs):
                o = rot(oids, i + j)[1]; tp = rot(tm, 5 * i + j)
                if not tp[2]:
                    out.append(('bignSign', c_sign(l, o, H, d, tp[1])))
                out.append(('bignSign2', c_sign2(l, o, H, d, rot(T_ALPHABET, i + j)[1])))
                if full or (i + j) % 3 == 0:
                    k = rot(ks, i + j)[1]
                    sigs.append((o, H, d, R.sign_k(l, o, H, d, k)))
        for i, (on, o) in enumerate(oids):
            for (hn, H) in (hs if full else [hs[3], hs[6]]):
                out.append(('bignSign', c_sign(l, o, H, ds[4][1], rot(tm, i)[1])))
                for tn, t in (T_ALPHABET if full else T_ALPHABET[:1]):
                    out.append(('bignSign2', c_sign2(l, o, H, ds[5][1], t)))
        for i, (tn, tp, bad) in enumerate(tm):
            out.append(('bignSign', c_sign(l, OID_BELT, rot(hs, i)[1], ds[5][1], tp)))
            out.append(('bignIdSign', c_idsign(l, OID_BELT, hs[6][1], rot(hs, i)[1], rot(e_alphabet(l), i)[1], tp)))
            out.append(('bignKeyWrap', c_wrap(l, keydata(16 + i), appendix()['header'] if i % 2 else None, Qf, tp)))
        for tn, t in T_ALPHABET:
            out.append(('bignSign2', c_sign2(l, OID_BELT, hs[6][1], ds[4][1], t)))
        # engineered boundary tuples around the reduction of H >= q
        bh = big_hashes(l)
        for i, (hn, H) in enumerate(bh if full else [bh[0], bh[1], bh[3], bh[5]]):
            for j, (kn, k) in enumerate(ks if full else ks[:2]):
                for (an, a) in boundary_a(l, H):
                    d = eng_sign_d(l, OID_BELT, H, k, a)
                    if d:
                        out.append(('bignSign', c_sign(l, OID_BELT, H, d, enc(l, k))))
        # verification: valid signatures and boundary substitutions
        for n, (o, H, d, sig) in enumerate(sigs):
            out.append(('bignVerify', c_verify(l, o, H, sig, pub(l, d))))
        o, H, d, sig = sigs[-1]
        for n, sm in sig_subs(l, sig):
            out.append(('bignVerify', c_verify(l, o, H, sm, pub(l, d))))
        for n, Qm in point_subs(l, pub(l, d)):
            out.append(('bignVerify', c_verify(l, o, H, sig, Qm)))
        for (bi, m) in flips(H, False)[::4 if full else 8]:
            out.append(('bignVerify', c_verify(l, o, m, sig, pub(l, d))))
        for (bi, m) in flips(sig, False)[::4 if full else 8]:
            out.append(('bignVerify', c_verify(l, o, H, m, pub(l, d))))
        # key transport
        dr = ds[4][1]; Qr = pub(l, dr)
        klens = range(16, 49) if (full or l == 128) else (16, 17, 31, 32, 33, 48)
        for i, n in enumerate(klens):
            for hdr in ((None, appendix()['header']) if full else (rot((None, appendix()['header']), i),)):
                k = rot(ks, i)[1]
                out.append(('bignKeyWrap', c_wrap(l, keydata(n), hdr, Qr, enc(l, k))))
                if True:
                    tok = R.key_wrap_k(l, keydata(n), hdr, Qr, k)
                    out.append(('bignKeyUnwrap', c_unwrap(l, tok, hdr, dr)))
        tok = R.key_wrap_k(l, keydata(32), None, Qr, ks[0][1])
        out.append(('bignKeyUnwrap', c_unwrap(l, tok, bytes(16), dr)))
        for cut in (1, 17, len(tok) - no - 31):
            out.append(('bignKeyUnwrap', c_unwrap(l, tok[:-cut], None, dr)))
        out.append(('bignKeyUnwrap', c_unwrap(l, enc(l, p) + tok[no:], None, dr)))
        for (bi, m) in flips(tok, False)[::6]:
            out.append(('bignKeyUnwrap', c_unwrap(l, m, None, dr)))
        # identity-based signatures
        es = e_alphabet(l); h0s = h0_alphabet(l)
        for i, (en, e) in enumerate(es):
            for j, (h0n, H0) in enumerate(h0s if full else h0s[:2]):
                o = rot(oids, i + j)[1]
                tp = eng_tp(l, o, H0, e, rot(ks, i + j)[1])
                if tp is None:
                    continue
                out.append(('bignIdExtract', c_idextract(l, o, H0, tp['sig'], tp['pubkey'])))
                for m, (hn, H) in enumerate(hs):
                    if full or (i + j + m) % 3 == 0:
                        tpe = rot(tm, i + 3 * j + m)
                        if not tpe[2]:
                            out.append(('bignIdSign', c_idsign(l, o, H0, H, e, tpe[1])))
                        out.append(('bignIdSign2', c_idsign2(l, o, H0, H, e, rot(T_ALPHABET, i + j + m)[1])))
                H = rot(hs, i + j)[1]; k = rot(ks, i + 2 * j + 1)[1]
                isig = R.id_sign_k(l, o, H0, H, e, k)
                out.append(('bignIdVerify', c_idverify(l, o, H0, H, isig, tp['id_pubkey'], tp['pubkey'])))
                if j == 0:
                    for n, sm in sig_subs(l, isig)[:4]:
                        out.append(('bignIdVerify', c_idverify(l, o, H0, H, sm, tp['id_pubkey'], tp['pubkey'])))
                    for n, sm in sig_subs(l, tp['sig'])[:4]:
                        out.append(('bignIdExtract', c_idextract(l, o, H0, sm, tp['pubkey'])))
                if i == 0 and j == 0 and (full or l == 128):
                    for n, Qm in point_subs(l, tp['pubkey']):
                        out.append(('bignIdExtract', c_idextract(l, o, H0, tp['sig'], Qm)))
                        out.append(('bignIdVerify', c_idverify(l, o, H0, H, isig, tp['id_pubkey'], Qm)))
                    for n, Qm in point_subs(l, tp['id_pubkey']):
                        out.append(('bignIdVerify', c_idverify(l, o, H0, H, isig, Qm, tp['pubkey'])))
        for i, (hn, H) in enumerate(bh[1:3] if not full else bh):
            for (an, a) in boundary_a(l, H):
                k = rot(ks, i)[1]
                e = eng_idsign_e(l, OID_BELT, h0s[0][1], H, k, a)
                out.append(('bignIdSign', c_idsign(l, OID_BELT, h0s[0][1], H, e, enc(l, k))))
    return out

def _src_key(tier):
    h = hashlib.sha256(('%s/%s' % (vf.SEED, tier)).encode())
    for f in (os.path.abspath(__file__), R.__file__, ecp.__file__, RB.__file__):
        h.update(open(f, 'rb').read())
    return h.hexdigest()[:16]

_MEM = {}
def gen_cases(tier):
    """the corpus is a pure function of (these sources, the reference, VERIF_SEED, tier): generated once (about half a minute of
    reference scalar multiplications in thorough) and cached under /verif/build"""
    if tier in _MEM:
        return list(_MEM[tier])
    d = os.path.join(vf.VERIF, 'build')
    path = os.path.join(d, 'corpus_cat_bign_%s_%s.pkl' % (tier, _src_key(tier)))
    cases = None
    if os.path.exists(path):
        try:
            cases = pickle.load(open(path, 'rb'))
        except Exception:
            cases = None
    if cases is None:
        cases = _corpus(tier)
        try:
            os.makedirs(d, exist_ok=True)
            tmp = '%s.%d.tmp' % (path, os.getpid())
            with open(tmp, 'wb') as f:
                pickle.dump(cases, f, protocol=4)
            os.replace(tmp, path)
        except OSError:
            pass
    _MEM[tier] = cases
    return list(cases)

def auth_cases(tier):
    """C09 'no release on failed authentication': corrupted key tokens must not leave key octets in the output"""
    out = []
    for l in LEVELS if tier == 'thorough' else (128,):
        d = d_alphabet(l)[4][1]; k = k_alphabet(l)[0][1]
        for hdr in (None, appendix()['header']):
            key = keydata(32)
            tok = R.key_wrap_k(l, key, hdr, pub(l, d), k)
            for bi, m in flips(tok, tier == 'thorough')[::1 if tier == 'thorough' else 2]:
                out.append(('bignKeyUnwrap', c_unwrap(l, m, hdr, d), key, 'token', bi))
            if hdr:
                for bi, m in flips(hdr, False):
                    out.append(('bignKeyUnwrap', c_unwrap(l, tok, m, d), key, 'header', bi))
                # authentic token, the caller expects another header (NULL = 16 zero octets)
                out.append(('bignKeyUnwrap', c_unwrap(l, tok, None, d), key, 'header:=NULL', 0))
                out.append(('bignKeyUnwrap', c_unwrap(l, tok, bytes(16), d), key, 'header:=0', 0))
                out.append(('bignKeyUnwrap', c_unwrap(l, tok, bytes(range(1, 17)), d), key, 'header:=other', 0))
            else:
                out.append(('bignKeyUnwrap', c_unwrap(l, tok, bytes(range(1, 17)), d), key, 'header:=nonzero', 0))
                out.append(('bignKeyUnwrap', c_unwrap(l, tok, bytes(15) + b'\x80', d), key, 'header:=nonzero', 1))
    return out

def sweep_cases(tier):
    """C09 argument sweeps: out-of-domain levels / lengths / keys / identifiers / NULL pointers; '_expect' is the result bign.h documents
    for the violated rule (\\expect{ERR_...}; 'nonzero' where the header only says "an error code")"""
    out = []
    def X(fn, c, code, **kw):
        out.append((fn, dict(c, _expect=code, **kw)))
    for l in (LEVELS if tier == 'thorough' else (128, 256)):
        no = l // 4; q = q_of(l); top = (1 << (2 * l)) - 1
        d = d_alphabet(l)[4][1]; k = k_alphabet(l)[0][1]; H = h_alphabet(l)[6][1]; H0 = h_alphabet(l)[7][1]
        Q = pub(l, d); PB = params_bytes(l)
        sig = R.sign_k(l, OID_BELT, H, d, k)
        tok = R.key_wrap_k(l, keydata(32), None, Q, k)
        e = dec(sig[no // 2:]) + dec(H) % q
        e %= q
        Rb = encp(l, mulG(l, k))
        isig = R.id_sign_k(l, OID_BELT, H, H0, e, k)
        base = {'bignKeypairGen': dict(params=PB, rng=enc(l, d)), 'bignKeypairVal': dict(params=PB, privkey=enc(l, d), pubkey=Q),
                'bignPubkeyVal': dict(params=PB, pubkey=Q), 'bignPubkeyCalc': dict(params=PB, privkey=enc(l, d)),
                'bignDH': dict(params=PB, privkey=enc(l, d), pubkey=Q, key_len=no), 'bignSign': c_sign(l, OID_BELT, H, d, enc(l, k)),
                'bignSign2': c_sign2(l, OID_BELT, H, d, None), 'bignVerify': c_verify(l, OID_BELT, H, sig, Q),
                'bignKeyWrap': c_wrap(l, keydata(32), None, Q, enc(l, k)), 'bignKeyUnwrap': c_unwrap(l, tok, None, d),
                'bignIdExtract': c_idextract(l, OID_BELT, H, sig, Q), 'bignIdSign': c_idsign(l, OID_BELT, H, H0, e, enc(l, k)),
                'bignIdSign2': c_idsign2(l, OID_BELT, H, H0, e, None), 'bignIdVerify': c_idverify(l, OID_BELT, H, H0, isig, Rb, Q)}
        # level outside {128, 192, 256}, inconsistent level, unusable parameters -> ERR_BAD_PARAMS
        bad_l = [0, 1, 100, l - 1, l + 1, 512, (1 << 32) + l] + [x for x in LEVELS if x != l]
        for fn, c in base.items():
            for v in (bad_l if fn in ('bignSign', 'bignVerify', 'bignKeyUnwrap') else bad_l[:3] + bad_l[-1:]):
                X(fn, c, E['BAD_PARAMS'], params=int(v).to_bytes(8, 'little') + PB[8:])
            X(fn, c, E['BAD_PARAMS'], params=PB[:8] + bytes(len(PB) - 8))
            X(fn, c, E['BAD_INPUT'], params=None)
        for v in bad_l:
            X('bignParamsVal', dict(params=int(v).to_bytes(8, 'little') + PB[8:]), 'nonzero')
        # private keys outside [1, q-1] ([0, q-1] for the identity key) -> ERR_BAD_PRIVKEY
        for v in (0, q, q + 1, top):
            for fn in ('bignPubkeyCalc', 'bignDH', 'bignSign', 'bignSign2', 'bignKeyUnwrap'):
                X(fn, base[fn], E['BAD_PRIVKEY'], privkey=enc(l, v))
            X('bignKeypairVal', base['bignKeypairVal'], 'nonzero', privkey=enc(l, v))
            if v:
                for fn in ('bignIdSign', 'bignIdSign2'):
                    X(fn, base[fn], E['BAD_PRIVKEY'], id_privkey=enc(l, v))
        # lengths
        for n in (2 * no + 1, 2 * no + 16, 4 * no, 1000):
            X('bignDH', base['bignDH'], E['BAD_SHAREDKEY'], key_len=n)
        for n in (0, 1, 15):
            X('bignKeyWrap', base['bignKeyWrap'], E['BAD_INPUT'], key=keydata(16)[:n])
        for n in (0, 1, no, no + 16, no + 31):
            X('bignKeyUnwrap', base['bignKeyUnwrap'], E['BAD_KEYTOKEN'], token=tok[:n])
        # identifiers that are not the DER code of an OID -> ERR_BAD_OID
        o = OID_BELT
        bad_oids = [('empty', b''), ('tag only', o[:1]), ('no value', o[:2]), ('truncated', o[:-1]), ('trailing octet', o + b'\x00'), ('wrong tag', b'\x04' + o[1:]),
                    ('zero length', b'\x06\x00'), ('leading 0x80', o[:2] + b'\x80' + o[3:]), ('arc > 2^32-1', b'\x06\x06\x2a\x90\x80\x80\x80\x00'),
                    ('length beyond the buffer', b'\x06\x7f' + o[2:]), ('last sub-identifier not terminated', o[:-1] + bytes([o[-1] | 0x80]))]
        for fn in ('bignSign', 'bignSign2', 'bignVerify', 'bignIdExtract', 'bignIdSign', 'bignIdSign2', 'bignIdVerify'):
            for n, v in (bad_oids if fn in ('bignSign', 'bignVerify') else bad_oids[:1] + bad_oids[3:6]):
                X(fn, base[fn], E['BAD_OID'], oid_der=v)
        for fn in ('bignSign', 'bignSign2', 'bignVerify', 'bignIdExtract', 'bignIdSign', 'bignIdSign2', 'bignIdVerify'):
            X(fn, base[fn], E['BAD_INPUT'], oid_der=None, oid_der_len=len(o))      # NULL identifier of non-zero length: an invalid input pointer
        # public keys with a coordinate >= p -> ERR_BAD_PUBKEY where bign.h asks for a correct public key
        p = p_of(l)
        for n, Qm in (('x=p', enc(l, p) + Q[no:]), ('y=p', Q[:no] + enc(l, p)), ('max', b'\xff' * (2 * no))):
            for fn in ('bignDH', 'bignVerify', 'bignKeyWrap', 'bignIdExtract', 'bignIdVerify'):
                X(fn, base[fn], E['BAD_PUBKEY'], pubkey=Qm)
            X('bignIdVerify', base['bignIdVerify'], E['BAD_PUBKEY'], id_pubkey=Qm)
            X('bignPubkeyVal', base['bignPubkeyVal'], 'nonzero', pubkey=Qm)
        # NULL for non-optional pointers -> ERR_BAD_INPUT ("all input pointers are valid", section bign-common)
        for fn, fields in (('bignSign', ('hash', 'privkey')), ('bignSign2', ('hash', 'privkey')), ('bignVerify', ('hash', 'sig', 'pubkey')),
                           ('bignKeypairVal', ('privkey', 'pubkey')), ('bignPubkeyVal', ('pubkey',)), ('bignPubkeyCalc', ('privkey',)), ('bignDH', ('privkey', 'pubkey')),
                           ('bignKeyWrap', ('pubkey',)), ('bignKeyUnwrap', ('privkey',)), ('bignIdExtract', ('id_hash', 'sig', 'pubkey')),
                           ('bignIdSign', ('id_hash', 'hash', 'id_privkey')), ('bignIdSign2', ('id_hash', 'hash', 'id_privkey')),
                           ('bignIdVerify', ('id_hash', 'hash', 'id_sig', 'id_pubkey', 'pubkey'))):
            for f in fields:
                X(fn, base[fn], E['BAD_INPUT'], **{f: None})
        X('bignKeyWrap', base['bignKeyWrap'], E['BAD_INPUT'], key=None, key_len=32)
        X('bignKeyUnwrap', base['bignKeyUnwrap'], E['BAD_INPUT'], token=None, token_len=len(tok))
    for s_ in OID_STRINGS_BAD:
        out.append(('bign.oidToDER', dict(oid=s_)))
    return out
