"""C10 -- incremental APIs: chunking, get-then-continue and state relocation change nothing.
E2: explicit-state search on the implementation's own state bytes.  A node is (position, raw bytes of the state
blob); transitions are Step(f) for EVERY admissible fragment length f, Get/Verify, applied to a copy of the state in a
FRESH exact-size allocation (so every call runs on a relocated state, for the bundles whose header declares the state
copyable; the others are restored in place).  Because the implementation is a deterministic function of (state
bytes, fragment), once every reachable (position, bytes) node has had every transition applied, every partition of
the message into any number of fragments with Get/Verify interleaved anywhere has been covered.
Invariant on every transition: output = the one-shot high-level function on the concatenated data."""
import hashlib, collections
import vf, cat, cat_belt, cat_misc, common

PROP = 'C10'
CFG = 'rel'
CAP = 200000
KEY = cat_belt.KEYS[32]
IV = cat_belt.IV0
D = cat_belt.data

class Viol(Exception):
    pass

class Bundle:
    """subclass API: name, movable, msg(tier) data, start(L,A)->Buf, trans(pos)->[(label, arg)],
    apply(L,A,st,pos,label,arg)->newpos (None = terminal); raises Viol(message)"""
    movable = True
    def keep(self, L):
        return L.sz(self.pre + '_keep')

def one(L, fname, **case):
    r = cat_belt.run(L, cat.CAT[fname], case)
    if r['ret'] != 0:
        raise Viol('one-shot %s failed with %#x' % (fname, r['ret']))
    return r

# ------------------------------------------------------------------ belt stream / block modes
class Cipher(Bundle):
    def __init__(self, pre, step, fn, n, cts=False, blockwise=False, key=KEY):
        self.pre, self.step, self.fn, self.n, self.cts, self.blockwise, self.key = pre, step, fn, n, cts, blockwise, key
        self.name = '%s.%s[%d]' % (pre, step, len(key))
        self.M = D(n, 3)
    def start(self, L, A):
        st = A.buf(self.keep(L), 0xA5)
        args = [st, A.buf(self.key), len(self.key)] + ([] if self.pre == 'beltECB' else [A.buf(IV)])
        L.call(self.pre + 'Start', *args)
        self.cache = {}
        return st
    def oneshot(self, L, n):
        if n not in self.cache:
            c = dict(src=self.M[:n], key=self.key)
            if self.pre != 'beltECB':
                c['iv'] = IV
            self.cache[n] = one(L, self.fn, **c)['dest']
        return self.cache[n]
    def trans(self, pos):
        o = pos
        rem = self.n - o
        out = []
        for f in range(0, rem + 1):
            if self.cts:
                if f < 16 or (f % 16 and f != rem) or (f != rem and rem - f < 16):
                    continue
            elif self.blockwise:
                if f == 0 or f % 16:
                    continue
            out.append(('step', f))
        return out
    def apply(self, L, A, st, pos, label, f):
        o = pos
        b = A.buf(self.M[o:o + f]) if f else A.buf(1)
        L.call(self.pre + self.step, b, f, st)
        want = self.oneshot(L, o + f)[o:o + f]
        if b.get(f) != want:
            raise Viol('%s: fragment [%d,%d) gives %s, one-shot %s gives %s' % (self.name, o, o + f, b.get(f).hex()[:40], self.fn, want.hex()[:40]))
        if self.cts and f % 16:
            return None
        return o + f

# ------------------------------------------------------------------ tags: MAC / hash / HMAC / bash hash
class Tag(Bundle):
    def __init__(self, pre, stepname, fn, n, keyed, level=None, key=KEY):
        self.pre, self.stepname, self.fn, self.n, self.keyed, self.level, self.key = pre, stepname, fn, n, keyed, level, key
        self.name = pre + ('[l=%d]' % level if level else '') + ('[key %d]' % len(key) if keyed else '')
        self.M = D(n, 3)
        self.tl = {'beltMAC': 8, 'beltHash': 32, 'beltHMAC': 32}.get(pre, (level or 128) // 4)
        self.movable = pre != 'bashHash'
    def start(self, L, A):
        st = A.buf(self.keep(L), 0xA5)
        if self.pre == 'bashHash':
            L.call('bashHashStart', st, self.level)
        elif self.keyed:
            L.call(self.pre + 'Start', st, A.buf(self.key), len(self.key))
        else:
            L.call(self.pre + 'Start', st)
        self.cache = {}
        return st
    def oneshot(self, L, n):
        if n not in self.cache:
            c = dict(src=self.M[:n])
            if self.keyed: c['key'] = self.key
            if self.level: c['l'] = self.level
            r = one(L, self.fn, **c)
            self.cache[n] = r.get('mac') or r.get('hash')
        return self.cache[n]
    def trans(self, pos):
        o = pos
        ts = [('step', f) for f in range(0, self.n - o + 1)]
        ts += [('get', self.tl), ('get', max(1, self.tl // 2)), ('verify', 0), ('verify', 1)]
        return ts
    def apply(self, L, A, st, pos, label, arg):
        o = pos
        if label == 'step':
            L.call(self.pre + self.stepname, A.buf(self.M[o:o + arg]) if arg else A.buf(1), arg, st)
            return o + arg
        want = self.oneshot(L, o)
        if label == 'get':
            t = A.buf(arg, 0xEE)
            if self.pre == 'bashHash':
                L.call('bashHashStepG', t, arg, st)
            elif arg == self.tl:
                L.call(self.pre + 'StepG', t, st)
            else:
                L.call(self.pre + 'StepG2', t, arg, st)
            if t.get() != want[:arg]:
                raise Viol('%s: Get(%d) after %d octets gives %s, one-shot gives %s' % (self.name, arg, o, t.get().hex(), want[:arg].hex()))
            return o                     # get-then-continue: the search continues from the state AFTER the Get
        tag = bytearray(want)
        if arg:
            tag[0] ^= 0x40
        if self.pre == 'bashHash':
            r = L.boolean('bashHashStepV', A.buf(bytes(tag)), self.tl, st)
        else:
            r = L.boolean(self.pre + 'StepV', A.buf(bytes(tag)), st)
        if r != (0 if arg else 1):
            raise Viol('%s: Verify of the %s value after %d octets returned %d' % (self.name, 'altered' if arg else 'right', o, r))
        return o

# ------------------------------------------------------------------ AEAD: DWP / CHE
class Aead(Bundle):
    """protect: StepI* then (StepE;StepA)* then StepG (terminal: the header warns that continuing after G is incorrect)
       unprotect: StepI* then StepA* (whole ciphertext) then StepV then StepD*"""
    def __init__(self, pre, ni, nx, unwrap=False):
        self.pre, self.ni, self.nx, self.unwrap = pre, ni, nx, unwrap
        self.name = pre + ('.unprotect' if unwrap else '.protect')
        self.I, self.X = D(ni, 3), D(nx, 0)
    def start(self, L, A):
        st = A.buf(self.keep(L), 0xA5)
        L.call(self.pre + 'Start', st, A.buf(KEY), 32, A.buf(IV))
        self.cache = {}
        return st
    def wrap(self, L, oi, ox):
        k = (oi, ox)
        if k not in self.cache:
            self.cache[k] = one(L, self.pre + 'Wrap', src1=self.X[:ox], src2=self.I[:oi], key=KEY, iv=IV)
        return self.cache[k]
    def trans(self, pos):
        oi, ox, od = pos
        ts = []
        if not self.unwrap:
            if ox == 0:
                ts += [('I', f) for f in range(0, self.ni - oi + 1)]
            ts += [('EA', f) for f in range(0, self.nx - ox + 1)]
            ts += [('G', 0)]
        else:
            if od < 0:              # still authenticating
                if ox == 0:
                    ts += [('I', f) for f in range(0, self.ni - oi + 1)]
                ts += [('A', f) for f in range(0, self.nx - ox + 1)]
                ts += [('V', 0), ('V', 1)]
            else:
                ts += [('D', f) for f in range(0, ox - od + 1)]
        return ts
    def apply(self, L, A, st, pos, label, f):
        oi, ox, od = pos
        if label == 'I':
            L.call(self.pre + 'StepI', A.buf(self.I[oi:oi + f]) if f else A.buf(1), f, st)
            return (oi + f, ox, od)
        if label == 'EA':
            b = A.buf(self.X[ox:ox + f]) if f else A.buf(1)
            L.call(self.pre + 'StepE', b, f, st)
            L.call(self.pre + 'StepA', b, f, st)
            want = self.wrap(L, oi, ox + f)['dest'][ox:ox + f]
            if b.get(f) != want:
                raise Viol('%s: ciphertext of fragment [%d,%d) differs from %sWrap' % (self.name, ox, ox + f, self.pre))
            return (oi, ox + f, od)
        if label == 'G':
            t = A.buf(8, 0xEE)
            L.call(self.pre + 'StepG', t, st)
            want = self.wrap(L, oi, ox)['mac']
            if t.get() != want:
                raise Viol('%s: tag after |I|=%d |X|=%d is %s, %sWrap gives %s' % (self.name, oi, ox, t.get().hex(), self.pre, want.hex()))
            return None
        if label == 'A':
            y = self.wrap(L, oi, self.nx)['dest'] if False else None
            full = self.wrap(L, self.ni, self.nx)['dest']
            L.call(self.pre + 'StepA', A.buf(full[ox:ox + f]) if f else A.buf(1), f, st)
            return (oi, ox + f, od)
        if label == 'V':
            full = self.wrap(L, self.ni, self.nx)['dest']
            want = one(L, self.pre + 'Wrap', src1=self.X[:0], src2=self.I[:0], key=KEY, iv=IV) if False else None
            # tag of (I[:oi], Y[:ox]) where Y is a prefix of the full ciphertext: stream cipher => prefix of the ciphertext
            # equals the ciphertext of the prefix
            tag = bytearray(self.wrap(L, oi, ox)['mac'])
            if f:
                tag[7] ^= 1
            r = L.boolean(self.pre + 'StepV', A.buf(bytes(tag)), st)
            if r != (0 if f else 1):
                raise Viol('%s: StepV of the %s tag after |I|=%d |Y|=%d returned %d' % (self.name, 'altered' if f else 'right', oi, ox, r))
            return (oi, ox, 0) if not f else None
        if label == 'D':
            full = self.wrap(L, oi, ox)['dest']
            b = A.buf(full[od:od + f]) if f else A.buf(1)
            L.call(self.pre + 'StepD', b, f, st)
            if b.get(f) != self.X[od:od + f]:
                raise Viol('%s: decrypted fragment [%d,%d) differs from the plaintext' % (self.name, od, od + f))
            return (oi, ox, od + f)

# ------------------------------------------------------------------ generators
class BrngCTR(Bundle):
    pre = 'brngCTR'
    def __init__(self, n, iv):
        self.n, self.iv = n, iv
        self.name = 'brngCTR[iv %s..]' % iv.hex()[:8]
    def start(self, L, A):
        st = A.buf(self.keep(L), 0xA5)
        L.call('brngCTRStart', st, A.buf(KEY), A.buf(self.iv))
        r = one(L, 'brngCTRRand', buf=bytes(self.n), key=KEY, iv=self.iv)
        self.full = r['buf']
        return st
    def trans(self, pos):
        return [('step', f) for f in range(0, self.n - pos + 1)] + [('getiv', 0)]
    def apply(self, L, A, st, pos, label, f):
        if label == 'getiv':
            b = A.buf(32, 0xEE)
            L.call('brngCTRStepG', b, st)
            blocks = (pos + 31) // 32
            want = ((int.from_bytes(self.iv, 'little') + blocks) % (1 << 256)).to_bytes(32, 'little')
            if b.get() != want:
                raise Viol('%s: StepG after %d octets gives %s, expected the counter %s' % (self.name, pos, b.get().hex()[:24], want.hex()[:24]))
            return pos
        b = A.buf(f, 0x00) if f else A.buf(1)           # zero-filled: prior content is per-block additional input
        L.call('brngCTRStepR', b, f, st)
        if b.get(f) != self.full[pos:pos + f]:
            raise Viol('%s: fragment [%d,%d) differs from one-shot brngCTRRand over zero-filled memory' % (self.name, pos, pos + f))
        return pos + f

class BrngHMAC(Bundle):
    pre = 'brngHMAC'
    def __init__(self, n, ivlen, keylen=32):
        self.n, self.ivlen, self.keylen = n, ivlen, keylen
        self.name = 'brngHMAC[iv %d, key %d]' % (ivlen, keylen)
    def start(self, L, A):
        st = A.buf(self.keep(L), 0xA5)
        # brng.h: for iv_len > 64 the caller keeps iv valid and constant; for iv_len <= 64 the content is saved in the state
        ar = self.persist if self.ivlen > 64 else A
        self.ivbuf = ar.buf(D(self.ivlen, 3)) if self.ivlen else ar.buf(1)
        L.call('brngHMACStart', st, A.buf(D(self.keylen, 0)), self.keylen, self.ivbuf, self.ivlen)
        self.full = one(L, 'brngHMACRand', count=self.n, key=D(self.keylen, 0), iv=D(self.ivlen, 3))['buf']
        return st
    def trans(self, pos):
        return [('step', f) for f in range(0, self.n - pos + 1)]
    def apply(self, L, A, st, pos, label, f):
        b = A.buf(f, 0xEE) if f else A.buf(1)
        L.call('brngHMACStepR', b, f, st)
        if b.get(f) != self.full[pos:pos + f]:
            raise Viol('%s: fragment [%d,%d) differs from one-shot brngHMACRand' % (self.name, pos, pos + f))
        return pos + f

class Hotp(Bundle):
    pre = 'botpHOTP'
    def __init__(self, digit, ctr, steps):
        self.digit, self.ctr, self.steps = digit, ctr, steps
        self.name = 'botpHOTP[%d digits, ctr %s]' % (digit, ctr.hex())
    def start(self, L, A):
        import botp as RO
        st = A.buf(self.keep(L), 0xA5)
        L.call('botpHOTPStart', st, self.digit, A.buf(KEY), 32)
        L.call('botpHOTPStepS', st, A.buf(self.ctr))
        self.RO = RO
        return st
    def ctr_at(self, k):
        c = self.ctr
        for _ in range(k):
            c = self.RO.ctr_next(c)
        return c
    def trans(self, pos):
        if pos >= self.steps:
            return [('G', 0)]
        return [('R', 0), ('Vok', 0), ('Vbad', 0), ('G', 0)]
    def apply(self, L, A, st, pos, label, f):
        c = self.ctr_at(pos)
        otp = one(L, 'botp.HOTP', digit=self.digit, key=KEY, ctr=c)['otp']
        if label == 'G':
            b = A.buf(8, 0xEE); L.call('botpHOTPStepG', b, st)
            if b.get() != c:
                raise Viol('%s: counter after %d passwords is %s, expected %s' % (self.name, pos, b.get().hex(), c.hex()))
            return None if pos >= self.steps else pos
        if label == 'R':
            o = A.buf(self.digit + 1, 0xEE); L.call('botpHOTPStepR', o, st)
            got = o.get().split(b'\0')[0].decode()
            if got != otp:
                raise Viol('%s: password %d is %s, one-shot botpHOTPRand gives %s' % (self.name, pos, got, otp))
            return pos + 1
        if label == 'Vok':
            if not L.boolean('botpHOTPStepV', A.buf(otp.encode() + b'\0'), st):
                raise Viol('%s: the right password %d is rejected' % (self.name, pos))
            return pos + 1
        bad = '%0*d' % (self.digit, (int(otp) + 1) % 10 ** self.digit)
        if L.boolean('botpHOTPStepV', A.buf(bad.encode() + b'\0'), st):
            raise Viol('%s: a wrong password is accepted at %d' % (self.name, pos))
        return pos


# ------------------------------------------------------------------ belt-sde: one state, many sectors
class Sde(Bundle):
    """beltSDEStart once, then one StepE/StepD per sector (own IV, own length): every sector result must equal the
    one-shot beltSDEEncr/Decr of that sector, whatever sectors were processed before and wherever the state moved"""
    pre = 'beltSDE'
    def __init__(self, decr, depth, key=KEY):
        self.decr, self.depth, self.key = decr, depth, key
        self.name = 'beltSDE.Step%s[%d]' % ('D' if decr else 'E', len(key))
        self.sectors = [(32, IV), (48, bytes(16)), (64, b'\xff' * 16), (80, D(16, 2)), (96, IV)]
    def start(self, L, A):
        st = A.buf(self.keep(L), 0xA5)
        L.call('beltSDEStart', st, A.buf(self.key), len(self.key))
        return st
    def trans(self, pos):
        return [] if pos >= self.depth else [('sector', i) for i in range(len(self.sectors))]
    def apply(self, L, A, st, pos, label, i):
        n, iv = self.sectors[i]
        x = D(n, (pos + i) % 4)
        want = one(L, 'beltSDEDecr' if self.decr else 'beltSDEEncr', src=x, key=self.key, iv=iv)['dest']
        b = A.buf(x)
        L.call('beltSDEStepD' if self.decr else 'beltSDEStepE', b, n, A.buf(iv), st)
        if b.get() != want:
            raise Viol('%s: sector %d (count %d) processed as call %d differs from the one-shot function' % (self.name, i, n, pos + 1))
        return pos + 1

# ------------------------------------------------------------------ belt-fmt: one state, many words
class Fmt(Bundle):
    """beltFMTStart once, then StepE / StepD per word, each with its own synchro value (NULL = zero by the header's remark):
    every result must equal the one-shot beltFMTEncr/Decr of that word, whatever was processed before with whichever
    synchro value, and wherever the state moved"""
    pre = 'beltFMT'
    def __init__(self, mod, count, depth, key=KEY):
        self.mod, self.count, self.depth, self.key = mod, count, depth, key
        self.name = 'beltFMT[mod %d, count %d]' % (mod, count)
        self.menu = [(d, iv) for d in (False, True) for iv in (None, bytes(16), IV, b'\xff' * 16)]
    def keep(self, L):
        return L.sz('beltFMT_keep', self.mod, self.count)
    def start(self, L, A):
        st = A.buf(self.keep(L), 0xA5)
        L.call('beltFMTStart', st, self.mod, self.count, A.buf(self.key), len(self.key))
        return st
    def trans(self, pos):
        return [] if pos >= self.depth else [('word', i) for i in range(len(self.menu))]
    def apply(self, L, A, st, pos, label, i):
        import struct
        decr, iv = self.menu[i]
        x = [((j + pos) * 7919 + 3 * i + 1) % self.mod for j in range(self.count)]
        want = one(L, 'beltFMTDecr' if decr else 'beltFMTEncr', mod=self.mod, src=x, key=self.key, iv=iv)['dest']
        b = A.buf(struct.pack('<%dH' % self.count, *x))
        L.call('beltFMTStepD' if decr else 'beltFMTStepE', b, A.buf(iv) if iv is not None else None, st)
        got = list(struct.unpack('<%dH' % self.count, b.get()))
        if got != list(want):
            raise Viol('%s: Step%s with iv %s as call %d differs from the one-shot function' % (
                self.name, 'D' if decr else 'E', 'NULL' if iv is None else iv.hex(), pos + 1))
        return pos + 1

# ------------------------------------------------------------------ belt-keyrep: one state, many derived keys
class Krp(Bundle):
    pre = 'beltKRP'
    def __init__(self, n, depth):
        self.n, self.depth = n, depth
        self.key = cat_belt.KEYS[n]
        self.level = bytes(range(1, 13))
        self.name = 'beltKRP[%d]' % n
        self.menu = [(m, h) for m in (16, 24, 32) if m <= n for h in (bytes(16), bytes(range(16)))]
    def start(self, L, A):
        st = A.buf(self.keep(L), 0xA5)
        L.call('beltKRPStart', st, A.buf(self.key), self.n, A.buf(self.level))
        return st
    def trans(self, pos):
        return [] if pos >= self.depth else [('G', i) for i in range(len(self.menu))]
    def apply(self, L, A, st, pos, label, i):
        m, hdr = self.menu[i]
        want = one(L, 'beltKRP', m=m, src=self.key, level=self.level, header=hdr)['dest']
        o = A.buf(m, 0xEE)
        L.call('beltKRPStepG', o, m, A.buf(hdr), st)
        if o.get() != want:
            raise Viol('%s: StepG(key_len %d) as call %d differs from the one-shot beltKRP' % (self.name, m, pos + 1))
        return pos + 1

# ------------------------------------------------------------------ botp TOTP: stateless in time, state relocatable
class Totp(Bundle):
    pre = 'botpTOTP'
    def __init__(self, digit, depth):
        self.digit, self.depth = digit, depth
        self.name = 'botpTOTP[%d digits]' % digit
        self.times = [0, 1, 59, 2 ** 32 - 1, 2 ** 32, 1700000000]
    def start(self, L, A):
        st = A.buf(self.keep(L), 0xA5)
        L.call('botpTOTPStart', st, self.digit, A.buf(KEY), 32)
        return st
    def trans(self, pos):
        return [] if pos >= self.depth else [(k, i) for i in range(len(self.times)) for k in ('R', 'Vok', 'Vbad')]
    def apply(self, L, A, st, pos, label, i):
        t = self.times[i]
        otp = one(L, 'botp.TOTP', digit=self.digit, key=KEY, t=t)['otp']
        if label == 'R':
            o = A.buf(self.digit + 1, 0xEE); L.call('botpTOTPStepR', o, t, st)
            got = o.get().split(b'\0')[0].decode()
            if got != otp:
                raise Viol('%s: StepR(t=%d) gives %s, one-shot botpTOTPRand gives %s' % (self.name, t, got, otp))
        elif label == 'Vok':
            if not L.boolean('botpTOTPStepV', A.buf(otp.encode() + b'\0'), t, st):
                raise Viol('%s: the right password for t=%d is rejected' % (self.name, t))
        else:
            bad = '%0*d' % (self.digit, (int(otp) + 1) % 10 ** self.digit)
            if L.boolean('botpTOTPStepV', A.buf(bad.encode() + b'\0'), t, st):
                raise Viol('%s: a wrong password is accepted for t=%d' % (self.name, t))
        return pos + 1


# ------------------------------------------------------------------ botp OCRA: one state, many requests of different lengths
class Ocra(Bundle):
    """botpOCRAStart + StepS once, then StepR / StepV with requests of DIFFERENT lengths in every order: each password must
    equal the one-shot botpOCRARand for the current counter (the counter advances on StepR and on a successful StepV)"""
    pre = 'botpOCRA'
    def __init__(self, suite, depth, with_ctr):
        self.suite, self.depth, self.with_ctr = suite, depth, with_ctr
        self.name = 'botpOCRA[%s]' % suite
        import botp as RO
        self.RO = RO
        f = RO.ocra_parse(suite)
        self.digit = f['digit']; qm = f['q_max']
        self.qs = [D(4, 1), D(qm, 2), D(qm + 1, 3), D(2 * qm, 0), D(5, 3)]       # shortest, one full, composite, longest, short again
        self.p = D(f['p_len'], 2) if f.get('p_len') else None
        self.s = D(f['s_len'], 1) if f.get('s_len') else None
        self.t = 1000003 if f.get('ts') else 0
        self.ctr0 = b'\xff' * 7 + b'\xfe' if with_ctr else None
    def start(self, L, A):
        st = A.buf(self.keep(L), 0xA5)
        if not L.boolean('botpOCRAStart', st, A.buf(self.suite.encode() + b'\0'), A.buf(KEY), 32):
            raise Viol('%s: botpOCRAStart refused the suite' % self.name)
        L.call('botpOCRAStepS', st, A.buf(self.ctr0) if self.ctr0 else None, A.buf(self.p) if self.p else None, A.buf(self.s) if self.s else None)
        return st
    def ctr_at(self, k):
        c = self.ctr0
        for _ in range(k if c else 0):
            c = self.RO.ctr_next(c)
        return c
    def trans(self, pos):
        # pos = number of counter advances so far; the search is bounded by the number of calls through the path length
        return [(k, i) for i in range(len(self.qs)) for k in ('R', 'Vok', 'Vbad')]
    def apply(self, L, A, st, pos, label, i):
        r = self.apply0(L, A, st, pos, label, i)
        if r is not None and self.ctr0:
            # the counter read back from the state is the one the next password will use
            g = A.buf(8, 0xEE); L.call('botpOCRAStepG', g, st)
            if g.get() != self.ctr_at(r[0]):
                raise Viol('%s: call %d (%s), botpOCRAStepG returns counter %s, expected %s' % (self.name, r[1], label, g.get().hex(), self.ctr_at(r[0]).hex()))
        return r
    def apply0(self, L, A, st, pos, label, i):
        adv, calls = pos
        if calls >= self.depth:
            return None
        q = self.qs[i]
        otp = one(L, 'botp.OCRA', suite=self.suite, key=KEY, q=q, ctr=self.ctr_at(adv), p=self.p, s=self.s, t=self.t)['otp']
        if label == 'R':
            o = A.buf(self.digit + 1, 0xEE); L.call('botpOCRAStepR', o, A.buf(q), len(q), self.t, st)
            got = o.get().split(b'\0')[0].decode()
            if got != otp:
                raise Viol('%s: call %d, StepR(|q| = %d) gives %s, one-shot botpOCRARand gives %s' % (self.name, calls + 1, len(q), got, otp))
            return (adv + 1, calls + 1)
        if label == 'Vok':
            if not L.boolean('botpOCRAStepV', A.buf(otp.encode() + b'\0'), A.buf(q), len(q), self.t, st):
                raise Viol('%s: call %d, the right password for |q| = %d is rejected' % (self.name, calls + 1, len(q)))
            return (adv + 1, calls + 1)
        bad = '%0*d' % (self.digit, (int(otp) + 1) % 10 ** self.digit)
        if L.boolean('botpOCRAStepV', A.buf(bad.encode() + b'\0'), A.buf(q), len(q), self.t, st):
            raise Viol('%s: call %d, a wrong password is accepted for |q| = %d' % (self.name, calls + 1, len(q)))
        return (adv, calls + 1)

# ------------------------------------------------------------------ bash automaton steps
class PrgCmd(Bundle):
    """one command of the bash automaton fed in fragments: <Cmd>Start + <Cmd>Step(f)* must equal the whole command;
    checked through the outputs and through a Squeeze(32) taken afterwards (relocation is not documented for bash: in place)"""
    pre = 'bashPrg'
    movable = False
    def __init__(self, cmd, l, d, n):
        self.cmd, self.l, self.d, self.n = cmd, l, d, n
        self.name = 'bashPrg%s[l=%d,d=%d]' % (cmd, l, d)
        self.M = D(n, 3)
    def keep(self, L):
        return L.sz('bashPrg_keep')
    def start(self, L, A):
        key = D(self.l // 8, 0)
        st = A.buf(self.keep(L), 0xA5)
        L.call('bashPrgStart', st, self.l, self.d, A.buf(D(4, 2)), 4, A.buf(key), len(key))
        # whole-command results for every prefix length
        self.whole = {}
        base = st.get()
        for n in range(self.n + 1):
            s2 = A.buf(base)
            b = A.buf(self.M[:n]) if n else A.buf(1)
            L.call('bashPrg' + self.cmd, b, n, s2)
            sq = A.buf(32); L.call('bashPrgSqueeze', sq, 32, s2)
            self.whole[n] = (b.get(n), sq.get())
        L.call('bashPrg%sStart' % self.cmd, st)
        return st
    def trans(self, pos):
        return [('step', f) for f in range(0, self.n - pos + 1)] + [('probe', 0)]
    def apply(self, L, A, st, pos, label, f):
        if label == 'probe':
            sq = A.buf(32); L.call('bashPrgSqueeze', sq, 32, st)
            if sq.get() != self.whole[pos][1]:
                raise Viol('%s: state after fragments totalling %d octets differs from the whole command (Squeeze differs)' % (self.name, pos))
            return None
        b = A.buf(self.M[pos:pos + f]) if f else A.buf(1)
        L.call('bashPrg%sStep' % self.cmd, b, f, st)
        if self.cmd != 'Absorb':
            want = self.whole[pos + f][0][pos:pos + f]
            if self.cmd == 'Squeeze':
                pass
            if b.get(f) != want:
                raise Viol('%s: fragment [%d,%d) output differs from the whole command' % (self.name, pos, pos + f))
        return pos + f

def bundles(tier):
    q = tier == 'quick'
    n16 = 33 if q else 65
    n32 = 65 if q else 129
    bs = []
    for key in ((KEY,) if q else (KEY, cat_belt.KEYS[16], cat_belt.KEYS[24])):
        bs += [Cipher('beltECB', 'StepE', 'beltECBEncr', n16 + 16, cts=True, key=key), Cipher('beltECB', 'StepD', 'beltECBDecr', n16 + 16, cts=True, key=key),
               Cipher('beltCBC', 'StepE', 'beltCBCEncr', n16 + 16, cts=True, key=key), Cipher('beltCBC', 'StepD', 'beltCBCDecr', n16 + 16, cts=True, key=key),
               Cipher('beltCFB', 'StepE', 'beltCFBEncr', n16, key=key), Cipher('beltCFB', 'StepD', 'beltCFBDecr', n16, key=key),
               Cipher('beltCTR', 'StepE', 'beltCTR', n16, key=key),
               Cipher('beltBDE', 'StepE', 'beltBDEEncr', 64 if q else 96, blockwise=True, key=key), Cipher('beltBDE', 'StepD', 'beltBDEDecr', 64 if q else 96, blockwise=True, key=key),
               Tag('beltMAC', 'StepA', 'beltMAC', n16, True, key=key)]
    bs += [Tag('beltHash', 'StepH', 'beltHash', n32, False), Tag('beltHMAC', 'StepA', 'beltHMAC', n32, True, key=D(40, 0)),
           Tag('beltHMAC', 'StepA', 'beltHMAC', 40 if q else 70, True, key=D(70, 0))]
    for l in ((128,) if q else (32, 128, 192, 256)):
        r = cat_misc.rate(l)
        bs.append(Tag('bashHash', 'StepH', 'bashHash', 2 * r + 1, False, level=l))
    for pre in ('beltDWP', 'beltCHE'):
        bs += [Aead(pre, 17 if q else 33, 18 if q else 34), Aead(pre, 9 if q else 17, 17 if q else 33, unwrap=True)]
    bs += [BrngCTR(70 if q else 97, bytes(32)), BrngCTR(70 if q else 97, b'\xff' * 32), BrngHMAC(70 if q else 97, 16), BrngHMAC(66, 64), BrngHMAC(66, 65), BrngHMAC(40, 0)]
    bs += [Hotp(6, b'\xff' * 7 + b'\xfe', 3), Hotp(8, bytes(8), 2 if q else 3)]
    bs += [Ocra('OCRA-1:HOTP-HBELT-8:C-QN08-PHBELT', 2 if q else 3, True), Ocra('OCRA-1:HOTP-HBELT-6:QA10-T1M', 2 if q else 3, False),
           Ocra('OCRA-1:HOTP-HBELT-9:QH64-S064', 2, False)]
    bs += [Fmt(10, 9, 2 if q else 3), Fmt(65536, 2, 2), Fmt(257, 21, 2)] + ([] if q else [Fmt(2, 40, 2), Fmt(49667, 320, 2)])
    bs += [Sde(False, 2 if q else 3), Sde(True, 2 if q else 3), Krp(32, 2 if q else 3), Krp(24, 2), Krp(16, 2), Totp(6, 2), Totp(8, 1 if q else 2)]
    for cmd in ('Absorb', 'Squeeze', 'Encr', 'Decr'):
        for (l, d) in (((128, 1),) if q else ((128, 1), (192, 2), (256, 1))):
            rr = 192 - l * (2 + d) // 16
            bs.append(PrgCmd(cmd, l, d, 2 * rr + 1))       # two full blocks + 1: a fragment may END exactly on the second block boundary
    return bs

_bundles = None
class _StartArena:
    """arena handed to Bundle.start: the state blob (first allocation of exactly keep octets) persists, everything else is transient"""
    def __init__(self, L, transient, persist, keep):
        self.lib, self.t, self.p, self.keep, self.done = L, transient, persist, keep, False
        self.mine = []
    def buf(self, n_or_data, fill=None):
        if isinstance(n_or_data, int) and n_or_data == self.keep and not self.done:
            self.done = True
            return self.p.buf(n_or_data, fill)
        b = self.t.buf(n_or_data, fill); self.mine.append(b)
        return b
    def poison(self):
        """overwrite every transient buffer (the build is not sanitised: a stale pointer must read garbage, not the old content)"""
        for b in self.mine:
            if b.addr and b.n:
                b.set(b'\xDD' * b.n)
    def words(self, value, nwords):
        return self.t.words(value, nwords)

def search(idx_tier):
    """BFS over (position, state bytes) of one bundle; returns (states, transitions, violation or None, capped)"""
    idx, tier = idx_tier
    global _bundles
    if _bundles is None:
        _bundles = bundles(tier)
    b = _bundles[idx]
    L = common.lib(CFG)
    persist = vf.Arena(L)
    b.persist = persist
    try:
        with vf.Arena(L) as A:
            # the start location stays allocated (and poisoned) for the whole search; every OTHER buffer handed to Start (key, iv,
            # suite, ...) is released as soon as Start returns, unless the header obliges the caller to keep it (the bundle then
            # allocates it from self.persist itself): a state that keeps a pointer to a caller buffer it should have copied is a
            # use-after-free at the first Step
            sa = _StartArena(L, A, persist, b.keep(L))
            st0 = b.start(L, sa)
            sa.poison()
            init = (0, 0, -1) if isinstance(b, Aead) else ((0, 0) if isinstance(b, Ocra) else 0)
            if isinstance(b, Aead) and not b.unwrap:
                init = (0, 0, 0)
            root = (init, st0.get())
            if b.movable:
                st0.set(b'\xDD' * st0.n)
        prev = None                                # location vacated by the previous transition: kept allocated, poisoned
        seen = {(root[0], hashlib.sha256(root[1]).digest()[:10]): None}
        q = collections.deque([(root[0], root[1], [])])
        ntr = 0
        inplace = None if b.movable else persist.buf(len(root[1]))
        while q:
            pos, sb, path = q.popleft()
            for label, arg in b.trans(pos):
                ntr += 1
                with vf.Arena(L) as A:
                    if b.movable:
                        st = vf.Buf(L, sb)        # relocated copy at an address distinct from the last two locations
                    else:
                        inplace.set(sb); st = inplace
                    try:
                        np = b.apply(L, A, st, pos, label, arg)
                    except Viol as e:
                        return len(seen), ntr, (path + [[label, arg]], str(e)), False
                    except BaseException:
                        raise
                    nb = st.get()
                    if b.movable:
                        st.set(b'\xDD' * st.n)   # poison the location the state is leaving: a state that points into itself fails next step
                        if prev is not None:
                            prev.free()
                        prev = st
                if np is None:
                    continue
                k = (np, hashlib.sha256(nb).digest()[:10])
                if k not in seen:
                    if len(seen) >= CAP:
                        return len(seen), ntr, None, True
                    seen[k] = None
                    q.append((np, nb, path + [[label, arg]]))
        return len(seen), ntr, None, False
    finally:
        persist.__exit__()

def run(tier):
    chk = vf.Check(PROP, tier, deadline_s=900 if tier == 'quick' else 3600)
    bs = bundles(tier)
    res = vf.pmap(search, [(i, tier) for i in range(len(bs))], case_timeout=1800)
    for i, (b, r) in enumerate(zip(bs, res)):
        key = 'bundle:' + b.name
        rec = {'cfg': CFG, 'kind': 'bundle', 'index': i, 'tier': tier, 'name': b.name}
        if isinstance(r, dict):
            chk.violation(key, rec, '%s: %s' % (b.name, (r.get('harness_error') or str(r))[-600:])); continue
        ns, nt, viol, capped = r
        chk.part(b.name, states=ns, transitions=nt, traces_validated_against_impl=nt, relocated=b.movable)
        chk.outcome(b.name)
        if capped:
            chk.cap('%s: state cap %d reached' % (b.name, CAP))
        if viol:
            chk.violation(key, rec, '%s  [path %s]' % (viol[1], viol[0]))
    chk.sample({'bundle': 'beltCBC.StepE', 'node': '(octets consumed, sha256(state bytes))', 'transitions': 'StepE(f) for every admissible f, on a relocated copy of the state'})
    chk.sample({'bundle': 'beltMAC', 'transitions': ['StepA(f) for every f in 0..remaining', 'StepG / StepG2 (continue from the state after Get)', 'StepV right / altered']})
    chk.assumptions += ['splits restricted to those each header permits (ECB/CBC: full blocks, ragged tail only last and >= 16; BDE whole blocks; DWP/CHE: I before A, no continuation after StepG)',
                        'brng CTR driven with zero-filled output buffers (prior content is per-block additional input by definition)',
                        'relocation at every step for the bundles whose header says the state is copyable (belt, brng, botp); bash states are restored in place',
                        'oracle is relational: the one-shot high-level function of the same build (tied to the standard by C01/C03)']
    return chk.finish('C10', 'per bundle: BFS over (position, state bytes); node dedup by hash; all admissible fragment lengths, Get/Verify at every position; '
                      'states = distinct (position, state bytes) nodes, transitions = Step/Get/Verify calls on the real code')

def replay(rec):
    global _bundles
    _bundles = None
    r = search((rec['index'], rec['tier']))
    if isinstance(r, tuple) and r[2]:
        return '%s [path %s]' % (r[2][1], r[2][0])
    return None
