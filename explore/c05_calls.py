"""C05, executor of catalogue cells: one cell = (configuration, function, edition, operand lengths, aliasing mode);
the cell builds its exact-size buffers once and loops over every input tuple of the declared pattern cross product."""
import ctypes, itertools
import vf, common
import arith_catalogue as AC
from arith_catalogue import V, ev

CAT = AC.load()
# configurations the catalogue is executed in (C05: rel + w32; C07 / C19 re-run it in their own configurations)
CFGS = ['rel', 'w32']
def wbits(cfg):
    return 32 if ('32' in cfg and cfg != 'bash32') else 64
AGUARD = 256           # octets behind every operand buffer (harness-owned, must stay untouched)
GUARD = 768            # octets behind the exactly-deep scratch area, owned by the harness, must stay untouched
POISON = 0xEE
LIMIT = {'quick': (45000, 8000), 'thorough': (120000, 20000)}     # complete cross product up to this many tuples (all lengths <= 2 / above)

# ------------------------------------------------------------------------------------------ input tuples
def alias_groups(mode):
    return [g.split('=') for g in mode.split(',')] if mode else []

def gen_inputs(ent, sh, W, alias, tier):
    """deterministic list of input dicts (documented domain only)"""
    B = 1 << W
    names = list(ent.dom)
    base = V(sh); base['W'] = W; base['B'] = B
    inner = [k for k in names if not getattr(ent.dom[k], 'outer', False)]
    small = all(ev(a.length, sh, W) <= 2 for a in ent.args if a.kind in ('in', 'io'))
    limit = LIMIT[tier][0 if small else 1] // getattr(ent, 'weight', 1)
    def walk(fullset):
        out = []
        def rec(i, v):
            if len(out) > limit:
                return
            if i == len(names):
                out.append(v); return
            k = names[i]
            full, core = ent.dom[k](v, sh, W, k)
            for x in (full if (k in fullset or k not in inner) else core):
                v2 = V(v); v2[k] = x
                rec(i + 1, v2)
        rec(0, base)
        return out
    res = walk(set(inner))
    strategy = 'full'
    if len(res) > limit:
        res = []
        strategy = 'pairs'
        for pr in (itertools.combinations(inner, 2) if len(inner) > 2 else []):
            res += walk(set(pr))
            if len(res) > limit:
                break
        if not res or len(res) > limit:
            strategy = 'focus'
            res = []
            for k in inner:
                res += walk({k})
    groups = alias_groups(alias)
    kinds = {a.name: a.kind for a in ent.args}
    out = []; seen = set()
    for v in res:
        if 'pw' in v:
            v['pos'] = v['pw'] >> 8; v['width'] = v['pw'] & 255
        for g in groups:
            src = [x for x in g if kinds.get(x) in ('in', 'io')]
            for x in src[1:]:
                v[x] = v[src[0]]
        if ent.pre and not ent.pre(v):
            continue
        key = tuple(v[k] for k in names)
        if key in seen:
            continue
        seen.add(key); out.append(v)
    return out, strategy

def alias_ok(ent, sh, W, alias):
    for g in alias_groups(alias):
        lens = set()
        for a in ent.args:
            if a.name in g:
                lens.add(ev(a.length, sh, W))
        if len(lens) != 1:
            return False
    return True

# ------------------------------------------------------------------------------------------ one cell
class Cell:
    """buffers of one (function, edition, shape, alias) cell"""
    def __init__(self, L, ent, ed, sh, alias):
        self.L, self.ent, self.sh = L, ent, sh
        self.W = W = 8 * L.wbytes
        self.A = vf.Arena(L)
        # under a sanitizer build the buffers are exact-size allocations with NO harness guard: the redzone sees over-reads too
        san = L.cfg in vf.SAN_CFGS
        self.AG = 0 if san else AGUARD
        self.G = 0 if san else GUARD
        f = getattr(L.dll, ent.name + ed)
        f.restype = ctypes.c_uint64
        f.argtypes = [ctypes.c_uint64] * len(ent.args)
        self.f = f
        self.bufs = {}          # arg name -> (Buf, nbytes)
        self.guarded = []
        rep = {}
        for g in alias_groups(alias):
            for x in g:
                rep[x] = g[0]
        self.rep = rep
        for a in ent.args:
            if a.kind in ('in', 'io', 'out'):
                nb = ev(a.length, sh, W) * L.wbytes
                r = rep.get(a.name, a.name)
                if r not in self.bufs:
                    self.bufs[r] = (self.A.buf(nb + self.AG, 0xA5), nb)
                    self.guarded.append((r, self.bufs[r][0].addr + nb))
                self.bufs[a.name] = self.bufs[r]
        self.stack = None; self.deep = 0
        self.argv = []
        for a in ent.args:
            if a.kind in ('in', 'io', 'out'):
                self.argv.append(self.bufs[a.name][0].addr)
            elif a.kind == 'len':
                self.argv.append(sh[a.name])
            elif a.kind == 'st':
                vals = [sh[x] for x in a.length.split(',')]
                b = self.A.buf(b''.join(int(x).to_bytes(8, 'little') for x in vals))
                self.argv.append(b.addr)
            elif a.kind == 'stack':
                name, rest = a.length.split('(', 1)
                args = [ev(x, sh, W) for x in rest[:-1].split(',') if x.strip()]
                self.deep = L.sz(name, *args)
                self.stack = self.A.buf(self.deep + self.G, 0xA5)
                self.argv.append(self.stack.addr)
            else:
                self.argv.append(None)      # scalar, filled per call
        self.scal = [(i, a.name) for i, a in enumerate(ent.args) if a.kind in ('w', 'sz')]
        self.ins = [(a.name, a.kind) for a in ent.args if a.kind in ('in', 'io')]
        self.outs = [a.name for a in ent.args if a.kind in ('out', 'io')]
        self.consts = [a.name for a in ent.args if a.kind == 'in' and all(self.bufs[a.name][0] is not self.bufs[o][0] for o in self.outs)]
        self.pure_out = [a.name for a in ent.args if a.kind == 'out' and all(self.bufs[a.name][0] is not self.bufs[i][0] for i, _ in self.ins)]
        self.guard = b'\xA5' * self.G
        self.aguard = b'\xA5' * self.AG

    def close(self):
        self.A.__exit__()

    def run(self, v):
        """execute on inputs v; -> (list of (class, message)) """
        ent, W = self.ent, self.W
        mv = ctypes.memmove; sat = ctypes.string_at
        for name in self.pure_out:
            b, nb = self.bufs[name]
            if nb:
                ctypes.memset(b.addr, POISON, nb)
        for name, kind in self.ins:
            b, nb = self.bufs[name]
            if nb:
                mv(b.addr, v[name].to_bytes(nb, 'little'), nb)
        argv = self.argv
        for i, name in self.scal:
            argv[i] = v[name]
        raw = self.f(*argv)
        bad = []
        got = {}
        for name in self.outs:
            b, nb = self.bufs[name]
            got[name] = int.from_bytes(sat(b.addr, nb), 'little') if nb else 0
        if ent.ret == 'word':
            got['ret'] = raw & ((1 << W) - 1)
        elif ent.ret == 'bool':
            got['ret'] = 1 if raw & 0xFFFFFFFF else 0
        elif ent.ret == 'int':
            r = raw & 0xFFFFFFFF; got['ret'] = r - (1 << 32) if r >> 31 else r
        elif ent.ret == 'size':
            got['ret'] = raw
        if self.stack is not None and self.G and sat(self.stack.addr + self.deep, self.G) != self.guard:
            g = sat(self.stack.addr + self.deep, self.G)
            k = self.G
            while k and g[k - 1] == 0xA5:
                k -= 1
            bad.append(('stack-overrun', 'wrote at least %d octets beyond the %d octets of its documented scratch depth' % (k, self.deep)))
            ctypes.memset(self.stack.addr + self.deep, 0xA5, self.G)
        for name, ga in (self.guarded if self.AG else []):
            if sat(ga, self.AG) != self.aguard:
                bad.append(('buffer-overrun', 'wrote beyond the documented length (%d octets) of buffer %s' % (self.bufs[name][1], name)))
                ctypes.memset(ga, 0xA5, self.AG)
        for name in self.consts:
            b, nb = self.bufs[name]
            if nb and int.from_bytes(sat(b.addr, nb), 'little') != v[name]:
                bad.append(('const-modified', 'input %s was modified' % name))
        if ent.check:
            msg = ent.check(v, got)
            if msg:
                bad.append(('relation', msg))
        else:
            want = ent.f(v)
            for k, w in want.items():
                if w is None:
                    continue
                g = got[k]
                if isinstance(w, tuple):                      # ('lo', nwords, value): only the low words are specified
                    g &= (1 << (w[1] * W)) - 1; w = w[2]
                if isinstance(w, bool):
                    w = int(w)
                if g != w:
                    bad.append(('value' if k != 'ret' else 'return', '%s = %x, formula %x' % (k, g, w)))
        return bad, got

def enc_inputs(ent, v):
    return {k: '%x' % v[k] for k in ent.dom}

def describe(ent, ed, sh, alias, v):
    return '%s%s(%s)%s  %s' % (ent.name, ed, ', '.join('%s=%d' % kv for kv in sh.items()), ' alias ' + alias if alias else '',
                               ' '.join('%s=%x' % (k, v[k]) for k in list(ent.dom) + (['pos', 'width'] if 'pw' in ent.dom else []) if k != 'pw'))

def cls_of(ent, v, c):
    f = getattr(ent, 'cls', None)
    extra = f(v) if f else None
    return c + ('/' + extra if extra else '')

def run_cell(case):
    """case: dict(cfg, fn, ed, sh, alias, tier, subset=None | [indices], only_risky=False)"""
    L = common.lib(case['cfg'])
    ent = CAT[case['fn']]
    W = 8 * L.wbytes
    sh, alias, ed = case['sh'], case['alias'], case['ed']
    tuples, strategy = gen_inputs(ent, sh, W, alias, case['tier'])
    idx = case.get('subset')
    sel = range(len(tuples)) if idx is None else idx
    cell = Cell(L, ent, ed, sh, alias)
    n = 0; bad = []; risky = []
    try:
        for i in sel:
            v = tuples[i]
            if ent.risky and ent.risky(v) and not case.get('run_risky'):
                risky.append(i); continue
            n += 1
            b, got = cell.run(v)
            for c, msg in b:
                k = cls_of(ent, v, c)
                # at most 3 reports per distinct class (a frequent class must not hide a rarer one of the same cell)
                if sum(1 for x in bad if x[0] == k) < 3 and len(bad) < 24:
                    bad.append((k, i, enc_inputs(ent, v), describe(ent, ed, sh, alias, v) + ': ' + msg))
    finally:
        cell.close()
    return {'n': n, 'total': len(tuples), 'bad': bad, 'risky': risky, 'strategy': strategy}

def replay_call(rec):
    L = common.lib(rec['cfg'])
    ent = CAT[rec['fn']]
    W = 8 * L.wbytes
    v = V(rec['sh']); v['W'] = W; v['B'] = 1 << W
    for k, x in rec['in'].items():
        v[k] = int(x, 16)
    if 'pw' in v:
        v['pos'] = v['pw'] >> 8; v['width'] = v['pw'] & 255
    cell = Cell(L, ent, rec['ed'], rec['sh'], rec['alias'])
    try:
        bad, got = cell.run(v)
    finally:
        cell.close()
    if bad:
        return describe(ent, rec['ed'], rec['sh'], rec['alias'], v) + ': ' + '; '.join(m for _, m in bad)
    return None
