"""C01 -- belt = STB 34.101.31: E1 shape explorer, oracle = ref/belt.py (spec-level, vector-gated) + inverse
relations + unwrap mutation classes + the complete FMT block-count domain."""
import os, sys, time, ctypes
import vf, cat, cat_belt
import belt as R

PROP = 'C01'
CFG = 'rel'
_lib = None
def lib():
    global _lib
    if _lib is None:
        _lib = vf.Lib(CFG)
    return _lib

INVERSE = {'beltECBEncr': 'beltECBDecr', 'beltCBCEncr': 'beltCBCDecr', 'beltCFBEncr': 'beltCFBDecr', 'beltCTR': 'beltCTR',
           'beltBDEEncr': 'beltBDEDecr', 'beltSDEEncr': 'beltSDEDecr', 'belt.wblE': 'belt.wblD', 'belt.blockEncr': 'belt.blockDecr',
           'beltFMTEncr': 'beltFMTDecr'}

def check_case(item):
    """returns (key, msg) or None; key identifies op + shape"""
    fname, case = item
    fn = cat.CAT[fname]
    L = lib()
    res = cat_belt.run(L, fn, case)
    exp = fn.ref(case) if fn.ref else None
    msg = cat.compare(res, exp)
    if msg is None and fname in INVERSE and res['ret'] == 0:
        inv = cat.CAT[INVERSE[fname]]
        c2 = dict(case)
        if 'src' in case and not isinstance(case['src'], list):
            c2['src'] = res['dest']; back = 'dest'; orig = case['src']
        elif 'src' in case:
            c2['src'] = res['dest']; back = 'dest'; orig = case['src']
        elif 'buf' in case:
            c2['buf'] = res['buf']; back = 'buf'; orig = case['buf']
        else:
            c2['block'] = res['block']; back = 'block'; orig = case['block']
        r2 = cat_belt.run(L, inv, c2)
        if r2['ret'] != 0 or r2[back] != orig:
            msg = 'decrypt(encrypt(x)) != x'
    if msg:
        return (fname + ':' + cat.short(case), msg, res.get('ret'))
    return (None, None, res.get('ret'))

def unwrap_mutants(tier):
    """authenticated unwrapping: the produced triple is accepted, every single-bit alteration is rejected"""
    out = []
    key = cat_belt.KEYS[32]; iv = cat_belt.IV0
    for pre, w in (('beltDWP', R.dwp_wrap), ('beltCHE', R.che_wrap)):
        for (n1, n2) in ((0, 0), (1, 0), (0, 1), (16, 5), (17, 33)) if tier == 'quick' else ((0, 0), (1, 0), (0, 1), (16, 5), (17, 33), (32, 32), (47, 1)):
            x, i = cat_belt.data(n1), cat_belt.data(n2, 3)
            y, t = w(key, iv, x, i)
            base = dict(src1=y, src2=i, mac=t, key=key, iv=iv)
            for field in ('src1', 'src2', 'mac', 'key', 'iv'):
                v = base[field]
                bits = range(8 * len(v)) if (n1 + n2 <= 2 or tier == 'thorough') else [8 * j + (j % 8) for j in range(len(v))]
                for b in bits:
                    m = bytearray(v); m[b // 8] ^= 1 << (b % 8)
                    c = dict(base); c[field] = bytes(m)
                    out.append((pre + 'Unwrap', c, field, b))
    for n in (16, 17, 32) if tier == 'quick' else (16, 17, 31, 32, 48):
        for hdr in (None, bytes(range(16))):
            y = R.kwp_wrap(key, cat_belt.data(n), hdr)
            base = dict(src=y, header=hdr if hdr is not None else bytes(16), key=key)
            for field in ('src', 'header', 'key'):
                v = base[field]
                for b in (range(8 * len(v)) if n == 16 or tier == 'thorough' else [8 * j + (j % 8) for j in range(len(v))]):
                    m = bytearray(v); m[b // 8] ^= 1 << (b % 8)
                    c = dict(base); c[field] = bytes(m)
                    out.append(('beltKWPUnwrap', c, field, b))
    return out

def check_mutant(item):
    fname, case, field, bit = item
    res = cat_belt.run(lib(), cat.CAT[fname], case)
    if res['ret'] == 0:
        return ('%s:mutant:%s' % (fname, field), 'altered %s (bit %d) accepted by %s  [%s]' % (field, bit, fname, cat.short(case)), 0)
    return (None, None, res['ret'])

def fmt_table(chk, tier):
    """complete domain of the FMT block count, observed through beltFMT_keep(mod, 2*count):
    keep is an increasing function of the block count for fixed parity; calibrated by the reference itself
    on b = 1, 2 and b >= 3 (the state layout differs per class, so compare classes, then exact b via keep deltas)"""
    L = lib()
    # calibrate keep -> b using counts whose b is unambiguous: mod = 65536 -> b = ceil(16*count/64)
    keep_of_b = {}
    for cnt in range(1, 301):
        b = R.fmt_calc_b(65536, cnt)
        k = L.sz('beltFMT_keep', 65536, 2 * cnt)
        if b in keep_of_b and keep_of_b[b] != k:
            chk.violation('fmt:calibration', {'cfg': CFG, 'kind': 'fmtkeep', 'mod': 65536, 'count': 2 * cnt}, 'beltFMT_keep is not a function of the block count')
        keep_of_b[b] = k
    b_of_keep = {}
    for b, k in keep_of_b.items():
        if k in b_of_keep and b_of_keep[k] != b and min(b, b_of_keep[k]) >= 3:
            chk.observe('beltFMT_keep does not separate b=%d and b=%d' % (b, b_of_keep[k]))
        b_of_keep.setdefault(k, b)
    if tier == 'thorough':
        mods = range(2, 65537); counts = list(range(1, 301))
    else:
        mods = range(2, 65537); counts = [1, 2, 3, 150, 160, 299, 300]
    pairs = []
    if tier == 'quick':
        full_mods = [2, 3, 10, 255, 256, 257, 4095, 4096, 49667, 65535, 65536]
        pairs = [(m, c) for m in full_mods for c in range(1, 301)]
    n = 0; bad = 0
    keepf = L.fn('beltFMT_keep')
    def one(mod, cnt):
        nonlocal n, bad
        n += 1
        b = R.fmt_calc_b(mod, cnt)
        k = keepf(ctypes.c_uint64(mod), ctypes.c_uint64(2 * cnt))
        got = b_of_keep.get(k)
        if got != b and not (b in keep_of_b and keep_of_b[b] == k):
            bad += 1
            chk.violation('fmt:blockcount:mod=%d,count=%d' % (mod, cnt), {'cfg': CFG, 'kind': 'fmtkeep', 'mod': mod, 'count': 2 * cnt, 'want_b': b},
                          'FMT block count for alphabet %d, half-length %d: beltFMT_keep reveals b=%s, exact min{b: mod^count <= 2^(64b)} = %d' % (mod, cnt, got, b))
    return one, mods, counts, pairs

def _fmt_chunk(args):
    """worker: returns list of (mod, cnt, got_keep) mismatches for a range of mods"""
    lo, hi, counts, keep_of_b = args
    L = lib()
    keepf = L.fn('beltFMT_keep')
    bad = []
    n = 0
    import math
    for mod in range(lo, hi):
        lg = None
        for cnt in counts:
            b = R.fmt_calc_b(mod, cnt)
            k = keepf(ctypes.c_uint64(mod), ctypes.c_uint64(2 * cnt))
            n += 1
            if keep_of_b.get(b) != k:
                bad.append((mod, cnt, k, b))
    return (n, bad)

def run(tier):
    chk = vf.Check(PROP, tier, deadline_s=600 if tier == 'quick' else 3600)
    cases = cat_belt.gen_cases(tier)
    t0 = time.time()
    res = vf.pmap(check_case, cases)
    nonneutral = set()
    for (fname, case), r in zip(cases, res):
        if isinstance(r, dict):
            key = fname + ':' + cat.short(case)
            chk.violation(key, {'cfg': CFG, 'kind': 'case', 'fn': fname, 'case': cat.enc_case(case)},
                          '%s: %s' % (fname, r.get('crash') or r.get('harness_error')))
            continue
        key, msg, ret = r
        chk.outcome('%s ret=%s' % (fname, ret))
        nonneutral.add((fname, cat.short(case)))
        if key:
            chk.violation(key, {'cfg': CFG, 'kind': 'case', 'fn': fname, 'case': cat.enc_case(case)}, '%s: %s' % (fname, msg))
    chk.part('reference_cases', states=len(nonneutral), transitions=len(cases), traces_validated_against_impl=len(cases),
             evaluations=len(cases), distinct_nontrivial=len(nonneutral))
    for i in (0, len(cases) // 3, 2 * len(cases) // 3, len(cases) - 1):
        chk.sample({'fn': cases[i][0], 'case': cat.short(cases[i][1])})
    # unwrap mutants
    muts = unwrap_mutants(tier)
    mres = vf.pmap(check_mutant, muts)
    for m, r in zip(muts, mres):
        if isinstance(r, dict):
            chk.violation('%s:mutant:crash' % m[0], {'cfg': CFG, 'kind': 'mutant', 'fn': m[0], 'case': cat.enc_case(m[1]), 'field': m[2], 'bit': m[3]}, str(r)[:300])
        elif r[0]:
            chk.violation(r[0], {'cfg': CFG, 'kind': 'mutant', 'fn': m[0], 'case': cat.enc_case(m[1]), 'field': m[2], 'bit': m[3]}, r[1])
        else:
            chk.outcome('%s mutant ret=%s' % (m[0], r[2]))
    chk.part('unwrap_mutants', states=len(muts), transitions=len(muts), traces_validated_against_impl=len(muts), evaluations=len(muts))
    # FMT block-count table
    L = lib()
    keep_of_b = {}
    for cnt in range(1, 301):
        b = R.fmt_calc_b(65536, cnt)
        keep_of_b.setdefault(b, L.sz('beltFMT_keep', 65536, 2 * cnt))
    for cnt in range(1, 301):   # b up to 75 needs mod 65536; every b in 1..75 is calibrated here
        pass
    counts = list(range(1, 301)) if tier == 'thorough' else [1, 2, 3, 149, 150, 159, 160, 161, 299, 300]
    step = 512
    chunks = [(lo, min(lo + step, 65537), counts, keep_of_b) for lo in range(2, 65537, step)]
    if tier == 'quick':
        chunks += [(m, m + 1, list(range(1, 301)), keep_of_b) for m in (2, 3, 10, 255, 256, 257, 4095, 4096, 49667, 65535, 65536)]
    fres = vf.pmap(_fmt_chunk, chunks, case_timeout=900)
    ntab = 0
    for ch, r in zip(chunks, fres):
        if isinstance(r, dict):
            chk.violation('fmt:table:crash', {'cfg': CFG, 'kind': 'fmtkeep', 'mod': ch[0], 'count': 2}, str(r)[:300]); continue
        n, bad = r
        ntab += n
        for mod, cnt, k, b in bad:
            got = [bb for bb, kk in keep_of_b.items() if kk == k]
            chk.violation('fmt:blockcount:mod=%d,count=%d' % (mod, cnt), {'cfg': CFG, 'kind': 'fmtkeep', 'mod': mod, 'count': 2 * cnt, 'want_b': b},
                          'FMT block count for alphabet %d and half-length %d: beltFMT_keep(%d,%d) corresponds to b=%s, exact min{b: mod^count <= 2^(64b)} = %d'
                          % (mod, cnt, mod, 2 * cnt, got, b))
    chk.part('fmt_block_count_table', states=ntab, transitions=ntab, traces_validated_against_impl=ntab, evaluations=ntab,
             complete_domain=(tier == 'thorough'))
    # one state, many calls (FMT words with differing synchro values, SDE sectors, KRP keys): the explicit-state bundles of C10, whose
    # oracle -- the one-shot function -- is tied to the standard by the reference cases above
    import C10
    bs = C10.bundles(tier)
    idx = [i for i, b in enumerate(bs) if b.name.startswith(('beltFMT', 'beltSDE', 'beltKRP'))]
    res = vf.pmap(C10.search, [(i, tier) for i in idx], case_timeout=900)
    for i, r in zip(idx, res):
        b = bs[i]
        rec = {'cfg': CFG, 'kind': 'c10bundle', 'index': i, 'tier': tier, 'name': b.name}
        if isinstance(r, dict):
            chk.violation('belt-stateful:' + b.name, rec, '%s: %s' % (b.name, (r.get('harness_error') or str(r))[-500:])); continue
        ns, nt, viol, capped = r
        chk.part('stateful ' + b.name, states=ns, transitions=nt, traces_validated_against_impl=nt)
        if viol:
            chk.violation('belt-stateful:' + b.name, rec, '%s  [path %s]' % (viol[1], viol[0]))
    chk.sample({'fmt_table': 'beltFMT_keep(mod, 2*count) vs exact big-integer block count', 'mods': '2..65536', 'counts': counts if len(counts) < 20 else '1..300'})
    chk.assumptions += ['reference ref/belt.py is specification-level and gated by the appendix vectors (ref/vectors/belt.json) at setup',
                        'value dimension by alphabets (keys, IVs, data patterns); shapes (lengths, key sizes, counters) enumerated completely within bounds',
                        'FMT block count observed through beltFMT_keep(), calibrated on mod=65536 where b = ceil(count/4)']
    return chk.finish('C01', 'cross product of mechanism x key length/value class x IV class x data class x every length in the mechanism range; '
                      'distinct = distinct (function, shape) tuples; each compared octet-for-octet with ref/belt.py and inverted')

def replay(rec):
    global CFG, _lib
    L = lib()
    if rec['kind'] == 'c10bundle':
        import C10
        return C10.replay(rec)
    if rec['kind'] == 'case':
        r = check_case((rec['fn'], cat.dec_case(rec['case'])))
        return r[1] if not isinstance(r, dict) else str(r)
    if rec['kind'] == 'mutant':
        r = check_mutant((rec['fn'], cat.dec_case(rec['case']), rec['field'], rec['bit']))
        return r[1]
    if rec['kind'] == 'fmtkeep':
        keep_of_b = {}
        for cnt in range(1, 301):
            keep_of_b.setdefault(R.fmt_calc_b(65536, cnt), L.sz('beltFMT_keep', 65536, 2 * cnt))
        b = R.fmt_calc_b(rec['mod'], rec['count'] // 2)
        k = L.sz('beltFMT_keep', rec['mod'], rec['count'])
        if keep_of_b.get(b) != k:
            return 'FMT block count mismatch for mod=%d count=%d: exact b=%d' % (rec['mod'], rec['count'], b)
    return None
