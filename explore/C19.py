"""C19 -- all build configurations compute the same function.
The octet-string level corpora of the functional properties are executed by differently built copies of the library
(word size, SAFE/FAST edition, assertions, optimisation level, compiler, bash-f platform variant); per case the digest
of (err_t, outputs) must equal the primary configuration's."""
import json, os, subprocess, sys, tempfile
import vf, cat, common, corpora
import C07

PROP = 'C19'
PRIMARY = 'rel'
CFGS = ['rel3', 'O1', 'dbgp', 'dbg', 'clang', 'w32', 'dbg32', 'fast', 'w32fast', 'bash32', 'sse2', 'avx2', 'avx512']

def cpu_ok(cfg):
    flags = open('/proc/cpuinfo').read()
    need = {'sse2': ' sse2', 'avx2': ' avx2', 'avx512': ' avx512f'}.get(cfg)
    return need is None or need in flags

_cfg = None
def dig(item):
    fname, case = item
    return cat.digest(common.run_fn(common.lib(_cfg), fname, case))

def cases_for(tier):
    cs = [c for c in corpora.all_cases(tier) if not getattr(cat.CAT[c[0]], 'nondet', False)]
    if tier == 'quick':
        cs = C07.thin(cs)
    return cs

# word-level predicates that are NOT in the C05 catalogue but have per-word-size code (Miller-Rabin base sets of priIsPrimeW):
# complete windows, compared as digests across configurations
PRI_WINDOWS = [(0, 1 << 16)] + [(c - (1 << 13), 1 << 14) for c in (1373653, 25326001, 3215031751, 1 << 31, (1 << 32) - (1 << 13))]
def pri_digest(cfg):
    """sha256 over the priIsPrimeW bitmaps of the windows (values < 2^32, so both word sizes see the same integers) and the
    priNextPrimeW answers from every start in [0, 2^12) and 2^13 starts below each window centre"""
    import ctypes, hashlib
    L = common.lib(cfg)
    h = hashlib.sha256()
    with vf.Arena(L) as A:
        st = A.buf(max(L.sz('priIsPrimeW_deep'), L.sz('priNextPrimeW_deep'), 64))
        for start, count in PRI_WINDOWS:
            bits = A.buf((count + 7) // 8, 0)
            L.call('vh_c12_isprimew', start, count, bits, st)
            h.update(bits.get())
        for start, count in [(0, 1 << 12)] + [(c, 1 << 13) for c, _ in PRI_WINDOWS[1:]]:
            out = A.buf(8 * count, 0)
            L.call('vh_c12_nextprimew', start, count, out, st)
            h.update(out.get())
    return h.hexdigest()

WORD_CFGS = {'quick': ['fast', 'w32fast', 'dbgp', 'rel3', 'clang'], 'thorough': ['fast', 'w32fast', 'dbgp', 'dbg32', 'rel3', 'O1', 'clang']}

# stateful layer: code that only runs between Start and the last Step / after particular command sequences (the bash automaton's Ratchet
# and Restart, buffered tails of the Step functions) is not reached by one-shot corpus cases.  The explicit-state searches of C03 (bash
# automaton against ref/bash.py) and C10 (every Start/Step/Get bundle against the one-shot function, which the corpus digests tie to the
# primary configuration) are executed by the other configurations as well -- in particular by every bash-f platform variant, the only
# ones in which bashF() uses the stack area of the states.
STATE_CFGS = {'quick': ['bash32', 'sse2', 'avx2', 'avx512', 'w32', 'dbg', 'fast', 'clang'],
              'thorough': ['rel3', 'O1', 'dbgp', 'dbg', 'clang', 'w32', 'dbg32', 'fast', 'w32fast', 'bash32', 'sse2', 'avx2', 'avx512']}

def stateful(tier, cfg):
    import C03, C10
    C03.CFG = cfg; C10.CFG = cfg
    col = C07._Collector()
    C03.automaton(col, 'quick')
    viol = [{'key': 'st:' + k, 'rec': dict(r, module='C03'), 'msg': m} for k, r, m in col.viol]
    p = col.parts.get('bash_prg_search', {})
    ns, nt = int(p.get('states', 0)), int(p.get('transitions', 0))
    bs = C10.bundles('quick')
    res = vf.pmap(C10.search, [(i, 'quick') for i in range(len(bs))], case_timeout=900)
    for i, (b, r) in enumerate(zip(bs, res)):
        rec = {'cfg': cfg, 'kind': 'bundle', 'index': i, 'tier': 'quick', 'name': b.name, 'module': 'C10'}
        if isinstance(r, dict):
            viol.append({'key': 'st:bundle:' + b.name, 'rec': rec, 'msg': '%s: %s' % (b.name, (r.get('harness_error') or r.get('stderr') or str(r))[-600:])}); continue
        s_, t_, v, capped = r
        ns += s_; nt += t_
        if v:
            viol.append({'key': 'st:bundle:' + b.name, 'rec': rec, 'msg': '%s  [path %s]' % (v[1], v[0])})
    return {'viol': viol, 'states': ns, 'transitions': nt, 'bundles': len(bs)}

def sub(tier, cfg, out):
    global _cfg
    if cfg.startswith('st:'):
        json.dump(stateful(tier, cfg[3:]), open(out, 'w'))
        return 0
    if cfg.startswith('pri:'):
        r = vf.pmap(pri_digest, [cfg[4:]], nproc=1, case_timeout=900)[0]          # in a child: a crash is a digest of its own, not a lost part
        json.dump({'digest': r if isinstance(r, str) else 'CRASH ' + C07.classify(r.get('stderr', '') or r.get('harness_error', '') or r.get('crash', ''))[1][:300]}, open(out, 'w'))
        return 0
    if cfg.startswith('word:'):
        # word-level layer: the C05 catalogue (exact integer / GF(2)[x] formulas, which the primary configuration satisfies)
        # executed by the other configurations: the SAFE_FAST-only, assertion-only and per-compiler code of the arithmetic layer
        cfg = cfg[5:]
        w = C07.word_level(tier, cfg, classes=None)
        json.dump(w, open(out, 'w'))
        return 0
    _cfg = cfg
    cs = cases_for(tier)
    res = vf.pmap(dig, cs, case_timeout=60)       # cases are millisecond-scale; a configuration in which one loops must not cost 5 min per case
    o = []
    for r in res:
        if isinstance(r, dict):
            k, m = C07.classify(r.get('stderr', '') or r.get('harness_error', '') or r.get('crash', ''))
            o.append('CRASH ' + m[:300])
        else:
            o.append(r)
    json.dump(o, open(out, 'w'))
    return 0

def run_cfg(tier, cfg):
    return vf.run_sub(PROP, tier, cfg, prefix='c19')

def run(tier):
    chk = vf.Check(PROP, tier, deadline_s=1500 if tier == 'quick' else 7200)
    cs = cases_for(tier)
    base, err = run_cfg(tier, PRIMARY)
    if base is None:
        chk.harness_error('primary configuration failed: %s' % err)
        return chk.finish('C19', '')
    done = []
    for cfg in CFGS:
        if not cpu_ok(cfg):
            chk.observe('configuration %s skipped: CPU lacks the instruction set' % cfg); continue
        if chk.expired():
            chk.cap('deadline before configuration ' + cfg); continue
        d, err = run_cfg(tier, cfg)
        if d is None:
            chk.harness_error('configuration %s failed to run: %s' % (cfg, err)); continue
        n = 0
        for (f, c), a, b in zip(cs, base, d):
            n += 1
            if a != b:
                chk.violation('%s:%s' % (cfg, f), {'cfg': cfg, 'kind': 'diff', 'fn': f, 'case': cat.enc_case(c)},
                              '%s: configuration %s gives %s, primary %s gives %s  [%s]' % (f, cfg, b[:60], PRIMARY, a[:60], cat.short(c)))
        chk.part('cfg_' + cfg, states=len(set(f for f, _ in cs)), transitions=n, traces_validated_against_impl=n, evaluations=n)
        chk.outcome(cfg)
        done.append(cfg)
    for cfg in WORD_CFGS[tier]:
        if chk.expired():
            chk.cap('deadline before word-level configuration ' + cfg); continue
        w, err = run_cfg(tier, 'word:' + cfg)
        if w is None:
            chk.harness_error('word-level configuration %s failed to run: %s' % (cfg, err)); continue
        for v in w['viol']:
            chk.violation('%s:%s' % (cfg, v['key']), v['rec'], '%s (configuration %s; the primary configuration satisfies the formula, see C05)' % (v['msg'], cfg))
        for c in w['caps']:
            chk.cap('word level [%s]: %s' % (cfg, c))
        chk.part('word_' + cfg, states=w['cells'], transitions=w['calls'], traces_validated_against_impl=w['calls'], evaluations=w['calls'], functions=w['functions'])
        chk.outcome('word:' + cfg)
    from concurrent.futures import ThreadPoolExecutor
    st_cfgs = [c for c in STATE_CFGS[tier] if cpu_ok(c)]
    if chk.expired():
        chk.cap('deadline before the stateful layer'); st_cfgs = []
    with ThreadPoolExecutor(4) as ex:          # most bundles are single-process searches: four configurations share the cores
        st_res = list(ex.map(lambda c: run_cfg(tier, 'st:' + c), st_cfgs))
    for cfg, (w, err) in zip(st_cfgs, st_res):
        if w is None:
            chk.harness_error('stateful layer of configuration %s failed to run: %s' % (cfg, err)); continue
        for v in w['viol']:
            chk.violation('%s:%s' % (cfg, v['key']), v['rec'], '%s (configuration %s; the primary configuration passes the same search, see C03 / C10)' % (v['msg'], cfg))
        chk.part('stateful_' + cfg, states=w['states'], transitions=w['transitions'], traces_validated_against_impl=w['transitions'], bundles=w['bundles'])
        chk.outcome('stateful:' + cfg)
    # prime predicates with per-word-size code paths: digest differential over complete windows
    base_pri, err = run_cfg(tier, 'pri:' + PRIMARY)
    npri = sum(c for _, c in PRI_WINDOWS)
    for cfg in ['w32', 'dbg32', 'w32fast', 'fast', 'rel3', 'clang', 'dbgp']:
        d, err = run_cfg(tier, 'pri:' + cfg)
        if d is None or base_pri is None:
            chk.harness_error('prime sweep in %s failed to run: %s' % (cfg, err)); continue
        if d['digest'] != base_pri['digest']:
            chk.violation('%s:pri-sweep' % cfg, {'cfg': cfg, 'kind': 'pri'},
                          'priIsPrimeW / priNextPrimeW over the windows %s: configuration %s answers differently from %s (C12 decides which integers)' % (
                              [(a, a + c) for a, c in PRI_WINDOWS], cfg, PRIMARY))
        chk.part('pri_' + cfg, states=len(PRI_WINDOWS), transitions=2 * npri, traces_validated_against_impl=2 * npri, evaluations=2 * npri)
    chk.sample({'word_level': 'C05 catalogue (ww/zz/pp, both editions, lengths 0..6 quick / 0..20 thorough) in configurations %s against exact formulas' % WORD_CFGS[tier]})
    chk.sample({'configurations': [PRIMARY] + done, 'cases': len(cs)})
    chk.sample({'stateful_layer': 'bash automaton search of C03 + all Start/Step/Get bundle searches of C10 in configurations %s' % STATE_CFGS[tier]})
    chk.sample({'fn': cs[0][0], 'case': cat.short(cs[0][1]), 'digest_primary': base[0]})
    chk.assumptions += ['32-bit word configuration = B_PER_W 32 on LP64 (hook H2); word-level functions (C05/C06) are compared against exact integers in both word sizes by their own checks',
                        'configurations: rel(-O2), rel3(-O3), O1, dbgp/dbg (-O0, ASSERT on, 1 KiB / exact blobs), clang -O2, w32, dbg32, SAFE_FAST (64/32), BASH_32/SSE2/AVX2/AVX512']
    return chk.finish('C19', 'corpora of C01-C04, C13, C16, C17 (octet-string level) x build configurations; oracle = digest(err_t, outputs) equal to the primary configuration; '
                      'states = functions, transitions = executions per configuration')

def replay(rec):
    corpora.load_all()
    global _cfg
    if rec.get('kind') == 'call':
        return C07.replay(rec)
    if rec.get('module') == 'C03':
        import C03
        return C03.replay_prg(rec)
    if rec.get('module') == 'C10':
        import C10
        C10.CFG = rec['cfg']
        return C10.replay(rec)
    if rec.get('kind') == 'pri':
        a = vf.pmap(pri_digest, [PRIMARY, rec['cfg']], nproc=1)
        return None if a[0] == a[1] else 'prime sweep digests of %s and %s differ' % (PRIMARY, rec['cfg'])
    if rec.get('kind') != 'diff':
        return None
    case = cat.dec_case(rec['case'])
    out = {}
    for cfg in (PRIMARY, rec['cfg']):
        _cfg = cfg
        r = vf.pmap(dig, [(rec['fn'], case)], nproc=1)[0]
        out[cfg] = r if not isinstance(r, dict) else 'CRASH'
    if out[PRIMARY] != out[rec['cfg']]:
        return '%s: configuration %s gives %s, primary gives %s' % (rec['fn'], rec['cfg'], out[rec['cfg']], out[PRIMARY])
    return None
