"""C06 -- EC group law and scalar multiplication are exact in every special case.
E1: complete small curves over one-word primes, closed subgroups of supersingular curves over multi-word primes,
complete subfield curves E(GF(2^d)) inside GF(2^m) (gf2Create refuses m - k < B_PER_W, so GF(2^5) itself cannot be
built), boundary points x boundary scalars on the standard bign / bign96 / GOST / DSTU curves.
Oracle: ref/ecp.py, ref/ec2.py (affine group law, iterated sums).  The C helper drv/vh_c06.c only calls the
function table on blocks of prepared inputs and stores raw outputs; every comparison is made here."""
import os, sys, struct, array, itertools, hashlib
import vf, common
import ecp as RP
import ec2 as R2

PROP = 'C06'
CFGS = ('rel', 'w32')

# ------------------------------------------------------------------------------------------------ guarded stacks
# Every scratch stack handed to the library is a block whose first `deep` octets are the stack (exactly xxx_deep octets, as the
# headers promise is enough) followed by GUARD octets of a fixed pattern that the library must never touch: a write past the
# documented depth is detected deterministically even without a sanitizer.
GUARD = 64
GPAT = b'\xA5' * GUARD
def gbuf(T, deep):
    return T.buf(deep + GUARD, 0xA5)
def gbad(buf):
    if buf is None or buf.get(GUARD, buf.n - GUARD) == GPAT:
        return False
    buf.set(GPAT, buf.n - GUARD)
    return True

# ------------------------------------------------------------------------------------------------ context
OPS = {'add': (0, 'pp'), 'sub': (1, 'pp'), 'adda': (2, 'pa'), 'suba': (3, 'pa'), 'neg': (4, 'p'), 'dbl': (5, 'p'),
       'tpl': (6, 'p'), 'froma': (7, 'a'), 'dbla': (8, 'a'), 'toa': (9, 'p'), 'addaa': (10, 'aa'), 'subaa': (10, 'aa'),
       'nega': (11, 'a')}
ALIAS_NAME = {0: 'none', 1: 'c=a', 2: 'c=b', 3: 'a=b'}

def fint(tag, lo, hi):
    """filler integer in [lo, hi]"""
    return lo + int.from_bytes(vf.filler('c06/' + tag, 80), 'little') % (hi - lo + 1)

def poly_int(poly):
    m, k1, k2, k3 = poly
    f = (1 << m) | 1
    for k in (k1, k2, k3):
        if k:
            f |= 1 << k
    return f

_F2 = {}
def field2(poly):
    if poly not in _F2:
        _F2[poly] = R2.Field2(poly_int(poly))
    return _F2[poly]

def tspec(spec):
    """JSON list -> hashable spec"""
    spec = list(spec)
    if spec[0] == '2':
        spec[1] = tuple(spec[1])
    return tuple(spec)

class Ctx:
    """one curve object of the library in one configuration (lives as long as the worker process)"""
    def __init__(s, cfg, spec):
        L = common.lib(cfg); A = vf.Arena(L)
        s.cfg, s.spec, s.L, s.A, s.W = cfg, spec, L, A, L.wbytes
        if spec[0] == 'p':
            _, p, a, b = spec
            s.fam = 'ecpA3' if a == p - 3 else 'ecp'
            s.size = p
            no = (p.bit_length() + 7) // 8
            s.f = A.buf(L.sz('gfpCreate_keep', no), 0)
            st = gbuf(A, L.sz('gfpCreate_deep', no))
            if not L.boolean('gfpCreate', s.f, A.buf(p.to_bytes(no, 'little')), no, st):
                raise RuntimeError('gfpCreate failed for %x' % p)
            if gbad(st):
                raise RuntimeError('gfpCreate wrote past gfpCreate_deep(%d) octets of its stack' % no)
            s._qinfo()
            s.ec = A.buf(L.sz('ecpCreateJ_keep', s.n), 0)
            st = gbuf(A, L.sz('ecpCreateJ_deep', s.n, s.fdeep))
            if not L.boolean('ecpCreateJ', s.ec, s.f, A.buf(a.to_bytes(s.no, 'little')), A.buf(b.to_bytes(s.no, 'little')), st):
                raise RuntimeError('ecpCreateJ failed')
            if gbad(st):
                raise RuntimeError('ecpCreateJ wrote past ecpCreateJ_deep octets of its stack')
            s.E = RP.Curve(p, a, b)
            s.fn = {'addaa': L.addr('ecpAddAA'), 'subaa': L.addr('ecpSubAA'), 'nega': L.addr('ecpNegA'), 'ison': L.addr('ecpIsOnA')}
            s.deepfn = {'addaa': 'ecpAddAA_deep', 'subaa': 'ecpSubAA_deep', 'ison': 'ecpIsOnA_deep'}
        else:
            _, poly, a, b = spec
            s.fam = 'ec2'
            m = poly[0]
            s.size = 1 << m
            s.f = A.buf(L.sz('gf2Create_keep', m), 0)
            st = gbuf(A, L.sz('gf2Create_deep', m))
            if not L.boolean('gf2Create', s.f, A.buf(struct.pack('<4Q', *poly)), st):
                raise RuntimeError('gf2Create failed for %r' % (poly,))
            s._qinfo()
            s.ec = A.buf(L.sz('ec2CreateLD_keep', s.n), 0)
            st = gbuf(A, L.sz('ec2CreateLD_deep', s.n, s.fdeep))
            if not L.boolean('ec2CreateLD', s.ec, s.f, A.buf(a.to_bytes(s.no, 'little')), A.buf(b.to_bytes(s.no, 'little')), st):
                raise RuntimeError('ec2CreateLD failed')
            if gbad(st):
                raise RuntimeError('ec2CreateLD wrote past ec2CreateLD_deep octets of its stack')
            s.F = field2(poly)
            s.E = R2.Curve2(s.F, a, b)
            s.fn = {'addaa': L.addr('ec2AddAA'), 'subaa': L.addr('ec2SubAA'), 'nega': L.addr('ec2NegA'), 'ison': L.addr('ec2IsOnA')}
            s.deepfn = {'addaa': 'ec2AddAA_deep', 'subaa': 'ec2SubAA_deep', 'ison': 'ec2IsOnA_deep'}
        info = A.buf(16 * 8, 0)
        L.call('vh_c06_ec_info', s.ec, info)
        v = struct.unpack('<16Q', info.get())
        assert v[0] == s.n and v[13] == s.W and v[3] == 3, v
        s.ecdeep, s.has_tpl = v[4], bool(v[5])
        s.stack = gbuf(A, s.ecdeep)          # exactly ec->deep octets for the function table (+ guard)
        s.fstack = gbuf(A, s.fdeep)
        s.ecache = {}
        s.rcache = {}
        s.reccache = {}
        s.one = (1).to_bytes(s.W, 'little')
        s.zrec = bytes((2 * s.n + 1) * s.W)
        # scale factors of the projective representatives
        hi = s.size - 1
        s.lams = [1, 2, hi, fint('lam/%x' % s.size, 3, hi - 1) if hi > 4 else 3]
        s.ofill = (fint('ox/%x' % s.size, 1, hi), fint('oy/%x' % s.size, 1, hi))

    def _qinfo(s):
        info = s.A.buf(8 * 8, 0)
        s.L.call('vh_c06_qr_info', s.f, info)
        v = struct.unpack('<8Q', info.get())
        s.n, s.no, s.fdeep = v[0], v[1], v[2]
        assert v[6] == s.W

    # ---- field elements: ints <-> internal representation (through the qr_o table of the library)
    def from_ints(s, vals):
        if not vals:
            return b''
        with vf.Arena(s.L) as T:
            src = T.buf(b''.join(int(v).to_bytes(s.no, 'little') for v in vals))
            dst = T.buf(len(vals) * s.n * s.W, 0)
            ok = s.L.sz('vh_c06_from', dst, src, len(vals), s.f, s.fstack)
            if ok != len(vals):
                raise RuntimeError('qrFrom rejected %d of %d field elements' % (len(vals) - ok, len(vals)))
            if gbad(s.fstack):
                raise RuntimeError('qrFrom wrote past f->deep = %d octets of its stack' % s.fdeep)
            return dst.get()

    def to_ints(s, raw):
        cnt = len(raw) // (s.n * s.W)
        if not cnt:
            return []
        with vf.Arena(s.L) as T:
            src = T.buf(raw); dst = T.buf(cnt * s.no, 0)
            s.L.call('vh_c06_to', dst, src, cnt, s.f, s.fstack)
            d = dst.get()
        return [int.from_bytes(d[i * s.no:(i + 1) * s.no], 'little') for i in range(cnt)]

    def elems(s, vals):
        """bulk import with cache; returns nothing (use s.ecache[v])"""
        miss = sorted(set(v for v in vals if v not in s.ecache))
        if miss:
            raw = s.from_ints(miss)
            k = s.n * s.W
            for i, v in enumerate(miss):
                s.ecache[v] = raw[i * k:(i + 1) * k]

    def elem(s, v):
        if v not in s.ecache:
            s.elems([v])
        return s.ecache[v]

    # ---- representatives
    def proj_ints(s, P, li):
        """coordinates (X, Y, Z) of a representative of P (None = infinity) for scale index li"""
        lam = s.lams[li]
        if P is None:
            if li == 1:
                return (0, 0, 0)                       # what ecSetO leaves in a zeroed buffer
            if li == 3:
                return (s.ofill[0], s.ofill[1], 0)     # ecSetO on a used buffer: arbitrary X, Y, Z = 0
            if s.fam == 'ec2':
                return (lam, 0, 0)
            return (lam * lam % s.size, lam * lam * lam % s.size, 0)
        x, y = P
        if s.fam == 'ec2':
            F = s.F
            return (F.mul(lam, x), F.mul(F.sqr(lam), y), lam)          # Lopez-Dahab: x = X/Z, y = Y/Z^2
        p = s.size
        return (lam * lam * x % p, lam * lam * lam * y % p, lam)       # Jacobian: x = X/Z^2, y = Y/Z^3

    def reps(s, pts, kind, li=0):
        """packed internal representation of the points: kind 'p' (3n words each) or 'a' (2n words; infinity -> zeros)"""
        need = [P for P in pts if (kind, li, P) not in s.rcache]
        if need:
            need = list(dict.fromkeys(need))
            flat = []
            for P in need:
                if kind == 'p':
                    flat += s.proj_ints(P, li)
                else:
                    flat += list(P) if P is not None else [0, 0]
            s.elems(flat)
            k = 3 if kind == 'p' else 2
            for i, P in enumerate(need):
                s.rcache[(kind, li, P)] = b''.join(s.ecache[v] for v in flat[i * k:(i + 1) * k])
        return b''.join(s.rcache[(kind, li, P)] for P in pts)

    def rec(s, P):
        """expected output record of the block helper for result P"""
        if P is None:
            return s.zrec
        return s.one + s.elem(P[0]) + s.elem(P[1])

    def dec_rec(s, raw):
        """record -> point / None / ('bad flag', ...)"""
        flag = int.from_bytes(raw[:s.W], 'little')
        if flag == 0:
            return None
        x, y = s.to_ints(raw[s.W:])
        return (x, y)

_ctx = {}
def get_ctx(cfg, spec):
    k = (cfg, spec)
    if k not in _ctx:
        _ctx[k] = Ctx(cfg, spec)
    return _ctx[k]

# ------------------------------------------------------------------------------------------------ reference side
def ref_apply(E, op, P, Q=None):
    if op in ('add', 'adda', 'addaa'):
        return E.add(P, Q)
    if op in ('sub', 'suba', 'subaa'):
        return E.sub(P, Q)
    if op in ('neg', 'nega'):
        return E.neg(P)
    if op in ('dbl', 'dbla'):
        return E.dbl(P)
    if op == 'tpl':
        return E.add(E.dbl(P), P)
    if op in ('froma', 'toa'):
        return P
    raise ValueError(op)

def relation(E, op, P, Q=None):
    """class of the operand pair (groups violations by root cause)"""
    def cls(P):
        if P is None:
            return 'O'
        if E.dbl(P) is None:
            return 'T2'
        if E.add(E.dbl(P), P) is None:
            return 'T3'
        return 'P'
    if OPS[op][1] in ('p', 'a'):
        return cls(P)
    if P is None or Q is None:
        return '%s,%s' % (cls(P), cls(Q))
    if P == Q:
        return 'P=Q' + ('(T2)' if E.dbl(P) is None else '')
    if E.neg(P) == Q:
        return 'P=-Q'
    return 'generic'

# ------------------------------------------------------------------------------------------------ block runner
def run_pairs(c, op, alias, la, lb, ptsA, ptsB, exp_row, max_rec=40000):
    """call `op` with aliasing pattern `alias` on every (ptsA[i], ptsB[j]) (unary: ptsB None; alias 3: only j == i,
    ptsB must be ptsA) with projective operands scaled by lams[la] / lams[lb].
    exp_row(i) -> list of expected points for row i.   Returns (calls, first mismatch dict or None)."""
    L, n, W = c.L, c.n, c.W
    code, shape = OPS[op]
    binary = shape in ('pp', 'pa', 'aa')
    ka = 'p' if shape in ('pp', 'pa', 'p') else 'a'
    kb = 'p' if shape == 'pp' else 'a'
    na = len(ptsA)
    nb = len(ptsB) if binary else 1
    percall = 1 if (not binary or alias == 3) else nb
    rw = (2 * n + 1) * W
    with vf.Arena(L) as T:
        ra = T.buf(c.reps(ptsA, ka, la))
        rb = T.buf(c.reps(ptsB, kb, lb)) if binary and alias != 3 else None
        bufs = [T.buf(3 * n * W), T.buf(2 * n * W), T.buf(3 * n * W), T.buf(2 * n * W), T.buf(3 * n * W), T.buf(2 * n * W), T.buf(2 * n * W)]
        pb = T.buf(struct.pack('<7Q', *[b.addr for b in bufs]))
        if shape == 'aa':
            stack = gbuf(T, L.sz(c.deepfn[op], n, c.fdeep)); fn = c.fn[op]
        elif op == 'nega':
            stack = None; fn = c.fn[op]
        else:
            stack = c.stack; fn = 0
        stat = T.buf(8 * 8, 0)
        rows = max(1, max_rec // percall)
        out = T.buf(rows * percall * rw)
        calls = 0
        for i0 in range(0, na, rows):
            i1 = min(na, i0 + rows)
            L.call('vh_c06_block', c.ec, fn, code, alias, ra, rb, i0, i1, 0, nb, out, pb, stack, stat)
            cnt = (i1 - i0) * percall
            calls += cnt
            if gbad(stack):
                # locate the first call that writes past the documented stack depth
                for i in range(i0, i1):
                    for j in ([i] if alias == 3 else range(nb)):
                        L.call('vh_c06_block', c.ec, fn, code, alias, ra, rb, i, i + 1, j, j + 1, out, pb, stack, stat)
                        if gbad(stack):
                            return calls, {'i': i, 'j': j if binary else 0, 'guard': stack.n - GUARD}
                return calls, {'i': i0, 'j': 0, 'guard': stack.n - GUARD}
            got = out.get(cnt * rw)
            exp = []
            for i in range(i0, i1):
                er = exp_row(i)
                exp.append(er)
            rc = c.reccache
            miss = set(P for er in exp for P in er if P not in rc)
            if miss:
                c.elems([v for P in miss if P is not None for v in P])
                for P in miss:
                    rc[P] = c.rec(P)
            want = b''.join([rc[P] for er in exp for P in er])
            if got != want:
                k = next(t for t in range(cnt) if got[t * rw:(t + 1) * rw] != want[t * rw:(t + 1) * rw])
                i = i0 + k // percall
                j = i if alias == 3 else k % percall
                gotp = c.dec_rec(got[k * rw:(k + 1) * rw])
                return calls, {'i': i, 'j': j, 'got': gotp, 'want': exp[i - i0][k % percall] if percall > 1 else exp[i - i0][0],
                               'raw': got[k * rw:(k + 1) * rw].hex()}
        st = struct.unpack('<8Q', stat.get())
        if st[1]:
            return calls, {'i': st[2], 'j': st[3], 'modified': st[1]}
        if st[4]:
            return calls, {'i': 0, 'j': 0, 'froma_false': st[4]}
    return calls, None

def pair_violation(c, op, alias, la, lb, P, Q, mm):
    """(key, record, message) for a mismatch of one call"""
    E = c.E
    rel = relation(E, op, P, Q)
    key = '%s:%s:alias=%s:%s' % (c.fam, op, ALIAS_NAME[alias], rel)
    rec = {'cfg': c.cfg, 'kind': 'pair', 'spec': list(c.spec), 'op': op, 'alias': alias, 'la': la, 'lb': lb,
           'P': list(P) if P is not None else None, 'Q': list(Q) if Q is not None else None}
    if 'guard' in mm:
        what = 'wrote past the documented stack depth of %d octets (%s)' % (mm['guard'], 'ec->deep' if OPS[op][1] != 'aa' else c.deepfn[op])
        key = '%s:%s:stack-overrun' % (c.fam, op)
    elif 'modified' in mm:
        what = 'an input operand that is not aliased with the output was modified'
        key += ':input-modified'
    elif 'froma_false' in mm:
        what = 'froma returned FALSE for a point of the curve'
    else:
        what = 'result %s, group law gives %s' % (fmt_pt(mm['got']), fmt_pt(mm['want']))
    msg = '%s %s(%s%s) [%s, cfg %s, aliasing %s, Z scale a=%#x b=%#x]: %s' % (
        c.fam, op, fmt_pt(P), (', ' + fmt_pt(Q)) if OPS[op][1] in ('pp', 'pa', 'aa') else '', spec_str(c.spec), c.cfg,
        ALIAS_NAME[alias], c.lams[la], c.lams[lb], what)
    return key, rec, msg

def fmt_pt(P):
    if P is None:
        return 'O'
    return '(%#x, %#x)' % (P[0], P[1])

def spec_str(spec):
    if spec[0] == 'p':
        return 'y^2=x^3+%#x x+%#x over GF(%#x)' % (spec[2], spec[3], spec[1])
    return 'y^2+xy=x^3+%#x x^2+%#x over GF(2^%d) %r' % (spec[2], spec[3], spec[1][0], tuple(spec[1]))

def check_single_pair(rec):
    """re-execute one call (replay and standard-curve boundary pairs); returns message or None"""
    c = get_ctx(rec['cfg'], tspec(rec['spec']))
    P = tuple(rec['P']) if rec['P'] is not None else None
    Q = tuple(rec['Q']) if rec.get('Q') is not None else None
    op, alias = rec['op'], rec['alias']
    binary = OPS[op][1] in ('pp', 'pa', 'aa')
    want = ref_apply(c.E, op, P, Q if binary else None)
    calls, mm = run_pairs(c, op, alias, rec['la'], rec['lb'], [P], [P] if alias == 3 else ([Q] if binary else None), lambda i: [want])
    if mm:
        return pair_violation(c, op, alias, rec['la'], rec['lb'], P, Q, mm)[2]
    return None

# ------------------------------------------------------------------------------------------------ small binary fields
SMALL_POLY = {5: 0b100101, 7: 0b10000011, 11: 0b100000000101}

class TabField2(R2.Field2):
    """GF(2^d), d <= 11, with log / antilog tables BUILT BY the reference multiplication (exp[i+1] = ref.mul(exp[i], g));
    only the speed differs from ref/ec2.py Field2, the group law stays ref/ec2.py Curve2."""
    def __init__(s, f):
        R2.Field2.__init__(s, f)
        ref = R2.Field2(f)
        q = s.size - 1
        for g in range(2, s.size):
            e = [1]
            while len(e) < q:
                nx = ref.mul(e[-1], g)
                if nx == 1:
                    break
                e.append(nx)
            if len(e) == q:
                break
        s.exp = e + e
        s.log = {v: i for i, v in enumerate(e)}
        s.q = q
        s.qs = {}
        for z in range(s.size):
            s.qs.setdefault(s.sqr(z) ^ z, z)
        # cross-check against the reference on a structured sample
        for a in list(range(1, min(s.size, 40))) + [s.size - 1, s.size // 2]:
            for b in (1, 2, 3, s.size - 1, s.size // 2 + 1, a):
                assert s.mul(a, b) == ref.mul(a, b) and s.mul(a, s.inv(a)) == 1
    def mul(s, a, b):
        if a == 0 or b == 0:
            return 0
        return s.exp[s.log[a] + s.log[b]]
    def sqr(s, a):
        return s.mul(a, a)
    def inv(s, a):
        if a == 0:
            raise ZeroDivisionError
        return s.exp[s.q - s.log[a]]
    def div(s, a, b):
        return s.mul(a, s.inv(b))
    def solve_quad(s, c):
        return s.qs.get(c)

_TF = {}
def tabfield(d):
    if d not in _TF:
        _TF[d] = TabField2(SMALL_POLY[d])
    return _TF[d]

_EMB = {}
def embedding(poly, d):
    """phi: GF(2)[t]/(SMALL_POLY[d]) -> subfield of GF(2)[x]/(poly): list indexed by the small element"""
    key = (poly, d)
    if key in _EMB:
        return _EMB[key]
    Fb = field2(poly)
    m = poly[0]
    assert m % d == 0
    g = SMALL_POLY[d]
    e = ((1 << m) - 1) // ((1 << d) - 1)
    theta = None
    u = 2
    while theta is None:
        gam = Fb.pow(u, e)                      # lies in the subfield of 2^d elements
        cand = gam
        for _ in range((1 << d) - 1):
            # evaluate g at cand (Horner, reference arithmetic of the big field)
            acc = 0
            for bit in range(d, -1, -1):
                acc = Fb.mul(acc, cand) ^ ((g >> bit) & 1)
            if acc == 0 and cand not in (0, 1):
                theta = cand
                break
            cand = Fb.mul(cand, gam)
            if cand == gam:
                break
        u += 1
    pw = [1]
    for _ in range(d - 1):
        pw.append(Fb.mul(pw[-1], theta))
    phi = []
    for v in range(1 << d):
        acc = 0
        for bit in range(d):
            if (v >> bit) & 1:
                acc ^= pw[bit]
        phi.append(acc)
    # homomorphism check on a structured sample (reference arithmetic on both sides)
    Fs = R2.Field2(g)
    for a in (1, 2, 3, (1 << d) - 1, (1 << (d - 1)) + 1, 5 % (1 << d)):
        for b in (2, 3, (1 << d) - 1, (1 << d) - 2, 7 % (1 << d)):
            assert phi[Fs.mul(a, b)] == Fb.mul(phi[a], phi[b]) and phi[a ^ b] == phi[a] ^ phi[b]
    _EMB[key] = phi
    return phi

# ------------------------------------------------------------------------------------------------ group tables (reference)
def point_order_from(E, P, N, fac):
    """order of P given that N P = O and the prime factors of N"""
    o = N
    for q in fac:
        while o % q == 0 and E.mul(o // q, P) is None:
            o //= q
    return o

def factor(n):
    out = []
    d = 2
    while d * d <= n:
        while n % d == 0:
            if d not in out:
                out.append(d)
            n //= d
        d += 1
    if n > 1 and n not in out:
        out.append(n)
    return out

def closure(E, gens, cap=5000):
    U = [None]
    seen = {None}
    frontier = [None]
    while frontier:
        nxt = []
        for P in frontier:
            for G in gens:
                R = E.add(P, G)
                if R not in seen:
                    seen.add(R); U.append(R); nxt.append(R)
                    if len(U) > cap:
                        raise RuntimeError('closure too large')
        frontier = nxt
    return U

def build_table(job):
    """job = (kind, spec, extra).  Returns a picklable table of the closed point set U (U[0] = O):
    T[i][j] = index of U[i] + U[j] (reference group law), neg, dbl, tpl index lists, point orders."""
    kind, spec, extra = job
    if kind == 'small':
        E = RP.Curve(*spec[1:])
        U = [None] + sorted(E.points())
        Eref = E; back = None
    elif kind == 'sub':
        E = RP.Curve(*spec[1:])
        U = closure(E, [tuple(g) for g in extra])
        U = [None] + sorted(U[1:])
        Eref = E; back = None
    elif kind == 'mw':
        E = RP.Curve(*spec[1:])
        r, nc = extra
        U = closure(E, mw_generators(spec[1], spec[2], r, nc))
        assert len(U) == r, 'subgroup has %d elements, expected %d' % (len(U), r)
        U = [None] + sorted(U[1:])
        Eref = E; back = None
    elif kind == 'sf':
        # complete curve over the subfield GF(2^d) of GF(2^m): group law computed by ref/ec2.py Curve2 over the small field,
        # then carried into the big field by the field embedding phi; validated below with the big-field reference
        d, a_s, b_s = extra
        phi = embedding(spec[1], d)
        Fs = tabfield(d)
        Es = R2.Curve2(Fs, a_s, b_s)
        Us = [None] + sorted(pt for x in range(Fs.size) for pt in Es.lift_x(x))
        refs = R2.Curve2(R2.Field2(SMALL_POLY[d]), a_s, b_s)
        assert all(refs.is_on(P) for P in Us)
        assert len(set(Us)) == len(Us) and (len(Us) - Fs.size - 1) ** 2 <= 4 * Fs.size
        E = Es; U = Us
        Eb = R2.Curve2(field2(spec[1]), spec[2], spec[3])
        assert spec[2] == phi[a_s] and spec[3] == phi[b_s]
        back = lambda P: None if P is None else (phi[P[0]], phi[P[1]])
        Eref = Eb
    else:
        raise ValueError(kind)
    idx = {P: i for i, P in enumerate(U)}
    nU = len(U)
    tc = 'H' if nU < 65536 else 'I'
    T = []
    for P in U:
        T.append(array.array(tc, [idx[E.add(P, Q)] for Q in U]).tobytes())
    neg = [idx[E.neg(P)] for P in U]
    dbl = [idx[E.dbl(P)] for P in U]
    tpl = [idx[E.add(E.dbl(P), P)] for P in U]
    fac = factor(nU)
    orders = [1] + [point_order_from(E, P, nU, fac) for P in U[1:]]
    if back is not None:
        Ub = [back(P) for P in U]
        assert all(Eref.is_on(P) for P in Ub) and len(set(Ub)) == nU
        # validation of the carried table by the big-field reference: all pairs when small, a lattice of pairs otherwise
        step = 1 if nU <= 40 else (7 if nU <= 300 else 97)
        for i in range(0, nU, step):
            Ti = array.array(tc); Ti.frombytes(T[i])
            for j in range(0, nU, step if step == 1 else step + 2):
                assert Eref.add(Ub[i], Ub[j]) == Ub[Ti[j]], 'embedding does not commute with the group law'
        for i in range(0, nU, max(1, step // 2)):
            assert Eref.neg(Ub[i]) == Ub[neg[i]] and Eref.dbl(Ub[i]) == Ub[dbl[i]]
        U = Ub
    return {'U': U, 'T': T, 'tc': tc, 'neg': neg, 'dbl': dbl, 'tpl': tpl, 'ord': orders, 'N': nU}

TABLES = {}     # curve id -> table (filled in the parent before the cells are forked)

def table_rows(tab):
    if 'rows' not in tab:
        rows = []
        for b in tab['T']:
            a = array.array(tab['tc']); a.frombytes(b); rows.append(a)
        tab['rows'] = rows
    return tab['rows']

# ------------------------------------------------------------------------------------------------ group-law cells
def group_cell(case):
    """one (curve, function, aliasing) cell: all ordered pairs of the closed point set x the listed Z-scale pairs"""
    c = get_ctx(case['cfg'], case['spec'])
    tab = TABLES[case['cid']]
    U, rows, neg, dbl, tpl = tab['U'], table_rows(tab), tab['neg'], tab['dbl'], tab['tpl']
    op, alias = case['op'], case['alias']
    shape = OPS[op][1]
    nU = len(U)
    if op == 'tpl' and not c.has_tpl:
        return {'calls': 0, 'viol': [], 'skipped': 'no tpl in this function table'}
    oa = 0 if shape in ('pp', 'pa', 'p') else 1          # affine operands cannot be O
    ob = 0 if shape == 'pp' else 1
    if shape == 'pa' and alias == 3:
        oa = 1                                           # a is read as (x, y) through the same pointer
    ptsA = U[oa:]
    ptsB = U[ob:] if shape in ('pp', 'pa', 'aa') else None
    if alias == 3:
        ptsB = ptsA
    isadd = op in ('add', 'adda', 'addaa')
    colidx = list(range(ob, nU)) if isadd else [neg[j] for j in range(ob, nU)]
    def exp_row(i):
        ia = i + oa
        if shape in ('pp', 'pa', 'aa'):
            r = rows[ia]
            if alias == 3:
                return [U[r[ia] if isadd else r[neg[ia]]]]
            return [U[r[k]] for k in colidx]
        if op in ('neg', 'nega'):
            return [U[neg[ia]]]
        if op in ('dbl', 'dbla'):
            return [U[dbl[ia]]]
        if op == 'tpl':
            return [U[tpl[ia]]]
        return [U[ia]]
    calls, viol = 0, []
    for la, lb in case['lpairs']:
        n, mm = run_pairs(c, op, alias, la, lb, ptsA, ptsB, exp_row)
        calls += n
        if mm:
            P = ptsA[mm['i']]
            Q = ptsB[mm['j']] if ptsB is not None else None
            viol.append(pair_violation(c, op, alias, la, lb, P, Q, mm))
            if len(viol) >= 3:
                break
    return {'calls': calls, 'viol': viol}

FULL_LP = [(a, b) for a in range(4) for b in range(4)]
DIAG_LP = [(0, 0), (1, 2), (2, 3), (3, 1)]

def group_cases(cfg, cid, spec, nU, tier, has_aa=True):
    """the cells of one curve"""
    big = nU > 300
    lp2 = DIAG_LP if big else FULL_LP
    lp1 = [(a, 0) for a in range(4)]
    out = []
    def add(op, alias, lps):
        out.append({'kind': 'group', 'cfg': cfg, 'cid': cid, 'spec': spec, 'op': op, 'alias': alias, 'lpairs': lps})
    for op in ('add', 'sub'):
        for alias in (0, 1, 2):
            add(op, alias, lp2)
        add(op, 3, lp1)
    for op in ('adda', 'suba'):
        for alias in (0, 1, 2):
            add(op, alias, lp1)
        add(op, 3, [(0, 0)])
    for op in ('neg', 'dbl', 'tpl', 'toa'):
        if op == 'tpl' and spec[0] != 'p':
            continue
        for alias in (0, 1):
            add(op, alias, lp1)
    for op in ('froma', 'dbla'):
        for alias in (0, 1):
            add(op, alias, [(0, 0)])
    if has_aa:
        for op in ('addaa', 'subaa', 'nega'):
            add(op, 0, [(0, 0)])
    return out

# ------------------------------------------------------------------------------------------------ choice of the curves
def two_torsion(p, a, b):
    return [x for x in range(p) if (x * x * x + a * x + b) % p == 0]

def pick_small(p, want):
    """deterministic search of curves over GF(p) by class of group; returns [(label, A, B)] (first curve of each class)"""
    found = {}
    order = []
    As = [p - 3, 1, 0, 2, 3, 5, p - 1, 7]
    for a in As:
        for b in range(p):
            E = RP.Curve(p, a, b)
            if not E.is_nonsingular():
                continue
            if len(found) >= len(want):
                break
            t2 = len(two_torsion(p, a, b))
            N = None
            labels = []
            if a == p - 3:
                pre = 'A=-3'
            elif a == 0:
                pre = 'A=0'
            elif b == 0:
                pre = 'B=0'
            else:
                pre = 'gen'
            if t2 == 3:
                labels.append(pre + ',full 2-torsion (non-cyclic)')
            elif t2 == 1:
                labels.append(pre + ',one 2-torsion point')
            else:
                N = E.group_order()
                labels.append(pre + (',prime order' if RP.is_prime(N) else ',odd order'))
                if N % 3 == 0:
                    labels.append(pre + ',order divisible by 3')
            for lb in labels:
                if lb in want and lb not in found:
                    found[lb] = (a, b); order.append(lb)
    seen = set()
    out = []
    for lb in order:
        if found[lb] not in seen:
            seen.add(found[lb]); out.append((lb, found[lb][0], found[lb][1]))
    return out

WANT_ALL = ['A=-3,prime order', 'A=-3,one 2-torsion point', 'A=-3,full 2-torsion (non-cyclic)', 'gen,prime order',
            'gen,one 2-torsion point', 'gen,full 2-torsion (non-cyclic)', 'A=0,odd order', 'A=0,prime order', 'A=0,one 2-torsion point',
            'B=0,one 2-torsion point', 'B=0,full 2-torsion (non-cyclic)', 'gen,order divisible by 3', 'A=-3,order divisible by 3', 'gen,odd order', 'A=-3,odd order']
WANT_FEW = ['A=-3,prime order', 'A=-3,full 2-torsion (non-cyclic)', 'gen,one 2-torsion point', 'gen,order divisible by 3', 'A=-3,odd order', 'gen,prime order']

def small_curves(tier):
    """[(p, label, A, B)]"""
    out = []
    for p in (11, 13):
        out += [(p,) + t for t in pick_small(p, WANT_ALL)]
    out += [(251,) + t for t in pick_small(251, WANT_FEW if tier == 'quick' else WANT_ALL)][:4 if tier == 'quick' else 9]
    if tier == 'thorough':
        out += [(1021,) + t for t in pick_small(1021, ['A=-3,one 2-torsion point', 'gen,full 2-torsion (non-cyclic)', 'gen,prime order'])]
    return out

# ------------------------------------------------------------------------------------------------ multi-word primes
# primes p = -1 (mod 5040) found at design time (p = 3 mod 4, so y^2 = x^3 + A x is supersingular with p + 1 points);
# re-validated by the reference at run time.  'crandNN' = 2^NN - c (Crandall reduction where the word size allows it).
MW_PRIMES = [
    ('gen72', 0xd4d0081089b752f17f),
    ('crand96', 0xfffffffffffffffffffbb52f),
    ('gen136', 0x9f0f2b3587af719aaba1e33904570208af),
    ('crand192', 0xfffffffffffffffffffffffffffffffffffffffffffdf01f),
    ('gen40', 0x8abba76bff),
    ('gen104', 0xa769962bc97d1ac9c372afcf0f),
    ('gen128', 0xf509a2a5f4aeb9c4c8ed0b62b4b2b77f),
    ('crand128', 0xfffffffffffffffffffffffffffd9caf),
    ('gen192', 0x9e674bcefe1ae37e5da8e78bee02cb7bff351afd875bf63f),
    ('crand256', 0xfffffffffffffffffffffffffffffffffffffffffffffffffffffffffffe000f),
]

def mw_generators(p, A, r, noncyclic):
    """generators of a subgroup of order r of y^2 = x^3 + A x over GF(p) (reference arithmetic only)"""
    assert RP.is_prime(p) and p % 4 == 3 and (p + 1) % 5040 == 0
    E = RP.Curve(p, A, 0)
    rr = r // 2 if noncyclic else r
    fac = factor(rr)
    # group structure: cyclic of order p + 1 when (0,0) is the only 2-torsion point, else Z/2 x Z/((p+1)/2)
    full2 = RP.legendre(-A, p) == 1
    assert full2 or not noncyclic
    expo = (p + 1) // 2 if full2 else p + 1
    assert expo % rr == 0
    x = 2
    while True:
        for R in E.lift_x(x):
            assert E.mul(p + 1, R) is None, 'curve order is not p + 1'
            P = E.mul(expo // rr, R)
            if P is not None and point_order_from(E, P, rr, fac) == rr:
                if not noncyclic:
                    return [P]
                inside = E.mul(rr // 2, P)
                for T in [(0, 0)] + [(t, 0) for t in (RP.sqrt_mod(-A % p, p), ) if t is not None] :
                    if E.is_on(T) and T != inside:
                        return [P, T]
        x += 1

def mw_jobs(tier):
    """[(cid, spec, table job)]"""
    out = []
    names = [n for n, _ in MW_PRIMES[:4]] if tier == 'quick' else [n for n, _ in MW_PRIMES]
    for name, p in MW_PRIMES:
        if name not in names:
            continue
        for A in (1, p - 3):
            subs = [(72, A != 1)] if tier == 'quick' else [(72, A != 1), (210, False)]
            for r, nc in subs:
                spec = ('p', p, A, 0)
                out.append(('mw:%s:A=%s:r=%d%s' % (name, '1' if A == 1 else '-3', r, 'nc' if nc else ''), spec, ('mw', spec, (r, nc))))
    return out

# ------------------------------------------------------------------------------------------------ scalar multiples
def naf_width(bits):
    """window width ecMulA selects for a scalar of `bits` bits (only used to label coverage and keys)"""
    return 6 if bits >= 336 else 5 if bits >= 120 else 4 if bits >= 40 else 3

def m_list(W, tier):
    """scalar lengths in words: crosses every threshold of the width selection (w64: 1 -> 4, 2..5 -> 5, 6.. -> 6;
    w32: 1 -> 3, 2..3 -> 4, 4..10 -> 5, 11.. -> 6)"""
    if tier == 'thorough':
        return list(range(1, 8)) if W == 8 else list(range(1, 13))
    return [1, 2, 5, 6] if W == 8 else [1, 2, 3, 4, 10, 11]

def scalar_set(N, m, W, layout):
    """every k in 0..2N+2 shifted by a multiple of the group order so that the value has the wanted word layout"""
    B = 1 << (8 * W * m)
    if layout == 'pad':
        J = 0                                           # high words zero
    elif layout == 'mid':
        J = -(-(B >> (8 * W)) // N)                     # least multiple reaching word m-1 (top word tiny)
    elif layout == 'top':
        J = (B - 1 - (2 * N + 2)) // N                  # values just below B^m (all-ones prefix: NAF carries out of the top)
    else:
        J = fint('J/%d/%d/%d' % (N, m, W), (B // 4) // N, (B // 2) // N)
    return [k + J * N for k in range(0, 2 * N + 3)]

def cycles(tab):
    """multiples of every point as iterated sums: cyc[i] = [O, P, 2P, ...] (indices)"""
    if 'cyc' not in tab:
        rows = table_rows(tab)
        cyc = []
        for i in range(len(tab['U'])):
            c = [0]; cur = i
            while cur != 0:
                c.append(cur); cur = rows[cur][i]
            cyc.append(c)
        tab['cyc'] = cyc
    return tab['cyc']

def rep_points(tab):
    """indices: one point of every order, every point of order 2, the first three points"""
    seen, out = set(), []
    for i in range(1, len(tab['U'])):
        o = tab['ord'][i]
        if o not in seen or o == 2 or i <= 3:
            seen.add(o); out.append(i)
    return out

def run_mul(c, mode, pts, scalars, m, exp):
    """ecMulA (mode 0) / ecHasOrderA (mode 1) on every (point, scalar); exp(i, j) -> expected point / bool.
    Returns (calls, first mismatch or None)"""
    L, n, W = c.L, c.n, c.W
    rw = ((2 * n + 1) if mode == 0 else 1) * W
    with vf.Arena(L) as T:
        deep = L.sz('ecMulA_deep' if mode == 0 else 'ecHasOrderA_deep', n, 3, c.ecdeep, m)
        stack = gbuf(T, deep)
        ds = T.buf(b''.join(int(k).to_bytes(m * W, 'little') for k in scalars))
        a, d, b = T.buf(2 * n * W), T.buf(m * W), T.buf(2 * n * W)
        nd = len(scalars)
        chunk = max(1, 30000 // nd)
        calls = 0
        for i0 in range(0, len(pts), chunk):
            sub = pts[i0:i0 + chunk]
            pa = T.buf(c.reps(sub, 'a'))
            out = T.buf(len(sub) * nd * rw)
            L.call('vh_c06_mul_block', c.ec, mode, pa, len(sub), ds, nd, m, out, a, d, b, stack)
            got = out.get()
            calls += len(sub) * nd
            if gbad(stack):
                for i in range(len(sub)):
                    for j in range(nd):
                        L.call('vh_c06_mul_block', c.ec, mode, pa.addr + i * 2 * n * W, 1, ds.addr + j * m * W, 1, m, out, a, d, b, stack)
                        if gbad(stack):
                            return calls, {'i': i0 + i, 'j': j, 'guard': deep, 'want': None, 'got': None}
                return calls, {'i': i0, 'j': 0, 'guard': deep, 'want': None, 'got': None}
            if mode == 0:
                ex = [exp(i0 + i, j) for i in range(len(sub)) for j in range(nd)]
                rc = c.reccache
                miss = set(P for P in ex if P not in rc)
                if miss:
                    c.elems([v for P in miss if P is not None for v in P])
                    for P in miss:
                        rc[P] = c.rec(P)
                want = b''.join([rc[P] for P in ex])
            else:
                ex = [1 if exp(i0 + i, j) else 0 for i in range(len(sub)) for j in range(nd)]
                want = b''.join(int(v).to_bytes(W, 'little') for v in ex)
            if got != want:
                k = next(t for t in range(len(ex)) if got[t * rw:(t + 1) * rw] != want[t * rw:(t + 1) * rw])
                g = got[k * rw:(k + 1) * rw]
                return calls, {'i': i0 + k // nd, 'j': k % nd, 'want': ex[k],
                               'got': c.dec_rec(g) if mode == 0 else int.from_bytes(g, 'little')}
    return calls, None

def mul_violation(c, mode, P, k, m, mm):
    fn = 'ecMulA' if mode == 0 else 'ecHasOrderA'
    w = naf_width(8 * c.W * m)
    if 'guard' in mm:
        cls = 'stack-overrun'
        what = 'wrote past the documented stack depth %s_deep = %d octets' % (fn, mm['guard'])
    elif mode == 0:
        cls = 'kP=O' if mm['want'] is None else 'kP!=O'
        what = 'result %s, iterated sum gives %s' % (fmt_pt(mm['got']), fmt_pt(mm['want']))
    else:
        cls = 'qP=O' if mm['want'] else 'qP!=O'
        what = 'returned %d, expected %d' % (mm['got'], mm['want'])
    key = '%s:%s:width=%d:%s' % (c.fam, fn, w, cls)
    rec = {'cfg': c.cfg, 'kind': 'mul', 'spec': list(c.spec), 'mode': mode, 'P': list(P), 'k': hex(k), 'm': m}
    msg = '%s(P=%s, k=%#x in %d words (window %d)) [%s, cfg %s]: %s' % (fn, fmt_pt(P), k, m, w, spec_str(c.spec), c.cfg, what)
    return key, rec, msg

def check_single_mul(rec):
    c = get_ctx(rec['cfg'], tspec(rec['spec']))
    P = tuple(rec['P']); k = int(rec['k'], 16); m = rec['m']; mode = rec['mode']
    R = c.E.mul(k, P)
    want = R if mode == 0 else (R is None)
    calls, mm = run_mul(c, mode, [P], [k], m, lambda i, j: want)
    return mul_violation(c, mode, P, k, m, mm)[2] if mm else None

def scalar_cell(case):
    """ecMulA / ecHasOrderA on a closed point set: points x scalar family of one (length, layout)"""
    c = get_ctx(case['cfg'], case['spec'])
    tab = TABLES[case['cid']]
    U, cyc, orders, N = tab['U'], cycles(tab), tab['ord'], tab['N']
    m, mode = case['m'], case['mode']
    idx = list(range(1, len(U))) if case['pts'] == 'all' else rep_points(tab)
    pts = [U[i] for i in idx]
    if mode == 0:
        scalars = scalar_set(N, m, c.W, case['layout'])
        exp = lambda i, j: U[cyc[idx[i]][scalars[j] % len(cyc[idx[i]])]]
    else:
        qs = sorted(set([N, N - 1, N + 1] + [o + e for o in set(orders) for e in (-1, 0, 1)] + [2 * N, 3]) - {0, -1})
        if case['layout'] == 'pad':
            scalars = qs
        else:
            J = scalar_set(N, m, c.W, case['layout'])[0]
            scalars = [q + J for q in qs]
        exp = lambda i, j: scalars[j] % orders[idx[i]] == 0
    calls, mm = run_mul(c, mode, pts, scalars, m, exp)
    viol = [mul_violation(c, mode, pts[mm['i']], scalars[mm['j']], m, mm)] if mm else []
    return {'calls': calls, 'viol': viol, 'width': naf_width(8 * c.W * m)}

def scalar_cases(cfg, cid, spec, nU, tier, W):
    out = []
    small = nU <= 40
    for m in m_list(W, tier):
        for layout in ('pad', 'mid', 'top', 'fill'):
            allpts = small or (m == 1 and layout == 'pad' and (nU <= 300 or tier == 'thorough'))
            out.append({'kind': 'scalar', 'cfg': cfg, 'cid': cid, 'spec': spec, 'm': m, 'layout': layout, 'mode': 0,
                        'pts': 'all' if allpts else 'reps'})
        for layout in ('pad', 'mid'):
            out.append({'kind': 'scalar', 'cfg': cfg, 'cid': cid, 'spec': spec, 'm': m, 'layout': layout, 'mode': 1, 'pts': 'all' if nU <= 300 else 'reps'})
    return out

# ------------------------------------------------------------------------------------------------ ecAddMulA
class AddMul:
    """calls ecAddMulA(b, ec, stack, k, a1, d1, m1, ...) with exact-size buffers (varargs are passed as 64-bit ints)"""
    def __init__(s, c):
        s.c = c; s.T = vf.Arena(c.L); s.stacks = {}; s.abuf = {}; s.dbuf = {}
        s.b = s.T.buf(2 * c.n * c.W)
    def close(s):
        s.T.__exit__()
    def call(s, terms):
        c = s.c; L = c.L
        ms = tuple(t[2] for t in terms)
        if ms not in s.stacks:
            s.stacks[ms] = gbuf(s.T, L.sz('ecAddMulA_deep', c.n, 3, c.ecdeep, len(ms), *ms))
        args = []
        for slot, (P, k, m) in enumerate(terms):
            if slot not in s.abuf:
                s.abuf[slot] = s.T.buf(2 * c.n * c.W)
            if (slot, m) not in s.dbuf:
                s.dbuf[(slot, m)] = s.T.buf(m * c.W)
            s.abuf[slot].set(c.reps([P], 'a'))
            s.dbuf[(slot, m)].set(int(k).to_bytes(m * c.W, 'little'))
            args += [s.abuf[slot], s.dbuf[(slot, m)], m]
        s.b.set(b'\xEE' * s.b.n)
        ret = L.boolean('ecAddMulA', s.b, c.ec, s.stacks[ms], len(terms), *args)
        if gbad(s.stacks[ms]):
            return ('stack-overrun', s.stacks[ms].n - GUARD)
        if not ret:
            return None
        x, y = c.to_ints(s.b.get())
        return (x, y)

def addmul_violation(c, terms, got, want):
    E = c.E
    parts = [E.mul(k, P) for P, k, m in terms]
    rel = 'k=%d' % len(terms)
    if len(terms) == 2:
        rel += ':' + relation(E, 'add', parts[0], parts[1])
    elif len(terms) == 1:
        rel += ':' + ('kP=O' if parts[0] is None else 'kP!=O')
    else:
        rel += ':' + ('sum=O' if want is None else 'sum!=O')
    key = '%s:ecAddMulA:%s' % (c.fam, rel)
    if got and got[0] == 'stack-overrun':
        key = '%s:ecAddMulA:stack-overrun' % c.fam
    rec = {'cfg': c.cfg, 'kind': 'addmul', 'spec': list(c.spec), 'terms': [[list(P), hex(k), m] for P, k, m in terms]}
    msg = 'ecAddMulA(%s) [%s, cfg %s]: %s' % (
        ' + '.join('%#x[%dw]*%s' % (k, m, fmt_pt(P)) for P, k, m in terms), spec_str(c.spec), c.cfg,
        ('wrote past ecAddMulA_deep = %d octets of the stack' % got[1]) if got and got[0] == 'stack-overrun' else
        'result %s, sum of the iterated multiples is %s' % (fmt_pt(got), fmt_pt(want)))
    return key, rec, msg

def check_single_addmul(rec):
    c = get_ctx(rec['cfg'], tspec(rec['spec']))
    terms = [(tuple(P), int(k, 16), m) for P, k, m in rec['terms']]
    want = c.E.mul_add(*[(k, P) for P, k, m in terms])
    am = AddMul(c)
    try:
        got = am.call(terms)
    finally:
        am.close()
    return addmul_violation(c, terms, got, want)[2] if got != want else None

def addmul_cell(case):
    c = get_ctx(case['cfg'], case['spec'])
    tab = TABLES[case['cid']]
    U, cyc, rows, N = tab['U'], cycles(tab), table_rows(tab), tab['N']
    W = c.W
    sub = case['sub']
    allidx = list(range(1, len(U)))
    reps = rep_points(tab)
    S = [0, 1, 2, 3, N - 1, N, N + 1, 2 * N, fint('s/%d' % N, 4, max(4, N - 2))]
    ml = m_list(W, 'quick')
    def val(s, m, lay):
        if lay == 'pad' or m == 1 and lay != 'top':
            return s
        return s + scalar_set(N, m, W, lay)[0]
    jobs = []          # iterator of term lists [(idx, scalar, m)]
    if sub == 'k1':
        pts = allidx if len(U) <= 300 else reps
        jobs = ([(i, k, 1)] for i in pts for k in range(0, 2 * N + 3))
    elif sub == 'k1m':
        jobs = ([(i, val(s, m, lay), m)] for i in reps for m in ml for lay in ('pad', 'mid', 'top') for s in S)
    elif sub == 'k2':
        pts = allidx if len(U) <= 40 else reps[:8]
        jobs = ([(i, a, 1), (j, b, 1)] for i in pts for j in pts for a in S for b in S)
    elif sub == 'k2m':
        pts = reps[:4]
        mm = [(ml[x], ml[y]) for x in range(len(ml)) for y in range(len(ml)) if (x, y) != (0, 0)]
        if case.get('tier') != 'thorough':
            mm = [(a, b) for a, b in mm if abs(ml.index(a) - ml.index(b)) == 1 or (a, b) in ((ml[0], ml[-1]), (ml[-1], ml[0]), (ml[-1], ml[-1]))]
        jobs = ([(i, val(a, m1, 'top'), m1), (j, val(b, m2, 'mid' if (m1 + m2) % 2 else 'top'), m2)]
                for i in pts for j in pts for (m1, m2) in mm for a in S[1:] for b in S[:7])
    elif sub == 'k3':
        pts = reps[:4]
        S3 = [0, 1, N - 1, N, N + 1, S[-1]] if case.get('tier') == 'thorough' else [0, 1, N - 1, N + 1, S[-1]]
        m3 = [(1, 1, 1), (ml[0], ml[1], ml[-1]), (ml[-1], ml[0], ml[2])] if case.get('tier') == 'thorough' else [(1, 1, 1), (ml[-1], ml[0], ml[1])]
        jobs = ([(i, val(a, ma, 'top'), ma), (j, val(b, mb, 'top'), mb), (l, val(d, md, 'mid'), md)]
                for i in pts for j in pts for l in pts for (ma, mb, md) in m3 for a in S3 for b in S3 for d in S3)
    am = AddMul(c)
    calls, viol = 0, []
    try:
        for tl in jobs:
            acc = 0
            for i, k, m in tl:
                cy = cyc[i]
                acc = rows[acc][cy[k % len(cy)]]
            want = U[acc]
            terms = [(U[i], k, m) for i, k, m in tl]
            got = am.call(terms)
            calls += 1
            if got != want:
                v = addmul_violation(c, terms, got, want)
                if all(v[0] != w[0] for w in viol):
                    viol.append(v)
                if len(viol) >= 4:
                    break
    finally:
        am.close()
    return {'calls': calls, 'viol': viol}

def addmul_cases(cfg, cid, spec, nU, tier):
    subs = ['k1', 'k1m', 'k2', 'k2m', 'k3']
    return [{'kind': 'addmul', 'cfg': cfg, 'cid': cid, 'spec': spec, 'sub': s, 'tier': tier} for s in subs]

# ------------------------------------------------------------------------------------------------ on-curve predicate
def ison_sweep_cell(case):
    """ecpIsOnA on ALL raw word pairs (x, y) in [0, p+1]^2 of a one-word field (raw words >= p are not field elements)"""
    c = get_ctx(case['cfg'], case['spec'])
    L, p = c.L, c.size
    assert c.n == 1 and c.fam != 'ec2'
    lim = p + 2
    vals = c.to_ints(b''.join(int(r).to_bytes(c.W, 'little') for r in range(p)))     # value of the raw word r < p
    E = c.E
    sq = {}
    for r in range(p):
        sq.setdefault(vals[r] * vals[r] % p, []).append(r)
    want = bytearray(lim * lim)
    for rx in range(p):
        for ry in sq.get(E.rhs(vals[rx]), ()):
            want[rx * lim + ry] = 1
    assert sum(want) == E.group_order() - 1
    with vf.Arena(L) as T:
        out = T.buf(lim * lim, 0xCC)
        pt = T.buf(2 * c.W)
        stack = gbuf(T, L.sz(c.deepfn['ison'], c.n, c.fdeep))
        L.call('vh_c06_ison', c.ec, c.fn['ison'], 0, lim, 0, lim, out, pt, stack)
        got = out.get()
        if gbad(stack):
            got = b'stack overrun'
    viol = []
    if got == b'stack overrun':
        viol.append(('ecpIsOnA:stack-overrun', {'cfg': c.cfg, 'kind': 'cell', 'case': case}, 'ecpIsOnA wrote past ecpIsOnA_deep octets of its stack [%s]' % spec_str(c.spec)))
    elif got != bytes(want):
        k = next(t for t in range(lim * lim) if got[t] != want[t])
        viol.append(ison_violation(c, k // lim, k % lim, got[k], want[k]))
    return {'calls': lim * lim, 'viol': viol}

def ison_violation(c, rx, ry, got, want):
    lim = c.size
    cls = 'x>=p' if (c.fam != 'ec2' and rx >= lim) else 'y>=p' if (c.fam != 'ec2' and ry >= lim) else \
          'outside GF(2^m)' if (c.fam == 'ec2' and (rx >= lim or ry >= lim)) else ('on curve' if want else 'off curve')
    fn = 'ec2IsOnA' if c.fam == 'ec2' else 'ecpIsOnA'
    if got == 2:
        cls = 'stack-overrun'
    elif c.fam == 'ec2' and (rx >= lim or ry >= lim) and max(rx, ry) < 2 * lim:
        cls = 'degree m word accepted'
    key = '%s:%s' % (fn, cls)
    rec = {'cfg': c.cfg, 'kind': 'ison', 'spec': list(c.spec), 'rx': hex(rx), 'ry': hex(ry)}
    msg = '%s(raw words x=%#x, y=%#x) [%s, cfg %s] returned %s, the curve equation / field membership gives %d' % (
        fn, rx, ry, spec_str(c.spec), c.cfg, 'after writing past its documented stack depth' if got == 2 else got, want)
    return key, rec, msg

def ison_expected(c, rx, ry):
    nb = c.n * c.W
    if c.fam == 'ec2':
        if rx >= c.size or ry >= c.size:
            return 0
    elif rx >= c.size or ry >= c.size:
        return 0
    x, y = c.to_ints(rx.to_bytes(nb, 'little') + ry.to_bytes(nb, 'little'))
    return 1 if c.E.is_on((x, y)) else 0

def ison_call(c, T, rx, ry):
    nb = c.n * c.W
    key = 'isonbuf'
    pt = T.buf(rx.to_bytes(nb, 'little') + ry.to_bytes(nb, 'little'))
    stack = gbuf(T, c.L.sz(c.deepfn['ison'], c.n, c.fdeep))
    r = c.L.boolean('ec2IsOnA' if c.fam == 'ec2' else 'ecpIsOnA', pt, c.ec, stack)
    return 2 if gbad(stack) else r

def raw_of(c, v):
    return int.from_bytes(c.elem(v), 'little')

def ison_points(c, pts, extra_x=()):
    """raw (x, y) candidates around a set of curve points: the points, neighbours, non-canonical / out-of-field words"""
    top = 1 << (8 * c.n * c.W)
    size = c.size
    out = []
    for P in pts:
        if P is None:
            continue
        rx, ry = raw_of(c, P[0]), raw_of(c, P[1])
        out += [(rx, ry), (rx, ry ^ 1), (rx ^ 1, ry), (ry, rx)]
        for v in (rx + size, ):
            if v < top:
                out.append((v, ry))          # congruent to x but not a field element
        for v in (ry + size, ):
            if v < top:
                out.append((rx, v))
        out += [(top - 1, ry), (rx, top - 1)]
        if size < top:
            out += [(size, ry), (rx, size)]
    return list(dict.fromkeys(out))

def ec2_noncanon(c, limit=3):
    """raw pairs that are congruent to a curve point but are NOT field elements: x + f(x) has degree m yet is numerically
    below the modulus word f, which is what a comparison with the modulus instead of a degree test lets through"""
    f = c.F.f
    m = c.F.m
    low = f ^ (1 << m)
    hb = 1 << (low.bit_length() - 1)
    out = []
    x = hb
    while x < 2 * hb and len(out) < limit:
        for P in c.E.lift_x(x)[:1]:
            out.append((raw_of(c, P[0]) ^ f, raw_of(c, P[1])))
        x += 1
    return out

def ison_cell(case):
    """on-curve predicate pointwise (multi-word fields): candidates derived from the closed point set / boundary points"""
    c = get_ctx(case['cfg'], case['spec'])
    if 'cid' in case:
        U = TABLES[case['cid']]['U']
        pts = U[1:60] + U[-20:]
    else:
        pts = [tuple(P) for P in case['pts']]
    cand = ison_points(c, pts)
    if c.fam == 'ec2':
        cand += ec2_noncanon(c)
        f = c.F.f; hb = 1 << ((f ^ (1 << c.F.m)).bit_length() - 1)
        if c.spec[3] == c.F.sqr(hb | 1):
            cand += [(0, hb | 1), (0, (hb | 1) ^ f)]          # the point (0, sqrt(B)) and its non-canonical twin in y
    if c.fam != 'ec2' and c.E.is_on((0, 0)) is False:
        cand.append((0, 0))
    viol, calls = [], 0
    for rx, ry in cand:
        want = ison_expected(c, rx, ry)
        with vf.Arena(c.L) as T:
            got = ison_call(c, T, rx, ry)
        calls += 1
        if got != want:
            v = ison_violation(c, rx, ry, got, want)
            if all(v[0] != w[0] for w in viol):
                viol.append(v)
    return {'calls': calls, 'viol': viol}

def check_single_ison(rec):
    c = get_ctx(rec['cfg'], tspec(rec['spec']))
    rx, ry = int(rec['rx'], 16), int(rec['ry'], 16)
    want = ison_expected(c, rx, ry)
    with vf.Arena(c.L) as T:
        got = ison_call(c, T, rx, ry)
    return ison_violation(c, rx, ry, got, want)[2] if got != want else None

# ------------------------------------------------------------------------------------------------ SWU
def swu_call(c, T, s):
    L = c.L
    b = T.buf(2 * c.n * c.W, 0xEE)
    a = T.buf(c.elem(s))
    stack = gbuf(T, L.sz('ecpSWU_deep', c.n, c.fdeep))
    L.call('ecpSWU', b, a, c.ec, stack)
    if gbad(stack):
        return ('stack-overrun', stack.n - GUARD)
    x, y = c.to_ints(b.get())
    return (x, y)

def swu_check(c, s):
    """-> violation triple or None.  Preconditions (ecp.h): s in GF(p), p = 3 mod 4, A != 0, B != 0; for a non-residue B the
    header excepts s in {0, p-1}; s = 1 maps to the same t = -1 as p-1 and is excepted with them."""
    E = c.E
    want = RP.swu(E, s)
    with vf.Arena(c.L) as T:
        got = swu_call(c, T, s)
    over = got[0] == 'stack-overrun'
    if over or got != want or not E.is_on(got):
        cls = 'stack-overrun' if over else 'boundary s' if s in (0, 1, E.p - 1) else 'generic s'
        key = 'ecpSWU:%s' % cls
        rec = {'cfg': c.cfg, 'kind': 'swu', 'spec': list(c.spec), 's': hex(s)}
        if over:
            msg = 'ecpSWU(s=%#x) [%s, cfg %s] wrote past ecpSWU_deep = %d octets of its stack' % (s, spec_str(c.spec), c.cfg, got[1])
        else:
            msg = 'ecpSWU(s=%#x) [%s, cfg %s] = %s, STB 34.101.66 map gives %s (on curve: %s)' % (
                s, spec_str(c.spec), c.cfg, fmt_pt(got), fmt_pt(want), E.is_on(got))
        return key, rec, msg
    return None

def swu_admissible(E, s):
    if RP.legendre(E.b, E.p) != 1 and s in (0, 1, E.p - 1):
        return False
    return True

def swu_cell(case):
    c = get_ctx(case['cfg'], case['spec'])
    E = c.E
    assert E.p % 4 == 3 and E.a != 0 and E.b != 0
    svals = range(E.p) if case['s'] == 'all' else [int(s, 16) for s in case['s']]
    calls, viol = 0, []
    for s in svals:
        if not swu_admissible(E, s):
            continue
        v = swu_check(c, s)
        calls += 1
        if v and all(v[0] != w[0] for w in viol):
            viol.append(v)
    return {'calls': calls, 'viol': viol}

def swu_curves(tier):
    """small curves satisfying the preconditions of ecpSWU: p = 3 (mod 4), A != 0, B != 0 (both residue classes of B)"""
    out = []
    for p in (11, 19, 251) + ((1019,) if tier == 'thorough' else ()):
        for a in (p - 3, 1, 2):
            got = {1: 0, -1: 0}
            for b in range(1, p):
                E = RP.Curve(p, a, b)
                lg = RP.legendre(b, p)
                if E.is_nonsingular() and got[lg] < (2 if p < 100 or tier == 'thorough' else 1):
                    got[lg] += 1
                    out.append(('p', p, a, b))
    return out

# ------------------------------------------------------------------------------------------------ binary subfield curves
EC2_FIELDS_QUICK = [((70, 5, 3, 1), 5, [(0, 1), (1, 3), (2, 5)]), ((70, 5, 3, 1), 7, [(1, 1), (2, 3)]), ((77, 6, 5, 2), 7, [(0, 3)]),
                    ((105, 4, 0, 0), 5, [(1, 7)])]
EC2_FIELDS_THOROUGH = EC2_FIELDS_QUICK + [((105, 4, 0, 0), 7, [(0, 1), (5, 2)]), ((110, 33, 0, 0), 5, [(0, 9), (3, 1)]),
                                          ((77, 6, 5, 2), 11, [(1, 1)])]
EC2_FIELDS_W32 = [((35, 2, 0, 0), 5, [(2, 1)]), ((35, 2, 0, 0), 7, [(1, 2)])]
EC2_FIELDS_W32_THOROUGH = [((44, 5, 0, 0), 11, [(0, 3)])]

def ec2_jobs(tier):
    """[(cid, spec, table job, cfgs)]: complete curves over GF(2^d) embedded into GF(2^m) (see module docstring)"""
    out = []
    both = EC2_FIELDS_QUICK if tier == 'quick' else EC2_FIELDS_THOROUGH
    w32 = EC2_FIELDS_W32 + (EC2_FIELDS_W32_THOROUGH if tier == 'thorough' else [])
    for lst, cfgs in ((both, CFGS), (w32, ('w32',))):
        for poly, d, curves in lst:
            phi = embedding(poly, d)
            for a_s, b_s in curves:
                spec = ('2', poly, phi[a_s], phi[b_s])
                out.append(('sf:2^%d in 2^%d:a=%d:b=%d' % (d, poly[0], a_s, b_s), spec, ('sf', spec, (d, a_s, b_s)), cfgs))
    return out

# ------------------------------------------------------------------------------------------------ standard curves
BIGN_NAMES = ['1.2.112.0.2.0.34.101.45.3.1', '1.2.112.0.2.0.34.101.45.3.2', '1.2.112.0.2.0.34.101.45.3.3']
BIGN96_NAME = '1.2.112.0.2.0.34.101.45.3.0'

def std_list(tier):
    import g12s as RG, dstu as RD
    if tier == 'quick':
        return [('bign', BIGN_NAMES[0]), ('bign96', BIGN96_NAME), ('g12s', RG.STD_NAMES[1]), ('g12s', RG.STD_NAMES[6]),
                ('dstu', RD.STD_NAMES[0]), ('dstu', RD.STD_NAMES[1])]
    return [('bign', n) for n in BIGN_NAMES] + [('bign96', BIGN96_NAME)] + [('g12s', n) for n in RG.STD_NAMES] + [('dstu', n) for n in RD.STD_NAMES]

def lib_params(L, fam, name):
    """standard parameters as the LIBRARY tables give them (ints)"""
    le = lambda b: int.from_bytes(b, 'little')
    with vf.Arena(L) as T:
        out = T.buf(512, 0)
        code = L.err('vh_c06_params', {'bign': 0, 'bign96': 1, 'g12s': 2, 'dstu': 3}[fam], name.encode() + b'\0', out)
        if code:
            raise RuntimeError('%sParamsStd(%s) = %#x' % (fam, name, code))
        o = out.get()
    if fam in ('bign', 'bign96'):
        l = le(o[:8]); no = l // 4
        f = [le(o[8 + 64 * i:8 + 64 * i + no]) for i in range(5)]
        return {'p': f[0], 'a': f[1], 'b': f[2], 'q': f[3], 'G': (0, f[4]), 'h': 1}
    if fam == 'g12s':
        l, h = le(o[:8]), le(o[8:16]); o = o[16:]
        p = le(o[:68][:l // 8 + (4 if l == 512 else 2)]) if False else le(o[:68 * l // 512])
        no = (p.bit_length() + 7) // 8
        a, b = le(o[68:68 + no]), le(o[136:136 + no])
        q = le(o[204:204 + 64 * l // 512])
        return {'p': p, 'a': a, 'b': b, 'q': q, 'G': (le(o[268:268 + no]), le(o[336:336 + no])), 'h': h}
    poly = struct.unpack('<4Q', o[:32]); A, h = le(o[32:40]), le(o[40:48]); o = o[48:]
    no = (poly[0] + 7) // 8
    G = (le(o[128:128 + no]), le(o[128 + no:128 + 2 * no]))
    return {'poly': tuple(poly), 'a': A, 'b': le(o[:no]), 'q': le(o[64:64 + no]), 'G': G if G != (0, 0) else None, 'h': h}

def ref_params(fam, name):
    import g12s as RG, dstu as RD
    if fam in ('bign', 'bign96'):
        ps = [v for v in RP.STD.values() if v['oid'] == name][0]
        return {'p': ps['p'], 'a': ps['a'], 'b': ps['b'], 'q': ps['q'], 'G': (0, ps['yG']), 'h': 1}
    if fam == 'g12s':
        t = RG.params_std(name)
        return {'p': t['p'], 'a': t['a'], 'b': t['b'], 'q': t['q'], 'G': (t['xP'], t['yP']), 'h': t['n']}
    t = RD.params_std(name)
    return {'poly': tuple(t['p']), 'a': t['A'], 'b': t['B'], 'q': t['n'], 'G': t['P'], 'h': t['c']}

def std_points(E, prm, binary):
    """boundary points of a standard curve (reference arithmetic): G, -G, 2G, 3G, (q-1)G, points with x = 0,
    a point outside <G> and the small-order points q*R when the cofactor is > 1"""
    q, h, G = prm['q'], prm['h'], prm['G']
    x = 1
    R = None
    while R is None:
        x += 1
        ls = E.lift_x(x)
        if ls:
            R = ls[0]
    if G is None:                       # DSTU tables carry no base point for some curves: h * R has order q
        G = E.mul(h, R)
        assert G is not None and E.mul(q, G) is None
    pts = [G, E.neg(G), E.dbl(G), E.mul(q - 1, G)]
    if not binary:
        pts.append(E.mul(3, G))
    pts += E.lift_x(0)
    pts.append(R)
    if h > 1:
        S = E.mul(q, R)
        while S is not None and S not in pts:
            pts.append(S); S = E.dbl(S)
        if binary:
            pts.append(E.add(G, E.lift_x(0)[0]))
    out = []
    for P in pts:
        if P is not None and P not in out:
            assert E.is_on(P)
            out.append(P)
    return G, out

def create_group_check(c, G, q, h):
    """ecCreateGroup stores base point, order and cofactor exactly (and rejects cofactor 0 / an order longer than n + 1 words)"""
    L, n, W, no = c.L, c.n, c.W, c.no
    bad = []
    with vf.Arena(L) as T:
        stack = gbuf(T, L.sz('ecCreateGroup_deep', c.fdeep))
        xb, yb = T.buf(G[0].to_bytes(no, 'little')), T.buf(G[1].to_bytes(no, 'little'))
        qlen = (q.bit_length() + 7) // 8
        info = T.buf(16 * 8, 0)
        for olen in (qlen, (n + 1) * W):
            ob = T.buf(q.to_bytes(olen, 'little'))
            ok = L.boolean('ecCreateGroup', c.ec, xb, yb, ob, olen, h, stack)
            L.call('vh_c06_ec_info', c.ec, info)
            v = struct.unpack('<16Q', info.get())
            import ctypes
            base = ctypes.string_at(v[7], 2 * n * W)
            order = int.from_bytes(ctypes.string_at(v[8], (n + 1) * W), 'little')
            if not ok or base != c.elem(G[0]) + c.elem(G[1]) or order != q or v[9] != h:
                bad.append('order_len=%d: ret=%d base ok=%s order=%#x cofactor=%d' % (olen, ok, base == c.elem(G[0]) + c.elem(G[1]), order, v[9]))
        ob = T.buf(q.to_bytes(qlen, 'little'))
        if L.boolean('ecCreateGroup', c.ec, xb, yb, ob, qlen, 0, stack):
            bad.append('cofactor 0 accepted')
        big = T.buf(((1 << (8 * (n + 1) * W)) + 1).to_bytes((n + 1) * W + 1, 'little'))
        if L.boolean('ecCreateGroup', c.ec, xb, yb, big, big.n, h, stack):
            bad.append('order of n + 2 words accepted')
        L.boolean('ecCreateGroup', c.ec, xb, yb, ob, qlen, h, stack)
        if gbad(stack):
            bad.append('wrote past ecCreateGroup_deep octets of the stack')
    if bad:
        return ('ecCreateGroup', {'cfg': c.cfg, 'kind': 'group_create', 'spec': list(c.spec), 'G': list(G), 'q': hex(q), 'h': h},
                'ecCreateGroup [%s, cfg %s]: %s' % (spec_str(c.spec), c.cfg, '; '.join(bad)))
    return None

def std_group_validators(c, G, q, h, ref, binary):
    """ecpSeemsValidGroup / ec2SeemsValidGroup on a standard curve: the headers define the predicate exactly --
    ecIsOperableGroup, base on the curve, |order * cofactor - (N0 + 1)| <= 2 sqrt(N0) with N0 = p resp. 2^m (compared as squares) -- so the
    order is replaced by q + delta for deltas on both sides of the Hasse boundary, at the boundary itself and far beyond it.
    -> (violation tuple or None, calls)"""
    L, n, W, no = c.L, c.n, c.W, c.no
    pre = 'ec2' if binary else 'ecp'
    N0 = (1 << (ref['poly'][0] if isinstance(ref['poly'], (list, tuple)) else ref['poly'].bit_length() - 1)) if binary else ref['p']
    def hasse(order):
        return (order * h - N0 - 1) ** 2 <= 4 * N0
    import math
    r = math.isqrt(4 * N0)
    # largest / smallest admissible order (exact boundary), then classes beyond it
    hi = (N0 + 1 + r) // h; lo = -((-(N0 + 1 - r)) // h)
    cand = {q: 'true order', hi: 'upper Hasse boundary', hi + 1: 'upper boundary + 1', lo: 'lower Hasse boundary', lo - 1: 'lower boundary - 1'}
    for e in (1, 2, 8, 16, 32, 64):
        cand.setdefault(hi + (1 << e), 'upper boundary + 2^%d' % e); cand.setdefault(lo - (1 << e), 'lower boundary - 2^%d' % e)
    hb = N0.bit_length()
    for e in (hb // 2 + 2, hb // 2 + 8, hb // 2 + 24, (3 * hb) // 4, hb - 16, hb - 2):
        cand.setdefault(q + (1 << e), 'q + 2^%d' % e)
        if q - (1 << e) > 0:
            cand.setdefault(q - (1 << e), 'q - 2^%d' % e)
    bad = []; calls = 0
    with vf.Arena(L) as T:
        cst = gbuf(T, L.sz('ecCreateGroup_deep', c.fdeep))
        st = gbuf(T, L.sz(pre + 'SeemsValidGroup_deep', n, c.fdeep))
        xb, yb = T.buf(G[0].to_bytes(no, 'little')), T.buf(G[1].to_bytes(no, 'little'))
        def setgroup(order):
            ol = max(1, (order.bit_length() + 7) // 8)
            return L.boolean('ecCreateGroup', c.ec, xb, yb, T.buf(order.to_bytes(ol, 'little')), ol, h, cst)
        for order, label in sorted(cand.items()):
            if order <= 0 or order.bit_length() > 8 * (n + 1) * W or not setgroup(order):
                continue
            got = L.boolean(pre + 'SeemsValidGroup', c.ec, st); calls += 2
            exp = int(hasse(order))
            if got != exp:
                bad.append('%s (order = q %+d): returned %d, the documented predicate gives %d' % (label, order - q, got, exp))
        if gbad(st):
            bad.append('wrote past %sSeemsValidGroup_deep octets of the stack' % pre)
        # xxxIsSafeGroup: order prime, order != N0, N0^i != 1 (mod order) for every i <= mov_threshold.  The standard order with several
        # thresholds, composite multiples of it, and small prime orders r whose embedding degree k = ord_r(N0) is known: the loop bound
        # is hit from both sides (thresholds k - 1, k, k + 1)
        sst = gbuf(T, L.sz(pre + 'IsSafeGroup_deep', n))
        def safe_exp(order, mov):
            if not RP.is_prime(order) or order == N0:
                return 0
            t = 1
            for i in range(1, mov + 1):
                t = t * N0 % order
                if t == 1:
                    return 0
            return 1
        rows = [(q, mov) for mov in (0, 1, 2, 8, 50)] + [(3 * q, 0), (q * q if (q * q).bit_length() <= 8 * (n + 1) * W else 9 * q, 0)]
        for r in (3, 5, 7, 11, 13, 31, 127, 8191, 131071, 524287, 2147483647):
            if N0 % r in (0, 1) and not binary:
                rows += [(r, 0), (r, 1)]; continue
            k = 1; t = N0 % r
            while t != 1 and k < 3000:
                t = t * N0 % r; k += 1
            if t == 1:
                rows += [(r, m_) for m_ in sorted({0, max(0, k - 1), k, k + 1})]
        for order, mov in rows:
            if order.bit_length() > 8 * (n + 1) * W or not setgroup(order):
                continue
            got = L.boolean(pre + 'IsSafeGroup', c.ec, mov, sst); calls += 2
            exp = safe_exp(order, mov)
            if got != exp:
                bad.append('%sIsSafeGroup(order %s, mov_threshold %d) returned %d, the documented predicate gives %d' % (
                    pre, 'q' if order == q else '%d q' % (order // q) if order % q == 0 else str(order), mov, got, exp))
        if gbad(sst):
            bad.append('wrote past %sIsSafeGroup_deep octets of the stack' % pre)
        setgroup(q)
    if bad:
        return ('%s%s' % (pre, 'IsSafeGroup:mov' if 'IsSafeGroup' in bad[0] else 'SeemsValidGroup:hasse'), {'cfg': c.cfg, 'kind': 'std_group', 'spec': list(c.spec), 'G': list(G), 'q': hex(q), 'h': h, 'binary': binary,
                                                   'N0': hex(N0)},
                'group validators of %s.h [%s, cfg %s]: %s' % (pre, spec_str(c.spec), c.cfg, '; '.join(bad[:4]))), calls
    return None, calls

def std_cell(case):
    """one standard curve, all configurations (the reference results are shared between them)"""
    fam, name, tier = case['fam'], case['name'], case['tier']
    viol, calls, parts = [], 0, {}
    def addv(v):
        if v and all(v[0] != w[0] for w in viol) and len(viol) < 6:
            viol.append(v)
    ref = ref_params(fam, name)
    binary = fam == 'dstu'
    mulc = {}
    for cfg in case['cfgs']:
        L = common.lib(cfg)
        lp = lib_params(L, fam, name)
        if lp != ref and not (binary and lp['G'] is None and {k: v for k, v in lp.items() if k != 'G'} == {k: v for k, v in ref.items() if k != 'G'}):
            addv(('std-params:%s' % fam, {'cfg': cfg, 'kind': 'params', 'fam': fam, 'name': name},
                  '%sParamsStd(%s): the library table differs from the standard: %r' % (fam, name, sorted(k for k in ref if ref[k] != lp.get(k)))))
            continue
        spec = ('2', ref['poly'], ref['a'], ref['b']) if binary else ('p', ref['p'], ref['a'], ref['b'])
        c = get_ctx(cfg, spec)
        E, q, h = c.E, ref['q'], ref['h']
        if 'pts' not in mulc:
            mulc['pts'] = std_points(E, ref, binary)
        G, pts = mulc['pts']
        def rmul(k, P):
            if (k, P) not in mulc:
                mulc[(k, P)] = E.mul(k, P)
            return mulc[(k, P)]
        W, n = c.W, c.n
        nq = (q.bit_length() + 8 * W - 1) // (8 * W)
        addv(create_group_check(c, G, q, h)); calls += 5
        v, k = std_group_validators(c, G, q, h, ref, binary); addv(v); calls += k
        # ecpSWU over the multi-word fields of the standard curves (Crandall, Barrett and MONTGOMERY representations: the internal form of
        # the field unity differs), wherever its preconditions hold: p = 3 (mod 4), A != 0, B != 0
        if not binary and E.p % 4 == 3 and E.a != 0 and E.b != 0:
            for s_ in [2, 3, 5, E.p - 2, E.p // 2, (E.p + 1) // 2] + [fint('swu/%s/%d' % (name, i), 2, E.p - 2) for i in range(8 if tier == 'quick' else 40)] + [0, 1, E.p - 1]:
                if swu_admissible(E, s_):
                    addv(swu_check(c, s_)); calls += 1
        # (a) function table on all ordered pairs of the boundary set
        In = [None] + pts
        n0 = calls
        for op in ('add', 'sub', 'adda', 'suba', 'neg', 'dbl', 'tpl', 'toa', 'froma', 'dbla', 'addaa', 'subaa', 'nega'):
            if op == 'tpl' and not c.has_tpl:
                continue
            shape = OPS[op][1]
            for alias in ((0, 1, 2, 3) if shape in ('pp', 'pa') else (0,) if shape == 'aa' or op == 'nega' else (0, 1)):
                A_ = In if shape in ('pp', 'pa', 'p') and not (shape == 'pa' and alias == 3) else pts
                B_ = (In if shape == 'pp' else pts) if shape in ('pp', 'pa', 'aa') else None
                if alias == 3:
                    B_ = A_
                lps = DIAG_LP if shape == 'pp' and alias != 3 else [(0, 0)] if shape in ('a', 'aa') or (shape == 'pa' and alias == 3) else [(a, 0) for a in range(4)]
                def exp_row(i, A_=A_, B_=B_, op=op, alias=alias):
                    if B_ is None:
                        ks = [(op, A_[i], None)]
                    elif alias == 3:
                        ks = [(op, A_[i], A_[i])]
                    else:
                        ks = [(op, A_[i], Q) for Q in B_]
                    for k in ks:
                        if k not in mulc:
                            mulc[k] = ref_apply(E, k[0], k[1], k[2])
                    return [mulc[k] for k in ks]
                for la, lb in lps:
                    cnt, mm = run_pairs(c, op, alias, la, lb, A_, B_, exp_row)
                    calls += cnt
                    if mm:
                        addv(pair_violation(c, op, alias, la, lb, A_[mm['i']], B_[mm['j']] if B_ is not None else None, mm))
        parts['pairs'] = parts.get('pairs', 0) + calls - n0
        # (b) scalar multiples
        n0 = calls
        fil = fint('k/' + name, 3, q - 2)
        alpha = [0, 1, 2, q - 1, q, q + 1, 2 * q, fil, h * q, q // 2]
        for m in sorted(set([nq, n + 1] + ([1] if tier == 'thorough' else []))):
            B = 1 << (8 * W * m)
            ks = sorted(set([k for k in alpha if k < B] + [B - 1]))
            if m == 1:
                ks = [k for k in ks if k < 4] + [B - 1]
            ex = {}
            cnt, mm = run_mul(c, 0, pts, ks, m, lambda i, j: rmul(ks[j], pts[i]))
            calls += cnt
            if mm:
                addv(mul_violation(c, 0, pts[mm['i']], ks[mm['j']], m, mm))
            qs = [k for k in ks if k > 0]
            cnt, mm = run_mul(c, 1, pts, qs, m, lambda i, j: rmul(qs[j], pts[i]) is None)
            calls += cnt
            if mm:
                addv(mul_violation(c, 1, pts[mm['i']], qs[mm['j']], m, mm))
        parts['scalars'] = parts.get('scalars', 0) + calls - n0
        # (c) sums of multiples
        n0 = calls
        S = [0, 1, 2, q - 1, q, q + 1, fil]
        am = AddMul(c)
        try:
            prs = [(G, G), (G, E.neg(G)), (G, E.dbl(G)), (E.dbl(G), G)] + ([(G, pts[-1])] if pts[-1] != G else [])
            tl = []
            for P1, P2 in prs:
                for a in S:
                    for b in S:
                        tl.append([(P1, a, nq), (P2, b, n + 1 if (a + b) % 2 else nq)])
            S3 = [1, q - 1, fil]
            for a in S3:
                for b in S3:
                    for d in S3 + [0]:
                        tl.append([(G, a, nq), (E.neg(G), b, nq), (E.dbl(G), d, n + 1)])
            for P in pts[:3]:
                for a in S:
                    tl.append([(P, a, n + 1)])
            for terms in tl:
                want = None
                for P, k, m in terms:
                    want = E.add(want, rmul(k, P))
                got = am.call(terms)
                calls += 1
                if got != want:
                    addv(addmul_violation(c, terms, got, want))
        finally:
            am.close()
        parts['addmul'] = parts.get('addmul', 0) + calls - n0
        # (d) on-curve predicate, SWU
        n0 = calls
        for rx, ry in ison_points(c, pts) + (ec2_noncanon(c) if binary else []):
            want = ison_expected(c, rx, ry)
            with vf.Arena(L) as T:
                got = ison_call(c, T, rx, ry)
            calls += 1
            if got != want:
                addv(ison_violation(c, rx, ry, got, want))
        if not binary and E.p % 4 == 3 and E.a and E.b:
            p = E.p
            for s in [0, 1, 2, p - 1, p - 2, (p - 1) // 2] + [fint('swu/%s/%d' % (name, i), 3, p - 3) for i in range(3)]:
                if swu_admissible(E, s):
                    addv(swu_check(c, s)); calls += 1
        parts['ison_swu'] = parts.get('ison_swu', 0) + calls - n0
    return {'calls': calls, 'viol': viol, 'parts': parts, 'npts': len(mulc.get('pts', (0, []))[1])}

# ------------------------------------------------------------------------------------------------ driver

# ------------------------------------------------------------------------------------------------ curve / group validators
def validator_curves(tier):
    """prime-field curves for the group validators: for p in {251, 1021 (, 65521)} the curves y^2 = x^3 + a x + b, a in {p - 3, 1, 2},
    b = 1.. until a stated number of curves with a prime-order subgroup q > 3 has been found; the embedding degree of each is known"""
    out = []
    for p, cnt in ((251, 8), (1021, 6 if tier == 'quick' else 16)) + (((65521, 6),) if tier == 'thorough' else ()):
        for a in (p - 3, 1, 2):
            k = 0
            for b in range(1, p):
                E = RP.Curve(p, a, b)
                if not E.is_nonsingular():
                    continue
                out.append((p, a, b)); k += 1
                if k >= cnt:
                    break
    return out

def validators_cell(case):
    """ecpIsValid / ecpSeemsValidGroup / ecpIsSafeGroup (ecp.h) on small curves whose group the reference knows completely:
    safe group <=> order prime, order != p, and p^i != 1 (mod order) for all i <= mov_threshold, i.e. mov_threshold < embedding degree"""
    c = get_ctx(case['cfg'], case['spec'])
    L, n, W, no, E = c.L, c.n, c.W, c.no, c.E
    p = c.size
    viol = []; calls = 0
    def bad(key, msg, **kw):
        if all(key != v[0] for v in viol):
            viol.append(('ecp:validators:' + key, {'cfg': c.cfg, 'kind': 'cell', 'case': jcase(case)}, '%s [%s, cfg %s]' % (msg, spec_str(c.spec), c.cfg)))
    N = E.group_order()
    fac = factor(N)
    q = max(fac)
    h = N // q
    # a point of order q
    G = None
    for x in range(p):
        for R in E.lift_x(x):
            T = E.mul(h, R)
            if T is not None and E.mul(q, T) is None:
                G = T; break
        if G:
            break
    if G is None:
        return {'calls': 0, 'viol': []}
    def mkgroup(T, base, order, cof):
        xb, yb = T.buf(base[0].to_bytes(no, 'little')), T.buf(base[1].to_bytes(no, 'little'))
        ol = max(1, (order.bit_length() + 7) // 8)
        return L.boolean('ecCreateGroup', c.ec, xb, yb, T.buf(order.to_bytes(ol, 'little')), ol, cof, gbuf(T, L.sz('ecCreateGroup_deep', c.fdeep)))
    with vf.Arena(L) as T:
        st_v = gbuf(T, L.sz('ecpIsValid_deep', n, c.fdeep))
        st_g = gbuf(T, L.sz('ecpSeemsValidGroup_deep', n, c.fdeep))
        st_s = gbuf(T, L.sz('ecpIsSafeGroup_deep', n))
        def guards(what):
            for nm, b in (('ecpIsValid_deep', st_v), ('ecpSeemsValidGroup_deep', st_g), ('ecpIsSafeGroup_deep', st_s)):
                if gbad(b):
                    bad('stack:' + nm, '%s wrote past %s octets of its stack' % (what, nm))
        if not mkgroup(T, G, q, h):
            return {'calls': 1, 'viol': [('ecp:validators:ecCreateGroup', {'cfg': c.cfg, 'kind': 'cell', 'case': jcase(case)}, 'ecCreateGroup refused a valid group [%s]' % spec_str(c.spec))]}
        calls += 1
        if not L.boolean('ecpIsValid', c.ec, st_v):
            bad('ecpIsValid:valid-rejected', 'ecpIsValid = FALSE for a non-singular curve over a prime field')
        if not L.boolean('ecpSeemsValidGroup', c.ec, st_g):
            bad('ecpSeemsValidGroup:valid-rejected', 'ecpSeemsValidGroup = FALSE for the true (base, order %d, cofactor %d)' % (q, h))
        calls += 2
        # safe group: prime order q != p and mov_threshold below the embedding degree
        if q != p and q > 3 and RP.is_prime(q):
            k = 1; t = p % q
            while t != 1:
                t = t * p % q; k += 1
            for mov in sorted(set([0, 1, 2, k - 2, k - 1, k, k + 1, k + 5, 2 * k]) & set(range(0, 4000))):
                got = L.boolean('ecpIsSafeGroup', c.ec, mov, st_s); calls += 1
                exp = int(mov < k)
                if got != exp:
                    bad('ecpIsSafeGroup:%s' % ('unsafe-accepted' if got else 'safe-rejected'),
                        'ecpIsSafeGroup(order %d, mov_threshold %d) = %d; the order divides p^%d - 1 and no smaller power (ecp.h: rejected iff i <= mov_threshold exists)' % (q, mov, got, k))
        elif q == p:
            if L.boolean('ecpIsSafeGroup', c.ec, 0, st_s):
                bad('ecpIsSafeGroup:anomalous-accepted', 'ecpIsSafeGroup accepts order = p (anomalous curve)')
            calls += 1
        guards('a validator on the true group')
        # composite order: the whole group (cofactor 1) when N is composite and a point of order N exists; else order q * h' ...
        if h > 1:
            for x in range(p):
                Rs = E.lift_x(x)
                if Rs and E.mul(N, Rs[0]) is None and all(E.mul(N // f, Rs[0]) is not None for f in fac):
                    if mkgroup(T, Rs[0], N, 1):
                        if L.boolean('ecpIsSafeGroup', c.ec, 0, st_s):
                            bad('ecpIsSafeGroup:composite-order-accepted', 'ecpIsSafeGroup accepts the composite order %d' % N)
                        calls += 2
                    break
        # Hasse bound: an order far outside [p + 1 - 2 sqrt p, p + 1 + 2 sqrt p]
        for fake in (q * h + 4 * int(p ** 0.5) + 8, max(1, q * h - 4 * int(p ** 0.5) - 8)):
            if mkgroup(T, G, fake, 1):
                if L.boolean('ecpSeemsValidGroup', c.ec, st_g):
                    bad('ecpSeemsValidGroup:hasse', 'ecpSeemsValidGroup accepts order * cofactor = %d for p = %d (Hasse interval violated)' % (fake, p))
                calls += 2
        # base point off the curve
        off = next(((x, y) for x in range(1, p) for y in range(1, 3) if not E.is_on((x, y))), None)
        if off and mkgroup(T, off, q, h):
            if L.boolean('ecpSeemsValidGroup', c.ec, st_g):
                bad('ecpSeemsValidGroup:base-off-curve', 'ecpSeemsValidGroup accepts the base point %s which is not on the curve' % (off,))
            calls += 2
        guards('a validator on an altered group')
        mkgroup(T, G, q, h)
    return {'calls': calls, 'viol': viol}

def stdswu_cell(case):
    """ecpSWU on one standard prime curve in every configuration (all standard curves, also those the quick tier does not run the full
    table on): boundary and filler field elements against the map of STB 34.101.66 and the curve equation"""
    fam, name, tier = case['fam'], case['name'], case['tier']
    ref = ref_params(fam, name)
    viol, calls = [], 0
    for cfg in case['cfgs']:
        c = get_ctx(cfg, ('p', ref['p'], ref['a'], ref['b']))
        E = c.E
        if not (E.p % 4 == 3 and E.a != 0 and E.b != 0):
            continue
        for s_ in [2, 3, 5, E.p - 2, E.p // 2, (E.p + 1) // 2] + [fint('swu/%s/%d' % (name, i), 2, E.p - 2) for i in range(8 if tier == 'quick' else 40)] + [0, 1, E.p - 1]:
            if swu_admissible(E, s_):
                v = swu_check(c, s_); calls += 1
                if v and all(v[0] + v[1]['cfg'] != w[0] + w[1]['cfg'] for w in viol):
                    viol.append(v)
    return {'calls': calls, 'viol': viol}

CELLS = {'stdswu': stdswu_cell, 'validators': validators_cell, 'group': group_cell, 'scalar': scalar_cell, 'addmul': addmul_cell, 'isonsweep': ison_sweep_cell, 'ison': ison_cell,
         'swu': swu_cell, 'std': std_cell}

def run_cell(case):
    if 'tjob' in case and case['cid'] not in TABLES:
        TABLES[case['cid']] = build_table(case['tjob'])
    import time
    t0 = time.time()
    r = CELLS[case['kind']](case)
    r['dt'] = time.time() - t0
    return r

def cell_name(case):
    k = case['kind']
    if k == 'group':
        return 'group:%s:%s:alias=%s' % (case['cid'], case['op'], ALIAS_NAME[case['alias']])
    if k == 'scalar':
        return '%s:%s:m=%d:%s' % ('ecMulA' if case['mode'] == 0 else 'ecHasOrderA', case['cid'], case['m'], case['layout'])
    if k == 'addmul':
        return 'ecAddMulA:%s:%s' % (case['cid'], case['sub'])
    if k in ('std', 'stdswu'):
        return '%s:%s:%s' % (k, case['fam'], case['name'])
    return '%s:%s' % (k, case.get('cid') or spec_str(case['spec']))

def jcase(case):
    """JSON-able copy of a case"""
    def conv(v):
        if isinstance(v, tuple):
            return [conv(x) for x in v]
        if isinstance(v, list):
            return [conv(x) for x in v]
        if isinstance(v, dict):
            return {k: conv(x) for k, x in v.items()}
        return v
    return conv(case)

def ucase(case):
    """case read back from JSON: restore the hashable specs"""
    case = dict(case)
    if 'spec' in case:
        case['spec'] = tspec(case['spec'])
    if 'tjob' in case:
        kind, spec, extra = case['tjob']
        extra = tuple(extra) if extra is not None else None
        case['tjob'] = (kind, tspec(spec), extra)
    if 'lpairs' in case:
        case['lpairs'] = [tuple(x) for x in case['lpairs']]
    return case

def cost(case):
    """rough relative cost, used only to spread the heavy cells over the workers"""
    k = case['kind']
    n = case.get('nU', 50)
    bits = case.get('bits', 64)
    f = 1 + bits / 64.0
    if k == 'std':
        return 3e7 * (bits / 160.0) ** 3 if case['fam'] == 'dstu' else 2e6 * f
    if k == 'group':
        sh = OPS[case['op']][1]
        return len(case['lpairs']) * (n * n if sh in ('pp', 'pa', 'aa') and case['alias'] != 3 else n) * f
    if k == 'scalar':
        return (n if case['pts'] == 'all' else 15) * 2 * n * case['m'] * 30 * f
    if k == 'addmul':
        return {'k1': n * n * 60, 'k1m': 1e5, 'k2': 2e6, 'k2m': 4e6, 'k3': 1.5e7}[case['sub']] * f
    return n * n

def all_cases(tier, tables_out):
    """builds the closed point sets (reference, in parallel) and returns the list of cells"""
    tjobs = []
    for p, label, a, b in small_curves(tier):
        spec = ('p', p, a, b)
        tjobs.append(('small:p=%d:A=%d:B=%d' % (p, a, b), spec, ('small', spec, None), CFGS, label))
    for cid, spec, job in mw_jobs(tier):
        tjobs.append((cid, spec, job, CFGS, 'subgroup of y^2=x^3%+dx over a multi-word prime' % (1 if spec[2] == 1 else -3)))
    for cid, spec, job, cfgs in ec2_jobs(tier):
        tjobs.append((cid, spec, job, cfgs, 'complete subfield curve'))
    res = vf.pmap(build_table, [t[2] for t in tjobs], case_timeout=900)
    cases = []
    info = []
    for (cid, spec, job, cfgs, label), tab in zip(tjobs, res):
        if 'U' not in tab:
            raise RuntimeError('reference table for %s failed: %s' % (cid, str(tab)[:2000]))
        TABLES[cid] = tab
        nU = tab['N']
        bits = spec[1].bit_length() if spec[0] == 'p' else spec[1][0]
        info.append({'curve': cid, 'class': label, 'points': nU, 'point_orders': sorted(set(tab['ord']))[:16]})
        tiny = nU <= 40
        for cfg in cfgs:
            W = 8 if cfg == 'rel' else 4
            new = []
            full = bits <= 64 and nU <= 300
            gc = group_cases(cfg, cid, spec, nU, tier)
            for g in gc:
                if len(g['lpairs']) == 16 and not full:
                    g['lpairs'] = DIAG_LP if nU > 100 or tier == 'quick' else DIAG_LP + [(0, 1), (1, 0), (2, 2), (3, 3)]
                if nU > 1500:
                    g['lpairs'] = g['lpairs'][:2] if len(g['lpairs']) > 2 else g['lpairs']
            new += gc
            if spec[0] == 'p' and bits <= 64 and not cid.startswith('mw:'):
                new += scalar_cases(cfg, cid, spec, nU, tier, W)
                light = tier == 'quick' and (a_index(cid) % 3 != 0)
                new += [x for x in addmul_cases(cfg, cid, spec, nU, tier) if not (light and x['sub'] in ('k2m', 'k3'))]
                new.append({'kind': 'isonsweep', 'cfg': cfg, 'cid': cid, 'spec': spec})
            else:
                # multi-word fields: scalars on representatives only, two lengths per window width
                ml = m_list(W, 'quick')
                for m in (ml if tier == 'thorough' else ml[::2] + ml[-1:]):
                    for layout in ('pad', 'top'):
                        new.append({'kind': 'scalar', 'cfg': cfg, 'cid': cid, 'spec': spec, 'm': m, 'layout': layout, 'mode': 0, 'pts': 'reps' if nU > 40 else 'all'})
                    new.append({'kind': 'scalar', 'cfg': cfg, 'cid': cid, 'spec': spec, 'm': m, 'layout': 'mid', 'mode': 1, 'pts': 'reps' if nU > 40 else 'all'})
                if nU <= 300:
                    new += [x for x in addmul_cases(cfg, cid, spec, nU, tier) if x['sub'] in (('k1m', 'k2', 'k3') if tier == 'thorough' and nU <= 100 else ('k1m', 'k2'))]
                new.append({'kind': 'ison', 'cfg': cfg, 'cid': cid, 'spec': spec})
            for x in new:
                x['tjob'] = job; x['nU'] = nU; x['bits'] = bits
            cases += new
    for spec in swu_curves(tier):
        for cfg in CFGS:
            cases.append({'kind': 'swu', 'cfg': cfg, 'spec': spec, 's': 'all', 'nU': spec[1], 'bits': 10})
    for p, a, b in validator_curves(tier):
        for cfg in CFGS:
            cases.append({'kind': 'validators', 'cfg': cfg, 'spec': ('p', p, a, b), 'nU': 40, 'bits': 16})
    import g12s as RG, dstu as RD
    for fam, name in std_list(tier):
        r = ref_params(fam, name)
        bits = r['poly'][0] if fam == 'dstu' else r['p'].bit_length()
        cases.append({'kind': 'std', 'fam': fam, 'name': name, 'tier': tier, 'cfgs': list(CFGS), 'bits': bits})
    for fam, name in std_list('thorough'):
        if fam != 'dstu':
            cases.append({'kind': 'stdswu', 'fam': fam, 'name': name, 'tier': tier, 'cfgs': list(CFGS), 'bits': ref_params(fam, name)['p'].bit_length()})
    seen = set()
    for cid, spec, job, cfgs in ec2_jobs(tier):
        poly = spec[1]
        if poly in seen:
            continue
        seen.add(poly)
        F = field2(poly); hb = 1 << ((F.f ^ (1 << F.m)).bit_length() - 1)
        for cfg in cfgs:
            cases.append({'kind': 'ison', 'cfg': cfg, 'spec': ('2', poly, 1, F.sqr(hb | 1)), 'pts': [[0, hb | 1]], 'nU': 10, 'bits': poly[0]})
    tables_out.extend(info)
    return cases

def a_index(cid):
    return int(hashlib.sha256(cid.encode()).hexdigest(), 16) % 97

RULE = ('complete small curves over GF(p), p in {11,13,251,(1021)} chosen by group class (prime / odd / one or three points of order 2, '
        'A = -3 / A = 0 / B = 0 / generic): EVERY ordered pair (P,Q) incl. O through add, sub, adda, suba (+ neg, dbl, tpl, froma, toa, dbla) '
        'with Z scales {1,2,p-1,filler}^2 and four representations of O, aliasing c=a, c=b, a=b; ecpAddAA/SubAA/NegA; ecpIsOnA on all raw '
        '(x,y) in [0,p+1]^2; ecMulA for EVERY k in 0..2ord+2 x 4 word layouts (padded, k+J*ord with tiny top word, just below B^m, filler) x '
        'every length class of the window selection; ecHasOrderA; ecAddMulA with 1..3 terms; closed subgroups (order 72 cyclic / Z2xZ36, 210) '
        'of y^2=x^3+x and y^2=x^3-3x over 2..8-word primes (plain, Montgomery, Crandall rings); complete curves over GF(2^5), GF(2^7), '
        'GF(2^11) embedded in GF(2^m), m in {70,77,105,110,(35,44 in w32)}; ecpSWU on every admissible field element of small curves; '
        'boundary points x boundary scalars on bign128/192/256, bign96, GOST and DSTU standard curves; configurations rel and w32; '
        'every scratch stack is exactly xxx_deep octets followed by a guard zone')

def run(tier):
    chk = vf.Check(PROP, tier, deadline_s=900 if tier == 'quick' else 3600)
    info = []
    cases = all_cases(tier, info)
    order = sorted(range(len(cases)), key=lambda i: -cost(cases[i]))
    cases = [cases[i] for i in order]
    res = vf.pmap(run_cell, cases, case_timeout=1500)
    kinds = {}
    widths = set()
    for case, r in zip(cases, res):
        name = cell_name(case)
        kind = case['kind'] if case['kind'] != 'scalar' else ('ecMulA' if case['mode'] == 0 else 'ecHasOrderA')
        cls = (case.get('cid') or 'x').split(':')[0]
        cls = {'small': 'small_p%s' % (case.get('cid') or '::').split(':')[1][2:], 'mw': 'multiword', 'sf': 'gf2_subfield'}.get(cls, '')
        part = kind + (':' + case['sub'] if 'sub' in case else '') + (':' + cls if cls else '')
        if 'calls' not in r:
            txt = (r.get('stderr') or r.get('harness_error') or '')[-700:]
            what = r.get('crash') or 'harness error'
            fam = 'ec2' if case.get('spec', ('p',))[0] == '2' else 'ecp'
            key = 'crash:%s:%s:%s' % (fam, kind, case.get('op') or case.get('sub') or case.get('fam') or '')
            chk.violation(key, {'cfg': case.get('cfg', 'rel'), 'kind': 'cell', 'case': jcase(case)},
                          'cell %s (cfg %s): the process executing it died / failed: %s\n%s' % (name, case.get('cfg'), what, txt))
            continue
        k = kinds.setdefault(part, [0, 0, 0.0])
        k[0] += 1; k[1] += r['calls']; k[2] += r.get('dt', 0)
        if 'width' in r:
            widths.add((case['cfg'], r['width']))
        chk.outcome('%s ok' % kind if not r['viol'] else '%s VIOLATION' % kind)
        if r.get('skipped'):
            chk.outcome('tpl absent (ec2 table)')
        for key, rec, msg in r['viol']:
            chk.violation(key, rec, msg)
    for kind, (ncell, ncalls, dt) in sorted(kinds.items()):
        chk.part(kind, states=ncell, transitions=ncalls, traces_validated_against_impl=ncalls, evaluations=ncalls, cpu_s=round(dt, 1))
    chk.part('closed_point_sets', curves=len(info), distinct_nontrivial=len(info))
    for x in info[:3] + info[len(info) // 2:len(info) // 2 + 2] + info[-3:]:
        chk.sample(x)
    chk.sample({'window_widths_reached (cfg, w)': sorted(widths)})
    chk.sample({'cells': len(cases), 'heaviest': [cell_name(c) for c in cases[:4]]})
    chk.assumptions += [
        'gf2Create refuses every polynomial with m - k < B_PER_W, so GF(2^5), GF(2^7), GF(2^11) cannot be built; the complete curves over these fields '
        'are exhausted as subfield curves inside GF(2^m), m = 70, 77, 105, 110 (35, 44 in w32): E(GF(2^d)) is closed under the group law and the '
        'Lopez-Dahab code runs on the real multi-word field with Z scales from the big field; the carried group table is validated against ref/ec2.py over the big field',
        'the fully aliased call a = b = c is excluded (ec.h is ambiguous about it); a = b for adda/suba is run only with Z = 1 (same pointer read as affine point)',
        'the affine functions ecpAddAA/SubAA/NegA, ec2AddAA/SubAA/NegA are called with distinct buffers only (the headers document no aliasing; ec2AddAA asserts it)',
        'ecpSWU: for a non-residue B the header excepts s in {0, p-1}; s = 1 maps to the same t = -1 and is excepted with them (observation, not a violation)',
        'values of multi-word operands are boundary classes + filler, shapes (pairs, aliasing, scalar lengths, layouts) are complete',
        'ecMulA with m = 0 words is not generated; scalars of ecHasOrderA are > 0 (precondition)',
        'the C helper drv/vh_c06.c only calls the library and stores raw outputs; expected values come from ref/ecp.py, ref/ec2.py and are compared here']
    return chk.finish('C06', RULE)

def replay(rec):
    k = rec['kind']
    if k == 'pair':
        return check_single_pair(rec)
    if k == 'mul':
        return check_single_mul(rec)
    if k == 'addmul':
        return check_single_addmul(rec)
    if k == 'ison':
        return check_single_ison(rec)
    if k == 'swu':
        c = get_ctx(rec['cfg'], tspec(rec['spec']))
        v = swu_check(c, int(rec['s'], 16))
        return v[2] if v else None
    if k == 'group_create':
        c = get_ctx(rec['cfg'], tspec(rec['spec']))
        v = create_group_check(c, tuple(rec['G']), int(rec['q'], 16), rec['h'])
        return v[2] if v else None
    if k == 'std_group':
        c = get_ctx(rec['cfg'], tspec(rec['spec']))
        binary = rec['binary']
        N0 = int(rec['N0'], 16)
        ref = {'poly': (N0.bit_length() - 1,)} if binary else {'p': N0}
        v, _ = std_group_validators(c, tuple(rec['G']), int(rec['q'], 16), rec['h'], ref, binary)
        return v[2] if v else None
    if k == 'params':
        L = common.lib(rec['cfg'])
        if lib_params(L, rec['fam'], rec['name']) != ref_params(rec['fam'], rec['name']):
            return '%sParamsStd(%s) differs from the standard table' % (rec['fam'], rec['name'])
        return None
    if k == 'cell':
        # a whole cell (crashes): executed in a forked child so that a crash is an observation
        case = ucase(rec['case'])
        r = vf.pmap(run_cell, [case], nproc=1, case_timeout=1500)[0]
        if 'calls' not in r:
            return 'cell %s: %s\n%s' % (cell_name(case), r.get('crash') or 'harness error', (r.get('stderr') or r.get('harness_error') or '')[-700:])
        if r['viol']:
            return r['viol'][0][2]
        return None
    return None
