"""C06 -- EC group law and scalar multiplication are exact in every special case.
E1: complete small curves over one-word primes, closed subgroups of supersingular curves over multi-word primes,
complete subfield curves E(GF(2^d)) inside GF(2^m) (gf2Create refuses m - k < B_PER_W, so GF(2^5) itself cannot be
built), boundary points x boundary scalars on the standard bign / bign96 / GOST / DSTU curves.
Oracle: ref/ecp.py, ref/ec2.py (affine group law, iterated sums).  The C helper drv/vh_c06.c only calls the
function table on blocks of prepared inputs and stores raw outputs; every comparison is made here."""
import os, sys, struct, array, itertools, hashlib
import vf, common
import ecp as RP
import ec2 as R2

PROP = 'C06'
CFGS = ('rel', 'w32')

# ------------------------------------------------------------------------------------------------ context
OPS = {'add': (0, 'pp'), 'sub': (1, 'pp'), 'adda': (2, 'pa'), 'suba': (3, 'pa'), 'neg': (4, 'p'), 'dbl': (5, 'p'),
       'tpl': (6, 'p'), 'froma': (7, 'a'), 'dbla': (8, 'a'), 'toa': (9, 'p'), 'addaa': (10, 'aa'), 'subaa': (10, 'aa'),
       'nega': (11, 'a')}
ALIAS_NAME = {0: 'none', 1: 'c=a', 2: 'c=b', 3: 'a=b'}

def fint(tag, lo, hi):
    """filler integer in [lo, hi]"""
    return lo + int.from_bytes(vf.filler('c06/' + tag, 80), 'little') % (hi - lo + 1)

def poly_int(poly):
    m, k1, k2, k3 = poly
    f = (1 << m) | 1
    for k in (k1, k2, k3):
        if k:
            f |= 1 << k
    return f

_F2 = {}
def field2(poly):
    if poly not in _F2:
        _F2[poly] = R2.Field2(poly_int(poly))
    return _F2[poly]

def tspec(spec):
    """JSON list -> hashable spec"""
    spec = list(spec)
    if spec[0] == '2':
        spec[1] = tuple(spec[1])
    return tuple(spec)

class Ctx:
    """one curve object of the library in one configuration (lives as long as the worker process)"""
    def __init__(s, cfg, spec):
        L = common.lib(cfg); A = vf.Arena(L)
        s.cfg, s.spec, s.L, s.A, s.W = cfg, spec, L, A, L.wbytes
        if spec[0] == 'p':
            _, p, a, b = spec
            s.fam = 'ecpA3' if a == p - 3 else 'ecp'
            s.size = p
            no = (p.bit_length() + 7) // 8
            s.f = A.buf(L.sz('gfpCreate_keep', no), 0)
            st = A.buf(L.sz('gfpCreate_deep', no))
            if not L.boolean('gfpCreate', s.f, A.buf(p.to_bytes(no, 'little')), no, st):
                raise RuntimeError('gfpCreate failed for %x' % p)
            s._qinfo()
            s.ec = A.buf(L.sz('ecpCreateJ_keep', s.n), 0)
            st = A.buf(L.sz('ecpCreateJ_deep', s.n, s.fdeep))
            if not L.boolean('ecpCreateJ', s.ec, s.f, A.buf(a.to_bytes(s.no, 'little')), A.buf(b.to_bytes(s.no, 'little')), st):
                raise RuntimeError('ecpCreateJ failed')
            s.E = RP.Curve(p, a, b)
            s.fn = {'addaa': L.addr('ecpAddAA'), 'subaa': L.addr('ecpSubAA'), 'nega': L.addr('ecpNegA'), 'ison': L.addr('ecpIsOnA')}
            s.deepfn = {'addaa': 'ecpAddAA_deep', 'subaa': 'ecpSubAA_deep', 'ison': 'ecpIsOnA_deep'}
        else:
            _, poly, a, b = spec
            s.fam = 'ec2'
            m = poly[0]
            s.size = 1 << m
            s.f = A.buf(L.sz('gf2Create_keep', m), 0)
            st = A.buf(L.sz('gf2Create_deep', m))
            if not L.boolean('gf2Create', s.f, A.buf(struct.pack('<4Q', *poly)), st):
                raise RuntimeError('gf2Create failed for %r' % (poly,))
            s._qinfo()
            s.ec = A.buf(L.sz('ec2CreateLD_keep', s.n), 0)
            st = A.buf(L.sz('ec2CreateLD_deep', s.n, s.fdeep))
            if not L.boolean('ec2CreateLD', s.ec, s.f, A.buf(a.to_bytes(s.no, 'little')), A.buf(b.to_bytes(s.no, 'little')), st):
                raise RuntimeError('ec2CreateLD failed')
            s.F = field2(poly)
            s.E = R2.Curve2(s.F, a, b)
            s.fn = {'addaa': L.addr('ec2AddAA'), 'subaa': L.addr('ec2SubAA'), 'nega': L.addr('ec2NegA'), 'ison': L.addr('ec2IsOnA')}
            s.deepfn = {'addaa': 'ec2AddAA_deep', 'subaa': 'ec2SubAA_deep', 'ison': 'ec2IsOnA_deep'}
        info = A.buf(16 * 8, 0)
        L.call('vh_c06_ec_info', s.ec, info)
        v = struct.unpack('<16Q', info.get())
        assert v[0] == s.n and v[13] == s.W and v[3] == 3, v
        s.ecdeep, s.has_tpl = v[4], bool(v[5])
        s.stack = A.buf(s.ecdeep)          # exactly ec->deep octets for the function table
        s.fstack = A.buf(s.fdeep)
        s.ecache = {}
        s.rcache = {}
        s.reccache = {}
        s.one = (1).to_bytes(s.W, 'little')
        s.zrec = bytes((2 * s.n + 1) * s.W)
        # scale factors of the projective representatives
        hi = s.size - 1
        s.lams = [1, 2, hi, fint('lam/%x' % s.size, 3, hi - 1) if hi > 4 else 3]
        s.ofill = (fint('ox/%x' % s.size, 1, hi), fint('oy/%x' % s.size, 1, hi))

    def _qinfo(s):
        info = s.A.buf(8 * 8, 0)
        s.L.call('vh_c06_qr_info', s.f, info)
        v = struct.unpack('<8Q', info.get())
        s.n, s.no, s.fdeep = v[0], v[1], v[2]
        assert v[6] == s.W

    # ---- field elements: ints <-> internal representation (through the qr_o table of the library)
    def from_ints(s, vals):
        if not vals:
            return b''
        with vf.Arena(s.L) as T:
            src = T.buf(b''.join(int(v).to_bytes(s.no, 'little') for v in vals))
            dst = T.buf(len(vals) * s.n * s.W, 0)
            ok = s.L.sz('vh_c06_from', dst, src, len(vals), s.f, s.fstack)
            if ok != len(vals):
                raise RuntimeError('qrFrom rejected %d of %d field elements' % (len(vals) - ok, len(vals)))
            return dst.get()

    def to_ints(s, raw):
        cnt = len(raw) // (s.n * s.W)
        if not cnt:
            return []
        with vf.Arena(s.L) as T:
            src = T.buf(raw); dst = T.buf(cnt * s.no, 0)
            s.L.call('vh_c06_to', dst, src, cnt, s.f, s.fstack)
            d = dst.get()
        return [int.from_bytes(d[i * s.no:(i + 1) * s.no], 'little') for i in range(cnt)]

    def elems(s, vals):
        """bulk import with cache; returns nothing (use s.ecache[v])"""
        miss = sorted(set(v for v in vals if v not in s.ecache))
        if miss:
            raw = s.from_ints(miss)
            k = s.n * s.W
            for i, v in enumerate(miss):
                s.ecache[v] = raw[i * k:(i + 1) * k]

    def elem(s, v):
        if v not in s.ecache:
            s.elems([v])
        return s.ecache[v]

    # ---- representatives
    def proj_ints(s, P, li):
        """coordinates (X, Y, Z) of a representative of P (None = infinity) for scale index li"""
        lam = s.lams[li]
        if P is None:
            if li == 1:
                return (0, 0, 0)                       # what ecSetO leaves in a zeroed buffer
            if li == 3:
                return (s.ofill[0], s.ofill[1], 0)     # ecSetO on a used buffer: arbitrary X, Y, Z = 0
            if s.fam == 'ec2':
                return (lam, 0, 0)
            return (lam * lam % s.size, lam * lam * lam % s.size, 0)
        x, y = P
        if s.fam == 'ec2':
            F = s.F
            return (F.mul(lam, x), F.mul(F.sqr(lam), y), lam)          # Lopez-Dahab: x = X/Z, y = Y/Z^2
        p = s.size
        return (lam * lam * x % p, lam * lam * lam * y % p, lam)       # Jacobian: x = X/Z^2, y = Y/Z^3

    def reps(s, pts, kind, li=0):
        """packed internal representation of the points: kind 'p' (3n words each) or 'a' (2n words; infinity -> zeros)"""
        need = [P for P in pts if (kind, li, P) not in s.rcache]
        if need:
            need = list(dict.fromkeys(need))
            flat = []
            for P in need:
                if kind == 'p':
                    flat += s.proj_ints(P, li)
                else:
                    flat += list(P) if P is not None else [0, 0]
            s.elems(flat)
            k = 3 if kind == 'p' else 2
            for i, P in enumerate(need):
                s.rcache[(kind, li, P)] = b''.join(s.ecache[v] for v in flat[i * k:(i + 1) * k])
        return b''.join(s.rcache[(kind, li, P)] for P in pts)

    def rec(s, P):
        """expected output record of the block helper for result P"""
        if P is None:
            return s.zrec
        return s.one + s.elem(P[0]) + s.elem(P[1])

    def dec_rec(s, raw):
        """record -> point / None / ('bad flag', ...)"""
        flag = int.from_bytes(raw[:s.W], 'little')
        if flag == 0:
            return None
        x, y = s.to_ints(raw[s.W:])
        return (x, y)

_ctx = {}
def get_ctx(cfg, spec):
    k = (cfg, spec)
    if k not in _ctx:
        _ctx[k] = Ctx(cfg, spec)
    return _ctx[k]

# ------------------------------------------------------------------------------------------------ reference side
def ref_apply(E, op, P, Q=None):
    if op in ('add', 'adda', 'addaa'):
        return E.add(P, Q)
    if op in ('sub', 'suba', 'subaa'):
        return E.sub(P, Q)
    if op in ('neg', 'nega'):
        return E.neg(P)
    if op in ('dbl', 'dbla'):
        return E.dbl(P)
    if op == 'tpl':
        return E.add(E.dbl(P), P)
    if op in ('froma', 'toa'):
        return P
    raise ValueError(op)

def relation(E, op, P, Q=None):
    """class of the operand pair (groups violations by root cause)"""
    def cls(P):
        if P is None:
            return 'O'
        if E.dbl(P) is None:
            return 'T2'
        if E.add(E.dbl(P), P) is None:
            return 'T3'
        return 'P'
    if OPS[op][1] in ('p', 'a'):
        return cls(P)
    if P is None or Q is None:
        return '%s,%s' % (cls(P), cls(Q))
    if P == Q:
        return 'P=Q' + ('(T2)' if E.dbl(P) is None else '')
    if E.neg(P) == Q:
        return 'P=-Q'
    return 'generic'

# ------------------------------------------------------------------------------------------------ block runner
def run_pairs(c, op, alias, la, lb, ptsA, ptsB, exp_row, max_rec=40000):
    """call `op` with aliasing pattern `alias` on every (ptsA[i], ptsB[j]) (unary: ptsB None; alias 3: only j == i,
    ptsB must be ptsA) with projective operands scaled by lams[la] / lams[lb].
    exp_row(i) -> list of expected points for row i.   Returns (calls, first mismatch dict or None)."""
    L, n, W = c.L, c.n, c.W
    code, shape = OPS[op]
    binary = shape in ('pp', 'pa', 'aa')
    ka = 'p' if shape in ('pp', 'pa', 'p') else 'a'
    kb = 'p' if shape == 'pp' else 'a'
    na = len(ptsA)
    nb = len(ptsB) if binary else 1
    percall = 1 if (not binary or alias == 3) else nb
    rw = (2 * n + 1) * W
    with vf.Arena(L) as T:
        ra = T.buf(c.reps(ptsA, ka, la))
        rb = T.buf(c.reps(ptsB, kb, lb)) if binary and alias != 3 else None
        bufs = [T.buf(3 * n * W), T.buf(2 * n * W), T.buf(3 * n * W), T.buf(2 * n * W), T.buf(3 * n * W), T.buf(2 * n * W), T.buf(2 * n * W)]
        pb = T.buf(struct.pack('<7Q', *[b.addr for b in bufs]))
        if shape == 'aa':
            stack = T.buf(L.sz(c.deepfn[op], n, c.fdeep)); fn = c.fn[op]
        elif op == 'nega':
            stack = None; fn = c.fn[op]
        else:
            stack = c.stack; fn = 0
        stat = T.buf(8 * 8, 0)
        rows = max(1, max_rec // percall)
        out = T.buf(rows * percall * rw)
        calls = 0
        for i0 in range(0, na, rows):
            i1 = min(na, i0 + rows)
            L.call('vh_c06_block', c.ec, fn, code, alias, ra, rb, i0, i1, 0, nb, out, pb, stack, stat)
            cnt = (i1 - i0) * percall
            calls += cnt
            got = out.get(cnt * rw)
            exp = []
            for i in range(i0, i1):
                er = exp_row(i)
                exp.append(er)
            rc = c.reccache
            miss = set(P for er in exp for P in er if P not in rc)
            if miss:
                c.elems([v for P in miss if P is not None for v in P])
                for P in miss:
                    rc[P] = c.rec(P)
            want = b''.join([rc[P] for er in exp for P in er])
            if got != want:
                k = next(t for t in range(cnt) if got[t * rw:(t + 1) * rw] != want[t * rw:(t + 1) * rw])
                i = i0 + k // percall
                j = i if alias == 3 else k % percall
                gotp = c.dec_rec(got[k * rw:(k + 1) * rw])
                return calls, {'i': i, 'j': j, 'got': gotp, 'want': exp[i - i0][k % percall] if percall > 1 else exp[i - i0][0],
                               'raw': got[k * rw:(k + 1) * rw].hex()}
        st = struct.unpack('<8Q', stat.get())
        if st[1]:
            return calls, {'i': st[2], 'j': st[3], 'modified': st[1]}
        if st[4]:
            return calls, {'i': 0, 'j': 0, 'froma_false': st[4]}
    return calls, None

def pair_violation(c, op, alias, la, lb, P, Q, mm):
    """(key, record, message) for a mismatch of one call"""
    E = c.E
    rel = relation(E, op, P, Q)
    key = '%s:%s:alias=%s:%s' % (c.fam, op, ALIAS_NAME[alias], rel)
    rec = {'cfg': c.cfg, 'kind': 'pair', 'spec': list(c.spec), 'op': op, 'alias': alias, 'la': la, 'lb': lb,
           'P': list(P) if P is not None else None, 'Q': list(Q) if Q is not None else None}
    if 'modified' in mm:
        what = 'an input operand that is not aliased with the output was modified'
        key += ':input-modified'
    elif 'froma_false' in mm:
        what = 'froma returned FALSE for a point of the curve'
    else:
        what = 'result %s, group law gives %s' % (fmt_pt(mm['got']), fmt_pt(mm['want']))
    msg = '%s %s(%s%s) [%s, cfg %s, aliasing %s, Z scale a=%#x b=%#x]: %s' % (
        c.fam, op, fmt_pt(P), (', ' + fmt_pt(Q)) if OPS[op][1] in ('pp', 'pa', 'aa') else '', spec_str(c.spec), c.cfg,
        ALIAS_NAME[alias], c.lams[la], c.lams[lb], what)
    return key, rec, msg

def fmt_pt(P):
    if P is None:
        return 'O'
    return '(%#x, %#x)' % (P[0], P[1])

def spec_str(spec):
    if spec[0] == 'p':
        return 'y^2=x^3+%#x x+%#x over GF(%#x)' % (spec[2], spec[3], spec[1])
    return 'y^2+xy=x^3+%#x x^2+%#x over GF(2^%d) %r' % (spec[2], spec[3], spec[1][0], tuple(spec[1]))

def check_single_pair(rec):
    """re-execute one call (replay and standard-curve boundary pairs); returns message or None"""
    c = get_ctx(rec['cfg'], tspec(rec['spec']))
    P = tuple(rec['P']) if rec['P'] is not None else None
    Q = tuple(rec['Q']) if rec.get('Q') is not None else None
    op, alias = rec['op'], rec['alias']
    binary = OPS[op][1] in ('pp', 'pa', 'aa')
    want = ref_apply(c.E, op, P, Q if binary else None)
    calls, mm = run_pairs(c, op, alias, rec['la'], rec['lb'], [P], [P] if alias == 3 else ([Q] if binary else None), lambda i: [want])
    if mm:
        return pair_violation(c, op, alias, rec['la'], rec['lb'], P, Q, mm)[2]
    return None

# ------------------------------------------------------------------------------------------------ small binary fields
SMALL_POLY = {5: 0b100101, 7: 0b10000011, 11: 0b100000000101}

class TabField2(R2.Field2):
    """GF(2^d), d <= 11, with log / antilog tables BUILT BY the reference multiplication (exp[i+1] = ref.mul(exp[i], g));
    only the speed differs from ref/ec2.py Field2, the group law stays ref/ec2.py Curve2."""
    def __init__(s, f):
        R2.Field2.__init__(s, f)
        ref = R2.Field2(f)
        q = s.size - 1
        for g in range(2, s.size):
            e = [1]
            while len(e) < q:
                nx = ref.mul(e[-1], g)
                if nx == 1:
                    break
                e.append(nx)
            if len(e) == q:
                break
        s.exp = e + e
        s.log = {v: i for i, v in enumerate(e)}
        s.q = q
        s.qs = {}
        for z in range(s.size):
            s.qs.setdefault(s.sqr(z) ^ z, z)
        # cross-check against the reference on a structured sample
        for a in list(range(1, min(s.size, 40))) + [s.size - 1, s.size // 2]:
            for b in (1, 2, 3, s.size - 1, s.size // 2 + 1, a):
                assert s.mul(a, b) == ref.mul(a, b) and s.mul(a, s.inv(a)) == 1
    def mul(s, a, b):
        if a == 0 or b == 0:
            return 0
        return s.exp[s.log[a] + s.log[b]]
    def sqr(s, a):
        return s.mul(a, a)
    def inv(s, a):
        if a == 0:
            raise ZeroDivisionError
        return s.exp[s.q - s.log[a]]
    def div(s, a, b):
        return s.mul(a, s.inv(b))
    def solve_quad(s, c):
        return s.qs.get(c)

_TF = {}
def tabfield(d):
    if d not in _TF:
        _TF[d] = TabField2(SMALL_POLY[d])
    return _TF[d]

_EMB = {}
def embedding(poly, d):
    """phi: GF(2)[t]/(SMALL_POLY[d]) -> subfield of GF(2)[x]/(poly): list indexed by the small element"""
    key = (poly, d)
    if key in _EMB:
        return _EMB[key]
    Fb = field2(poly)
    m = poly[0]
    assert m % d == 0
    g = SMALL_POLY[d]
    e = ((1 << m) - 1) // ((1 << d) - 1)
    theta = None
    u = 2
    while theta is None:
        gam = Fb.pow(u, e)                      # lies in the subfield of 2^d elements
        cand = gam
        for _ in range((1 << d) - 1):
            # evaluate g at cand (Horner, reference arithmetic of the big field)
            acc = 0
            for bit in range(d, -1, -1):
                acc = Fb.mul(acc, cand) ^ ((g >> bit) & 1)
            if acc == 0 and cand not in (0, 1):
                theta = cand
                break
            cand = Fb.mul(cand, gam)
            if cand == gam:
                break
        u += 1
    pw = [1]
    for _ in range(d - 1):
        pw.append(Fb.mul(pw[-1], theta))
    phi = []
    for v in range(1 << d):
        acc = 0
        for bit in range(d):
            if (v >> bit) & 1:
                acc ^= pw[bit]
        phi.append(acc)
    # homomorphism check on a structured sample (reference arithmetic on both sides)
    Fs = R2.Field2(g)
    for a in (1, 2, 3, (1 << d) - 1, (1 << (d - 1)) + 1, 5 % (1 << d)):
        for b in (2, 3, (1 << d) - 1, (1 << d) - 2, 7 % (1 << d)):
            assert phi[Fs.mul(a, b)] == Fb.mul(phi[a], phi[b]) and phi[a ^ b] == phi[a] ^ phi[b]
    _EMB[key] = phi
    return phi

# ------------------------------------------------------------------------------------------------ group tables (reference)
def point_order_from(E, P, N, fac):
    """order of P given that N P = O and the prime factors of N"""
    o = N
    for q in fac:
        while o % q == 0 and E.mul(o // q, P) is None:
            o //= q
    return o

def factor(n):
    out = []
    d = 2
    while d * d <= n:
        while n % d == 0:
            if d not in out:
                out.append(d)
            n //= d
        d += 1
    if n > 1 and n not in out:
        out.append(n)
    return out

def closure(E, gens, cap=5000):
    U = [None]
    seen = {None}
    frontier = [None]
    while frontier:
        nxt = []
        for P in frontier:
            for G in gens:
                R = E.add(P, G)
                if R not in seen:
                    seen.add(R); U.append(R); nxt.append(R)
                    if len(U) > cap:
                        raise RuntimeError('closure too large')
        frontier = nxt
    return U

def build_table(job):
    """job = (kind, spec, extra).  Returns a picklable table of the closed point set U (U[0] = O):
    T[i][j] = index of U[i] + U[j] (reference group law), neg, dbl, tpl index lists, point orders."""
    kind, spec, extra = job
    if kind == 'small':
        E = RP.Curve(*spec[1:])
        U = [None] + sorted(E.points())
        Eref = E; back = None
    elif kind == 'sub':
        E = RP.Curve(*spec[1:])
        U = closure(E, [tuple(g) for g in extra])
        U = [None] + sorted(U[1:])
        Eref = E; back = None
    elif kind == 'mw':
        E = RP.Curve(*spec[1:])
        r, nc = extra
        U = closure(E, mw_generators(spec[1], spec[2], r, nc))
        assert len(U) == r, 'subgroup has %d elements, expected %d' % (len(U), r)
        U = [None] + sorted(U[1:])
        Eref = E; back = None
    elif kind == 'sf':
        # complete curve over the subfield GF(2^d) of GF(2^m): group law computed by ref/ec2.py Curve2 over the small field,
        # then carried into the big field by the field embedding phi; validated below with the big-field reference
        d, a_s, b_s = extra
        phi = embedding(spec[1], d)
        Fs = tabfield(d)
        Es = R2.Curve2(Fs, a_s, b_s)
        Us = [None] + sorted(pt for x in range(Fs.size) for pt in Es.lift_x(x))
        refs = R2.Curve2(R2.Field2(SMALL_POLY[d]), a_s, b_s)
        assert all(refs.is_on(P) for P in Us)
        assert len(set(Us)) == len(Us) and (len(Us) - Fs.size - 1) ** 2 <= 4 * Fs.size
        E = Es; U = Us
        Eb = R2.Curve2(field2(spec[1]), spec[2], spec[3])
        assert spec[2] == phi[a_s] and spec[3] == phi[b_s]
        back = lambda P: None if P is None else (phi[P[0]], phi[P[1]])
        Eref = Eb
    else:
        raise ValueError(kind)
    idx = {P: i for i, P in enumerate(U)}
    nU = len(U)
    tc = 'H' if nU < 65536 else 'I'
    T = []
    for P in U:
        T.append(array.array(tc, [idx[E.add(P, Q)] for Q in U]).tobytes())
    neg = [idx[E.neg(P)] for P in U]
    dbl = [idx[E.dbl(P)] for P in U]
    tpl = [idx[E.add(E.dbl(P), P)] for P in U]
    fac = factor(nU)
    orders = [1] + [point_order_from(E, P, nU, fac) for P in U[1:]]
    if back is not None:
        Ub = [back(P) for P in U]
        assert all(Eref.is_on(P) for P in Ub) and len(set(Ub)) == nU
        # validation of the carried table by the big-field reference: all pairs when small, a lattice of pairs otherwise
        step = 1 if nU <= 40 else (7 if nU <= 300 else 97)
        for i in range(0, nU, step):
            Ti = array.array(tc); Ti.frombytes(T[i])
            for j in range(0, nU, step if step == 1 else step + 2):
                assert Eref.add(Ub[i], Ub[j]) == Ub[Ti[j]], 'embedding does not commute with the group law'
        for i in range(0, nU, max(1, step // 2)):
            assert Eref.neg(Ub[i]) == Ub[neg[i]] and Eref.dbl(Ub[i]) == Ub[dbl[i]]
        U = Ub
    return {'U': U, 'T': T, 'tc': tc, 'neg': neg, 'dbl': dbl, 'tpl': tpl, 'ord': orders, 'N': nU}

TABLES = {}     # curve id -> table (filled in the parent before the cells are forked)

def table_rows(tab):
    if 'rows' not in tab:
        rows = []
        for b in tab['T']:
            a = array.array(tab['tc']); a.frombytes(b); rows.append(a)
        tab['rows'] = rows
    return tab['rows']

# ------------------------------------------------------------------------------------------------ group-law cells
def group_cell(case):
    """one (curve, function, aliasing) cell: all ordered pairs of the closed point set x the listed Z-scale pairs"""
    c = get_ctx(case['cfg'], case['spec'])
    tab = TABLES[case['cid']]
    U, rows, neg, dbl, tpl = tab['U'], table_rows(tab), tab['neg'], tab['dbl'], tab['tpl']
    op, alias = case['op'], case['alias']
    shape = OPS[op][1]
    nU = len(U)
    if op == 'tpl' and not c.has_tpl:
        return {'calls': 0, 'viol': [], 'skipped': 'no tpl in this function table'}
    oa = 0 if shape in ('pp', 'pa', 'p') else 1          # affine operands cannot be O
    ob = 0 if shape == 'pp' else 1
    if shape == 'pa' and alias == 3:
        oa = 1                                           # a is read as (x, y) through the same pointer
    ptsA = U[oa:]
    ptsB = U[ob:] if shape in ('pp', 'pa', 'aa') else None
    if alias == 3:
        ptsB = ptsA
    isadd = op in ('add', 'adda', 'addaa')
    colidx = list(range(ob, nU)) if isadd else [neg[j] for j in range(ob, nU)]
    def exp_row(i):
        ia = i + oa
        if shape in ('pp', 'pa', 'aa'):
            r = rows[ia]
            if alias == 3:
                return [U[r[ia] if isadd else r[neg[ia]]]]
            return [U[r[k]] for k in colidx]
        if op in ('neg', 'nega'):
            return [U[neg[ia]]]
        if op in ('dbl', 'dbla'):
            return [U[dbl[ia]]]
        if op == 'tpl':
            return [U[tpl[ia]]]
        return [U[ia]]
    calls, viol = 0, []
    for la, lb in case['lpairs']:
        n, mm = run_pairs(c, op, alias, la, lb, ptsA, ptsB, exp_row)
        calls += n
        if mm:
            P = ptsA[mm['i']]
            Q = ptsB[mm['j']] if ptsB is not None else None
            viol.append(pair_violation(c, op, alias, la, lb, P, Q, mm))
            if len(viol) >= 3:
                break
    return {'calls': calls, 'viol': viol}

FULL_LP = [(a, b) for a in range(4) for b in range(4)]
DIAG_LP = [(0, 0), (1, 2), (2, 3), (3, 1)]

def group_cases(cfg, cid, spec, nU, tier, has_aa=True):
    """the cells of one curve"""
    big = nU > 300
    lp2 = DIAG_LP if big else FULL_LP
    lp1 = [(a, 0) for a in range(4)]
    out = []
    def add(op, alias, lps):
        out.append({'kind': 'group', 'cfg': cfg, 'cid': cid, 'spec': spec, 'op': op, 'alias': alias, 'lpairs': lps})
    for op in ('add', 'sub'):
        for alias in (0, 1, 2):
            add(op, alias, lp2)
        add(op, 3, lp1)
    for op in ('adda', 'suba'):
        for alias in (0, 1, 2):
            add(op, alias, lp1)
        add(op, 3, [(0, 0)])
    for op in ('neg', 'dbl', 'tpl', 'toa'):
        if op == 'tpl' and spec[0] != 'p':
            continue
        for alias in (0, 1):
            add(op, alias, lp1)
    for op in ('froma', 'dbla'):
        for alias in (0, 1):
            add(op, alias, [(0, 0)])
    if has_aa:
        for op in ('addaa', 'subaa', 'nega'):
            add(op, 0, [(0, 0)])
    return out

# ------------------------------------------------------------------------------------------------ choice of the curves
def two_torsion(p, a, b):
    return [x for x in range(p) if (x * x * x + a * x + b) % p == 0]

def pick_small(p, want):
    """deterministic search of curves over GF(p) by class of group; returns [(label, A, B)] (first curve of each class)"""
    found = {}
    order = []
    As = [p - 3, 1, 0, 2, 3, 5, p - 1, 7]
    for a in As:
        for b in range(p):
            E = RP.Curve(p, a, b)
            if not E.is_nonsingular():
                continue
            if len(found) >= len(want):
                break
            t2 = len(two_torsion(p, a, b))
            N = None
            labels = []
            if a == p - 3:
                pre = 'A=-3'
            elif a == 0:
                pre = 'A=0'
            elif b == 0:
                pre = 'B=0'
            else:
                pre = 'gen'
            if t2 == 3:
                labels.append(pre + ',full 2-torsion (non-cyclic)')
            elif t2 == 1:
                labels.append(pre + ',one 2-torsion point')
            else:
                N = E.group_order()
                labels.append(pre + (',prime order' if RP.is_prime(N) else ',odd order'))
                if N % 3 == 0:
                    labels.append(pre + ',order divisible by 3')
            for lb in labels:
                if lb in want and lb not in found:
                    found[lb] = (a, b); order.append(lb)
    seen = set()
    out = []
    for lb in order:
        if found[lb] not in seen:
            seen.add(found[lb]); out.append((lb, found[lb][0], found[lb][1]))
    return out

WANT_ALL = ['A=-3,prime order', 'A=-3,one 2-torsion point', 'A=-3,full 2-torsion (non-cyclic)', 'gen,prime order',
            'gen,one 2-torsion point', 'gen,full 2-torsion (non-cyclic)', 'A=0,odd order', 'A=0,prime order', 'A=0,one 2-torsion point',
            'B=0,one 2-torsion point', 'B=0,full 2-torsion (non-cyclic)', 'gen,order divisible by 3', 'A=-3,order divisible by 3', 'gen,odd order', 'A=-3,odd order']
WANT_FEW = ['A=-3,prime order', 'A=-3,full 2-torsion (non-cyclic)', 'gen,one 2-torsion point', 'gen,order divisible by 3', 'A=-3,odd order', 'gen,prime order']

def small_curves(tier):
    """[(p, label, A, B)]"""
    out = []
    for p in (11, 13):
        out += [(p,) + t for t in pick_small(p, WANT_ALL)]
    out += [(251,) + t for t in pick_small(251, WANT_FEW if tier == 'quick' else WANT_ALL)][:4 if tier == 'quick' else 9]
    if tier == 'thorough':
        out += [(1021,) + t for t in pick_small(1021, ['A=-3,one 2-torsion point', 'gen,full 2-torsion (non-cyclic)', 'gen,prime order'])]
    return out

# ------------------------------------------------------------------------------------------------ multi-word primes
# primes p = -1 (mod 5040) found at design time (p = 3 mod 4, so y^2 = x^3 + A x is supersingular with p + 1 points);
# re-validated by the reference at run time.  'crandNN' = 2^NN - c (Crandall reduction where the word size allows it).
MW_PRIMES = [
    ('gen72', 0xd4d0081089b752f17f),
    ('crand96', 0xfffffffffffffffffffbb52f),
    ('gen136', 0x9f0f2b3587af719aaba1e33904570208af),
    ('crand192', 0xfffffffffffffffffffffffffffffffffffffffffffdf01f),
    ('gen40', 0x8abba76bff),
    ('gen104', 0xa769962bc97d1ac9c372afcf0f),
    ('gen128', 0xf509a2a5f4aeb9c4c8ed0b62b4b2b77f),
    ('crand128', 0xfffffffffffffffffffffffffffd9caf),
    ('gen192', 0x9e674bcefe1ae37e5da8e78bee02cb7bff351afd875bf63f),
    ('crand256', 0xfffffffffffffffffffffffffffffffffffffffffffffffffffffffffffe000f),
]

def mw_generators(p, A, r, noncyclic):
    """generators of a subgroup of order r of y^2 = x^3 + A x over GF(p) (reference arithmetic only)"""
    assert RP.is_prime(p) and p % 4 == 3 and (p + 1) % 5040 == 0
    E = RP.Curve(p, A, 0)
    rr = r // 2 if noncyclic else r
    fac = factor(rr)
    x = 2
    while True:
        for R in E.lift_x(x):
            assert E.mul(p + 1, R) is None, 'curve order is not p + 1'
            P = E.mul((p + 1) // rr, R)
            if P is not None and point_order_from(E, P, rr, fac) == rr:
                if not noncyclic:
                    return [P]
                inside = E.mul(rr // 2, P)
                for T in [(0, 0)] + [(t, 0) for t in (RP.sqrt_mod(-A % p, p), ) if t is not None] :
                    if E.is_on(T) and T != inside:
                        return [P, T]
        x += 1

def mw_jobs(tier):
    """[(cid, spec, table job)]"""
    out = []
    names = [n for n, _ in MW_PRIMES[:4]] if tier == 'quick' else [n for n, _ in MW_PRIMES]
    for name, p in MW_PRIMES:
        if name not in names:
            continue
        for A in (1, p - 3):
            subs = [(72, A != 1)] if tier == 'quick' else [(72, A != 1), (210, False)]
            for r, nc in subs:
                spec = ('p', p, A, 0)
                out.append(('mw:%s:A=%s:r=%d%s' % (name, '1' if A == 1 else '-3', r, 'nc' if nc else ''), spec, ('mw', spec, (r, nc))))
    return out
