"""shared explorer plumbing: run a corpus of catalogue cases against the reference models"""
import vf, cat
import cat_belt

_libs = {}
def lib(cfg='rel'):
    if cfg not in _libs:
        _libs[cfg] = vf.Lib(cfg)
    return _libs[cfg]

def run_fn(L, fname, case, fill=0x00):
    return cat_belt.run(L, cat.CAT[fname], case, fill)

def check_ref_case(item, cfg='rel'):
    """-> (violation message or None, ret) ; compares with the reference model"""
    fname, case = item
    fn = cat.CAT[fname]
    res = run_fn(lib(cfg), fname, case)
    exp = fn.ref(case) if fn.ref else None
    return cat.compare(res, exp), res.get('ret')

def run_ref_corpus(chk, cases, part, cfg='rel', module=None, checker=None, timeout=120):
    """cases: list of (fname, case).  Records violations with replay records of kind 'case'."""
    f = checker or (lambda it: check_ref_case(it, cfg))
    res = vf.pmap(f, cases, case_timeout=timeout)
    shapes = set()
    for (fname, case), r in zip(cases, res):
        key = fname + ':' + cat.short(case)
        rec = {'cfg': cfg, 'kind': 'case', 'fn': fname, 'case': cat.enc_case(case)}
        if isinstance(r, dict):
            chk.violation(key, rec, '%s: %s %s' % (fname, r.get('crash') or 'harness error', (r.get('stderr') or r.get('harness_error') or '')[-600:]))
            continue
        msg, ret = r
        shapes.add(key)
        chk.outcome('%s ret=%s' % (fname, ret))
        if msg:
            chk.violation(key, rec, '%s: %s  [%s]' % (fname, msg, cat.short(case)))
    chk.part(part, states=len(shapes), transitions=len(cases), traces_validated_against_impl=len(cases), evaluations=len(cases),
             distinct_nontrivial=len(shapes))
    if cases:
        for i in (0, len(cases) // 2, len(cases) - 1):
            chk.sample({'fn': cases[i][0], 'case': cat.short(cases[i][1])})

def replay_case(rec):
    msg, ret = check_ref_case((rec['fn'], cat.dec_case(rec['case'])), rec.get('cfg', 'rel'))
    return msg
