"""C17 -- token layer: CV certificates, secure messaging, key containers detect tampering.

E1  certificates: key length x name lengths x date classes x access words: Wrap = reference certificate (DER + deterministic
    bign signature), Unwrap(Wrap) = same content; chains of depth 1..3 with every combination of {name match/mismatch,
    validity position against the issuer's period, right/wrong issuer key} per link: Val / Val2 / Iss accept iff the rules
    of btok.h line up; every single-octet alteration of a certificate is not accepted as the same content.
E2  secure messaging as an explicit-state search: two endpoints T and C started from one key; events T.CmdWrap(c),
    C.CmdUnwrap, C.RespWrap(r), T.RespUnwrap, X.CtrInc; nodes = (counters, message in flight, raw bytes of both states),
    dedup on those bytes, breadth-first to depth 6; tamper(octet j) is explored as a probe immediately before the unwrap
    (it commutes with every other event).  Invariants: in step -> exact recovery; wrong parity -> ERR_BAD_LOGIC and no change;
    tampered -> rejected.  Replay detection is not claimed (the MAC does not cover the counter).
E1  bpki: containers of every key / share length x passwords {empty, 1, 64 octets} x iteration counts {1, 2 (reference
    encoder), 10000 (bpkiXxxWrap)}: right password -> key, wrong password / any altered octet -> error; CSR re-issue/parse.

The process-wide RNG is not created (btokCVCWrap / bpkiCSRRewrap sign deterministically), except in part B2, which creates it over hook H3."""
import datetime, hashlib, re
import vf, cat, cat_tok, common
import tok as T
import codec as D

PROP = 'C17'
CFG = 'rel'
E = cat_tok.E
FIELDS = cat_tok.FIELDS

def run_fn(fname, case, cfg=None):
    return common.run_fn(common.lib(cfg or CFG), fname, case)

# =================================================================================================== A. reference corpus
def alphabet_cases(tier):
    """certificate content alphabet (beyond the shared corpus): Wrap against the reference + Unwrap of the reference certificate"""
    q = tier == 'quick'
    out = []
    def add(kl, a, h, dn, hat):
        d = cat_tok.privkey(kl)
        f, u, ok = cat_tok.DATE_CLASSES[dn]
        c = cat_tok.mk(cat_tok.name(a, 1), cat_tok.name(h, 2), b'', f, u, *cat_tok.HATS[hat])
        tag = 'k%d/a%d/h%d/%s/%s' % (kl, a, h, dn, hat)
        out.append(('btok.CVCWrap', dict(c, privkey=d, tag=tag)))
        full = dict(c, pubkey=T.pubkey_of(d))
        out.append(('btok.CVCCheck', dict(full, tag=tag)))
        if ok and 8 <= a <= 12 and 8 <= h <= 12:
            cert, full = T.cvc_wrap(c, d)
            out.append(('btok.CVCUnwrap', dict(cert=cert, mode='none', tag=tag)))
            out.append(('btok.CVCUnwrap', dict(cert=cert, mode='self', tag=tag)))
            out.append(('btok.CVCUnwrap', dict(cert=cert, mode='key', pubkey=full['pubkey'], tag=tag)))
            out.append(('btok.CVCMatch', dict(cert=cert, privkey=d, tag=tag)))
        elif ok:
            # the encoded form of a name outside SIZE(8..12) is a format error
            cert = T.cvc_enc(full, T.tok_sign(T.cvc_body(full), d))
            out.append(('btok.CVCUnwrap', dict(cert=cert, mode='none', tag=tag)))
            out.append(('btok.CVCUnwrap', dict(cert=cert, mode='key', pubkey=full['pubkey'], tag=tag)))
    lens = range(7, 14)
    for kl in cat_tok.KLENS:
        for a in lens:
            for h in lens:
                if q and kl != 32 and (a, h) not in ((8, 8), (12, 12), (8, 12), (12, 8), (7, 8), (8, 13), (13, 12)):
                    continue
                for hat in (cat_tok.HATS if (not q or (a, h) in ((8, 8), (12, 12))) else ('none',)):
                    add(kl, a, h, 'valid', hat)
        for dn in cat_tok.DATE_CLASSES:
            if dn != 'valid':
                for hat in (('none',) if q else ('none', 'both')):
                    add(kl, 8, 12, dn, hat)
    return out

def check_case(item):
    fname, case = item
    msg, ret = common.check_ref_case(item, CFG)
    return msg, ret

def case_key(fname, case, msg):
    m = re.match(r'returned (0x[0-9a-f]+), expected (0x[0-9a-f]+)', msg)
    if m:
        cls = 'ret=%s/want=%s' % m.groups()
    elif 'not in the expected class' in msg:
        cls = 'ret=%s/want=error' % msg.split()[2]
    elif msg.startswith('output'):
        cls = 'out:' + msg.split()[1]
    else:
        cls = 'other'
    tag = case.get('tag', '')
    if tag:                                             # root-cause class: the date class if it is not 'valid', else the access-word class
        p = tag.split('/')
        tag = (re.sub(r'_(from|until)$', '', p[3]) if p[3] != 'valid' else p[4]) if len(p) >= 5 else tag
    return 'ref:%s:%s:%s' % (fname, cls, tag)

def corpus(chk, tier):
    cases = cat_tok.gen_cases(tier) + alphabet_cases(tier)
    res = vf.pmap(check_case, cases, case_timeout=300)
    shapes = set()
    for (fname, case), r in zip(cases, res):
        rec = {'cfg': CFG, 'kind': 'case', 'fn': fname, 'case': cat.enc_case(case)}
        if isinstance(r, dict):
            chk.violation('ref:%s:crash' % fname, rec, '%s: %s %s' % (fname, r.get('crash') or 'harness error', (r.get('stderr') or r.get('harness_error') or '')[-600:]))
            continue
        msg, ret = r
        shapes.add(fname + cat.short(case))
        chk.outcome('%s ret=%s' % (fname, ret))
        if msg:
            chk.violation(case_key(fname, case, msg), rec, '%s: %s  [%s]' % (fname, msg, cat.short(case)))
    chk.part('reference_corpus', states=len(shapes), transitions=len(cases), traces_validated_against_impl=len(cases), evaluations=len(cases),
             distinct_nontrivial=len(shapes), functions=len(set(c[0] for c in cases)))
    for i in (0, len(cases) // 3, len(cases) - 1):
        chk.sample({'fn': cases[i][0], 'case': cat.short(cases[i][1])})

# =================================================================================================== B. chains
def dt6(b):
    return datetime.date(2000 + 10 * b[0] + b[1], 10 * b[2] + b[3], 10 * b[4] + b[5])
def shift(b, days):
    d = dt6(b) + datetime.timedelta(days=days)
    return cat_tok.date(d.year, d.month, d.day)

NAMEV = ('match', 'mismatch', 'prefix', 'prefix_short')
VALV = ('nested_eq', 'nested_in', 'overlap_end', 'from_at_until', 'from_before', 'from_after')
VAL_OK = ('nested_eq', 'nested_in', 'overlap_end', 'from_at_until')       # btok.h: issuer.from <= cert.from <= issuer.until; cert.until is free
KEYV = ('right', 'wrong', 'wronglen')
VARSETS = {'full': [(n, v, k) for n in NAMEV for v in VALV for k in KEYV],
           'mid': [(n, v, k) for n in NAMEV[:2] for v in VALV for k in KEYV],
           'reduced': [(n, v, k) for n in NAMEV[:2] for v in ('nested_eq', 'overlap_end', 'from_before', 'from_after') for k in ('right', 'wrong')]}

def period(vv, F, U):
    span = (dt6(U) - dt6(F)).days
    dl = min(10, span // 3)
    return {'nested_eq': (F, U), 'nested_in': (shift(F, dl), shift(U, -dl)), 'overlap_end': (shift(U, -min(5, span)), shift(U, 30)),
            'from_at_until': (U, shift(U, 5)), 'from_before': (shift(F, -1), U), 'from_after': (shift(U, 1), shift(U, 10))}[vv]

def other_len(kl):
    return {24: 32, 32: 48, 48: 64, 64: 24}[kl]

class Node:
    pass

def make_root(kl):
    n = Node()
    n.priv = cat_tok.privkey(kl, 0)
    rn = b'BYCA0000' if kl in (24, 48) else b'BYCA00001'        # 8 and 9 characters: a 9-character holder admits a shorter prefix below it
    c = cat_tok.mk(rn, rn, b'', cat_tok.D_FROM, cat_tok.D_UNTIL, *cat_tok.HATS['both'])
    r = run_fn('btok.CVCWrap', dict(c, privkey=n.priv))
    if r['ret']:
        raise RuntimeError('root certificate not created: %#x' % r['ret'])
    n.cert, n.cvc = r['cert'], r['cvc']
    n.content = cat_tok.cvc_parse(n.cvc)
    n.level = 0
    n.link_ok = True
    return n

def make_node(parent, level, kl, variant):
    """certificate of level `level` under `parent`, built by btokCVCWrap with the signer chosen by the variant"""
    nv, vv, kv = variant
    n = Node()
    n.priv = cat_tok.privkey(kl, level)
    pc = parent.content
    f, u = period(vv, pc['from_'], pc['until'])
    h = pc['holder']
    if nv == 'match':
        auth = h
    elif nv == 'prefix':                      # the issuer's holder name is a proper prefix of the authority name ...
        auth = h + b'X' if len(h) < 12 else h[:-1]
    elif nv == 'prefix_short':                # ... and the authority name a proper prefix of the holder name (both directions)
        auth = h[:-1] if len(h) > 8 else h + b'X'
    else:
        auth = cat_tok.name(len(h), 40 + level)
        if auth == h:
            auth = cat_tok.name(len(h), 41 + level)
    hat = ('eid', 'esign', 'none')[level % 3]
    n.req = cat_tok.mk(auth, cat_tok.name(8 + (level * 3 + kl) % 5, level), T.pubkey_of(n.priv), f, u, *cat_tok.HATS[hat])
    n.signer = {'right': parent.priv, 'wrong': cat_tok.privkey(len(parent.priv), 77), 'wronglen': cat_tok.privkey(other_len(len(parent.priv)), 78)}[kv]
    r = run_fn('btok.CVCWrap', dict(n.req, privkey=n.signer))
    if r['ret']:
        raise RuntimeError('certificate not created (%s): %#x' % (variant, r['ret']))
    n.cert, n.cvc = r['cert'], r['cvc']
    n.content = cat_tok.cvc_parse(n.cvc)
    n.level = level
    n.link_ok = nv == 'match' and vv in VAL_OK and kv == 'right'
    n.variant = variant
    return n

def node_checks(parent, n, dates=True):
    """-> (list of (what, message), number of library calls)"""
    out = []
    calls = 0
    want = n.link_ok
    def verdict(what, ret, expect_ok, extra=''):
        if (ret == 0) != expect_ok:
            out.append((what, '%s returned %#x but the link %s (name %s, validity %s, signer %s)%s' % (
                what, ret, 'lines up' if expect_ok else 'must be refused', n.variant[0], n.variant[1], n.variant[2], extra)))
    r = run_fn('btok.CVCVal', dict(cert=n.cert, certa=parent.cert, date=None)); calls += 1
    verdict('btokCVCVal', r['ret'], want)
    r = run_fn('btok.CVCVal2', dict(cert=n.cert, certa=parent.cert, date=None, want=1)); calls += 2
    verdict('btokCVCVal2', r['ret'], want)
    if r['ret'] == 0 and r.get('cvc') != n.cvc:
        out.append(('btokCVCVal2:content', 'btokCVCVal2 accepted the certificate but returned another content than btokCVCWrap recorded'))
    r = run_fn('btok.CVCVal2', dict(cert=n.cert, certa=parent.cert, date=None, want=0)); calls += 2
    verdict('btokCVCVal2(cvc=0)', r['ret'], want)
    # issuing: the same rules, decided before signing; the issued certificate is the one btokCVCWrap makes
    r = run_fn('btok.CVCIss', dict(n.req, certa=parent.cert, privkeya=n.signer)); calls += 2
    verdict('btokCVCIss', r['ret'], want)
    if r['ret'] == 0 and r['cert'] != n.cert:
        out.append(('btokCVCIss:cert', 'btokCVCIss issued another certificate than btokCVCWrap under the same key'))
    if dates:
        f, u = n.content['from_'], n.content['until']
        for what, d, inside in (('date=from', f, True), ('date=until', u, True), ('date=from-1', shift(f, -1), False), ('date=until+1', shift(u, 1), False),
                                ('date=month13', bytes([f[0], f[1], 1, 3, 0, 1]), False), ('date=Feb30', bytes([f[0], f[1], 0, 2, 3, 0]), False)):
            for fn in ('btokCVCVal', 'btokCVCVal2'):
                r = run_fn(fn.replace('btokCVC', 'btok.CVC'), dict(cert=n.cert, certa=parent.cert, date=d, want=1)); calls += 1
                verdict('%s(%s)' % (fn, what), r['ret'], want and inside, ' at check date %s' % d.hex())
    return out, calls

def chain_job(job):
    """one node given by its path from the root (the last element of `prefix`) and, if `below`, the whole subtree under it
    -> (nodes, chains, calls, violations[(key, rec, msg)])"""
    kls, depth, vset, prefix, below = job
    variants = VARSETS[vset]
    viol = []
    stats = [0, 0, 0]
    root = make_root(kls[0])
    if len(prefix) == 1:
        r = run_fn('btok.CVCUnwrap', dict(cert=root.cert, mode='self'))
        if r['ret'] or r['cvc'] != root.cvc:
            viol.append(('chain:root', {'cfg': CFG, 'kind': 'chain', 'kls': list(kls), 'path': []}, 'self-signed root does not parse back: %#x' % r['ret']))
    def visit(parent, level, v, path):
        n = make_node(parent, level, kls[level], v)
        p2 = path + [list(v)]
        msgs, calls = node_checks(parent, n, dates=True)
        stats[0] += 1; stats[1] += 1; stats[2] += calls + 1
        for what, m in msgs:
            viol.append(('chain:%s:%s' % (what, 'accepts' if 'must be refused' in m else 'other' if ':' in what else 'refuses'),
                         {'cfg': CFG, 'kind': 'chain', 'kls': list(kls), 'path': p2, 'what': what},
                         'chain keys %s, links %s: %s' % (list(kls[:level + 1]), p2, m)))
        return n, p2
    def rec(parent, level, path):
        for v in variants:
            n, p2 = visit(parent, level, v, path)
            if level < depth:
                rec(n, level + 1, p2)
    parent, path = root, []
    for level, v in enumerate(prefix[:-1], 1):
        parent = make_node(parent, level, kls[level], tuple(v)); path = path + [list(v)]
    n, p2 = visit(parent, len(prefix), tuple(prefix[-1]), path)
    if below and len(prefix) < depth:
        rec(n, len(prefix) + 1, p2)
    return stats[0], stats[1], stats[2], viol[:20]

def chain_jobs(tier):
    jobs = []
    if tier == 'quick':
        plans = [((32, 24, 48, 64), 3, 'reduced'), ((64, 32), 1, 'full'), ((24, 48, 32), 2, 'full'), ((48, 64, 24), 2, 'reduced')]
    else:
        plans = [((32, 32, 32, 32), 3, 'mid'), ((24, 32, 48, 64), 3, 'mid'), ((64, 48, 32, 24), 3, 'reduced'), ((48, 24, 64, 32), 3, 'reduced'),
                 ((32, 48, 24), 2, 'full'), ((64, 24, 32), 2, 'full')]
        plans += [((a, b), 1, 'full') for a in cat_tok.KLENS for b in cat_tok.KLENS]
    for kls, depth, vset in plans:
        for first in VARSETS[vset]:
            if depth >= 3:          # split below the second level: evenly sized jobs
                jobs.append((kls, depth, vset, (first,), False))
                for second in VARSETS[vset]:
                    jobs.append((kls, depth, vset, (first, second), True))
            else:
                jobs.append((kls, depth, vset, (first,), True))
    return jobs

def chains(chk, tier):
    jobs = chain_jobs(tier)
    res = vf.pmap(chain_job, jobs, case_timeout=3000)
    nodes = chains_ = calls = 0
    for job, r in zip(jobs, res):
        if isinstance(r, dict):
            chk.violation('chain:crash', {'cfg': CFG, 'kind': 'chain', 'kls': list(job[0]), 'path': [list(v) for v in job[3]]}, 'chain subtree failed: %s' % str(r)[-800:]); continue
        n, c, k, viol = r
        nodes += n; chains_ += c; calls += k
        for key, rec, msg in viol:
            chk.violation(key, rec, msg)
        chk.outcome('chain depth %d keys %s' % (job[1], job[0]))
    chk.part('certificate_chains', states=nodes, transitions=calls, traces_validated_against_impl=calls, evaluations=chains_, chains=chains_,
             link_variants={k: len(v) for k, v in VARSETS.items()}, plans=len(jobs))
    chk.sample({'chain': {'keys': [32, 24, 48], 'links': [['match', 'overlap_end', 'right'], ['mismatch', 'nested_eq', 'right']], 'expected': 'link 1 accepted, link 2 refused'}})

def replay_chain(rec):
    kls = rec['kls']
    parent = make_root(kls[0])
    if not rec['path']:
        r = run_fn('btok.CVCUnwrap', dict(cert=parent.cert, mode='self'))
        return None if r['ret'] == 0 and r['cvc'] == parent.cvc else 'self-signed root does not parse back: %#x' % r['ret']
    n = None
    for level, v in enumerate(rec['path'], 1):
        if n is not None:
            parent = n
        n = make_node(parent, level, kls[level], tuple(v))
    msgs, _ = node_checks(parent, n)
    for what, m in msgs:
        if what == rec.get('what'):
            return m
    return msgs[0][1] if msgs else None

# =================================================================================================== B2. the same rules while the process-wide RNG is active
def rng_job(job):
    """btok.h: "deterministic signature mode; if the standard RNG is initialised its data are used in addition" -- every other part runs
    with the RNG closed, where btokSign() passes an empty t to bignSign2 / bign96Sign2.  Here the RNG is created first (entropy from hook H3,
    so the run is reproducible): certificates created and issued in that process state must parse back and validate like any others."""
    klr, kln, seed = job
    L = common.lib(CFG)
    if not L.has('vh_es_install') or not L.call('vh_es_install', seed):
        return 0, [('skipped', 'hook H3 not present')]
    out = []; calls = 0
    if L.err('rngCreate', 0, 0) != 0:
        L.call('vh_es_remove')
        return 0, [('rngCreate', 'rngCreate failed under the deterministic entropy hook')]
    try:
        if not L.boolean('rngIsValid'):
            out.append(('rngIsValid', 'rngCreate succeeded but rngIsValid() is false'))
        root = make_root(klr); calls += 1
        r = run_fn('btok.CVCUnwrap', dict(cert=root.cert, mode='self')); calls += 1
        if r['ret'] or r['cvc'] != root.cvc:
            out.append(('root', 'self-signed root (key %d octets) created while the RNG is active does not parse back under its own key: %#x' % (klr, r['ret'])))
        for vv in ('nested_eq', 'overlap_end'):
            n = make_node(root, 1, kln, ('match', vv, 'right')); calls += 1
            for fn, c in (('btok.CVCVal', dict(cert=n.cert, certa=root.cert, date=None)), ('btok.CVCVal2', dict(cert=n.cert, certa=root.cert, date=None, want=1))):
                r = run_fn(fn, c); calls += 1
                if r['ret']:
                    out.append((fn, '%s refuses (%#x) a certificate made by btokCVCWrap under the issuer key (%d octets) while the RNG is active' % (fn, r['ret'], klr)))
                elif fn.endswith('Val2') and r.get('cvc') != n.cvc:
                    out.append((fn + ':content', 'btokCVCVal2 returned another content than btokCVCWrap recorded'))
            r = run_fn('btok.CVCIss', dict(n.req, certa=root.cert, privkeya=root.priv)); calls += 1
            if r['ret']:
                out.append(('btok.CVCIss', 'btokCVCIss failed (%#x) although the link lines up' % r['ret']))
            else:
                v = run_fn('btok.CVCVal2', dict(cert=r['cert'], certa=root.cert, date=None, want=1)); calls += 1
                if v['ret'] or not _same_fields(v.get('cvc'), n.cvc):
                    out.append(('btok.CVCIss:val', 'the certificate issued by btokCVCIss (issuer key %d octets, RNG active) is refused (%#x) or carries another content' % (klr, v['ret'])))
                # an altered signed octet is still refused
                bad = bytearray(r['cert']); bad[len(bad) // 3] ^= 1
                v = run_fn('btok.CVCVal', dict(cert=bytes(bad), certa=root.cert, date=None)); calls += 1
                if v['ret'] == 0:
                    out.append(('btok.CVCIss:tamper', 'altered certificate accepted'))
        if klr == 32 and kln == 32:
            # bpkiCSRRewrap draws the optional signature data from the RNG when it is valid (bpki.c): the re-issued request must still verify
            # under the new key and refuse an altered octet
            d2 = cat_tok.privkey(32, 4)
            for csr in (T.CSR_BEE2EVP, T.csr_make(cat_tok.NAME_DER, cat_tok.ATTRS_DER, cat_tok.privkey(32, 3))):
                r = run_fn('bpkiCSRRewrap', dict(csr=csr, privkey=d2)); calls += 1
                if r['ret']:
                    out.append(('bpkiCSRRewrap', 'bpkiCSRRewrap failed (%#x) while the RNG is active' % r['ret'])); continue
                v = run_fn('bpkiCSRUnwrap', dict(csr=r['csr'])); calls += 1
                if v['ret'] or v.get('pubkey') != T.pubkey_of(d2):
                    out.append(('bpkiCSRRewrap:verify', 'the request re-issued by bpkiCSRRewrap while the RNG is active is refused (%#x) or carries another public key' % v['ret']))
                bad = bytearray(r['csr']); bad[len(bad) // 2] ^= 1
                v = run_fn('bpkiCSRUnwrap', dict(csr=bytes(bad))); calls += 1
                if v['ret'] == 0:
                    out.append(('bpkiCSRRewrap:tamper', 'altered request accepted'))
    finally:
        L.call('rngClose'); L.call('vh_es_remove')
    if L.boolean('rngIsValid'):
        out.append(('rngClose', 'the RNG is still valid after the balancing rngClose'))
    return calls, out

def _same_fields(a, b):
    """equal certificate content apart from the signature (two signatures under an active RNG differ by design)"""
    if not a or not b:
        return False
    pa, pb = cat_tok.cvc_parse(a), cat_tok.cvc_parse(b)
    return all(pa[k] == pb[k] for k in FIELDS)

def rng_active(chk, tier):
    jobs = [(a, b, s) for a in cat_tok.KLENS for b in cat_tok.KLENS for s in ((1,) if tier == 'quick' else (1, 2, 3))]
    res = vf.pmap(rng_job, jobs, case_timeout=600)
    calls = 0
    for job, r in zip(jobs, res):
        rec = {'cfg': CFG, 'kind': 'rngactive', 'job': list(job)}
        if isinstance(r, dict):
            chk.violation('rng-active:crash:%d' % job[0], rec, 'certificates under an active RNG: %s' % str(r)[-800:]); continue
        calls += r[0]
        for what, m in r[1]:
            if what == 'skipped':
                chk.observe('rng_active part skipped: ' + m)
            else:
                chk.violation('rng-active:%s:issuer-key-%d' % (what, job[0]), rec, m)
    chk.part('certificates_with_rng_active', states=len(jobs), transitions=calls, traces_validated_against_impl=calls, evaluations=len(jobs))
    chk.outcome('rng active')

def replay_rngactive(rec):
    r = vf.pmap(rng_job, [tuple(rec['job'])], nproc=1)[0]
    if isinstance(r, dict):
        return str(r)[-600:]
    return '; '.join(m for w, m in r[1] if w != 'skipped') or None

# =================================================================================================== C. altered certificates
def tamper_targets(tier):
    """(label, certificate, issuer certificate | None=self-signed)"""
    out = []
    kl2 = {24: 64, 32: 24, 48: 32, 64: 48}
    for kl in cat_tok.KLENS:
        ch = cat_tok.chain((kl2[kl], kl))
        out.append(('self%d' % kl2[kl], ch[0][1], None))
        out.append(('issued%d_by%d' % (kl, kl2[kl]), ch[1][1], ch[0][1]))
    d = cat_tok.privkey(32, 5)
    c = cat_tok.mk(b'BYCA0000', b'BYCA0000', b'', cat_tok.D_FROM, cat_tok.D_UNTIL)      # no access words: the shortest body
    out.append(('self32_nohat', T.cvc_wrap(c, d)[0], None))
    return out

def same_content(a, b):
    return all(a[k] == b[k] for k in FIELDS + ('sig',))

def tamper_cert(item):
    """one certificate x one mask: every octet altered -> list of (key, j, message)"""
    label, cert, certa, mask = item
    base = run_fn('btok.CVCUnwrap', dict(cert=cert, mode='none'))
    if base['ret']:
        return [('certtamper:base', -1, 'reference certificate %s does not parse: %#x' % (label, base['ret']))], 0, {}
    orig = cat_tok.cvc_parse(base['cvc'])
    ca_pub = orig['pubkey'] if certa is None else cat_tok.cvc_parse(run_fn('btok.CVCUnwrap', dict(cert=certa, mode='none'))['cvc'])['pubkey']
    out = []
    calls = 0
    oc = {}
    for j in range(len(cert)):
        x = bytearray(cert); x[j] ^= mask; x = bytes(x)
        where = T.der_path(cert, j)
        # (1) without a key: an error, or another content
        r = run_fn('btok.CVCUnwrap', dict(cert=x, mode='none')); calls += 1
        k = 'nokey ret=%#x' % r['ret']
        if r['ret'] == 0:
            same = same_content(cat_tok.cvc_parse(r['cvc']), orig)
            k += ' same' if same else ' other content'
            if same:
                out.append(('certtamper:unbound-octet:nokey', j, 'octet %d (%s) ^ %#04x of certificate %s is ignored: btokCVCUnwrap(no key) returns the same content' % (j, where, mask, label)))
        oc[k] = oc.get(k, 0) + 1
        # (2) under the signer's key: always an error
        r = run_fn('btok.CVCUnwrap', dict(cert=x, mode='key', pubkey=ca_pub)); calls += 1
        oc['key ret=%#x' % r['ret']] = oc.get('key ret=%#x' % r['ret'], 0) + 1
        if r['ret'] == 0:
            same = same_content(cat_tok.cvc_parse(r['cvc']), orig)
            out.append(('certtamper:%s:key' % ('unbound-octet' if same else 'forgery'), j, 'octet %d (%s) ^ %#04x of certificate %s: btokCVCUnwrap under the signer key accepts it (%s content)' % (
                j, where, mask, label, 'same' if same else 'ANOTHER')))
        if certa is None:
            r = run_fn('btok.CVCUnwrap', dict(cert=x, mode='self')); calls += 1
            if r['ret'] == 0 and j < len(cert):
                c2 = cat_tok.cvc_parse(r['cvc'])
                out.append(('certtamper:self', j, 'octet %d (%s) ^ %#04x of self-signed %s accepted on its own key (%s content)' % (j, where, mask, label, 'same' if same_content(c2, orig) else 'another')))
        else:
            r = run_fn('btok.CVCVal', dict(cert=x, certa=certa, date=None)); calls += 1
            if r['ret'] == 0:
                out.append(('certtamper:val', j, 'octet %d (%s) ^ %#04x of %s: btokCVCVal accepts the altered certificate' % (j, where, mask, label)))
            r = run_fn('btok.CVCVal2', dict(cert=x, certa=certa, date=None, want=1)); calls += 2
            if r['ret'] == 0:
                out.append(('certtamper:val2', j, 'octet %d (%s) ^ %#04x of %s: btokCVCVal2 accepts the altered certificate' % (j, where, mask, label)))
    return out[:12], calls, oc

def cert_tamper(chk, tier):
    masks = [0x01] if tier == 'quick' else [1, 2, 4, 8, 16, 32, 64, 128]
    items = [(label, cert, certa, m) for label, cert, certa in tamper_targets(tier) for m in masks]
    res = vf.pmap(tamper_cert, items, case_timeout=3000)
    calls = octets = 0
    for it, r in zip(items, res):
        rec0 = {'cfg': CFG, 'kind': 'certtamper', 'label': it[0], 'cert': it[1].hex(), 'certa': it[2].hex() if it[2] else None, 'mask': it[3]}
        if isinstance(r, dict):
            chk.violation('certtamper:crash', rec0, 'altered-certificate sweep failed: %s' % str(r)[-800:]); continue
        viol, n, oc = r
        calls += n; octets += len(it[1])
        for k, v in oc.items():
            chk.outcome('altered certificate: ' + k, v)
        for key, j, msg in viol:
            chk.violation(key, dict(rec0, j=j), msg)
    chk.part('altered_certificates', states=octets, transitions=calls, traces_validated_against_impl=calls, evaluations=octets, masks=masks,
             certificates=len(items) // len(masks))
    chk.sample({'altered_certificate': items[1][0], 'octets': len(items[1][1]), 'mask': items[1][3], 'verifiers': ['Unwrap(no key)', 'Unwrap(issuer key)', 'Val', 'Val2']})

def replay_certtamper(rec):
    cert = bytes.fromhex(rec['cert']); certa = bytes.fromhex(rec['certa']) if rec['certa'] else None
    viol, _, _ = tamper_cert((rec['label'], cert, certa, rec['mask']))
    for key, j, msg in viol:
        if j == rec.get('j'):
            return msg
    return viol[0][2] if viol else None

# =================================================================================================== D. secure messaging search
class SM:
    """one node of the search: raw state bytes of both endpoints, model counters, message in flight"""
    __slots__ = ('T', 'C', 'nT', 'nC', 'msg')
    def key(self):
        h = hashlib.sha256()
        h.update(self.T); h.update(self.C); h.update(b'%d,%d' % (self.nT, self.nC))
        if self.msg:
            h.update(repr((self.msg[0], self.msg[2], self.msg[3])).encode()); h.update(self.msg[1])
        return h.digest()[:12]

def sm_init(L):
    with vf.Arena(L) as A:
        st = cat_tok.sm_state(L, A, cat_tok.SMKEY, 0, 0x00)
        b = st.get()
    s = SM(); s.T = b; s.C = b; s.nT = s.nC = 0; s.msg = None
    return s

def objs_equal(kind, back, obj):
    return list(back) == list(obj)

def sm_step(L, s, ev, cmd, resp):
    """apply one event to a copy of node s -> (successor, [(class, message)])"""
    n = SM(); n.T, n.C, n.nT, n.nC, n.msg = s.T, s.C, s.nT, s.nC, s.msg
    viol = []
    with vf.Arena(L) as A:
        if ev in ('incT', 'incC'):
            who = ev[-1]
            st = A.buf(getattr(s, who))
            L.call('btokSMCtrInc', st)
            setattr(n, who, st.get()); setattr(n, 'n' + who, getattr(s, 'n' + who) + 1)
            if st.get() == getattr(s, who):
                viol.append(('ctrinc', 'btokSMCtrInc left the state unchanged'))
        elif ev in ('cmdwrap', 'respwrap'):
            kind = 'cmd' if ev == 'cmdwrap' else 'resp'
            who, obj = ('T', cmd) if kind == 'cmd' else ('C', resp)
            ctr = getattr(s, 'n' + who)
            st = A.buf(getattr(s, who))
            r, apdu = cat_tok.sm_wrap(L, A, kind, st, obj)
            right = ctr % 2 == (1 if kind == 'cmd' else 0)
            if right:
                if r:
                    viol.append(('wrap-refused', '%s at counter %d (right parity) returned %#x' % (ev, ctr, r)))
                else:
                    n.msg = (kind, apdu, ctr, False)
                    setattr(n, who, st.get())
            else:
                if r != E['BAD_LOGIC']:
                    viol.append(('parity-wrap', '%s at counter %d (wrong parity) returned %#x, expected ERR_BAD_LOGIC' % (ev, ctr, r)))
                if st.get() != getattr(s, who):
                    viol.append(('parity-wrap-state', '%s at counter %d (wrong parity) changed the state' % (ev, ctr)))
                if r == 0:
                    n.msg = (kind, apdu, ctr, False); setattr(n, who, st.get())
        elif ev in ('cmdunwrap', 'respunwrap'):
            kind = 'cmd' if ev == 'cmdunwrap' else 'resp'
            who, obj = ('C', cmd) if kind == 'cmd' else ('T', resp)
            ctr = getattr(s, 'n' + who)
            st = A.buf(getattr(s, who))
            r, back = cat_tok.sm_unwrap(L, A, kind, st, s.msg[1])
            right = ctr % 2 == (1 if kind == 'cmd' else 0)
            if not right:
                if r != E['BAD_LOGIC']:
                    viol.append(('parity-unwrap', '%s at counter %d (wrong parity) returned %#x, expected ERR_BAD_LOGIC' % (ev, ctr, r)))
                if st.get() != getattr(s, who):
                    viol.append(('parity-unwrap-state', '%s at counter %d (wrong parity) changed the state' % (ev, ctr)))
            elif ctr == s.msg[2]:
                if r:
                    viol.append(('instep-refused', '%s in step (counter %d) returned %#x' % (ev, ctr, r)))
                elif not objs_equal(kind, back, obj):
                    viol.append(('instep-differs', '%s in step (counter %d) recovered %s, protected was %s' % (ev, ctr, str(back)[:120], str(list(obj))[:120])))
            setattr(n, who, st.get())
        else:
            raise ValueError(ev)
    return n, viol

def sm_events(s):
    ev = ['incT', 'incC', 'cmdwrap', 'respwrap']
    if s.msg:
        ev.append('cmdunwrap' if s.msg[0] == 'cmd' else 'respunwrap')
    return ev

def sm_probe(L, s, masks, cmd, resp, stride=1):
    """tamper(octet j) immediately before the receiver's unwrap of the message in flight -> (violations, probes)"""
    kind, apdu, wctr, _ = s.msg
    who = 'C' if kind == 'cmd' else 'T'
    fn = 'btokSMCmdUnwrap' if kind == 'cmd' else 'btokSMRespUnwrap'
    viol = []
    n = 0
    with vf.Arena(L) as A:
        size = (cat_tok.CMD_SIZE if kind == 'cmd' else cat_tok.RESP_SIZE) + len(apdu)      # the recovered object is shorter than its protected code
        for m in masks:
            for j in range(0, len(apdu), stride):
                x = bytearray(apdu); x[j] ^= m
                st = A.buf(getattr(s, who)); src = A.buf(bytes(x)); dst = A.buf(size, 0); sz = A.buf(8, 0)
                r = L.err(fn, dst, sz, src, len(apdu), st)
                n += 1
                if r == 0:
                    viol.append(('tamper-accepted:' + kind, [j, m], 'octet %d ^ %#04x of the protected %s (%d octets, wrapped at counter %d) accepted by %s at counter %d' % (
                        j, m, kind, len(apdu), wctr, fn, getattr(s, 'n' + who))))
                elif m == masks[0] and j in (0, len(apdu) // 2, len(apdu) - 3, len(apdu) - 1) and getattr(s, 'n' + who) == wctr:
                    # the refusal must not damage the state: the genuine message is still recovered from the state the refusal left
                    r2, back = cat_tok.sm_unwrap(L, A, kind, st, apdu)
                    n += 2
                    if r2 or list(back) != list(cmd if kind == 'cmd' else resp):
                        viol.append(('after-refusal:' + kind, [j, m], 'after refusing octet %d ^ %#04x the in-step %s is no longer recovered (ret %#x)' % (j, m, kind, r2)))
                st.free(); src.free(); dst.free(); sz.free()
                A.bufs = []
    return viol, n

def sm_job(job):
    """breadth-first search for one (command, response) pair -> (states, transitions, probes, violations, outcome counts)"""
    cmd, resp, depth, masks = job
    L = common.lib(CFG)
    s0 = sm_init(L)
    seen = {s0.key()}
    frontier = [(s0, [])]
    ntr = nprobe = 0
    viol = []
    probed = set()
    oc = {}
    for level in range(depth):
        nxt = []
        for s, path in frontier:
            for ev in sm_events(s):
                n, vs = sm_step(L, s, ev, cmd, resp)
                ntr += 1
                p2 = path + [ev]
                for cls, m in vs:
                    viol.append(('sm:' + cls, p2, None, m))
                k = n.key()
                if k in seen:
                    continue
                seen.add(k)
                nxt.append((n, p2))
            if s.msg:
                kind, apdu, wctr, _ = s.msg
                who = 'C' if kind == 'cmd' else 'T'
                rc = getattr(s, 'n' + who)
                pk = (kind, wctr, rc, hashlib.sha256(getattr(s, who)).digest()[:8])
                if pk not in probed:
                    probed.add(pk)
                    right = rc % 2 == (1 if kind == 'cmd' else 0)
                    vs, n = sm_probe(L, s, masks, cmd, resp, stride=1 if right else 7)
                    nprobe += n
                    oc['probe %s %s parity' % (kind, 'right' if right else 'wrong')] = oc.get('probe %s %s parity' % (kind, 'right' if right else 'wrong'), 0) + n
                    for cls, jm, m in vs:
                        viol.append(('sm:' + cls, path, jm, m))
        frontier = nxt
    return len(seen), ntr, nprobe, viol[:10], oc

def sm_jobs(tier):
    cmds = cat_tok.cmd_menu(tier); resps = cat_tok.resp_menu(tier)
    masks = [0x01] if tier == 'quick' else [1, 2, 4, 8, 16, 32, 64, 128]
    jobs = []
    for i, c in enumerate(cmds):
        jobs.append((c, resps[i % len(resps)], 6, masks))
    return jobs

def sm_search(chk, tier):
    jobs = sm_jobs(tier)
    res = vf.pmap(sm_job, jobs, case_timeout=3000)
    st = tr = pr = 0
    for job, r in zip(jobs, res):
        base = {'cfg': CFG, 'kind': 'sm', 'cmd': [job[0][0], job[0][1], job[0][2], job[0][3], job[0][4].hex(), job[0][5]], 'resp': [job[1][0], job[1][1], job[1][2].hex()]}
        if isinstance(r, dict):
            chk.violation('sm:crash', dict(base, path=[]), 'secure-messaging search failed: %s' % str(r)[-800:]); continue
        a, b, c, viol, oc = r
        st += a; tr += b; pr += c
        for k, v in oc.items():
            chk.outcome(k, v)
        for key, path, jm, msg in viol:
            chk.violation(key, dict(base, path=path, probe=jm), 'command Lc=%d Le=%d, response %d octets, events %s: %s' % (len(job[0][4]), job[0][5], len(job[1][2]), path, msg))
    chk.part('secure_messaging_search', states=st, transitions=tr + pr, traces_validated_against_impl=tr + pr, evaluations=len(jobs), tamper_probes=pr,
             commands=len(jobs), depth=6)
    chk.sample({'sm_path': ['incT', 'cmdwrap', 'incC', 'cmdunwrap', 'incC', 'respwrap'], 'command': 'Lc=255 Le=256', 'probe': 'every octet of the protected command ^ 0x01 -> refused'})

def replay_sm(rec):
    L = common.lib(rec.get('cfg', CFG))
    c = rec['cmd']; cmd = (c[0], c[1], c[2], c[3], bytes.fromhex(c[4]), c[5])
    r = rec['resp']; resp = (r[0], r[1], bytes.fromhex(r[2]))
    s = sm_init(L)
    msgs = []
    for ev in rec['path']:
        s, vs = sm_step(L, s, ev, cmd, resp)
        msgs += [m for _, m in vs]
    if rec.get('probe') and s.msg:
        j, m = rec['probe']
        kind, apdu, wctr, _ = s.msg
        vs, _ = sm_probe(L, s, [m], cmd, resp)
        msgs += [t for _, jm, t in vs if jm[0] == j]
    return msgs[-1] if msgs else None

# =================================================================================================== E. containers
def bpki_items(tier):
    """(kind, key, container, password, tamper masks, label)"""
    q = tier == 'quick'
    masks = [1] if q else [1, 2, 4, 8, 16, 32, 64, 128]
    keys = [('privkey', cat_tok.privkey(kl)) for kl in cat_tok.KLENS] + [('share', bytes([i]) + vf.filler('share%d' % n, n - 1)) for n, i in ((17, 1), (25, 7), (33, 16))]
    out = []
    for kind, key in keys:
        pki = (T.pki_privkey if kind == 'privkey' else T.pki_share)(key)
        for pl in (0, 1, 64):
            for it in (1, 2):
                out.append((kind, key, T.epki(pki, cat_tok.PWDS[pl], cat_tok.SALT, it), cat_tok.PWDS[pl], masks if (pl, it) == (1, 1) else [], 'ref iter=%d |pwd|=%d' % (it, pl)))
        # a container made by the library itself (10000 iterations)
        out.append((kind, key, None, cat_tok.PWDS[3], masks[:1] if (q and len(key) == 32) or (not q and len(key) in (32, 17)) else [], 'lib iter=10000 |pwd|=3'))
    # iteration counts by the classes of their DER encoding (INTEGER of 2 octets, of 3 octets with a leading 00 pad and a low octet below /
    # above 0x80, of 3 octets without a pad, of 4 octets with a pad): the count travels inside the container and is parsed back on Unwrap
    for it in ((32767, 32768, 40000, 65535, 65536) if q else (10001, 32767, 32768, 32896, 40000, 50000, 65407, 65535, 65536, 100000, 8388608)):
        out.append(('privkey', keys[1][1], None, cat_tok.PWDS[3], [], 'lib iter=%d |pwd|=3' % it))
        out.append(('share', keys[4][1], None, cat_tok.PWDS[1], [], 'lib iter=%d |pwd|=1' % it))
    out.append(('privkey', keys[3][1], None, cat_tok.PWDS[0], [], 'lib iter=10000 |pwd|=0'))
    out.append(('privkey', keys[0][1], None, cat_tok.PWDS[64], [], 'lib iter=10000 |pwd|=64'))
    return out

def hmac_key(pwd):
    """HMAC[belt-hash] pads a key of <= 32 octets with zeros and hashes a longer one: passwords with the same padded form are
    the same password for PBKDF2 (p and p || 00 for |p| < 32) -- a property of the mechanism, not of the implementation"""
    import belt
    return belt.hash(pwd) if len(pwd) > 32 else pwd.ljust(32, b'\0')

def wrong_pwds(pwd):
    out = [pwd + b'\0', pwd + b'z', pwd + b'\0z']
    if pwd:
        out += [pwd[:-1], bytes([pwd[0] ^ 1]) + pwd[1:], pwd[:-1] + bytes([pwd[-1] ^ 0x80]), b'']
    return [p for p in dict.fromkeys(out) if hmac_key(p) != hmac_key(pwd)]

def holds(buf, key):
    return any(key[i:i + 8] in buf for i in range(0, len(key) - 7))

def bpki_item(item):
    kind, key, epki, pwd, masks, label = item
    wr, un = ('bpkiPrivkeyWrap', 'bpki.PrivkeyOpen') if kind == 'privkey' else ('bpkiShareWrap', 'bpki.ShareOpen')
    viol = []
    calls = 0
    what = '%s %d octets, %s' % (kind, len(key), label)
    if epki is None:
        r = run_fn(wr, dict(key=key, pwd=pwd, salt=cat_tok.SALT, iter=int(re.search(r'iter=(\d+)', label).group(1)))); calls += 1
        if r['ret']:
            return [('bpki:wrap', None, '%s(%s) failed: %#x' % (wr, what, r['ret']))], calls
        epki = r['epki']
        if r['epki_len'] != len(epki):
            viol.append(('bpki:wrap-len', None, '%s(%s) reports length %d for a %d-octet container' % (wr, what, r['epki_len'], len(epki))))
    r = run_fn(un, dict(klen=len(key), epki=epki, pwd=pwd)); calls += 1
    if r['ret'] or r['key'] != key or r['key_len'] != len(key):
        viol.append(('bpki:right-pwd', None, '%s(%s) with the right password: ret %#x, key %s' % (un, what, r['ret'], 'differs' if r['ret'] == 0 else 'n/a')))
    for w in wrong_pwds(pwd):
        r = run_fn(un, dict(klen=len(key), epki=epki, pwd=w)); calls += 1
        if r['ret'] == 0:
            viol.append(('bpki:wrong-pwd-accepted', None, '%s(%s) accepts the wrong password %s (key %s)' % (un, what, w.hex(), 'equal' if r['key'] == key else 'differs')))
        else:
            if holds(r['key'], key):
                viol.append(('bpki:key-released', None, '%s(%s) fails with %#x on a wrong password but the output holds key octets' % (un, what, r['ret'])))
            if r['ret'] != E['BAD_KEYTOKEN']:
                viol.append(('bpki:wrong-pwd-code:%s%d' % (kind, len(key)), None, '%s(%s) reports %#x for a wrong password; the belt-kwp integrity failure is documented as ERR_BAD_KEYTOKEN (belt.h) '
                             'and is what every other container length reports' % (un, what, r['ret'])))
    for x, how in ((epki + b'\0', 'one octet appended'), (epki[:-1], 'last octet removed'), (epki[1:], 'first octet removed')):
        r = run_fn(un, dict(klen=len(key), epki=x, pwd=pwd)); calls += 1
        if r['ret'] == 0:
            viol.append(('bpki:length-accepted', None, '%s(%s): container with %s accepted' % (un, what, how)))
    for m in masks:
        for j in range(len(epki)):
            x = bytearray(epki); x[j] ^= m
            r = run_fn(un, dict(klen=len(key), epki=bytes(x), pwd=pwd)); calls += 1
            if r['ret'] == 0:
                viol.append(('bpki:unbound-octet' if r['key'] == key else 'bpki:altered-accepted', [j, m], '%s(%s): octet %d (%s) ^ %#04x of the container accepted, key %s' % (
                    un, what, j, T.der_path(epki, j), m, 'unchanged' if r['key'] == key else 'DIFFERENT')))
            elif holds(r['key'], key):
                viol.append(('bpki:key-released', [j, m], '%s(%s): octet %d ^ %#04x rejected with %#x but the output holds key octets' % (un, what, j, m, r['ret'])))
    return viol[:10], calls

def csr_item(item):
    csr, mask = item
    viol = []
    calls = 0
    r = run_fn('bpkiCSRUnwrap', dict(csr=csr)); calls += 1
    if r['ret']:
        return [('csr:base', None, 'valid CSR refused: %#x' % r['ret'])], calls
    for x, how in ((csr + b'\0', 'one octet appended'), (csr[:-1], 'last octet removed')):
        r = run_fn('bpkiCSRUnwrap', dict(csr=x)); calls += 1
        if r['ret'] == 0:
            viol.append(('csr:length-accepted', None, 'bpkiCSRUnwrap accepts the request with %s' % how))
    for j in range(len(csr)):
        x = bytearray(csr); x[j] ^= mask
        r = run_fn('bpkiCSRUnwrap', dict(csr=bytes(x))); calls += 1
        if r['ret'] == 0:
            viol.append(('csr:altered-accepted', [j, mask], 'bpkiCSRUnwrap accepts the request with octet %d (%s) ^ %#04x' % (j, T.der_path(csr, j), mask)))
    return viol[:10], calls

def containers(chk, tier):
    items = bpki_items(tier)
    res = vf.pmap(bpki_item, items, case_timeout=3000)
    calls = 0
    for it, r in zip(items, res):
        rec0 = {'cfg': CFG, 'kind': 'bpki', 'ckind': it[0], 'key': it[1].hex(), 'epki': it[2].hex() if it[2] else None, 'pwd': it[3].hex(), 'label': it[5]}
        if isinstance(r, dict):
            chk.violation('bpki:crash', dict(rec0, masks=[]), 'container check failed: %s' % str(r)[-800:]); continue
        viol, n = r
        calls += n
        chk.outcome('container ' + it[5])
        for key, jm, msg in viol:
            chk.violation(key, dict(rec0, masks=[jm[1]] if jm else [], j=jm[0] if jm else None), msg)
    chk.part('containers', states=len(items), transitions=calls, traces_validated_against_impl=calls, evaluations=len(items),
             passwords=[0, 1, 3, 64], iterations=[1, 2, 10000], lengths=[24, 32, 48, 64, 17, 25, 33])
    masks = [1] if tier == 'quick' else [1, 2, 4, 8, 16, 32, 64, 128]
    d1, d2 = cat_tok.privkey(32, 3), cat_tok.privkey(32, 4)
    csrs = [T.CSR_BEE2EVP, T.csr_make(cat_tok.NAME_DER, cat_tok.ATTRS_DER, d1)]
    csrs.append(run_fn('bpkiCSRRewrap', dict(csr=csrs[0], privkey=d2)).get('csr', b''))
    items = [(c, m) for c in csrs for m in masks]
    res = vf.pmap(csr_item, items, case_timeout=3000)
    calls = 0
    for it, r in zip(items, res):
        rec0 = {'cfg': CFG, 'kind': 'csr', 'csr': it[0].hex(), 'mask': it[1]}
        if isinstance(r, dict):
            chk.violation('csr:crash', rec0, 'CSR check failed: %s' % str(r)[-800:]); continue
        viol, n = r
        calls += n
        for key, jm, msg in viol:
            chk.violation(key, dict(rec0, j=jm[0] if jm else None), msg)
    chk.part('certificate_requests', states=sum(len(c) for c in csrs), transitions=calls, traces_validated_against_impl=calls, evaluations=len(items))
    chk.sample({'container': 'privkey 48 octets, ref iter=1 |pwd|=1', 'checks': ['right password', '%d wrong passwords' % len(wrong_pwds(b'z')), 'every octet ^ mask']})

def replay_bpki(rec):
    item = (rec['ckind'], bytes.fromhex(rec['key']), bytes.fromhex(rec['epki']) if rec['epki'] else None, bytes.fromhex(rec['pwd']), rec['masks'], rec['label'])
    viol, _ = bpki_item(item)
    for key, jm, msg in viol:
        if (jm[0] if jm else None) == rec.get('j'):
            return msg
    return viol[0][2] if viol else None

def replay_csr(rec):
    viol, _ = csr_item((bytes.fromhex(rec['csr']), rec['mask']))
    for key, jm, msg in viol:
        if (jm[0] if jm else None) == rec.get('j'):
            return msg
    return viol[0][2] if viol else None

# =================================================================================================== F. issuer key length sweep (DESIGN F18)
def keylen_sweep(chk, tier):
    """btokCVCVal2 with every issuer public-key length 0..130 in the caller's structure: only 48/64/96/128 may reach the verifier"""
    ch = cat_tok.chain((32, 32))
    bad = []
    n = 0
    L = common.lib(CFG)
    for pl in range(0, 131):
        with vf.Arena(L) as A:
            ca = bytearray(cat_tok.cvc_bytes(ch[0][2]))
            ca[cat_tok.OFF['pubkey_len']:cat_tok.OFF['pubkey_len'] + 8] = pl.to_bytes(8, 'little')
            cvc = A.buf(cat_tok.CVC_SIZE, 0)
            r = L.err('btokCVCVal2', cvc, A.buf(ch[1][1]), len(ch[1][1]), A.buf(bytes(ca)), None)
            n += 1
            chk.outcome('Val2 issuer pubkey_len class ret=%#x' % r)
            if (r == 0) != (pl == 64):
                bad.append((pl, r))
    for pl, r in bad:
        chk.violation('keylen:val2', {'cfg': CFG, 'kind': 'keylen', 'pl': pl}, 'btokCVCVal2 with issuer pubkey_len = %d returned %#x' % (pl, r))
    chk.part('issuer_key_length_sweep', states=131, transitions=n, traces_validated_against_impl=n, evaluations=n)

def replay_keylen(rec):
    ch = cat_tok.chain((32, 32))
    L = common.lib(CFG)
    with vf.Arena(L) as A:
        ca = bytearray(cat_tok.cvc_bytes(ch[0][2]))
        ca[cat_tok.OFF['pubkey_len']:cat_tok.OFF['pubkey_len'] + 8] = rec['pl'].to_bytes(8, 'little')
        r = L.err('btokCVCVal2', A.buf(cat_tok.CVC_SIZE, 0), A.buf(ch[1][1]), len(ch[1][1]), A.buf(bytes(ca)), None)
    return None if (r == 0) == (rec['pl'] == 64) else 'btokCVCVal2 with issuer pubkey_len = %d returned %#x' % (rec['pl'], r)

# =================================================================================================== driver
def pbkdf2_gate(item):
    import belt
    pwd, want = item
    return belt.pbkdf2(pwd, 10000, cat_tok.SALT).hex() == want

def run(tier):
    chk = vf.Check(PROP, tier, deadline_s=600 if tier == 'quick' else 2400)
    if common.lib(CFG).boolean('rngIsValid'):
        chk.harness_error('the process-wide RNG is valid: signatures would not be reproducible')
    if tier == 'thorough':
        ok = vf.pmap(pbkdf2_gate, list(cat_tok.PBKDF2_10000.items()), case_timeout=600)
        if ok != [True] * len(ok):
            chk.harness_error('the recorded reference PBKDF2 values disagree with ref/belt.py: %s' % ok)
    for phase in (corpus, cert_tamper, containers, keylen_sweep, sm_search, chains, rng_active):
        if chk.expired():
            chk.cap('deadline before ' + phase.__name__); continue
        phase(chk, tier)
    chk.assumptions += [
        'reference ref/tok.py (CV certificate grammar and rules of btok.h, SM formats of STB 34.101.79 gated by the example of the standard, PKCS#8/PBES2 containers, CSR gated by a bee2evp request) '
        'on top of the vector-gated codec/bign/belt/bash references',
        'chain rules asserted are exactly those of btok.h: issuer name = holder name, signature under the issuer key, issuer.from <= cert.from <= issuer.until (cert.until is not bounded), '
        'check date valid and inside [cert.from, cert.until]',
        'secure messaging: tamper(j) commutes with every event except the unwrap of that message, so it is applied immediately before the unwrap at every (counter, state) pair reached; '
        'replay / out-of-step counters of the right parity are observed, not judged (the MAC does not cover the counter)',
        'containers with 1 and 2 iterations come from the reference encoder (bpkiXxxWrap demands >= 10000, checked as a documented error); bpki.h puts no lower bound on the count when parsing',
        'error codes are asserted only where a header names them (ERR_BAD_LOGIC, ERR_BAD_APDU, ERR_BAD_FORMAT for length/format, ERR_BAD_INPUT, ERR_BAD_PRIVKEY, ERR_BAD_SHAREKEY/SECKEY, ERR_NOT_IMPLEMENTED) '
        'and ERR_BAD_KEYTOKEN for a failed belt-kwp integrity check (belt.h); elsewhere any error is accepted',
        'the process-wide RNG is not created (deterministic signatures) except in the part certificates_with_rng_active, where it is created over the deterministic entropy hook H3']
    return chk.finish('C17', 'E1: certificate content alphabet x key lengths against the reference; every per-link combination of {name, validity position, signer} along chains of depth 1..3; '
                      'every octet x mask of certificates / containers / requests; E2: breadth-first search over the events of two SM endpoints to depth 6 with dedup on the raw state bytes, '
                      'tamper probes at every reached (message, receiver state); states = certificates / state-byte nodes / altered octets, transitions = library calls')

def replay(rec):
    k = rec.get('kind')
    if k == 'case':
        return common.replay_case(rec)
    if k == 'chain':
        return replay_chain(rec)
    if k == 'rngactive':
        return replay_rngactive(rec)
    if k == 'certtamper':
        return replay_certtamper(rec)
    if k == 'sm':
        return replay_sm(rec)
    if k == 'bpki':
        return replay_bpki(rec)
    if k == 'csr':
        return replay_csr(rec)
    if k == 'keylen':
        return replay_keylen(rec)
    return None
