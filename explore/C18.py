"""C18 -- shared RNG, once, atomics under every interleaving.
Controlled pass: the real mt.c/rng.c/util.c (whole library compiled with clang -fsanitize=thread but linked
against drv/c18/vsched.c instead of the TSan runtime): serialising scheduler with choice points at every
mutex / CAS / atomic operation, preemption-bounded DFS over all schedules (each execution in a forked
child), happens-before (vector clock) race detection on every explored schedule, linearisation oracle
(sequential replay of the observed lock order on a fresh process).
Free-running pass: the same thread bodies under the real ThreadSanitizer runtime with 2..16 OS threads."""
import json, os, subprocess, sys, itertools, re, time
from concurrent.futures import ThreadPoolExecutor
import vf, build as vbuild

PROP = 'C18'
D = os.path.join(vf.VERIF, 'drv', 'c18')
TS = ['-O1', '-g1', '-fsanitize=thread', '-DBEE2_VERIF']

def binaries():
    ctl = vbuild.build_program('c18', 'clang', TS,
        [(os.path.join(D, 'c18_bodies.c'), ['-O1', '-g1', '-fsanitize=thread']),
         (os.path.join(D, 'vsched.c'), ['-O1', '-g1', '-fno-builtin']),
         (os.path.join(D, 'c18_main.c'), ['-O1', '-g1'])], ['-no-pie'], 'c18')
    free = vbuild.build_program('c18f', 'clang', TS + ['-DNDEBUG'],
        [(os.path.join(D, 'c18_bodies.c'), ['-O1', '-g1', '-fsanitize=thread']),
         (os.path.join(D, 'c18_free.c'), ['-O1', '-g1', '-fsanitize=thread'])], ['-fsanitize=thread'], 'c18free')
    return ctl, free

# thread bodies for the generator: use only while holding a reference, Create/Close balanced
SEQ2 = ['C,X', 'C,R32,X', 'C,S32,X', 'C,R7,X', 'C,K,X', 'C,V,X', 'V', 'V,C,X', 'C,X,V', 'c,R32,X']
SEQ2_LONG = ['C,R32,S7,X', 'C,K,R32,X', 'C,X,C,X', 'C,C,X,X', 'C,R7,R32,X', 'V,C,V,X']
SEQ3 = ['C,X', 'C,R32,X', 'V', 'C,S7,X']

def programs(tier):
    progs = []     # (prog, bound, deadline_s)
    progs += [('once:2', 3, 60), ('once:3', 2 if tier == 'quick' else 3, 120)]
    at = ['I,D|D,I', 'I,I|D,W1000', 'W1000,I|W1000,D', 'I,D,I|D,I,D', 'I|D|W1000', 'I,W1001|D,W999|I']
    progs += [('atomic:' + a, 2 if tier == 'quick' else 3, 120) for a in at]
    for a, b in itertools.combinations_with_replacement(SEQ2, 2):
        progs.append(('rng:%s|%s' % (a, b), 2 if tier == 'quick' else 3, 200))
    # exit-time destructor list of util.c: registrations racing with each other and with the first rngCreate (rngInit registers rngDestroy)
    for pr in ('rng:E|E', 'rng:E,E|E', 'rng:E|C,X', 'rng:E,C,X|E', 'rng:C,X,E|E,C,X'):
        progs.append((pr, 2 if tier == 'quick' else 3, 200))
    progs.append(('rng:E|E|C,X', 1 if tier == 'quick' else 2, 300))
    # the second user of mtCallOnce inside the library: the once-guarded frequency calibration of tm.c (reached from rngESRead("timer"))
    progs += [('tm:F|F', 2, 200), ('tm:F,F|F', 2 if tier == 'thorough' else 1, 200), ('tm:F|F|F', 1, 300)]
    # requests of different lengths on the shared generator: a request that is not a multiple of the 32-octet block leaves a reserve, the
    # next requests are shorter than / equal to / longer than that reserve (oracle: no 8 octets of output handed out twice)
    for pr in ('rng:C,R24,R40,R8,X', 'rng:C,R24,R8,X|C,R40,X', 'rng:C,R7,R57,X|C,R16,X', 'rng:C,S24,X|C,R40,R8,X', 'rng:C,R24,X|C,R56,X|C,R8,X'):
        progs.append((pr, (2 if pr.count('|') < 2 else 1) if tier == 'quick' else 2, 300))
    if tier == 'quick':      # two overlapping re-keyings whose effect is observed by a later request
        progs += [('rng:C,K,R32,X|C,K,X', 2, 300), ('rng:C,K,R32,X|C,K,S32,X', 2, 300)]
    if tier == 'thorough':
        for a in SEQ2_LONG:
            for b in SEQ2[:6] + SEQ2_LONG:
                if SEQ2_LONG.index(a) <= (SEQ2_LONG.index(b) if b in SEQ2_LONG else 99):
                    progs.append(('rng:%s|%s' % (a, b), 2, 300))
    for t in itertools.combinations_with_replacement(SEQ3, 3):
        progs.append(('rng:' + '|'.join(t), 1 if tier == 'quick' else 2, 240 if tier == 'quick' else 900))
    return progs

FREE = {'quick': [('once:16', 25), ('once:2', 25), ('atomic*16:I,D,W1000', 25), ('rng*16:C,R32,S7,K,V,X', 25),
                  ('rng:C,R32,X|V,V,V|C,X,C,X', 25), ('rng*2:C,S32,X', 25), ('rng*8:E,C,R32,X', 25), ('tm*8:F', 5)],
        'thorough': [('once:16', 200), ('once:2', 200), ('once:5', 200), ('atomic*16:I,D,W1000', 200), ('atomic*3:I,I,D', 200),
                     ('rng*16:C,R32,S7,K,V,X', 200), ('rng*8:C,R32,X,C,K,X', 200), ('rng:C,R32,X|V,V,V|C,X,C,X', 200),
                     ('rng*2:C,S32,X', 200), ('rng*3:V,C,R7,X', 200), ('rng*8:E,C,R32,X', 200), ('rng*16:E', 200), ('tm*16:F,F', 10), ('rng:V|C,X', 300), ('rng*4:c,R32,X', 200)]}

FREE_TIMEOUT = 240

def symbolise(binpath, msg):
    pcs = re.findall(r'@(0x[0-9a-f]+)', msg)
    if not pcs:
        return msg
    r = subprocess.run(['addr2line', '-f', '-e', binpath] + pcs, stdout=subprocess.PIPE, text=True).stdout.split('\n')
    for i, pc in enumerate(pcs):
        fn = r[2 * i] if 2 * i < len(r) else '?'
        loc = os.path.basename(r[2 * i + 1].split(' ')[0]) if 2 * i + 1 < len(r) else '?'
        msg = msg.replace('@' + pc, ' in %s (%s)' % (fn, loc), 1)
    return msg

def key_of(msg):
    m = re.sub(r'\(T\d?\)', '', msg)
    m = re.sub(r' \(([a-z_0-9]+\.c):\d+\)', r' (\1)', m)    # drop line numbers: stable across small edits
    return re.sub(r'\s+', '_', m.strip())[:160]

def single(ctl, prog, choices):
    arg = ','.join(map(str, choices)) if choices else '-'
    r = subprocess.run([ctl, 'single', prog, arg], stdout=subprocess.PIPE, stderr=subprocess.PIPE, text=True, timeout=120)
    try:
        return json.loads(r.stdout.strip().splitlines()[-1])
    except Exception:
        return {'obs': 'crash', 'violations': ['explorer crashed: ' + r.stderr[-300:]]}

def run(tier):
    chk = vf.Check(PROP, tier, deadline_s=420 if tier == 'quick' else 3 * 3600)
    ctl, free = binaries()
    progs = programs(tier)
    t0 = time.time()
    def one(p):
        prog, bound, dl = p
        if chk.expired():
            return prog, bound, None
        # a program of the quick tier normally takes 1 - 5 s; on a machine with all cores busy an execution occasionally stalls until the
        # program's deadline (observed with 12 identical explorers side by side; cause not identified).  A run stopped by its deadline is
        # therefore repeated once before it counts as capped, and the quick tier does not wait longer than 90 s for one attempt.
        lim = min(dl, 90) if tier == 'quick' else dl
        for attempt in range(2):
            r = subprocess.run([ctl, 'explore', prog, str(bound), '0', str(lim)], stdout=subprocess.PIPE, stderr=subprocess.PIPE, text=True)
            try:
                d = json.loads(r.stdout.strip().splitlines()[-1])
            except Exception:
                return prog, bound, {'error': (r.stdout[-300:] + r.stderr[-300:])}
            if not d.get('capped') or d.get('violations'):
                break
        return prog, bound, d
    with ThreadPoolExecutor(max(2, vf.NPROC // 2)) as ex:          # each explorer runs 2 - 4 runnable threads plus its forked executions
        results = list(ex.map(one, progs))
    nsched = 0; ntrans = 0; byp = [0] * 5; nlin = 0
    for prog, bound, r in results:
        if r is None:
            chk.cap('deadline before program %s' % prog); continue
        if 'error' in r:
            chk.violation('explorer:' + prog, {'prog': prog, 'choices': []}, 'explorer failed on %s: %s' % (prog, r['error'])); continue
        nsched += r['executions']; ntrans += r['transitions']; nlin += r.get('linearisations', 0)
        for i in range(5):
            byp[i] += r['by_preemptions'][i]
        if r['capped']:
            chk.cap('%s bound %d: stopped after %d schedules' % (prog, bound, r['executions']))
        chk.outcome('%s:%d outcomes' % (prog.split(':')[0], r['outcomes']))
        for v in r['violations']:
            msg = symbolise(ctl, v['msg'])
            chk.violation(key_of(msg), {'prog': prog, 'choices': v['choices']},
                          '%s\n[program %s, schedule with %d preemption(s): choices %s; seen in %d schedules]' % (
                              msg, prog, v['preemptions'], v['choices'], v['count']))
    chk.part('controlled', states=nsched, transitions=ntrans, traces_validated_against_impl=nsched, programs=len(progs),
             schedules_by_preemptions=byp, linearisations_replayed=nlin,
             max_bound_completed=max(b for _, b, r in results if r and not r.get('capped') and 'error' not in r) if results else 0)
    for prog, bound, r in results[:3] + results[-2:]:
        if r and 'error' not in r:
            chk.sample({'program': prog, 'preemption_bound': bound, 'schedules': r['executions'], 'choice_points_max': r['max_points'],
                        'distinct_observations': r['outcomes']})
    # free-running pass under the real ThreadSanitizer
    env = dict(os.environ, TSAN_OPTIONS='exitcode=66:halt_on_error=0:report_signal_unsafe=0')
    def fr(p):
        prog, it = p
        # normal duration: < 10 s per program; a run that does not finish is a liveness failure (some thread never returns)
        try:
            r = subprocess.run([free, prog, str(it), str(vf.SEED)], stdout=subprocess.PIPE, stderr=subprocess.STDOUT, text=True, env=env,
                               timeout=FREE_TIMEOUT)
        except subprocess.TimeoutExpired as e:
            out = e.stdout.decode('utf-8', 'replace') if isinstance(e.stdout, bytes) else (e.stdout or '')
            return prog, it, 'hang', out
        return prog, it, r.returncode, r.stdout
    with ThreadPoolExecutor(4) as ex:
        fres = list(ex.map(fr, FREE[tier]))
    nfree = 0
    for prog, it, rc, out in fres:
        nfree += it
        if rc == 'hang':
            chk.violation('free:hang:' + prog.split(':')[0], {'free': True, 'prog': prog, 'iters': it},
                          'free-running harness %s did not terminate within %d s (normally < 10 s): some thread never returns\n%s' % (prog, FREE_TIMEOUT, out[:1500]))
        elif rc != 0:
            m = re.search(r'SUMMARY: ThreadSanitizer: (.*)', out)
            what = m.group(1) if m else out[-300:]
            what = re.sub(r':\d+(:\d+)?', '', what)
            what = re.sub(r'\(\w+\+0x[0-9a-f]+\)|\(BuildId: ?[0-9a-f]+\)', '', what)      # image offsets / build ids are not part of a stable key
            chk.violation('tsan:' + re.sub(r'\s+', '_', what)[:120], {'free': True, 'prog': prog, 'iters': it},
                          'ThreadSanitizer (free-running, %s): %s\n%s' % (prog, what, out[:1800]))
    chk.part('free_running_tsan', evaluations=nfree, programs=len(FREE[tier]))
    chk.assumptions += ['sequential consistency at the granularity of synchronisation operations; weak-memory reorderings are not modelled '
                        '(the happens-before detector and the TSan pass report the C11-level races that would make them matter)',
                        '2..3 threads with <= 4 operations each in the controlled pass; 2..16 OS threads in the free-running detector pass',
                        'entropy sources replaced by a deterministic stream through hook H3; clang -O1 build']
    return chk.finish('C18', 'programs = well-formed op sequences per thread over {Create(+source), StepR, StepR2, Rekey, IsValid, Close} / once / atomics; '
                      'for each program ALL schedules with <= bound preemptions at lock/unlock/CAS/atomic points (DFS, forked executions); '
                      'states = executions (complete schedules), transitions = choice points; every schedule is checked by the vector-clock race '
                      'detector and by replaying its lock order sequentially on a fresh process')

def replay(rec):
    ctl, free = binaries()
    if rec.get('free'):
        env = dict(os.environ, TSAN_OPTIONS='exitcode=66:halt_on_error=0:report_signal_unsafe=0')
        try:
            r = subprocess.run([free, rec['prog'], str(max(rec.get('iters', 50), 50)), '1'], stdout=subprocess.PIPE, stderr=subprocess.STDOUT, text=True, env=env,
                               timeout=2 * FREE_TIMEOUT)
        except subprocess.TimeoutExpired:
            return 'free-running harness %s did not terminate within %d s' % (rec['prog'], 2 * FREE_TIMEOUT)
        if r.returncode != 0:
            m = re.search(r'SUMMARY: ThreadSanitizer: (.*)', r.stdout)
            return 'ThreadSanitizer: ' + (m.group(1) if m else r.stdout[-300:])
        return None
    a = single(ctl, rec['prog'], rec['choices'])
    b = single(ctl, rec['prog'], rec['choices'])
    if a.get('obs') != b.get('obs') or a.get('violations') != b.get('violations'):
        return 'HARNESS: schedule is not deterministic: %r vs %r' % (a, b)
    if a['violations']:
        return symbolise(ctl, a['violations'][0]) + '  [program %s choices %s]' % (rec['prog'], rec['choices'])
    return None
