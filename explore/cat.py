"""cat -- declarative catalogue of bee2's high-level (octet-string level) functions and the generic runners.

A function is described once (argument roles, output sizes, reference model) and then serves many
properties: reference comparison (C01-C04, C13, C16), exact-size sanitised execution (C07), allocation
faults and error contract (C09), overlap placement (C11), wipe monitoring (C15), configuration
differential (C19).

arg specs:  ('in', name)  bytes or None (NULL)      ('len', name)  length of that buffer
            ('val', name) scalar from the case      ('out', name, size)  size: int | fn(case)
            ('io', name)  in/out buffer of the input's size
            ('u16in', name) / ('u16out', name, countfn)  arrays of u16 given as list[int]
            ('str', name) NUL-terminated string     ('gen', name) tape generator: (gen_i, state) two args
"""
import ctypes, hashlib, json
import vf

class Fn:
    def __init__(self, name, args, ref=None, ret='err', group='', secrets=(), overlap=None, notes=''):
        self.name, self.args, self.ref, self.ret, self.group = name, args, ref, ret, group
        self.secrets = secrets       # names of secret inputs (C15 needles)
        self.overlap = overlap       # C11: dict(dest=..., src=..., aux=[...], excluded=[(a,b)...])
        self.notes = notes

CAT = {}
def reg(fn):
    CAT[fn.name] = fn
    return fn

def _size(spec, case):
    s = spec[2]
    return s(case) if callable(s) else s

def enc_case(case):
    out = {}
    for k, v in case.items():
        if isinstance(v, (bytes, bytearray)):
            out[k] = 'hex:' + bytes(v).hex()
        else:
            out[k] = v
    return out

def dec_case(case):
    out = {}
    for k, v in case.items():
        if isinstance(v, str) and v.startswith('hex:'):
            out[k] = bytes.fromhex(v[4:])
        else:
            out[k] = v
    return out

def run(lib, fn, case, fill=0x00, place=None, A=None):
    """execute fn on case with every buffer in its own exact-size allocation (or at place[name] =
    (Buf, offset) inside a shared arena).  returns {'ret':..., outname: bytes, ...}"""
    own = A is None
    if own:
        A = vf.Arena(lib)
    try:
        argv = []
        outs = []       # (name, kind, buf, off, size)
        tapes = []
        nul = set(case.get('_null', ()))      # C09 NULL-pointer sweep: these pointer arguments are passed as NULL (lengths keep their value)
        for spec in fn.args:
            kind, name = spec[0], spec[1]
            if name in nul and kind in ('in', 'out', 'io', 'u16in', 'u16out', 'str', 'outsz'):
                argv.append(0)
            elif kind == 'in':
                v = case.get(name)
                if v is None:
                    argv.append(0)
                elif place and name in place:
                    b, off = place[name]
                    b.set(v, off); argv.append(b.addr + off)
                else:
                    argv.append(A.buf(v).addr)
            elif kind == 'str':
                v = case.get(name)
                argv.append(0 if v is None else A.buf(v.encode('latin1') + b'\0').addr)
            elif kind == 'len':
                v = case.get(name)
                argv.append(case.get(name + '_len', 0 if v is None else len(v)))
            elif kind == 'val':
                argv.append(case[name])
            elif kind == 'out':
                n = _size(spec, case)
                if place and name in place:
                    b, off = place[name]
                else:
                    b, off = A.buf(n, fill), 0
                argv.append(b.addr + off); outs.append((name, 'b', b, off, n))
            elif kind == 'io':
                v = case[name]
                if place and name in place:
                    b, off = place[name]; b.set(v, off)
                else:
                    b, off = A.buf(v), 0
                argv.append(b.addr + off); outs.append((name, 'b', b, off, len(v)))
            elif kind == 'u16in':
                v = case.get(name)
                if v is None:
                    argv.append(0)
                else:
                    data = b''.join(int(x).to_bytes(2, 'little') for x in v)
                    if place and name in place:
                        b, off = place[name]; b.set(data, off); argv.append(b.addr + off)
                    else:
                        argv.append(A.buf(data).addr)
            elif kind == 'u16out':
                n = 2 * _size(spec, case)
                if place and name in place:
                    b, off = place[name]
                else:
                    b, off = A.buf(n, fill), 0
                argv.append(b.addr + off); outs.append((name, 'w', b, off, n))
            elif kind == 'gen':
                g, st, t = vf.make_tape(A, case.get(name) or b'')
                argv.append(g); argv.append(st.addr); tapes.append((name, t))
            elif kind == 'outsz':     # size_t* out parameter
                b = A.buf(8, fill); argv.append(b.addr); outs.append((name, 'sz', b, 0, 8))
            else:
                raise ValueError(kind)
        r = lib.call(fn.name, *argv)
        res = {'ret': (r & 0xFFFFFFFF) if fn.ret in ('err', 'bool') else r}
        if fn.ret == 'bool':
            res['ret'] = 1 if res['ret'] else 0
        if fn.ret == 'void':
            res['ret'] = 0
        for name, k, b, off, n in outs:
            raw = b.get(n, off)
            if k == 'w':
                res[name] = [int.from_bytes(raw[i:i + 2], 'little') for i in range(0, n, 2)]
            elif k == 'sz':
                res[name] = int.from_bytes(raw, 'little')
            else:
                res[name] = raw
        for name, t in tapes:
            res[name + '_used'] = int(t.pos); res[name + '_over'] = int(t.over)
        return res
    finally:
        if own:
            A.__exit__()

def digest(res):
    h = hashlib.sha256()
    for k in sorted(res):
        v = res[k]
        h.update(k.encode()); h.update(v if isinstance(v, bytes) else json.dumps(v).encode())
    return h.hexdigest()[:24]

def compare(res, exp):
    """exp: dict from the reference; only keys present in exp are compared; when exp['ret'] != 0 only ret"""
    if exp is None:
        return None
    if 'ret' in exp:
        want = exp['ret']
        if callable(want):
            if not want(res['ret']):
                return 'return value %#x not in the expected class' % res['ret']
        elif res['ret'] != want:
            return 'returned %#x, expected %#x' % (res['ret'], want)
        if not callable(want) and want != 0 and not exp.get('_check_outs_on_error'):
            return None
    for k, v in exp.items():
        if k == 'ret' or k.startswith('_'):
            continue
        if res.get(k) != v:
            a, b = res.get(k), v
            if isinstance(a, bytes): a = a.hex()
            if isinstance(b, bytes): b = b.hex()
            return 'output %s = %s, reference %s' % (k, str(a)[:130], str(b)[:130])
    return None

def short(case):
    """compact description of a case for keys / samples"""
    out = []
    for k, v in case.items():
        if isinstance(v, (bytes, bytearray)):
            out.append('%s[%d]' % (k, len(v)))
        elif isinstance(v, list):
            out.append('%s[%d]' % (k, len(v)))
        elif v is None:
            out.append('%s=NULL' % k)
        else:
            out.append('%s=%s' % (k, v))
    h = hashlib.sha256(json.dumps(enc_case(case), sort_keys=True).encode()).hexdigest()[:6]
    return ' '.join(out) + ' #' + h
