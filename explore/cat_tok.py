"""token-layer part of the catalogue (btok CV certificates, secure messaging; bpki containers and CSR).
References: ref/tok.py (on top of codec.py, bign.py, belt.py, bash.py, dates.py).

btok_cvc_t / apdu_cmd_t / apdu_resp_t are plain C structs of the public headers; they are laid out here with ctypes
(same ABI rules as the compiler), every struct lives in its own exact-size allocation.

The process-wide RNG is never created here: btokCVCWrap / bpkiCSRRewrap then sign deterministically (header remark:
"Если инициализирован штатный ГСЧ, то дополнительно используются данные от него")."""
import ctypes
import vf, cat
from cat import Fn, reg
from cat_belt import Composite
import tok as T
import codec as D

E = dict(OK=0, BAD_INPUT=109, NOT_IMPLEMENTED=119, BAD_FORMAT=306, BAD_DATE=308, BAD_NAME=309, OUTOFRANGE=310, BAD_APDU=312,
         BAD_SECKEY=503, BAD_PRIVKEY=504, BAD_PUBKEY=505, BAD_KEYPAIR=506, BAD_SHAREKEY=508, BAD_SIG=510, BAD_MAC=511, BAD_KEYTOKEN=513,
         BAD_LOGIC=517)
def NZ(r):
    """an error (the header names no specific code)"""
    return r != 0

# ------------------------------------------------------------------ structs of the public headers
class CVC(ctypes.Structure):
    _fields_ = [('authority', ctypes.c_char * 13), ('holder', ctypes.c_char * 13), ('pubkey', ctypes.c_ubyte * 128), ('pubkey_len', ctypes.c_size_t),
                ('from_', ctypes.c_ubyte * 6), ('until', ctypes.c_ubyte * 6), ('hat_eid', ctypes.c_ubyte * 5), ('hat_esign', ctypes.c_ubyte * 2),
                ('sig', ctypes.c_ubyte * 96), ('sig_len', ctypes.c_size_t)]
CVC_SIZE = ctypes.sizeof(CVC)
OFF = {f[0]: getattr(CVC, f[0]).offset for f in CVC._fields_}

class CMD(ctypes.Structure):
    _fields_ = [('cla', ctypes.c_ubyte), ('ins', ctypes.c_ubyte), ('p1', ctypes.c_ubyte), ('p2', ctypes.c_ubyte), ('rdf_len', ctypes.c_size_t), ('cdf_len', ctypes.c_size_t)]
class RESP(ctypes.Structure):
    _fields_ = [('sw1', ctypes.c_ubyte), ('sw2', ctypes.c_ubyte), ('rdf_len', ctypes.c_size_t)]
CMD_SIZE, RESP_SIZE = ctypes.sizeof(CMD), ctypes.sizeof(RESP)

def cvc_bytes(c):
    """content dict (authority, holder, pubkey, from_, until, hat_eid, hat_esign[, sig]) -> the octets of a btok_cvc_t"""
    b = bytearray(CVC_SIZE)
    def put(name, v, cap):
        v = bytes(v)[:cap]
        b[OFF[name]:OFF[name] + len(v)] = v
    put('authority', c['authority'], 13); put('holder', c['holder'], 13)
    put('pubkey', c['pubkey'], 128); b[OFF['pubkey_len']:OFF['pubkey_len'] + 8] = len(c['pubkey']).to_bytes(8, 'little')
    put('from_', c['from_'], 6); put('until', c['until'], 6); put('hat_eid', c['hat_eid'], 5); put('hat_esign', c['hat_esign'], 2)
    sig = c.get('sig') or b''
    put('sig', sig, 96); b[OFF['sig_len']:OFF['sig_len'] + 8] = len(sig).to_bytes(8, 'little')
    return bytes(b)

def cvc_parse(raw):
    """octets of a btok_cvc_t -> content dict"""
    def cstr(name):
        v = raw[OFF[name]:OFF[name] + 13]
        return v.split(b'\0')[0]
    pl = int.from_bytes(raw[OFF['pubkey_len']:OFF['pubkey_len'] + 8], 'little')
    sl = int.from_bytes(raw[OFF['sig_len']:OFF['sig_len'] + 8], 'little')
    g = lambda name, n: bytes(raw[OFF[name]:OFF[name] + n])
    return dict(authority=cstr('authority'), holder=cstr('holder'), pubkey=g('pubkey', min(pl, 128)), from_=g('from_', 6), until=g('until', 6),
                hat_eid=g('hat_eid', 5), hat_esign=g('hat_esign', 2), sig=g('sig', min(sl, 96)))

FIELDS = ('authority', 'holder', 'pubkey', 'from_', 'until', 'hat_eid', 'hat_esign')
def content(case, prefix=''):
    return {k: case[prefix + k] for k in FIELDS}

def mk(authority, holder, pubkey, from_, until, hat_eid=bytes(5), hat_esign=bytes(2)):
    return dict(authority=bytes(authority), holder=bytes(holder), pubkey=bytes(pubkey), from_=bytes(from_), until=bytes(until),
                hat_eid=bytes(hat_eid), hat_esign=bytes(hat_esign))

def date(y, m, d):
    """YYMMDD digits without any validation (so that impossible dates can be written down)"""
    yy = y - 2000
    return bytes([yy // 10, yy % 10, m // 10, m % 10, d // 10, d % 10])

def _sz(buf):
    return int.from_bytes(buf.get(), 'little')

def _err(code):
    return {'ret': E[code]} if code in ('BAD_FORMAT', 'BAD_LOGIC', 'BAD_APDU') else {'ret': NZ}

# ------------------------------------------------------------------ CV certificates
def _impl_wrap(lib, c, A, fill):
    cvc = A.buf(cvc_bytes(content(c))); priv = A.buf(c['privkey']); ln = A.buf(8, fill)
    r = lib.err('btokCVCWrap', None, ln, cvc, priv, len(c['privkey']))
    if r:
        return {'ret': r}
    n = _sz(ln)
    cert = A.buf(n, fill); ln2 = A.buf(8, fill)
    r = lib.err('btokCVCWrap', cert, ln2, cvc, priv, len(c['privkey']))
    if r:
        return {'ret': r}
    return {'ret': 0, 'cert': cert.get(), 'len_query': n, 'len': _sz(ln2), 'cvc': cvc.get()}
def _ref_wrap(c):
    r = T.cvc_wrap(content(c), c['privkey'])
    if isinstance(r, str):
        return {'ret': NZ}
    cert, full = r
    return {'ret': 0, 'cert': cert, 'len_query': len(cert), 'len': len(cert), 'cvc': cvc_bytes(full)}
reg(Composite('btok.CVCWrap', _impl_wrap, _ref_wrap, group='tok', secrets=('privkey',))).faultable = True

def _impl_unwrap(lib, c, A, fill):
    cvc = A.buf(CVC_SIZE, fill); cert = A.buf(c['cert'])
    n = len(c['cert'])
    if c['mode'] == 'none':
        r = lib.err('btokCVCUnwrap', cvc, cert, n, None, 0)
    elif c['mode'] == 'self':
        r = lib.err('btokCVCUnwrap', cvc, cert, n, cvc.addr + OFF['pubkey'], 0)
    else:
        r = lib.err('btokCVCUnwrap', cvc, cert, n, A.buf(c['pubkey']), len(c['pubkey']))
    return {'ret': r, 'cvc': cvc.get()} if r == 0 else {'ret': r}
def _ref_unwrap(c):
    st, full = T.cvc_unwrap(c['cert'], {'none': None, 'self': 'self'}.get(c['mode'], c.get('pubkey')))
    if st != 'OK':
        return _err(st)
    return {'ret': 0, 'cvc': cvc_bytes(full)}
reg(Composite('btok.CVCUnwrap', _impl_unwrap, _ref_unwrap, group='tok')).faultable = True

def _impl_iss(lib, c, A, fill):
    cvc = A.buf(cvc_bytes(content(c))); certa = A.buf(c['certa']); priv = A.buf(c['privkeya']); ln = A.buf(8, fill)
    r = lib.err('btokCVCIss', None, ln, cvc, certa, len(c['certa']), priv, len(c['privkeya']))
    if r:
        return {'ret': r}
    n = _sz(ln)
    cert = A.buf(n, fill)
    r = lib.err('btokCVCIss', cert, ln, cvc, certa, len(c['certa']), priv, len(c['privkeya']))
    if r:
        return {'ret': r}
    return {'ret': 0, 'cert': cert.get(), 'len_query': n, 'len': _sz(ln), 'cvc': cvc.get()}
def _ref_iss(c):
    r = T.cvc_iss(content(c), c['certa'], c['privkeya'])
    if isinstance(r, str):
        return {'ret': NZ}
    cert, full = r
    return {'ret': 0, 'cert': cert, 'len_query': len(cert), 'len': len(cert), 'cvc': cvc_bytes(full)}
reg(Composite('btok.CVCIss', _impl_iss, _ref_iss, group='tok', secrets=('privkeya',))).faultable = True

def _impl_val(lib, c, A, fill):
    d = A.buf(c['date']) if c.get('date') is not None else None
    return {'ret': lib.err('btokCVCVal', A.buf(c['cert']), len(c['cert']), A.buf(c['certa']), len(c['certa']), d)}
def _ref_val(c):
    st = T.cvc_val(c['cert'], c['certa'], c.get('date'))
    return {'ret': 0} if st == 'OK' else _err(st)
reg(Composite('btok.CVCVal', _impl_val, _ref_val, group='tok')).faultable = True

def _impl_val2(lib, c, A, fill):
    """the chain step of the header: cvca = content of certa (parsed without verification), then btokCVCVal2"""
    cvca = A.buf(CVC_SIZE, fill)
    r = lib.err('btokCVCUnwrap', cvca, A.buf(c['certa']), len(c['certa']), None, 0)
    if r:
        return {'ret': r, 'stage': 'certa'}
    d = A.buf(c['date']) if c.get('date') is not None else None
    cvc = A.buf(CVC_SIZE, fill) if c.get('want', 1) else None
    r = lib.err('btokCVCVal2', cvc, A.buf(c['cert']), len(c['cert']), cvca, d)
    res = {'ret': r, 'stage': 'cert'}
    if r == 0 and cvc is not None:
        res['cvc'] = cvc.get()
    return res
def _ref_val2(c):
    st, ca = T.cvc_unwrap(c['certa'], None)
    if st != 'OK':
        return dict(_err(st), stage='certa')
    st, full = T.cvc_val2(c['cert'], ca, c.get('date'))
    if st != 'OK':
        return _err(st)
    return {'ret': 0, 'cvc': cvc_bytes(full)} if c.get('want', 1) else {'ret': 0}
reg(Composite('btok.CVCVal2', _impl_val2, _ref_val2, group='tok')).faultable = True

def _impl_check(lib, c, A, fill):
    return {'ret': lib.err('btokCVCCheck', A.buf(cvc_bytes(content(c))))}
reg(Composite('btok.CVCCheck', _impl_check, lambda c: {'ret': 0 if T.cvc_check(content(c)) is None else NZ}, group='tok')).faultable = True

def _impl_check2(lib, c, A, fill):
    return {'ret': lib.err('btokCVCCheck2', A.buf(cvc_bytes(content(c))), A.buf(cvc_bytes(content(c, 'a_'))))}
reg(Composite('btok.CVCCheck2', _impl_check2, lambda c: {'ret': 0 if T.cvc_check2(content(c), content(c, 'a_')) is None else NZ}, group='tok')).faultable = True

def _impl_len(lib, c, A, fill):
    return {'ret': lib.sz('btokCVCLen', A.buf(c['der']), len(c['der']))}
def _ref_len(c):
    r = D.der_dec2(c['der'], 0x7F21)
    return {'ret': vf.SIZE_MAX if r is None else r[1]}
reg(Composite('btok.CVCLen', _impl_len, _ref_len, group='tok', ret='size'))

def _impl_match(lib, c, A, fill):
    return {'ret': lib.err('btokCVCMatch', A.buf(c['cert']), len(c['cert']), A.buf(c['privkey']), len(c['privkey']))}
def _ref_match(c):
    st, full = T.cvc_unwrap(c['cert'], None)
    if st != 'OK':
        return _err(st)
    return {'ret': 0 if T.keypair_is_valid(c['privkey'], full['pubkey']) else NZ}
reg(Composite('btok.CVCMatch', _impl_match, _ref_match, group='tok', secrets=('privkey',))).faultable = True

# ------------------------------------------------------------------ secure messaging
def sm_state(lib, A, key, incs, fill=0x00):
    st = A.buf(lib.sz('btokSM_keep'), fill)
    lib.call('btokSMStart', st, A.buf(key))
    for _ in range(incs):
        lib.call('btokSMCtrInc', st)
    return st

def cmd_buf(A, cmd):
    cla, ins, p1, p2, cdf, rdf_len = cmd
    return A.buf(bytes([cla, ins, p1, p2]) + bytes(4) + rdf_len.to_bytes(8, 'little') + len(cdf).to_bytes(8, 'little') + bytes(cdf))
def cmd_parse(raw):
    n = int.from_bytes(raw[16:24], 'little')
    return [raw[0], raw[1], raw[2], raw[3], bytes(raw[24:24 + n]), int.from_bytes(raw[8:16], 'little')]
def resp_buf(A, resp):
    sw1, sw2, rdf = resp
    return A.buf(bytes([sw1, sw2]) + bytes(6) + len(rdf).to_bytes(8, 'little') + bytes(rdf))
def resp_parse(raw):
    n = int.from_bytes(raw[8:16], 'little')
    return [raw[0], raw[1], bytes(raw[16:16 + n])]

def sm_wrap(lib, A, kind, st, obj, fill=0x00):
    """length query + protection on an exact-size buffer -> (ret, protected octets | None)"""
    fn = 'btokSMCmdWrap' if kind == 'cmd' else 'btokSMRespWrap'
    src = cmd_buf(A, obj) if kind == 'cmd' else resp_buf(A, obj)
    cnt = A.buf(8, fill)
    r = lib.err(fn, None, cnt, src, st)
    if r:
        return r, None
    out = A.buf(_sz(cnt), fill); cnt2 = A.buf(8, fill)
    r = lib.err(fn, out, cnt2, src, st)
    if r:
        return r, None
    if _sz(cnt2) != out.n:
        return 0xBAD0001, None
    return 0, out.get()

def sm_unwrap(lib, A, kind, st, apdu, fill=0x00):
    """size query + removal of the protection into an exact-size struct -> (ret, parsed object | None)"""
    fn = 'btokSMCmdUnwrap' if kind == 'cmd' else 'btokSMRespUnwrap'
    src = A.buf(apdu); sz = A.buf(8, fill)
    r = lib.err(fn, None, sz, src, len(apdu), st)
    if r:
        return r, None
    n = _sz(sz)
    if not (CMD_SIZE if kind == 'cmd' else RESP_SIZE) <= n <= (1 << 17):
        return 0xBAD0002, None
    dst = A.buf(n, fill); sz2 = A.buf(8, fill)
    r = lib.err(fn, dst, sz2, src, len(apdu), st)
    if r:
        return r, None
    if _sz(sz2) != n:
        return 0xBAD0003, None
    return 0, (cmd_parse if kind == 'cmd' else resp_parse)(dst.get())

def _obj(c, kind):
    return (c['cla'], c['ins'], c['p1'], c['p2'], c['cdf'], c['rdf_len']) if kind == 'cmd' else (c['sw1'], c['sw2'], c['rdf'])

def _flat(o):
    o = list(o)
    return {'back_hdr': [x for x in o if not isinstance(x, bytes)], 'back_data': b''.join(x for x in o if isinstance(x, bytes))}

def _impl_sm(kind):
    def impl(lib, c, A, fill):
        """sender after ctr_s increments protects, receiver after ctr_r increments removes the protection"""
        s = sm_state(lib, A, c['key'], c['ctr_s'], fill) if c['ctr_s'] is not None else None
        r, apdu = sm_wrap(lib, A, kind, s, _obj(c, kind), fill)
        if r:
            return {'ret': r, 'stage': 'wrap'}
        rc = sm_state(lib, A, c['key'], c['ctr_r'], fill) if c['ctr_r'] is not None else None
        r, back = sm_unwrap(lib, A, kind, rc, apdu, fill)
        res = {'ret': r, 'stage': 'unwrap', 'apdu': apdu}
        if r == 0:
            res.update(_flat(back))
        return res
    return impl
def _ref_sm(kind):
    def ref(c):
        o = _obj(c, kind)
        if c['ctr_s'] is None:       # no protection: plain encoding
            a = D.apdu_cmd_enc(*o) if kind == 'cmd' else D.apdu_resp_enc(*o)
            if c['ctr_r'] is not None:
                return {'ret': E['BAD_APDU'], 'stage': 'unwrap', '_check_outs_on_error': 1} if kind == 'cmd' else None
            return dict({'ret': 0, 'apdu': a}, **_flat(o))
        a = (T.sm_cmd_wrap if kind == 'cmd' else T.sm_resp_wrap)(T.sm_keys(c['key']), c['ctr_s'], o)
        if isinstance(a, str):
            return {'ret': E[a], 'stage': 'wrap', '_check_outs_on_error': 1}
        if c['ctr_r'] is None:
            return {'ret': E['BAD_APDU'], 'stage': 'unwrap', 'apdu': a, '_check_outs_on_error': 1} if kind == 'cmd' else None
        if c['ctr_r'] % 2 != (1 if kind == 'cmd' else 0):
            return {'ret': E['BAD_LOGIC'], 'stage': 'unwrap', 'apdu': a, '_check_outs_on_error': 1}
        if c['ctr_r'] != c['ctr_s']:
            return {'apdu': a}       # right parity, other counter: the MAC does not cover the counter; nothing is claimed
        return dict({'ret': 0, 'apdu': a}, **_flat(o))
    return ref
reg(Composite('btok.SMCmd', _impl_sm('cmd'), _ref_sm('cmd'), group='tok', secrets=('key',))).faultable = True
reg(Composite('btok.SMResp', _impl_sm('resp'), _ref_sm('resp'), group='tok', secrets=('key',))).faultable = True

def _impl_sm_open(kind):
    def impl(lib, c, A, fill):
        """removal of the protection from given octets into a struct sized for the genuine object (C09: nothing is released on failure)"""
        st = sm_state(lib, A, c['key'], c['ctr_r'], fill)
        dst = A.buf((CMD_SIZE if kind == 'cmd' else RESP_SIZE) + c['dlen'], fill); sz = A.buf(8, fill)
        r = lib.err('btokSMCmdUnwrap' if kind == 'cmd' else 'btokSMRespUnwrap', dst, sz, A.buf(c['apdu']), len(c['apdu']), st)
        return {'ret': r, 'out': dst.get()}
    return impl
reg(Composite('btok.SMCmdOpen', _impl_sm_open('cmd'), None, group='tok', secrets=('key',)))
reg(Composite('btok.SMRespOpen', _impl_sm_open('resp'), None, group='tok', secrets=('key',)))

# ------------------------------------------------------------------ bpki containers
SALT = bytes.fromhex('B194BAC80A08F53B')
PWDS = {0: b'', 1: b'z', 3: b'zed', 64: bytes((7 * i + 3) & 0xFF for i in range(64))}
# reference PBKDF2 values of 10000 iterations (ref/belt.py needs ~8 s for each; C17 thorough recomputes and compares them)
PBKDF2_10000 = {b'zed': 'e4eb54166d76d47fe619e47ad5cb5dcd47962119a1968936bb53e310a9b917ea',
                b'': 'ff1a1a9eb347d6a21bcf0595669bdbfe34885c14723da404b39cf649babf9a93',
                PWDS[64]: 'c5bd2f66f7cf1f3f7ffdb0a4d991c2fdd187f1a97574ad50cbbd3f3abf8b0d83'}
for _p, _k in PBKDF2_10000.items():
    T._PBKDF2_KNOWN[(_p, 10000, SALT)] = bytes.fromhex(_k)

def epki_len(pki_len, iter):
    return len(T.epki_enc(bytes(pki_len + 16), bytes(8), max(iter, 0)))

def _ref_pwrap(kind):
    def ref(c):
        key = c['key']
        if c['iter'] < 10000:
            return {'ret': E['BAD_INPUT']}
        if kind == 'privkey':
            if len(key) not in (24, 32, 48, 64):
                return {'ret': E['BAD_PRIVKEY']}
            pki = T.pki_privkey(key)
        else:
            if len(key) not in (17, 25, 33) or not 1 <= key[0] <= 16:
                return {'ret': E['BAD_SHAREKEY']}
            pki = T.pki_share(key)
        e = T.epki(pki, c['pwd'], c['salt'], c['iter'])
        return {'ret': 0, 'epki': e, 'epki_len': len(e)}
    return ref
def _wrap_size(kind):
    def size(c):
        n = len(c['key'])
        ok = n in ((24, 32, 48, 64) if kind == 'privkey' else (17, 25, 33))
        return epki_len(len((T.pki_privkey if kind == 'privkey' else T.pki_share)(bytes(n))), c['iter']) if ok else 16
    return size
def _single(name, args, ref, always=None, **kw):
    """one high-level call described like a cat.Fn; outputs are reported only on success (after an error their content is not
    specified, and the sanitised replay compares two runs with differently pre-filled buffers).  `always`: name of a twin entry
    that reports the outputs in every case (used by the no-release-on-failure check)."""
    desc = Fn(name, args, None)
    def impl(lib, c, A, fill):
        r = cat.run(lib, desc, c, fill, A=A)
        return r if r['ret'] == 0 else {'ret': r['ret']}
    e = reg(Composite(name, impl, ref, **kw)); e.faultable = True
    if always:
        reg(Composite(always, lambda lib, c, A, fill: cat.run(lib, desc, c, fill, A=A), None, **kw))
    return e

for _kind, _name in (('privkey', 'bpkiPrivkeyWrap'), ('share', 'bpkiShareWrap')):
    _single(_name, [('out', 'epki', _wrap_size(_kind)), ('outsz', 'epki_len'), ('in', 'key'), ('len', 'key'), ('in', 'pwd'), ('len', 'pwd'),
                    ('in', 'salt'), ('val', 'iter')], _ref_pwrap(_kind), group='tok', secrets=('key', 'pwd'))

def _ref_punwrap(kind):
    def ref(c):
        st, k, key = T.epki_open(c['epki'], c['pwd'])
        if st == 'BAD_KEYTOKEN':
            # the container is protected by belt-kwp (bpki.h); belt.h documents ERR_BAD_KEYTOKEN for a failed integrity check
            return {'ret': E['BAD_KEYTOKEN']}
        if st != 'OK' or k != kind:
            return {'ret': NZ}
        if kind == 'share' and not 1 <= key[0] <= 16:
            return {'ret': E['BAD_SHAREKEY']}     # bpki.h: \expect{ERR_BAD_SHAREKEY} 1 <= share[0] <= 16 (header corrected by fix 28df01f)
        return {'ret': 0, 'key': key, 'key_len': len(key)}
    return ref
for _kind, _name in (('privkey', 'bpkiPrivkeyUnwrap'), ('share', 'bpkiShareUnwrap')):
    _single(_name, [('out', 'key', lambda c: c['klen']), ('outsz', 'key_len'), ('in', 'epki'), ('len', 'epki'), ('in', 'pwd'), ('len', 'pwd')],
            _ref_punwrap(_kind), always=_name.replace('bpki', 'bpki.').replace('Unwrap', 'Open'), group='tok', secrets=('pwd',))

def _ref_csr_rewrap(c):
    if len(c['privkey']) != 32:
        return {'ret': E['NOT_IMPLEMENTED']}
    r = T.csr_rewrap(c['csr'], c['privkey'])
    return {'ret': E['BAD_FORMAT']} if r is None else {'ret': 0, 'csr': r}
_single('bpkiCSRRewrap', [('io', 'csr'), ('len', 'csr'), ('in', 'privkey'), ('len', 'privkey')], _ref_csr_rewrap, group='tok', secrets=('privkey',))
def _ref_csr_unwrap(c):
    if T.csr_parse(c['csr']) is None:
        return {'ret': E['BAD_FORMAT']}
    pk = T.csr_verify(c['csr'])
    return {'ret': NZ} if pk is None else {'ret': 0, 'pubkey': pk, 'pubkey_len': 64}
_single('bpkiCSRUnwrap', [('out', 'pubkey', 64), ('outsz', 'pubkey_len'), ('in', 'csr'), ('len', 'csr')], _ref_csr_unwrap, group='tok')

# ------------------------------------------------------------------ alphabets shared with C17
KLENS = (24, 32, 48, 64)
def privkey(kl, i=0):
    """a valid private key of kl octets (top octet small, so that 0 < d < q on every curve)"""
    b = bytearray(vf.filler('tokpriv%d/%d' % (kl, i), kl)); b[-1] &= 0x3F; b[0] |= 1
    return bytes(b)

NAME_CHARS = b"BYCA0123456789 '()+,-./:=?xyzABCDEFGHIJKLMNOPQRSTUVW"
def name(n, salt=0):
    return bytes(NAME_CHARS[(i * 5 + salt * 3 + n) % len(NAME_CHARS)] for i in range(n))

D_FROM, D_UNTIL = date(2022, 7, 7), date(2039, 12, 31)
DATE_CLASSES = {      # name -> (from, until, valid?)
    'valid': (D_FROM, D_UNTIL, True),
    'same_day': (date(2024, 2, 29), date(2024, 2, 29), True),
    'leap_from': (date(2024, 2, 29), D_UNTIL, True),
    'leap_until': (D_FROM, date(2028, 2, 29), True),
    'century_leap': (date(2000, 2, 29), D_UNTIL, True),
    'nonleap_from': (date(2023, 2, 29), D_UNTIL, False),
    'nonleap_until': (D_FROM, date(2027, 2, 29), False),
    'month13_from': (date(2022, 13, 1), D_UNTIL, False),
    'month13_until': (D_FROM, date(2030, 13, 1), False),
    'month0': (date(2022, 0, 10), D_UNTIL, False),
    'day0': (D_FROM, date(2030, 5, 0), False),
    'day31_apr': (D_FROM, date(2030, 4, 31), False),
    'digit10_from': (bytes([2, 4, 0, 10, 1, 5]), D_UNTIL, False),
    'digit10_until': (D_FROM, bytes([3, 0, 0, 1, 0, 10]), False),
    'digit255': (D_FROM, bytes([3, 0, 1, 2, 0, 255]), False),
    'from_gt_until': (date(2030, 1, 2), date(2030, 1, 1), False),
}
HATS = {'none': (bytes(5), bytes(2)), 'eid': (bytes.fromhex('0000000001'), bytes(2)), 'esign': (bytes(5), bytes.fromhex('8000')),
        'both': (bytes.fromhex('EEEEEEEEEE'), bytes.fromhex('7777')), 'eid_hi': (bytes.fromhex('8000000000'), bytes(2)),
        'esign_lo': (bytes(5), bytes.fromhex('0001'))}

# 0, 1, 255, 256, 300 and the lengths at which the protected code changes form: DER length of the 0x87 object 127|128 and 255|256
# (data 126|127, 254|255), protected Lc 255|256 (data 241|242 without Le, 238|239 with a short Le)
QUICK_LENS = [0, 1, 126, 127, 238, 239, 241, 242, 254, 255, 256, 300]
def cmd_menu(tier):
    """commands covering every Lc / Le form: (cla, ins, p1, p2, cdf, rdf_len)"""
    lens = QUICK_LENS if tier == 'quick' else list(range(0, 301))
    out = []
    for n in lens:
        for le in ((0, 1, 256, 257, 65536) if tier == 'quick' or n in (0, 1, 2, 239, 240, 241, 242, 243, 244, 245, 254, 255, 256, 257, 300) else (0, 256, 257)):
            out.append((0x00 if n % 2 == 0 else 0x80, 0xA4, 0x04, n & 0xFF, vf.filler('cdf%d' % n, n), le))
    return out
def resp_menu(tier):
    lens = QUICK_LENS if tier == 'quick' else list(range(0, 301))
    return [(0x90 if n % 2 == 0 else 0x6A, n & 0xFF, vf.filler('rdf%d' % n, n)) for n in lens]

SMKEY = bytes.fromhex('B194BAC80A08F53B366D008E584A5DE48504FA9D1BB6C7AC252E72C202FDCE0D')
NAME_DER = D.der_seq_enc(D.der_enc(0x31, D.der_seq_enc(D.der_oid_enc('2.5.4.3') + D.der_enc(0x0C, b'VERIF C17'))))
ATTRS_DER = D.der_enc(0xA0, b'')

def _flip(b, j, m=1):
    x = bytearray(b); x[j] ^= m
    return bytes(x)

def chain(kls, tier='quick'):
    """a valid chain root -> ... of the given key lengths, built by the reference: [(privkey, cert, content)]"""
    out = []
    for i, kl in enumerate(kls):
        d = privkey(kl, i)
        if i == 0:
            c = mk(b'BYCA0000', b'BYCA0000', b'', D_FROM, D_UNTIL, *HATS['both'])
            cert, full = T.cvc_wrap(c, d)
        else:
            pd, pcert, pfull = out[-1]
            c = mk(pfull['holder'], name(8 + (i + kl) % 5, i), T.pubkey_of(d), date(2023 + i, 1, 1), date(2030 - i, 6, 30), *HATS[('eid', 'esign', 'none')[i % 3]])
            cert, full = T.cvc_iss(c, pcert, pd)
        out.append((d, cert, full))
    return out

# ------------------------------------------------------------------ cases
def gen_cases(tier):
    """moderate corpus of admissible (or documented-error) cases: replayed under sanitizers with exact-size buffers, under
    allocation faults and in every build configuration"""
    q = tier == 'quick'
    out = []
    # --- certificates: creation and parsing
    shapes = [(8, 8), (12, 12), (8, 12), (10, 9)] if q else [(a, h) for a in range(8, 13) for h in range(8, 13)]
    for kl in KLENS:
        d = privkey(kl)
        for a, h in (shapes if kl in (24, 32) or not q else shapes[:2]):
            for hat in (('none', 'both') if (a, h) != (8, 8) else HATS):
                if not q and kl in (48, 64) and hat not in ('none', 'both'):
                    continue
                c = mk(name(a, 1), name(h, 2), b'', D_FROM, D_UNTIL, *HATS[hat])
                out.append(('btok.CVCWrap', dict(c, privkey=d)))
                cert, full = T.cvc_wrap(c, d)
                out.append(('btok.CVCUnwrap', dict(cert=cert, mode='none')))
                if (a + h) % 2 == 0:
                    out.append(('btok.CVCUnwrap', dict(cert=cert, mode='self')))
                else:
                    out.append(('btok.CVCUnwrap', dict(cert=cert, mode='key', pubkey=full['pubkey'])))
    d = privkey(32)
    for dn, (f, u, ok) in DATE_CLASSES.items():
        out.append(('btok.CVCWrap', dict(mk(b'BYCA0000', b'BYCA1000', b'', f, u), privkey=d, tag='k32/a8/h8/%s/none' % dn)))
        out.append(('btok.CVCCheck', dict(mk(b'BYCA0000', b'BYCA1000', T.pubkey_of(d), f, u), tag='k32/a8/h8/%s/none' % dn)))
    for a, h in ((7, 8), (8, 7), (13, 8), (8, 13), (0, 8), (12, 13)):
        out.append(('btok.CVCWrap', dict(mk(name(a), name(h), b'', D_FROM, D_UNTIL), privkey=d)))
        out.append(('btok.CVCCheck', mk(name(a), name(h), T.pubkey_of(d), D_FROM, D_UNTIL)))
        # encoded certificates with a name outside SIZE(8..12): a format error
        c = mk(name(a), name(h), T.pubkey_of(d), D_FROM, D_UNTIL)
        cert = T.cvc_enc(c, T.tok_sign(T.cvc_body(c), d))
        out.append(('btok.CVCUnwrap', dict(cert=cert, mode='none')))
        out.append(('btok.CVCUnwrap', dict(cert=cert, mode='self')))
    out.append(('btok.CVCWrap', dict(mk(b'BYCA000\x7f', b'BYCA1000', b'', D_FROM, D_UNTIL), privkey=d)))
    out.append(('btok.CVCWrap', dict(mk(b'BYCA0000', b'BYCA10*0', b'', D_FROM, D_UNTIL), privkey=d)))
    bad = bytearray(T.pubkey_of(d)); bad[40] ^= 1
    out.append(('btok.CVCCheck', mk(b'BYCA0000', b'BYCA1000', bytes(bad), D_FROM, D_UNTIL)))
    out.append(('btok.CVCWrap', dict(mk(b'BYCA0000', b'BYCA1000', bytes(bad), D_FROM, D_UNTIL), privkey=d)))
    # --- chains: Iss / Val / Val2 / Check2 / Match / Len
    for kls in ([(32, 24, 48), (64, 32)] if q else [(24, 32, 48, 64), (64, 48, 32, 24), (32, 32, 32), (48, 24), (24, 64)]):
        ch = chain(kls)
        for i in range(1, len(ch)):
            pd, pcert, pfull = ch[i - 1]
            dd, cert, full = ch[i]
            cc = {k: full[k] for k in FIELDS}
            out.append(('btok.CVCIss', dict(cc, certa=pcert, privkeya=pd)))
            out.append(('btok.CVCIss', dict(cc, certa=pcert, privkeya=privkey(len(pd), 9))))                  # not the issuer's key
            out.append(('btok.CVCIss', dict(cc, authority=name(9, 7), certa=pcert, privkeya=pd)))              # name mismatch
            out.append(('btok.CVCIss', dict(cc, from_=date(2021, 1, 1), certa=pcert, privkeya=pd)))            # before the issuer's period
            for dt in (None, full['from_'], full['until'], date(2022, 12, 31), date(2031, 1, 1), date(2025, 2, 29)):
                out.append(('btok.CVCVal', dict(cert=cert, certa=pcert, date=dt)))
                out.append(('btok.CVCVal2', dict(cert=cert, certa=pcert, date=dt, want=1 if dt != full['until'] else 0)))
            out.append(('btok.CVCVal', dict(cert=cert, certa=ch[0][1] if i > 1 else cert, date=None)))         # wrong issuer
            out.append(('btok.CVCVal', dict(cert=_flip(cert, len(cert) - 1), certa=pcert, date=None)))          # broken signature
            out.append(('btok.CVCVal', dict(cert=_flip(cert, 30), certa=pcert, date=None)))                     # broken body
            out.append(('btok.CVCCheck2', dict(cc, **{'a_' + k: pfull[k] for k in FIELDS})))
            out.append(('btok.CVCCheck2', dict(cc, **{'a_' + k: ch[0][2][k] for k in FIELDS})))
            out.append(('btok.CVCMatch', dict(cert=cert, privkey=dd)))
            out.append(('btok.CVCMatch', dict(cert=cert, privkey=pd)))
            out.append(('btok.CVCLen', dict(der=cert + b'\x00\x01')))
            out.append(('btok.CVCLen', dict(der=cert[:-1])))
            out.append(('btok.CVCUnwrap', dict(cert=cert + b'\0', mode='none')))
            out.append(('btok.CVCUnwrap', dict(cert=cert, mode='key', pubkey=pfull['pubkey'])))
            out.append(('btok.CVCUnwrap', dict(cert=cert, mode='key', pubkey=full['pubkey'])))
    # --- secure messaging
    for cmd in cmd_menu('quick') if q else cmd_menu(tier)[::2]:
        cla, ins, p1, p2, cdf, le = cmd
        base = dict(key=SMKEY, cla=cla, ins=ins, p1=p1, p2=p2, cdf=cdf, rdf_len=le)
        out.append(('btok.SMCmd', dict(base, ctr_s=1, ctr_r=1)))
        if le in (0, 257) and (not q or len(cdf) in (0, 1, 255, 256, 300)):
            out.append(('btok.SMCmd', dict(base, ctr_s=3, ctr_r=3)))
            out.append(('btok.SMCmd', dict(base, ctr_s=2, ctr_r=2)))
            out.append(('btok.SMCmd', dict(base, ctr_s=1, ctr_r=2)))
            out.append(('btok.SMCmd', dict(base, ctr_s=None, ctr_r=None)))
    # counters beyond one octet: the carry of btokSMCtrInc and the whole counter as the CFB synchro value
    for n in (255, 257, 511, 65537):
        out.append(('btok.SMCmd', dict(key=SMKEY, cla=0, ins=0xB0, p1=1, p2=2, cdf=vf.filler('cdfctr', 33), rdf_len=16, ctr_s=n, ctr_r=n)))
    for n in (256, 258, 65536):
        out.append(('btok.SMResp', dict(key=SMKEY, sw1=0x90, sw2=0, rdf=vf.filler('rdfctr', 33), ctr_s=n, ctr_r=n)))
    out.append(('btok.SMCmd', dict(key=SMKEY, cla=0x04, ins=1, p1=2, p2=3, cdf=b'abc', rdf_len=0, ctr_s=1, ctr_r=1)))
    out.append(('btok.SMCmd', dict(key=SMKEY, cla=0x00, ins=1, p1=2, p2=3, cdf=b'abc', rdf_len=0, ctr_s=None, ctr_r=1)))
    out.append(('btok.SMCmd', dict(key=SMKEY, cla=0x00, ins=1, p1=2, p2=3, cdf=b'abc', rdf_len=0, ctr_s=1, ctr_r=None)))
    for resp in resp_menu('quick') if q else resp_menu(tier)[::2]:
        base = dict(key=SMKEY, sw1=resp[0], sw2=resp[1], rdf=resp[2])
        out.append(('btok.SMResp', dict(base, ctr_s=2, ctr_r=2)))
        if q and len(resp[2]) not in (0, 1, 255, 256, 300):
            continue
        out.append(('btok.SMResp', dict(base, ctr_s=4, ctr_r=4)))
        out.append(('btok.SMResp', dict(base, ctr_s=1, ctr_r=1)))
        out.append(('btok.SMResp', dict(base, ctr_s=2, ctr_r=3)))
        out.append(('btok.SMResp', dict(base, ctr_s=None, ctr_r=None)))
    # --- containers: small iteration counts come from the reference encoder (bpkiXxxWrap demands >= 10000)
    keys = [('privkey', privkey(kl)) for kl in KLENS] + [('share', bytes([i]) + vf.filler('share%d' % n, n - 1)) for n, i in ((17, 1), (25, 7), (33, 16))]
    for kind, key in keys:
        pki = (T.pki_privkey if kind == 'privkey' else T.pki_share)(key)
        un = 'bpkiPrivkeyUnwrap' if kind == 'privkey' else 'bpkiShareUnwrap'
        wr = 'bpkiPrivkeyWrap' if kind == 'privkey' else 'bpkiShareWrap'
        for pl in (0, 1, 64):
            for it in (1, 2):
                e = T.epki(pki, PWDS[pl], SALT, it)
                out.append((un, dict(klen=len(key), epki=e, pwd=PWDS[pl])))
                if it == 1:
                    out.append((un, dict(klen=len(key), epki=e, pwd=PWDS[pl] + b'z')))
                    out.append((un, dict(klen=len(key), epki=_flip(e, len(e) - 3), pwd=PWDS[pl])))
                out.append((wr, dict(key=key, pwd=PWDS[pl], salt=SALT, iter=it)))
        out.append((wr, dict(key=key, pwd=PWDS[3], salt=SALT, iter=10000)))
        out.append((wr, dict(key=key, pwd=PWDS[3], salt=SALT, iter=9999)))
        out.append((wr, dict(key=key + b'\x01', pwd=PWDS[3], salt=SALT, iter=10000)))
    out.append(('bpkiPrivkeyUnwrap', dict(klen=32, epki=T.epki(T.pki_privkey(privkey(32)), PWDS[3], SALT, 10000), pwd=PWDS[3])))
    for b0 in (0, 17, 255):
        sh = bytes([b0]) + vf.filler('share17', 16)
        out.append(('bpkiShareWrap', dict(key=sh, pwd=PWDS[3], salt=SALT, iter=10000)))
        out.append(('bpkiShareUnwrap', dict(klen=17, epki=T.epki(T.pki_share(sh), PWDS[1], SALT, 1), pwd=PWDS[1])))
    out.append(('bpkiPrivkeyUnwrap', dict(klen=17, epki=T.epki(T.pki_share(keys[4][1]), PWDS[1], SALT, 1), pwd=PWDS[1])))      # a share where a key is expected
    out.append(('bpkiShareUnwrap', dict(klen=32, epki=T.epki(T.pki_privkey(keys[1][1]), PWDS[1], SALT, 1), pwd=PWDS[1])))
    # --- certificate requests
    d1, d2 = privkey(32, 3), privkey(32, 4)
    for csr in (T.CSR_BEE2EVP, T.csr_make(NAME_DER, ATTRS_DER, d1)):
        out.append(('bpkiCSRUnwrap', dict(csr=csr)))
        out.append(('bpkiCSRRewrap', dict(csr=csr, privkey=d2)))
        out.append(('bpkiCSRUnwrap', dict(csr=T.csr_rewrap(csr, d2))))
        out.append(('bpkiCSRUnwrap', dict(csr=_flip(csr, 40))))
        out.append(('bpkiCSRUnwrap', dict(csr=_flip(csr, len(csr) - 1))))
        out.append(('bpkiCSRUnwrap', dict(csr=csr[:-1])))
        out.append(('bpkiCSRRewrap', dict(csr=csr, privkey=privkey(48))))
        out.append(('bpkiCSRRewrap', dict(csr=csr[:-1], privkey=d2)))
    return out

# ------------------------------------------------------------------ hooks for C09 / C15
def _nonce(case, res, privname):
    """the deterministic nonce k of the signature inside the produced certificate (bign 6.3.3 with empty t)"""
    import bign
    if res.get('ret') or 'cert' not in res:
        return []
    r = T.cvc_dec(res['cert'])
    if r is None:
        return []
    d = case[privname]
    l = T.LEVEL[len(d)]
    h, oid = T._hash(l, r[1])
    oid = bign.oid_to_der(oid)
    k = bign.bign96_gen_k(oid, d, h) if l == 96 else bign.gen_k(l, oid, d, h)
    return [('signature nonce k', k.to_bytes(len(d), 'little'))]
cat.CAT['btok.CVCWrap'].derived = lambda case, res: _nonce(case, res, 'privkey')
cat.CAT['btok.CVCIss'].derived = lambda case, res: _nonce(case, res, 'privkeya')

def _kdf_wrap(kind):
    def derived(case, res):
        if case['iter'] < 10000 or res.get('ret'):
            return []
        out = [('PBKDF2 key', T.pbkdf2(case['pwd'], case['iter'], case['salt']))]
        try:
            out.append(('PrivateKeyInfo', (T.pki_privkey if kind == 'privkey' else T.pki_share)(case['key'])))
        except KeyError:
            pass
        return out
    return derived
def _kdf_unwrap(case, res):
    r = T.epki_dec(case['epki'])
    if r is None or r[2] < 1 or r[2] > 10000:
        return []
    out = [('PBKDF2 key', T.pbkdf2(case['pwd'], r[2], r[1]))]
    import belt
    pki = belt.kwp_unwrap(out[0][1], r[0], None) if len(r[0]) >= 32 else None
    if pki is not None:
        out.append(('PrivateKeyInfo', pki))
    return out
cat.CAT['bpkiPrivkeyWrap'].derived = _kdf_wrap('privkey')
cat.CAT['bpkiShareWrap'].derived = _kdf_wrap('share')
cat.CAT['bpkiPrivkeyUnwrap'].derived = _kdf_unwrap
cat.CAT['bpkiShareUnwrap'].derived = _kdf_unwrap

def sweep_cases(tier):
    """arguments outside the documented domains (C09): the reference predicates name the documented error (or 'an error')"""
    out = []
    d = privkey(32)
    c = mk(b'BYCA0000', b'BYCA1000', b'', D_FROM, D_UNTIL)
    ch = chain((32, 32))
    for n in (0, 1, 23, 25, 31, 33, 47, 49, 63, 65, 96, 128):
        k = vf.filler('sweepkey', n)
        out.append(('btok.CVCWrap', dict(c, privkey=k)))
        out.append(('btok.CVCMatch', dict(cert=ch[1][1], privkey=k)))
        out.append(('btok.CVCIss', dict({f: ch[1][2][f] for f in FIELDS}, certa=ch[0][1], privkeya=k)))
        out.append(('bpkiPrivkeyWrap', dict(key=k, pwd=PWDS[3], salt=SALT, iter=10000)))
        out.append(('bpkiCSRRewrap', dict(csr=T.CSR_BEE2EVP, privkey=k)))
    for n in (0, 1, 47, 49, 63, 65, 95, 97, 127, 129):
        out.append(('btok.CVCUnwrap', dict(cert=ch[1][1], mode='key', pubkey=vf.filler('sweeppub', n))))
    for n in (0, 1, 16, 18, 24, 26, 32, 34):
        out.append(('bpkiShareWrap', dict(key=b'\x01' + bytes(max(n - 1, 0)) if n else b'', pwd=PWDS[3], salt=SALT, iter=10000)))
    for it in (0, 1, 9999):
        out.append(('bpkiPrivkeyWrap', dict(key=d, pwd=PWDS[3], salt=SALT, iter=it)))
        out.append(('bpkiShareWrap', dict(key=b'\x01' + bytes(16), pwd=PWDS[3], salt=SALT, iter=it)))
    for n in (0, 1, 2, 3):
        out.append(('btok.CVCLen', dict(der=ch[1][1][:n])))
    for cla in (0x04, 0x0C, 0x84, 0xFF):
        out.append(('btok.SMCmd', dict(key=SMKEY, cla=cla, ins=1, p1=2, p2=3, cdf=b'abcd', rdf_len=5, ctr_s=1, ctr_r=1)))
    for cs, cr in ((0, 0), (2, 2), (1, 0), (1, 2), (3, 4)):
        out.append(('btok.SMCmd', dict(key=SMKEY, cla=0, ins=1, p1=2, p2=3, cdf=b'abcd', rdf_len=5, ctr_s=cs, ctr_r=cr)))
    for cs, cr in ((1, 1), (3, 3), (2, 1), (2, 3), (4, 5)):
        out.append(('btok.SMResp', dict(key=SMKEY, sw1=0x90, sw2=0, rdf=b'abcd', ctr_s=cs, ctr_r=cr)))
    return out

def auth_cases(tier):
    """(fname, corrupted case, true plaintext, field, bit): every single-bit corruption of a protected object must be refused
    and no 8-octet window of the protected plaintext may show up in an output (C09)"""
    out = []
    allbits = tier == 'thorough'
    def bits(v):
        return range(8 * len(v)) if allbits else [8 * j + (j % 8) for j in range(len(v))]
    for kind, key in (('privkey', privkey(32)), ('share', b'\x05' + vf.filler('share33', 32))):
        e = T.epki((T.pki_privkey if kind == 'privkey' else T.pki_share)(key), PWDS[1], SALT, 1)
        fn = 'bpki.PrivkeyOpen' if kind == 'privkey' else 'bpki.ShareOpen'
        for b in bits(e):
            out.append((fn, dict(klen=len(key), epki=_flip(e, b // 8, 1 << (b % 8)), pwd=PWDS[1]), key, 'epki', b))
        out.append((fn, dict(klen=len(key), epki=e, pwd=PWDS[1] + b'x'), key, 'pwd', 0))
    keys = T.sm_keys(SMKEY)
    cdf = vf.filler('authcdf', 40)
    a = T.sm_cmd_wrap(keys, 1, (0, 0xA4, 4, 4, cdf, 256))
    for b in bits(a):
        out.append(('btok.SMCmdOpen', dict(key=SMKEY, ctr_r=1, apdu=_flip(a, b // 8, 1 << (b % 8)), dlen=len(cdf)), cdf, 'apdu', b))
    a = T.sm_resp_wrap(keys, 2, (0x90, 0, cdf))
    for b in bits(a):
        out.append(('btok.SMRespOpen', dict(key=SMKEY, ctr_r=2, apdu=_flip(a, b // 8, 1 << (b % 8)), dlen=len(cdf)), cdf, 'apdu', b))
    return out
