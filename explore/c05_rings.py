"""C05, rings: zmCreatePlain / zmCreateCrand / zmCreateBarr / zmCreateMont / zmCreate / gfpCreate / gf2Create and every entry of the
qr_o function table (from, to, add, sub, neg, mul, sqr, inv, div) + qrPower, over the element alphabet squared, all permitted
aliasings.  Oracle: Z/(mod) resp. GF(2)[x]/(p) on Python ints; every element returned by the library must be fully reduced."""
import ctypes, math
import vf, common
import arith_catalogue as AC
import arith_cat_pp as APP
import polys as P

GUARD = 768
OFF = dict(keep=0, mod=24, unity=32, params=40, n=48, no=56, frm=64, to=72, add=80, sub=88, neg=96, mul=104, sqr=112, inv=120, div=128, deep=136)
ALIAS = {'add': ('', 'c=a', 'c=b', 'a=b', 'c=a=b'), 'sub': ('', 'c=a', 'c=b', 'a=b', 'c=a=b'), 'mul': ('', 'c=a', 'c=b', 'a=b', 'c=a=b'),
         'neg': ('', 'b=a'), 'sqr': ('', 'b=a'), 'inv': ('', 'b=a'), 'div': ('', 'b=d', 'b=a', 'd=a', 'b=d=a'), 'from': ('', 'b=a'), 'to': ('', 'b=a'),
         'power': ('', 'c=a'), 'unity': ('',)}
REPR = {'zmCreatePlain': 'plain', 'zmCreateCrand': 'plain', 'zmCreateBarr': 'plain', 'zmCreateMont': 'mont', 'zmCreate': None, 'gfpCreate': None,
        'gf2Create': 'plain'}

class Ring:
    def __init__(self, L, case):
        self.L, self.case = L, case
        self.W = W = 8 * L.wbytes
        self.wb = L.wbytes
        self.A = A = vf.Arena(L)
        self.creator = cr = case['creator']
        self.call6 = L.dll.vh_c05_call6
        self.call6.restype = ctypes.c_uint64
        self.call6.argtypes = [ctypes.c_uint64] * 7
        self.problems = []
        self.gf2 = cr == 'gf2Create'
        self.m = 0
        if self.gf2:
            p = case['p']; m = p[0]
            self.mod = sum(1 << e for e in set(p) if e) | 1
            self.m = m
            keep = L.sz('gf2Create_keep', m); deep = L.sz('gf2Create_deep', m)
            self.r = A.buf(keep, 0xEE); st = A.buf(deep + GUARD, 0xA5)
            pb = A.buf(b''.join(int(x).to_bytes(8, 'little') for x in p))
            self.ok = L.boolean(cr, self.r, pb, st)
            self.exp_n = (m + W - 1) // W; self.exp_no = (m + 7) // 8
            self.order = 1 << m
            self.tsh = sorted(set(e for e in p[1:] if e)) + [0]
            for t in (AC.fint('sm0', 2 * m), (1 << (2 * m - 1)) - 1, self.mod, self.mod << (m - 1)):
                assert self.sparse_mod(t) == P.mod(t, self.mod)
        else:
            self.mod = mod = int(case['mod'], 16); no = case['no']
            self.order = mod
            keep = L.sz(cr + '_keep', no); deep = L.sz(cr + '_deep', no)
            self.r = A.buf(keep, 0xEE); st = A.buf(deep + GUARD, 0xA5)
            mb = A.buf(mod.to_bytes(no, 'little'))
            ret = L.call(cr, self.r, mb, no, st)
            self.ok = (ret & 0xFFFFFFFF) != 0 if cr == 'gfpCreate' else True
            self.exp_n = (no + self.wb - 1) // self.wb; self.exp_no = no
        if st.get(GUARD, deep) != b'\xA5' * GUARD:
            self.problems.append(('create-stack-overrun', '%s wrote beyond its %d octets of scratch (%s_deep)' % (cr, deep, cr)))
        self.keep_est = keep
        if not self.ok:
            return
        g = lambda k: int.from_bytes(self.r.get(8, OFF[k]), 'little')
        self.n, self.no, self.deep, self.keep = g('n'), g('no'), g('deep'), g('keep')
        self.fp = {k: g(k) for k in ('frm', 'to', 'add', 'sub', 'neg', 'mul', 'sqr', 'inv', 'div')}
        self.unity_addr = g('unity'); self.mod_addr = g('mod')
        if self.n != self.exp_n or self.no != self.exp_no:
            self.problems.append(('post', 'r->n = %d, r->no = %d, documented %d, %d' % (self.n, self.no, self.exp_n, self.exp_no)))
            self.ok = False; return
        if self.keep > keep:
            self.problems.append(('keep', 'r->hdr.keep = %d exceeds %s_keep = %d' % (self.keep, cr, keep)))
        nb = self.n * self.wb
        self.nb = nb
        self.ea, self.eb, self.ec = A.buf(nb + 64, 0xA5), A.buf(nb + 64, 0xA5), A.buf(nb + 64, 0xA5)   # 64 guard octets each
        self.oa = A.buf(self.no); self.ob = A.buf(self.no)
        self.st = A.buf(self.deep + GUARD, 0xA5)
        self.guard = b'\xA5' * GUARD
        self.repr = REPR[cr]
        self.cache = {}
        n1 = self.n + (1 if self.gf2 and self.m % W == 0 else 0)
        modw = int.from_bytes(ctypes.string_at(self.mod_addr, n1 * self.wb), 'little')
        if modw != self.mod:
            self.problems.append(('mod', 'r->mod = %x, modulus %x' % (modw, self.mod)))

    def close(self):
        self.A.__exit__()

    # ---- the model
    def inring(self, x):
        return x < (1 << self.m) if self.gf2 else x < self.mod
    def m_add(self, x, y): return x ^ y if self.gf2 else (x + y) % self.mod
    def m_sub(self, x, y): return x ^ y if self.gf2 else (x - y) % self.mod
    def m_neg(self, x): return x if self.gf2 else -x % self.mod
    def m_mul(self, x, y): return self.sparse_mod(P.mul(x, y)) if self.gf2 else x * y % self.mod
    def sparse_mod(self, a):
        """a mod p for p = x^m + t(x) (t = the lower terms): x^m = t, folded until deg a < m"""
        m = self.m; mask = (1 << m) - 1; sh = self.tsh
        while a >> m:
            hi = a >> m; a &= mask
            for k in sh:
                a ^= hi << k
        return a
    def m_inv(self, x):
        k = ('inv', x)
        if k not in self.cache:
            if self.gf2:
                self.cache[k] = P.invmod(x, self.mod) if x else None
            else:
                self.cache[k] = pow(x, -1, self.mod) if math.gcd(x, self.mod) == 1 else None
        return self.cache[k]
    def m_pow(self, x, e):
        if not self.gf2:
            return pow(x, e, self.mod)
        r = 1 % self.mod if self.mod > 1 else 0
        b = x
        while e:
            if e & 1: r = self.m_mul(r, b)
            b = self.m_mul(b, b); e >>= 1
        return r
    def rep_of(self, x):
        """documented representation of the residue x (None: not specified for this creator)"""
        if self.repr == 'plain': return x
        if self.repr == 'mont': return x * (1 << (self.n * self.W)) % self.mod
        return None

    # ---- raw calls
    def call(self, name, *args):
        a = [x.addr if isinstance(x, vf.Buf) else x for x in args]
        a += [0] * (6 - len(a))
        r = self.call6(self.fp[name], *a)
        if ctypes.string_at(self.st.addr + self.deep, GUARD) != self.guard:
            ctypes.memset(self.st.addr + self.deep, 0xA5, GUARD)
            return r, 'stack-overrun'
        return r, None
    def elem(self, x):
        """element of residue x through r->from (checked separately by op 'from')"""
        k = ('el', x)
        if k not in self.cache:
            self.oa.set(x.to_bytes(self.no, 'little'))
            self.call('frm', self.ec, self.oa, self.r, self.st)
            self.cache[k] = self.ec.get(self.nb)
        return self.cache[k]
    def value(self, ebytes):
        """residue of an element through r->to"""
        self.eb.set(ebytes)
        self.call('to', self.ob, self.eb, self.r, self.st)
        return int.from_bytes(self.ob.get(), 'little')

    def judge(self, opname, cbytes, want, ov):
        """cbytes: element returned by the library; want: residue by the model"""
        if ov:
            return 'stack-overrun', '%s wrote beyond r->deep = %d octets of scratch' % (opname, self.deep)
        c = int.from_bytes(cbytes, 'little')
        if want is None:
            return None
        if not self.inring(c) and not (self.gf2 and c < self.mod and False):
            return 'unreduced', 'result element %x is not reduced (modulus %x)' % (c, self.mod)
        rp = self.rep_of(want)
        if rp is not None and c != rp:
            return 'value', 'result element %x, documented representation of the result %x' % (c, rp)
        got = self.value(cbytes)
        if got != want:
            return 'value', 'result (through r->to) %x, exact %x' % (got, want)
        return None

    def do_op(self, op, alias, x, y=0, e=0, m=0):
        """-> None | (class, message)"""
        L = self.L
        if op == 'unity':
            u = ctypes.string_at(self.unity_addr, self.nb)
            return self.judge('unity', u, 1 % self.mod if not self.gf2 else 1, None)
        if op == 'from':
            valid = self.inring(x)
            src = x.to_bytes(self.no, 'little')
            if alias:
                self.ec.set(src + b'\xEE' * (self.nb - self.no)); dst = self.ec; r, ov = self.call('frm', self.ec, self.ec, self.r, self.st)
            else:
                self.oa.set(src); self.ec.set(b'\xEE' * self.nb); r, ov = self.call('frm', self.ec, self.oa, self.r, self.st)
            ret = (r & 0xFFFFFFFF) != 0
            if ov:
                return 'stack-overrun', 'from wrote beyond r->deep'
            if ret != valid:
                return 'return', 'from(%x) returned %s, the encoding is %s' % (x, ret, 'valid' if valid else 'invalid (>= modulus)')
            if not valid:
                return None
            return self.judge('from', self.ec.get(self.nb), x, None)
        if op == 'to':
            el = self.elem(x)
            if alias:
                self.ec.set(el); r, ov = self.call('to', self.ec, self.ec, self.r, self.st); out = self.ec.get(self.no)
            else:
                self.ea.set(el); self.ob.set(b'\xEE' * self.no); r, ov = self.call('to', self.ob, self.ea, self.r, self.st); out = self.ob.get()
            if ov:
                return 'stack-overrun', 'to wrote beyond r->deep'
            if int.from_bytes(out, 'little') != x:
                return 'value', 'to(from(%x)) = %x' % (x, int.from_bytes(out, 'little'))
            return None
        if op == 'power':
            el = self.elem(x)
            deep = L.sz('qrPower_deep', self.n, m, self.deep)
            with vf.Arena(L) as A2:
                st = A2.buf(deep + GUARD, 0xA5); eb = A2.buf(e.to_bytes(m * self.wb, 'little') if m else b'')
                a = self.ea; a.set(el)
                c = a if alias else self.ec
                L.call('qrPower', c, a, eb, m, self.r, st)
                if st.get(GUARD, deep) != self.guard:
                    return 'stack-overrun', 'qrPower wrote beyond qrPower_deep(n, m, r->deep) = %d' % deep
                return self.judge('power', c.get(self.nb), self.m_pow(x, e), None)
        ex = self.elem(x); ey = self.elem(y)
        ea, eb, ec = self.ea, self.eb, self.ec
        binary = op in ('add', 'sub', 'mul', 'div')
        # operand buffers according to the aliasing mode (names of the qr.h prototypes: c/b result, a, b/d inputs)
        g = alias.split('=') if alias else []
        res_name = 'c' if op in ('add', 'sub', 'mul') else 'b'
        in1, in2 = ('a', 'b') if op in ('add', 'sub', 'mul') else (('d', 'a') if op == 'div' else ('a', None))
        bufs = {res_name: ec, in1: ea}
        if in2:
            bufs[in2] = eb
        if g:
            shared = bufs[g[0]]
            for nm in g:
                bufs[nm] = shared
        bufs[in1].set(ex)
        if in2:
            if bufs[in2] is bufs[in1] and ey != ex:
                return None                     # a == b needs equal values
            bufs[in2].set(ey)
        if bufs[res_name] is not bufs[in1] and (not in2 or bufs[res_name] is not bufs[in2]):
            bufs[res_name].set(b'\xEE' * self.nb)
        if op in ('add', 'sub'):
            r, ov = self.call(op, bufs['c'], bufs['a'], bufs['b'], self.r)
            want = self.m_add(x, y) if op == 'add' else self.m_sub(x, y)
        elif op == 'neg':
            r, ov = self.call(op, bufs['b'], bufs['a'], self.r); want = self.m_neg(x)
        elif op == 'mul':
            r, ov = self.call(op, bufs['c'], bufs['a'], bufs['b'], self.r, self.st); want = self.m_mul(x, y)
        elif op == 'sqr':
            r, ov = self.call(op, bufs['b'], bufs['a'], self.r, self.st); want = self.m_mul(x, x)
        elif op == 'inv':
            r, ov = self.call(op, bufs['b'], bufs['a'], self.r, self.st); want = self.m_inv(x)
        elif op == 'div':
            r, ov = self.call(op, bufs['b'], bufs['d'], bufs['a'], self.r, self.st)
            i = self.m_inv(y); want = None if i is None else self.m_mul(x, i)
        out = bufs[res_name].get(self.nb)
        for bb in (ea, eb, ec):
            if bb.get(64, self.nb) != b'\xA5' * 64:
                bb.set(b'\xA5' * 64, self.nb)
                return 'buffer-overrun', '%s wrote beyond the r->n words of an element buffer' % op
        return self.judge(op, out, want, ov)

def elements(R, tier):
    if R.gf2:
        v = AC.V(mod=R.mod); sh = dict(n=R.n)
        e = [x for x in APP.ppelems(v, sh, R.W) if x < 1 << R.m]
        e += [(1 << R.m) - 1, 1 << (R.m - 1)]
    else:
        e = AC.elems(R.mod, R.n, R.W)
    e = list(dict.fromkeys(e))
    lim = 16 if R.n <= 2 else 12
    return e[:lim] if len(e) > lim else e

def ring_key(case, op, cls):
    if cls in ('value/even-modulus', 'zero-divisor-hang', 'zero-divisor-crash') and case['creator'] != 'gf2Create':
        return 'ring:zm*:inv|div:%s' % cls          # one root cause (zzInvMod / zzDivMod behind every zm / gfp ring)
    return 'ring:%s:%s:%s' % (case['creator'], op, cls)

def run_ring(case):
    L = common.lib(case['cfg'])
    R = Ring(L, case)
    bad = []; n = 0; risky = []
    def note(op, alias, x, y, r, e=0, m=0):
        if r and len(bad) < 8:
            if op in ('inv', 'div') and r[0] == 'value':
                if not R.gf2 and R.mod % 2 == 0:
                    r = (r[0] + '/even-modulus', r[1])
                elif R.gf2 and R.m % R.W == 0:
                    r = (r[0] + '/m%W==0', r[1])
            bad.append((op, r[0], dict(op=op, alias=alias, x='%x' % x, y='%x' % y, e='%x' % e, m=m),
                        '%s %s%s(x=%x, y=%x%s): %s' % (describe(case), op, ' alias ' + alias if alias else '', x, y, ', e=%x [%d words]' % (e, m) if op == 'power' else '', r[1])))
    try:
        for cls, msg in R.problems:
            bad.append(('create', cls, dict(op='create', alias='', x='0', y='0', e='0', m=0), describe(case) + ': ' + msg))
        if case['creator'] == 'gfpCreate' and case.get('prime') and not R.ok:
            bad.append(('create', 'return', dict(op='create', alias='', x='0', y='0', e='0', m=0), describe(case) + ': gfpCreate failed for an odd prime'))
        if not R.ok:
            return {'n': 1, 'bad': bad, 'risky': [], 'created': False}
        E = elements(R, case['tier'])
        note('unity', '', 0, 0, R.do_op('unity', '', 0)); n += 1
        top = 1 << (8 * R.no)
        inval = [x for x in (R.mod, R.mod + 1, R.mod | 1 << (8 * R.no - 1), top - 1) if x < top and not R.inring(x) and (not R.gf2 or x >= R.mod)]
        for a in ALIAS['from']:
            for x in E + inval:
                note('from', a, x, 0, R.do_op('from', a, x)); n += 1
        for a in ALIAS['to']:
            for x in E:
                note('to', a, x, 0, R.do_op('to', a, x)); n += 1
        for op in ('neg', 'sqr', 'inv'):
            for a in ALIAS[op]:
                for x in E:
                    if op == 'inv' and x == 0:
                        risky.append((op, a, x, 0)); continue
                    note(op, a, x, 0, R.do_op(op, a, x)); n += 1
        for op in ('add', 'sub', 'mul', 'div'):
            for ai, a in enumerate(ALIAS[op]):
                for i, x in enumerate(E):
                    for j, y in enumerate(E):
                        if a and R.n > 2 and (i + j + ai) % 3:
                            continue
                        if 'a=b' in a or 'd=a' in a:
                            if i != j:
                                continue
                        if op == 'div' and y == 0:
                            if i < 2:
                                risky.append((op, a, x, y))
                            continue
                        note(op, a, x, y, R.do_op(op, a, x, y)); n += 1
        exps = [(0, 0), (1, 0), (1, 1), (1, 2), (1, 3), (1, (1 << R.W) - 1), (1, AC.fint('pe1', R.W)), (2, AC.fint('pe2', 2 * R.W) | 1 << (2 * R.W - 1)),
                (3, AC.fint('pe3', 3 * R.W)), (2, 1 << R.W), (R.n, R.order - 1), (R.n, max(R.order - 2, 0))]
        if R.n <= 6:
            exps.append((5, AC.fint('pe5', 5 * R.W) | 1 << (5 * R.W - 1)))
        for a in ALIAS['power']:
            for xi, x in enumerate(E[:6]):
                for m, e in exps:
                    if e >> (m * R.W) or (R.gf2 and m > 2 and xi not in (1, 4)):
                        continue
                    note('power', a, x, 0, R.do_op('power', a, x, 0, e, m), e, m); n += 1
    finally:
        R.close()
    return {'n': n, 'bad': bad, 'risky': risky, 'created': True}

def describe(case):
    if case['creator'] == 'gf2Create':
        return '[%s] gf2Create(p = %s)' % (case['cfg'], case['p'])
    return '[%s] %s(mod = %s, no = %d)' % (case['cfg'], case['creator'], case['mod'], case['no'])

def run_single(case):
    """one table call in its own pmap case (inputs inside the documented domain that may not return)"""
    L = common.lib(case['cfg'])
    R = Ring(L, case)
    try:
        o = case['single']
        return R.do_op(o['op'], o['alias'], int(o['x'], 16), int(o['y'], 16), int(o.get('e', '0'), 16), o.get('m', 0))
    finally:
        R.close()

def replay_ring(rec):
    case = rec['case']; o = rec['single']
    if o['op'] == 'create':
        r = run_ring(dict(case, tier='quick'))
        c = [b for b in r['bad'] if b[0] == 'create']
        return c[0][3] if c else None
    if rec.get('expect') == 'crash':
        res = vf.pmap(run_single, [dict(case, single=o)], nproc=1, case_timeout=8)[0]
        if isinstance(res, dict) and 'crash' in res:
            return '%s %s(x=%s, y=%s): %s' % (describe(case), o['op'], o['x'], o['y'], 'does not return' if res['crash'] == 'timeout' else 'crashes: ' + res['crash'])
        r = res
    else:
        r = run_single(dict(case, single=o))
    if r:
        return '%s %s%s(x=%s, y=%s): %s' % (describe(case), o['op'], ' alias ' + o['alias'] if o['alias'] else '', o['x'], o['y'], r[1])
    return None

# ------------------------------------------------------------------------------------------ enumeration
GF2_STD = [(128, 7, 2, 1), (163, 7, 6, 3), (192, 7, 2, 1), (233, 74, 0, 0), (256, 10, 5, 2), (283, 12, 7, 5), (409, 87, 0, 0), (571, 10, 5, 2),
           (113, 9, 0, 0), (131, 8, 3, 2), (193, 15, 0, 0), (239, 36, 0, 0), (127, 63, 0, 0), (191, 9, 0, 0)]
_cases = []
def byte_moduli(no):
    T = 1 << (8 * no)
    r = [T - 1, T - 3, T - 2, T // 256 + 1, T // 2, T // 2 + 1, AC.pow3_below(T), AC.fint('bm%d' % no, 8 * no) | T // 2 | 1, (AC.fint('bn%d' % no, 8 * no) | T // 2) & ~1,
         T // 256 * 2, T // 256 * 2 + 1]
    return [m for m in dict.fromkeys(r) if m > 1 and m >> (8 * (no - 1)) and m < T]

def prepare(tier, N):
    import pri
    del _cases[:]
    import c05_calls as CC
    for cfg in CC.CFGS:
        W = CC.wbits(cfg); wb = W // 8
        for n in range(1, N + 1):
            for no in sorted(set(x for x in (wb * (n - 1) + 1, wb * n - 1, wb * n) if x > 0)):
                full = no == wb * n
                mods = AC.moduli(n, W) if full else byte_moduli(no)
                primes = set(p for p in (AC.prime_below(n * W), AC.prime_below(n * W - W + 2)))
                for mod in mods:
                    crs = ['zmCreatePlain', 'zmCreateBarr', 'zmCreate']
                    if mod & 1:
                        crs += ['zmCreateMont', 'gfpCreate']
                    if full and n >= 2 and mod in AC.moduli(n, W, 'crand'):
                        crs.append('zmCreateCrand')
                    if not full:
                        crs = [c for c in crs if c in ('zmCreate', 'zmCreatePlain', 'zmCreateMont')] if n <= 9 else ['zmCreate']
                    for cr in crs:
                        _cases.append(dict(cfg=cfg, creator=cr, mod='%x' % mod, no=no, tier=tier, prime=mod in primes))
        ps = [p for p in GF2_STD if (p[0] + W - 1) // W <= N]
        ps += [(m, k, 0, 0) for m, k in APP.trinomials(W, N)]
        ps += APP.pentanomials(W, N)
        for p in dict.fromkeys(ps):
            m, k, l, l1 = p
            if l == 0:
                if m % 8 == 0 or k <= 0 or m - k < W: continue
            elif not (m - k >= W and k < W and k > l > l1 > 0): continue
            _cases.append(dict(cfg=cfg, creator='gf2Create', p=list(p), tier=tier))

def rings(chk, tier, N):
    cases = list(_cases)
    res = vf.pmap(run_ring, cases, case_timeout=300)
    tot = 0; created = 0; singles = []; nrisky = {}
    per = {}
    for c, r in zip(cases, res):
        if 'n' not in r:
            if 'harness_error' in r:
                raise RuntimeError('harness error in ring %s: %s' % (c, r['harness_error']))
            chk.violation(ring_key(c, 'any', 'crash'), {'cfg': c['cfg'], 'kind': 'ring', 'case': c, 'single': dict(op='create', alias='', x='0', y='0')},
                          '%s: ring exploration crashed: %s %s' % (describe(c), r.get('crash'), (r.get('stderr') or '')[-300:]))
            continue
        tot += r['n']; created += r['created']
        per[c['creator']] = per.get(c['creator'], 0) + r['n']
        chk.outcome('%s %s' % (c['creator'], 'ok' if not r['bad'] else 'MISMATCH'))
        for op, cls, single, msg in r['bad']:
            chk.violation(ring_key(c, op, cls), {'cfg': c['cfg'], 'kind': 'ring', 'case': c, 'single': single}, msg)
        for op, a, x, y in r['risky']:
            k = (c['cfg'], c['creator'], op)
            if nrisky.get(k, 0) < 2 and not a:
                nrisky[k] = nrisky.get(k, 0) + 1
                singles.append(dict(c, single=dict(op=op, alias=a, x='%x' % x, y='%x' % y)))
    if singles:
        res = vf.pmap(run_single, singles, case_timeout=8)
        for c, r in zip(singles, res):
            o = c['single']
            base = {k: v for k, v in c.items() if k != 'single'}
            if isinstance(r, dict) and 'crash' in r:
                what = 'does not return (timeout)' if r['crash'] == 'timeout' else 'crashes (%s)' % r['crash']
                chk.violation(ring_key(c, o['op'], 'zero-divisor-' + ('hang' if r['crash'] == 'timeout' else 'crash')),
                              {'cfg': c['cfg'], 'kind': 'ring', 'case': base, 'single': o, 'expect': 'crash'},
                              '%s %s(x=%s, y=%s): %s; qr.h: for a non-invertible element the result may be anything (but the call must return)' % (describe(c), o['op'], o['x'], o['y'], what))
            elif isinstance(r, dict) and 'harness_error' in r:
                raise RuntimeError(r['harness_error'])
            elif r:
                chk.violation(ring_key(c, o['op'], r[0]), {'cfg': c['cfg'], 'kind': 'ring', 'case': base, 'single': o}, '%s %s: %s' % (describe(c), o['op'], r[1]))
            tot += 1
    chk.part('rings', evaluations=tot, traces_validated_against_impl=tot, states=created, transitions=tot, rings=len(cases), per_creator=per)
    if cases:
        chk.sample({'ring': describe(cases[len(cases) // 2]), 'ops': 'unity from to neg sqr inv add sub mul div power x aliasings'})
