"""C05 -- arithmetic layer equals exact integer, modular and GF(2)[x] arithmetic.
E1 over the declarative catalogue ref/arith_catalogue.py (+ arith_cat_ww/zz/pp): every public function of ww.h, zz.h, pp.h,
both SAFE/FAST editions, every operand length 0..N, the complete pattern cross product of the declared alphabets, every
documented aliasing; the rings of zm.h / gfp.h / gf2.h through the qr_o table (c05_rings.py); complete enumeration of the
16-bit helpers and structured sweeps of the word/u32/u64 helpers (drv/vh_c05.c).  Oracle: exact equality with the formula."""
import ctypes, os, sys, time
import vf, common
import arith_catalogue as AC
import c05_calls as CC
import c05_rings as CR

PROP = 'C05'
NMAX = {'quick': 9, 'thorough': 20}

# ------------------------------------------------------------------------------------------ sweeps of the word helpers
UNARY = ['Rev', 'Bitrev', 'Weight', 'Parity', 'CTZ', 'CTZ_safe', 'CTZ_fast', 'CLZ', 'CLZ_safe', 'CLZ_fast', 'Shuffle', 'Deshuffle', 'NegInv', 'RotHi', 'RotLo']
CMPN = ['Eq', 'Neq', 'Less', 'Leq', 'Greater', 'Geq']

class Rep(ctypes.Structure):
    _fields_ = [(k, ctypes.c_uint64) for k in ('evals', 'bad', 'x', 'y', 'got', 'want')]

def py_naive(bits, fn, x, y):
    """third, independent definition (guards the C naive model against being the wrong side)"""
    m = (1 << bits) - 1; x &= m
    bs = [(x >> i) & 1 for i in range(bits)]
    if fn >= 20:
        k, j = divmod(fn - 20, 6); y &= m
        t = [x == y, x != y, x < y, x <= y, x > y, x >= y][j]
        return (m if t else 0) if k == 2 else int(t)
    name = UNARY[fn].split('_')[0]
    if name == 'Rev': return int.from_bytes(x.to_bytes(bits // 8, 'little'), 'big')
    if name == 'Bitrev': return sum(b << (bits - 1 - i) for i, b in enumerate(bs))
    if name == 'Weight': return sum(bs)
    if name == 'Parity': return sum(bs) & 1
    if name == 'CTZ': return next((i for i in range(bits) if bs[i]), bits)
    if name == 'CLZ': return next((i for i in range(bits) if bs[bits - 1 - i]), bits)
    h = bits // 2
    if name == 'Shuffle': return sum(bs[i] << (2 * i) | bs[h + i] << (2 * i + 1) for i in range(h))
    if name == 'Deshuffle': return sum(bs[2 * i] << i | bs[2 * i + 1] << (h + i) for i in range(h))
    if name == 'NegInv': return (-pow(x, -1, 1 << bits)) & m
    if name == 'RotHi': return (x << y | x >> (bits - y)) & m
    if name == 'RotLo': return (x >> y | x << (bits - y)) & m

def run_sweep(case):
    cfg, kind, bits, fn = case
    L = common.lib(cfg)
    rep = Rep()
    if kind == 'cmp':
        L.dll.vh_c05_cmp_sweep(ctypes.c_int(fn), ctypes.byref(rep))
        bits = 8 * L.wbytes
    else:
        L.dll.vh_c05_sweep(ctypes.c_int(bits), ctypes.c_int(fn), ctypes.c_int(1), ctypes.byref(rep))
    out = {'evals': rep.evals, 'bad': rep.bad}
    if rep.bad:
        pn = py_naive(bits, fn, rep.x, rep.y)
        out.update(x=rep.x, y=rep.y, got=rep.got, want=rep.want, py=pn)
    return out

def sweep_name(kind, bits, fn):
    if kind == 'cmp':
        k, j = divmod(fn - 20, 6)
        return 'word%s%s' % (CMPN[j], ('', '01', '0M')[k])
    return 'u%d%s' % (bits, UNARY[fn])

def replay_sweep(rec):
    L = common.lib(rec['cfg'])
    f = L.fn('vh_c05_eval')
    got = L.call('vh_c05_eval', rec['bits'], rec['f'], rec['x'], rec['y'])
    want = py_naive(rec['bits'], rec['f'], rec['x'], rec['y'])
    name = sweep_name(rec['sweep'], rec['bits'], rec['f'])
    if rec['f'] in (3,) or (rec['f'] >= 20 and (rec['f'] - 20) // 6 == 0):
        got = 1 if got & 0xFFFFFFFF else 0
    if got != want:
        return '%s(%x, %x) = %x, definition %x' % (name, rec['x'], rec['y'], got, want)
    return None

def sweeps(chk):
    cases = []
    for cfg in CC.CFGS:
        for bits in (16, 32, 64):
            for fn in range(len(UNARY)):
                cases.append((cfg, 'unary', bits, fn))
        for fn in range(20, 38):
            cases.append((cfg, 'cmp', 0, fn))
    res = vf.pmap(run_sweep, cases, case_timeout=300)
    ev = 0
    for c, r in zip(cases, res):
        cfg, kind, bits, fn = c
        if kind == 'cmp':
            bits = CC.wbits(cfg)
        name = sweep_name(kind, bits, fn)
        rec = {'cfg': cfg, 'kind': 'sweep', 'sweep': kind, 'bits': bits, 'f': fn}
        if 'evals' not in r:
            chk.violation('sweep:%s:crash' % name, dict(rec, x=0, y=0), '%s: sweep crashed: %s' % (name, str(r)[:300])); continue
        ev += r['evals']
        chk.outcome('sweep ' + ('ok' if not r['bad'] else 'mismatch'))
        if r['bad']:
            if r['py'] != r['want']:
                raise RuntimeError('harness: C naive model and Python definition disagree for %s(%x,%x): %x vs %x' % (name, r['x'], r['y'], r['want'], r['py']))
            chk.violation('sweep:%s' % name, dict(rec, x=r['x'], y=r['y']),
                          '%s [%s]: %d of %d inputs differ from the definition; first: (%x, %x) -> %x, definition %x' % (name, cfg, r['bad'], r['evals'], r['x'], r['y'], r['got'], r['want']))
    chk.part('word_helper_sweeps', evaluations=ev, traces_validated_against_impl=ev, states=len(cases),
             complete_16bit='all 65536 values of every u16 helper (rotations: x every distance 1..15)',
             structured='u32/u64/word: all values with <= 2 set or <= 2 clear bits + boundaries; comparisons on set x set')
    chk.sample({'sweep': 'u16NegInv over all 32768 odd values', 'evaluations_total': ev})

# ------------------------------------------------------------------------------------------ catalogue cells
def make_cells(tier, fns=None):
    N = NMAX[tier]
    cells = []
    for cfg in CC.CFGS:
        W = CC.wbits(cfg)
        for name in sorted(CC.CAT):
            if fns and name not in fns:
                continue
            ent = CC.CAT[name]
            for sh in ent.shapes(N, W):
                # the second edition is <name>_fast in regular builds and <name>_safe in SAFE_FAST builds (safe.h)
                for ed in (ent.editions() if 'fast' not in cfg else tuple(e.replace('_fast', '_safe') for e in ent.editions())):
                    for alias in ('',) + ent.alias:
                        if alias and not CC.alias_ok(ent, sh, W, alias):
                            continue
                        cells.append(dict(cfg=cfg, fn=name, ed=ed, sh=sh, alias=alias, tier=tier))
    return cells

def cell_key(c):
    return '%s%s' % (c['fn'], c['ed'])

def cell_rec(c, inputs):
    return {'cfg': c['cfg'], 'kind': 'call', 'fn': c['fn'], 'ed': c['ed'], 'sh': c['sh'], 'alias': c['alias'], 'in': inputs}

def account(chk, cells, res, stats, crashed, risky):
    for c, r in zip(cells, res):
        if 'n' not in r:
            if 'harness_error' in r:
                raise RuntimeError('harness error in cell %s: %s' % (c, r['harness_error']))
            crashed.append((c, r)); continue
        st = stats.setdefault(c['fn'], [0, 0, 0])
        st[0] += r['n']; st[1] += 1
        chk.outcome('%s ok' % c['fn'] if not r['bad'] else '%s MISMATCH' % c['fn'], r['n'])
        for cls, i, inputs, msg in r['bad']:
            chk.violation('%s:%s' % (cell_key(c), cls), cell_rec(c, inputs), '[%s] %s' % (c['cfg'], msg))
        if r['risky'] and not c.get('run_risky'):
            k = (c['cfg'], c['fn'], c['ed'])
            big = max([x for x in c['sh'].values()] + [0]) > 3
            for i in r['risky'][:1 if big else 3]:
                if risky.get(k, 0) < 6:
                    risky[k] = risky.get(k, 0) + 1
                    crashed.append((dict(c, subset=[i], run_risky=True, _single=True), None))
            st[2] += len(r['risky'])

def log(msg):
    if os.environ.get('C05_VERBOSE'):
        print('[C05 %6.1fs] %s' % (time.time() - T0[0], msg), file=sys.stderr, flush=True)
T0 = [time.time()]

def catalogue(chk, tier, fns=None):
    cells = make_cells(tier, fns)
    stats = {}; crashed = []; risky = {}
    log('%d cells' % len(cells))
    # batches of functions, so that the global deadline can stop the exploration between them
    names = sorted(set(c['fn'] for c in cells))
    for lo in range(0, len(names), 12):
        grp = set(names[lo:lo + 12])
        if chk.expired():
            chk.cap('deadline: catalogue functions %s not explored' % sorted(grp)); continue
        sub = [c for c in cells if c['fn'] in grp]
        res = vf.pmap(CC.run_cell, sub, case_timeout=900)
        account(chk, sub, res, stats, crashed, risky)
        log('functions %s.. done' % names[lo])
    log('first pass done, %d crashed/risky' % len(crashed))
    # cells whose worker died or hung: split into chunks, then the first crashing chunk of a cell into single inputs
    singles = [c for c, r in crashed if c.get('_single')]
    chunks = []
    ncr = {}
    for c, r in crashed:
        if c.get('_single'):
            continue
        log('crashed cell %s%s %s %s alias=%s: %s' % (c['fn'], c['ed'], c['cfg'], c['sh'], c['alias'], r.get('crash')))
        k = (c['cfg'], c['fn'], c['ed'])
        ncr[k] = ncr.get(k, 0) + 1
        if ncr[k] > 4:
            chk.cap('%s%s [%s]: more than 4 crashing cells, cell %s %s not split' % (c['fn'], c['ed'], c['cfg'], c['sh'], c['alias'])); continue
        ent = CC.CAT[c['fn']]
        W = CC.wbits(c['cfg'])
        n = len(CC.gen_inputs(ent, c['sh'], W, c['alias'], tier)[0])
        for lo in range(0, n, 64):
            chunks.append(dict(c, subset=list(range(lo, min(n, lo + 64)))))
    if chunks:
        res = vf.pmap(CC.run_cell, chunks, case_timeout=20)
        cr2 = []
        account(chk, chunks, res, stats, cr2, risky)
        per_cell = {}
        for c, r in cr2:
            if c.get('_single'):
                singles.append(c); continue
            k = (c['cfg'], c['fn'], c['ed'], str(c['sh']), c['alias'])
            per_cell[k] = per_cell.get(k, 0) + 1
            if per_cell[k] > 1:
                chk.cap('%s: further crashing chunk in cell %s not split (inputs %d..%d not judged)' % (c['fn'], k, c['subset'][0], c['subset'][-1])); continue
            for i in c['subset']:
                singles.append(dict(c, subset=[i], _single=True))
    log('%d chunks done, %d singles' % (len(chunks), len(singles)))
    if singles:
        res = vf.pmap(CC.run_cell, singles, case_timeout=6)
        done = []
        for c, r in zip(singles, res):
            if 'n' in r:
                done.append((c, r)); continue
            if 'harness_error' in r:
                raise RuntimeError('harness error: %s' % r['harness_error'])
            ent = CC.CAT[c['fn']]
            W = CC.wbits(c['cfg'])
            v = CC.gen_inputs(ent, c['sh'], W, c['alias'], tier)[0][c['subset'][0]]
            hang = r.get('crash') == 'timeout'
            what = 'does not return (timeout)' if hang else 'crashes (%s)' % r.get('crash')
            chk.violation('%s:%s' % (cell_key(c), CC.cls_of(ent, v, 'hang' if hang else 'crash')),
                          dict(cell_rec(c, CC.enc_inputs(ent, v)), expect='crash'),
                          '[%s] %s: %s' % (c['cfg'], CC.describe(ent, c['ed'], c['sh'], c['alias'], v), what))
            chk.outcome('%s %s' % (c['fn'], 'HANG' if hang else 'CRASH'))
        account(chk, [c for c, _ in done], [r for _, r in done], stats, [], risky)
    log('singles done')
    tot = sum(s[0] for s in stats.values())
    chk.part('catalogue_calls', evaluations=tot, traces_validated_against_impl=tot, states=sum(s[1] for s in stats.values()),
             transitions=tot, functions=len(stats), cells=len(cells), crashed_cells=len([1 for c, r in crashed if not c.get('_single')]),
             risky_inputs_quarantined=sum(s[2] for s in stats.values()), per_function={k: v[0] for k, v in sorted(stats.items())})
    for name in ('zzRedMont', 'zzMulMod', 'ppMul'):
        if name in stats:
            chk.sample({'fn': name, 'executions': stats[name][0], 'cells': stats[name][1]})

# ------------------------------------------------------------------------------------------ driver
def prepare(tier):
    """primes of every needed size are computed once in the parent (inherited by the forked workers)"""
    N = NMAX[tier]
    for W in (64, 32):
        for n in range(1, N + 1):
            AC.prime_below(n * W); AC.prime_below(n * W - W + 2)
    CR.prepare(tier, NMAX[tier])

VM_NAMES = {161: 'u16RotHi', 160: 'u16RotLo', 321: 'u32RotHi', 320: 'u32RotLo', 641: 'u64RotHi', 640: 'u64RotLo', 648: 'u64Rev_', 30: 'MIN3', 31: 'MAX3', 40: 'MIN4', 41: 'MAX4'}
def value_macro_sweep(cfg):
    """header macros that no library source uses (drv/vh_macros.c): complete over u16 x shift, boundary alphabets x every shift for u32 / u64,
    every tuple over {0, 1, 2, 3, SIZE_MAX} for MIN3 .. MAX4 -> (evaluations, message or None)"""
    L = common.lib(cfg)
    if not L.has('vm_value_macros_sweep'):
        return 0, None
    out = (ctypes.c_ulonglong * 6)()
    L.dll.vm_value_macros_sweep(out)
    if out[1]:
        return out[0], '%s(%#x, %d) = %#x differs from its definition (%d mismatches in the sweep) [cfg %s]' % (VM_NAMES.get(out[2], '?'), out[3], out[4], out[5], out[1], cfg)
    return out[0], None

def header_macros(chk):
    res = vf.pmap(value_macro_sweep, list(CC.CFGS), case_timeout=300)
    n = 0
    for cfg, r in zip(CC.CFGS, res):
        if isinstance(r, dict):
            chk.violation('header-macros:crash:' + cfg, {'kind': 'vmacro', 'cfg': cfg}, 'value macro sweep crashed: %s' % str(r)[-400:]); continue
        n += r[0]
        if r[1]:
            chk.violation('header-macros:' + r[1].split('(')[0], {'kind': 'vmacro', 'cfg': cfg}, r[1])
    chk.part('header_value_macros', states=len(VM_NAMES), transitions=n, traces_validated_against_impl=n, evaluations=n)

def run(tier):
    T0[0] = time.time()
    chk = vf.Check(PROP, tier, deadline_s=900 if tier == 'quick' else 2400)
    fns = set(os.environ['C05_ONLY'].split(',')) if os.environ.get('C05_ONLY') else None
    prepare(tier)
    if not fns:
        sweeps(chk)
        header_macros(chk)
    catalogue(chk, tier, fns)
    if not fns or 'rings' in fns:
        if chk.expired():
            chk.cap('deadline: rings not explored')
        else:
            CR.rings(chk, tier, NMAX[tier])
    chk.assumptions += [
        'values: declared alphabets (ref/arith_catalogue.py num_full/num_core/moduli/elems/red_inputs), not all 2^(64n) operands; lengths, aliasings, editions, moduli classes are enumerated completely',
        'cross product: complete over all operands while it has at most %d tuples (always for lengths <= 2 of binary functions), otherwise pairwise-full / one-operand-full against the core alphabet of the others' % CC.LIMIT[tier][0],
        'borrow words of zzSubW/zzSubW2 (n = 0) and zzSubMulW are judged by the identity c - B^n * borrow == a - w resp. b - a * w (zz.h writes the predicate; both agree whenever the borrow is 0/1)',
        'scratch stacks are exactly xxx_deep() octets followed by a harness-owned guard zone whose modification is reported as stack-overrun',
        'ring element aliasing c==a / c==b of multiplicative qr functions is taken as permitted (qr.h warning: no disjoint-or-equal assumption is made for them)',
        '32-bit configuration = B_PER_W 32 on LP64 (hook H2)']
    return chk.finish('C05', 'E1: functions x editions x lengths 0..%d x aliasings x pattern cross product of the catalogue; rings x moduli x qr_o table over element alphabet^2; '
                      'complete 2^16 sweeps of the u16 helpers' % NMAX[tier])

def replay(rec):
    if rec['kind'] == 'vmacro':
        r = vf.pmap(value_macro_sweep, [rec['cfg']], nproc=1)[0]
        return r[1] if not isinstance(r, dict) else str(r)[-300:]
    if rec['kind'] == 'sweep':
        return replay_sweep(rec)
    if rec['kind'] == 'ring':
        return CR.replay_ring(rec)
    if rec.get('expect') == 'crash':
        # run in a child: the case crashes or hangs
        res = vf.pmap(CC.replay_call, [rec], nproc=1, case_timeout=8)[0]
        if isinstance(res, dict) and 'crash' in res:
            return '%s%s %s: %s' % (rec['fn'], rec['ed'], rec['in'], 'does not return' if res['crash'] == 'timeout' else 'crashes: ' + res['crash'])
        return res
    return CC.replay_call(rec)
