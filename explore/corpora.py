"""the octet-string level corpora shared by C07 (sanitised exact-size replay), C09, C15, C19"""
import importlib

MODULES = ['cat_belt', 'cat_misc', 'cat_core', 'cat_bign', 'cat_bake', 'cat_bels', 'cat_sig', 'cat_tok', 'cat_codec', 'cat_util']

def all_cases(tier, groups=None):
    import os
    out = []
    mods = os.environ.get('VERIF_CORPORA')       # development aid: restrict the corpora to some modules
    for m in (mods.split(',') if mods else MODULES):
        try:
            mod = importlib.import_module(m)
        except ModuleNotFoundError as e:
            if e.name != m:
                raise
            continue
        cs = mod.gen_cases(tier)
        out += cs
    if groups:
        import cat
        out = [c for c in out if cat.CAT[c[0]].group in groups]
    return out

def load_all():
    """import every catalogue module (registers the entries in cat.CAT) without generating cases: needed by replay"""
    for m in MODULES:
        try:
            importlib.import_module(m)
        except ModuleNotFoundError as e:
            if e.name != m:
                raise
