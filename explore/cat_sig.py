"""bign96 / g12s (GOST R 34.10) / dstu 4145 / pfok part of the catalogue (references: ref/bign.py, g12s.py, dstu.py, pfok.py).

Long-term parameters are plain C structs: they travel as octet strings ('in','params'), built here from the
reference's integers (enc_*) and decoded back for the reference predicates (dec_*).  Generators are tapes
(('gen','rng')); the reference replays the library's rejection sampling on the same tape (TapeSim also models the
filler stream that vh_tape_gen continues with after the tape).

Reference results are memoised (in the process and, because the binary-field reference is slow, in
/verif/build/cat_sig_cache/): the cache is keyed by the sources of the reference models and of this file and by
VERIF_SEED, it only stores what the references computed and is never consulted for anything the library returned."""
import ctypes, hashlib, json, os, pickle, struct, sys
import vf, cat
from cat import Fn, reg
from cat_belt import Composite
import ecp, belt
import bign as RB, g12s as RG, dstu as RD, pfok as RP

E = dict(OK=0, BAD_INPUT=109, FILE_NOT_FOUND=202, BAD_OID=301, BAD_RNG=304, BAD_POINT=401, BAD_PARAMS=502,
         BAD_PRIVKEY=504, BAD_PUBKEY=505, BAD_SIG=510)

# ------------------------------------------------------------------------------------------ tape model
def filler_stream(n, start=0):
    """the octets vh_tape_gen produces after the tape is exhausted"""
    return bytes((0x5A ^ ((start + i) * 0x9D)) & 0xFF for i in range(n))

class TapeSim:
    """reader with the semantics of vh_tape_gen: the tape, then the fixed filler stream"""
    def __init__(self, data):
        self.data, self.pos, self.over = bytes(data or b''), 0, 0
    def read(self, n):
        a = self.data[self.pos:self.pos + n]
        self.pos += len(a)
        k = n - len(a)
        if k:
            a += filler_stream(k, self.over); self.over += k
        return a
    def used(self):
        return {'rng_used': self.pos, 'rng_over': self.over}

def le(x, n):
    return int(x).to_bytes(n, 'little')
def be(x, n):
    return int(x).to_bytes(n, 'big')
def i_le(b):
    return int.from_bytes(bytes(b), 'little')

# ------------------------------------------------------------------------------------------ memo / disk cache
_CACHE_DIR = os.path.join(vf.VERIF, 'build', 'cat_sig_cache')
_mem = {}
_dirty = False
_cache_key = None
_loaded = False

def _key():
    global _cache_key
    if _cache_key is None:
        h = hashlib.sha256(('seed=%d;' % vf.SEED).encode())
        here = os.path.dirname(os.path.abspath(__file__))
        for p in [os.path.join(vf.VERIF, 'ref', f) for f in ('bign.py', 'g12s.py', 'dstu.py', 'pfok.py', 'ecp.py', 'polys.py', 'pri.py', 'belt.py')] + \
                 [os.path.join(here, 'cat_sig.py')]:
            h.update(open(p, 'rb').read())
        for f in ('g12s.json', 'dstu.json', 'pfok.json'):
            h.update(open(os.path.join(vf.VERIF, 'ref', 'vectors', f), 'rb').read())
        _cache_key = h.hexdigest()[:20]
    return _cache_key

def _load():
    global _loaded
    if _loaded:
        return
    _loaded = True
    try:
        with open(os.path.join(_CACHE_DIR, _key() + '.pkl'), 'rb') as f:
            d = pickle.load(f)
        if isinstance(d, dict):
            for k, v in d.items():
                _mem.setdefault(k, v)
    except Exception:
        pass

def save_cache():
    global _dirty
    if not _dirty:
        return
    try:
        os.makedirs(_CACHE_DIR, exist_ok=True)
        old = {}
        p = os.path.join(_CACHE_DIR, _key() + '.pkl')
        try:
            with open(p, 'rb') as f:
                old = pickle.load(f)
        except Exception:
            old = {}
        old.update(_mem)
        tmp = p + '.%d.tmp' % os.getpid()
        with open(tmp, 'wb') as f:
            pickle.dump(old, f, protocol=4)
        os.replace(tmp, p)
        for f in os.listdir(_CACHE_DIR):          # drop caches of other source versions
            if f.endswith('.pkl') and f != _key() + '.pkl':
                try: os.unlink(os.path.join(_CACHE_DIR, f))
                except OSError: pass
        _dirty = False
    except Exception:
        pass

def memo(tag, fn):
    """tag: hashable description of a pure reference computation"""
    global _dirty
    _load()
    if tag in _mem:
        return _mem[tag]
    v = fn()
    _mem[tag] = v
    _dirty = True
    return v

def _case_tag(fname, case):
    return 'ref:' + fname + ':' + hashlib.sha256(json.dumps(cat.enc_case(case), sort_keys=True).encode()).hexdigest()[:24]

NONZERO = 'any-error'           # picklable stand-in for "any return value but ERR_OK"
def _post(r):
    if isinstance(r, dict) and r.get('ret') == NONZERO:
        r = dict(r); r['ret'] = _nonzero
    return r
def _nonzero(ret):
    return ret != 0

def cached_ref(fname, f):
    def ref(c):
        return _post(memo(_case_tag(fname, c), lambda: f(c)))
    ref.raw = f
    return ref

# ==================================================================================================== bign96
B96 = ecp.params_by_level(96)
B96_NAME = '1.2.112.0.2.0.34.101.45.3.0'
OID = RB.oid_to_der('1.2.112.0.2.0.34.101.31.81')
B96_SIZE = 8 + 5 * 64 + 8

def b96_enc(ps=None, l=96):
    ps = ps or B96
    b = bytearray(B96_SIZE)
    struct.pack_into('<Q', b, 0, l)
    for i, f in enumerate(('p', 'a', 'b', 'q', 'yG')):
        b[8 + 64 * i:8 + 64 * i + 24] = le(ps[f], 24)
    b[328:336] = bytes(ps['seed'])
    return bytes(b)

def b96_dec(b):
    ps = {'l': struct.unpack_from('<Q', b, 0)[0], 'xG': 0}
    for i, f in enumerate(('p', 'a', 'b', 'q', 'yG')):
        ps[f] = i_le(b[8 + 64 * i:8 + 64 * i + 24])
    ps['seed'] = bytes(b[328:336])
    return ps

B96_STD = b96_enc()
_B96_FIELDS = ('l', 'p', 'a', 'b', 'q', 'yG', 'seed')

def _b96_pre(c):
    """None when params are the standard ones; an expected-result dict / 'nonstd' otherwise"""
    ps = b96_dec(c['params'])
    if ps['l'] != 96:
        return {'ret': E['BAD_PARAMS']}
    if any(ps[f] != B96[f] for f in _B96_FIELDS[1:]):
        return 'nonstd'
    return None

def _b96_tape(c, name='rng'):
    t = bytes(c.get(name) or b'')
    return t, t + filler_stream(66 * 24)

def _b96_used(t, pos):
    return {'rng_used': min(pos, len(t)), 'rng_over': max(0, pos - len(t))}

def _impl_b96_paramsstd(lib, c, A, fill):
    p = A.buf(B96_SIZE, fill)
    r = lib.err('bign96ParamsStd', p, A.buf(c['name'].encode('latin1') + b'\0'))
    res = {'ret': r}
    if r == 0:
        d = b96_dec(p.get())
        for f in _B96_FIELDS:
            res[f] = d[f]
    return res
def _b96_paramsstd_ref(c):
    if c['name'] != B96_NAME:
        return {'ret': E['FILE_NOT_FOUND']}
    return dict({'ret': 0}, **{f: B96[f] for f in _B96_FIELDS})
reg(Composite('bign96ParamsStd', _impl_b96_paramsstd, _b96_paramsstd_ref, group='sig'))

def _b96_paramsval_ref(c):
    ps = b96_dec(c['params'])
    if ps['l'] != 96:
        return {'ret': E['BAD_PARAMS']}
    return {'ret': 0 if ecp.validate_params(ps, belt_hash=belt.hash, mov=50) == [] else E['BAD_PARAMS']}
reg(Fn('bign96ParamsVal', [('in', 'params')], cached_ref('bign96ParamsVal', _b96_paramsval_ref), group='sig'))

def _b96_keypairgen_ref(c):
    pre = _b96_pre(c)
    if pre is not None:
        return None if pre == 'nonstd' else pre
    t, ext = _b96_tape(c)
    try:
        d, Q, pos = RB.bign96_keypair_gen(ext)
    except RB.BignError as e:
        return {'ret': E[e.code]}
    return dict({'ret': 0, 'privkey': le(d, 24), 'pubkey': RB.enc_point(96, Q)}, **_b96_used(t, pos))
reg(Fn('bign96KeypairGen', [('out', 'privkey', 24), ('out', 'pubkey', 48), ('in', 'params'), ('gen', 'rng')],
       cached_ref('bign96KeypairGen', _b96_keypairgen_ref), group='sig', secrets=('secret_d',)))
cat.CAT['bign96KeypairGen'].derived = lambda c, res: [('privkey (output)', res.get('privkey', b''))]

_VAL = {'OK': 0, 'BAD_PRIVKEY': E['BAD_PRIVKEY'], 'BAD_PUBKEY': E['BAD_PUBKEY'], 'BAD_OID': E['BAD_OID'], 'BAD_SIG': E['BAD_SIG'],
        'BAD_INPUT': E['BAD_INPUT']}
def _b96_keypairval_ref(c):
    pre = _b96_pre(c)
    if pre is not None:
        return None if pre == 'nonstd' else pre
    return {'ret': _VAL[RB.keypair_val(96, c['privkey'], c['pubkey'])]}
reg(Fn('bign96KeypairVal', [('in', 'params'), ('in', 'privkey'), ('in', 'pubkey')], cached_ref('bign96KeypairVal', _b96_keypairval_ref),
       group='sig', secrets=('privkey',)))

def _b96_pubkeyval_ref(c):
    pre = _b96_pre(c)
    if pre is not None:
        return None if pre == 'nonstd' else pre
    return {'ret': 0 if RB.pubkey_is_valid(96, c['pubkey']) else E['BAD_PUBKEY']}
reg(Fn('bign96PubkeyVal', [('in', 'params'), ('in', 'pubkey')], _b96_pubkeyval_ref, group='sig'))

def _b96_pubkeycalc_ref(c):
    pre = _b96_pre(c)
    if pre is not None:
        return None if pre == 'nonstd' else pre
    try:
        return {'ret': 0, 'pubkey': RB.enc_point(96, RB.pubkey_calc(96, c['privkey']))}
    except RB.BignError as e:
        return {'ret': E[e.code]}
reg(Fn('bign96PubkeyCalc', [('out', 'pubkey', 48), ('in', 'params'), ('in', 'privkey')], cached_ref('bign96PubkeyCalc', _b96_pubkeycalc_ref),
       group='sig', secrets=('privkey',)))

def _b96_sign_ref(c):
    pre = _b96_pre(c)
    if pre is not None:
        return None if pre == 'nonstd' else pre
    t, ext = _b96_tape(c)
    try:
        sig = RB.bign96_sign(c['oid'], c['hash'], c['privkey'], ext)
    except RB.BignError as e:
        return {'ret': E[e.code]}
    return dict({'ret': 0, 'sig': sig}, **_b96_used(t, RB.last_consumed))
reg(Fn('bign96Sign', [('out', 'sig', 34), ('in', 'params'), ('in', 'oid'), ('len', 'oid'), ('in', 'hash'), ('in', 'privkey'), ('gen', 'rng')],
       cached_ref('bign96Sign', _b96_sign_ref), group='sig', secrets=('privkey', 'secret_k')))

def _b96_sign2_ref(c):
    pre = _b96_pre(c)
    if pre is not None:
        return None if pre == 'nonstd' else pre
    try:
        return {'ret': 0, 'sig': RB.bign96_sign2(c['oid'], c['hash'], c['privkey'], c.get('t'))}
    except RB.BignError as e:
        return {'ret': E[e.code]}
reg(Fn('bign96Sign2', [('out', 'sig', 34), ('in', 'params'), ('in', 'oid'), ('len', 'oid'), ('in', 'hash'), ('in', 'privkey'), ('in', 't'), ('len', 't')],
       cached_ref('bign96Sign2', _b96_sign2_ref), group='sig', secrets=('privkey',)))

def _b96_verify_ref(c):
    pre = _b96_pre(c)
    if pre is not None:
        return None if pre == 'nonstd' else pre
    v = RB.bign96_verify_ex(c['oid'], c['hash'], c['sig'], c['pubkey'])
    # the property is acceptance; which error code a rejected (signature, key) pair gets is not asserted, except for the OID
    return {'ret': 0} if v == 'OK' else {'ret': E['BAD_OID']} if v == 'BAD_OID' else {'ret': NONZERO}
reg(Fn('bign96Verify', [('in', 'params'), ('in', 'oid'), ('len', 'oid'), ('in', 'hash'), ('in', 'sig'), ('in', 'pubkey')],
       cached_ref('bign96Verify', _b96_verify_ref), group='sig'))

# ==================================================================================================== g12s
G12_SIZE = 4 + 3 * 68 + 64 + 4 + 2 * 68
_G12_OFF = dict(l=0, p=4, a=72, b=140, q=208, n=272, xP=276, yP=344)

def g12_enc(P):
    b = bytearray(G12_SIZE)
    struct.pack_into('<I', b, 0, P['l'])
    for f in ('p', 'a', 'b', 'xP', 'yP'):
        b[_G12_OFF[f]:_G12_OFF[f] + 68] = le(P[f], 68)
    b[208:272] = le(P['q'], 64)
    struct.pack_into('<I', b, 272, P['n'])
    return bytes(b)

def g12_dec(b):
    P = {'l': struct.unpack_from('<I', b, 0)[0], 'n': struct.unpack_from('<I', b, 272)[0]}
    half = P['l'] == 256
    # g12s.h: with l == 256 only the first half of p and q is used; a, b, xP, yP use no = octet length of p
    pl = 34 if half else 68
    P['p'] = i_le(b[4:4 + pl])
    no = (P['p'].bit_length() + 7) // 8
    for f in ('a', 'b', 'xP', 'yP'):
        P[f] = i_le(b[_G12_OFF[f]:_G12_OFF[f] + no])
    P['q'] = i_le(b[208:208 + (32 if half else 64)])
    return P

def g12_std(name):
    return RG.params_std(name)

def _g12_ok(P):
    return P['l'] in (256, 512)

def g12_sizes(c):
    P = g12_dec(c['params'])
    if not _g12_ok(P):
        return 64, 68
    return P['l'] // 8, max(1, (P['p'].bit_length() + 7) // 8)

def _g12_paramsstd_ref(c):
    if c['name'] not in RG.STD_NAMES:
        return {'ret': E['FILE_NOT_FOUND'], '_check_outs_on_error': True, 'params': bytes(G12_SIZE)}
    return {'ret': 0, 'params': g12_enc(g12_std(c['name']))}
reg(Fn('g12sParamsStd', [('out', 'params', G12_SIZE), ('str', 'name')], _g12_paramsstd_ref, group='sig'))

def _g12_paramsval_ref(c):
    P = g12_dec(c['params'])
    return {'ret': 0 if RG.params_val(P) else E['BAD_PARAMS']}
reg(Fn('g12sParamsVal', [('in', 'params')], cached_ref('g12sParamsVal', _g12_paramsval_ref), group='sig'))

def _g12_keypairgen_ref(c):
    P = g12_dec(c['params'])
    if not _g12_ok(P):
        return {'ret': E['BAD_PARAMS']}
    t = TapeSim(c.get('rng'))
    try:
        d = RG.rand_nz_mod(P['q'], t)
    except ValueError:
        return {'ret': E['BAD_RNG']}
    priv, pub = RG.keypair(P, d)
    return dict({'ret': 0, 'privkey': priv, 'pubkey': pub}, **t.used())
reg(Fn('g12sKeypairGen', [('out', 'privkey', lambda c: g12_sizes(c)[0]), ('out', 'pubkey', lambda c: 2 * g12_sizes(c)[1]), ('in', 'params'), ('gen', 'rng')],
       cached_ref('g12sKeypairGen', _g12_keypairgen_ref), group='sig', secrets=('secret_d',)))
cat.CAT['g12sKeypairGen'].derived = lambda c, res: [('privkey (output)', res.get('privkey', b''))]

def _g12_sign_ref(c):
    P = g12_dec(c['params'])
    if not _g12_ok(P):
        return {'ret': E['BAD_PARAMS']}
    t = TapeSim(c.get('rng'))
    try:
        sig = RG.sign_tape(P, c['hash'], c['privkey'], t)
    except ValueError as e:
        return {'ret': E.get(str(e), E['BAD_INPUT'])}
    return dict({'ret': 0, 'sig': sig}, **t.used())
reg(Fn('g12sSign', [('out', 'sig', lambda c: 2 * g12_sizes(c)[0]), ('in', 'params'), ('in', 'hash'), ('in', 'privkey'), ('gen', 'rng')],
       cached_ref('g12sSign', _g12_sign_ref), group='sig', secrets=('privkey', 'secret_k')))

def g12_verify_ok(P, h, sig, pub):
    return RG.verify(P, h, sig, pub)

def _g12_verify_ref(c):
    P = g12_dec(c['params'])
    if not _g12_ok(P):
        return {'ret': E['BAD_PARAMS']}
    ok = g12_verify_ok(P, c['hash'], c['sig'], c['pubkey'])
    return {'ret': 0} if ok else {'ret': NONZERO}
reg(Fn('g12sVerify', [('in', 'params'), ('in', 'hash'), ('in', 'sig'), ('in', 'pubkey')], cached_ref('g12sVerify', _g12_verify_ref), group='sig'))

# ==================================================================================================== dstu
DSTU_SIZE = 272
_D_OFF = dict(p=0, A=8, B=9, n=73, c=140, P=144)

def dstu_enc(P):
    m = P['p'][0]
    no = (m + 7) // 8
    b = bytearray(DSTU_SIZE)
    struct.pack_into('<4H', b, 0, *P['p'])
    b[8] = P['A']
    b[9:9 + 64] = le(P['B'], 64)
    b[73:73 + 64] = le(P['n'], 64)
    struct.pack_into('<I', b, 140, P['c'])
    if P.get('P') and 0 < no <= 64 and not (P['P'][0] >> (8 * no) or P['P'][1] >> (8 * no)):
        b[144:144 + no] = le(P['P'][0], no)
        b[144 + no:144 + 2 * no] = le(P['P'][1], no)
    return bytes(b)

def dstu_dec(b):
    p = struct.unpack_from('<4H', b, 0)
    m = p[0]
    no = (m + 7) // 8 if 0 < m <= 512 else 64
    P = {'p': tuple(p), 'A': b[8], 'B': i_le(b[9:9 + no]), 'n': i_le(b[73:73 + no]), 'c': struct.unpack_from('<I', b, 140)[0]}
    P['P'] = (i_le(b[144:144 + no]), i_le(b[144 + no:144 + 2 * no]))
    return P

_field_ok = {}
def _dstu_operable(P):
    """what dstuEcCreate needs to go on: field description and A (the reference's own field test)"""
    if not (160 <= P['p'][0] <= 509 and P['A'] in (0, 1) and 0 < P['n']):
        return False
    if P['p'] not in _field_ok:
        _field_ok[P['p']] = RD.field_ok(P)
    return _field_ok[P['p']]

def dstu_sizes(c):
    """(no, order_no) ; harmless defaults for inoperable parameters"""
    P = dstu_dec(c['params'])
    m = P['p'][0]
    if not (160 <= m <= 509):
        return 64, 64
    return (m + 7) // 8, max(1, (P['n'].bit_length() + 7) // 8)

def dstu_base_tape(i):
    P = RD.params_std(RD.STD_NAMES[i])
    return vf.filler('dstu-base-%d' % i, ((P['p'][0] + 7) // 8) * 96)

def dstu_std(i, with_base=True):
    """reference parameters of the i-th standard curve; the base point is generated as dstu.h prescribes
    (section 6.8 on a filler tape), except for the first curve whose table entry has one"""
    P = RD.params_std(RD.STD_NAMES[i])
    if P['P'] is None and with_base:
        P['P'] = memo('dstu-base:%d' % i, lambda: RD.point_gen(dict(P), dstu_base_tape(i)))
    return P

def _dstu_paramsstd_ref(c):
    if c['name'] not in RD.STD_NAMES:
        return {'ret': E['FILE_NOT_FOUND'], '_check_outs_on_error': True, 'params': bytes(DSTU_SIZE)}
    return {'ret': 0, 'params': dstu_enc(RD.params_std(c['name']))}
reg(Fn('dstuParamsStd', [('out', 'params', DSTU_SIZE), ('str', 'name')], _dstu_paramsstd_ref, group='sig'))

def _dstu_paramsval_ref(c):
    P = dstu_dec(c['params'])
    return {'ret': 0 if RD.params_val(P, check_point=True) else E['BAD_PARAMS']}
reg(Fn('dstuParamsVal', [('in', 'params')], cached_ref('dstuParamsVal', _dstu_paramsval_ref), group='sig'))

def _dstu_pointgen_ref(c):
    P = dstu_dec(c['params'])
    if not _dstu_operable(P):
        return {'ret': E['BAD_PARAMS']}
    t = TapeSim(c.get('rng'))
    pt = RD.point_gen(P, t)
    return dict({'ret': 0, 'point': RD.encode_point(P, pt)}, **t.used())
reg(Fn('dstuPointGen', [('out', 'point', lambda c: 2 * dstu_sizes(c)[0]), ('in', 'params'), ('gen', 'rng')],
       cached_ref('dstuPointGen', _dstu_pointgen_ref), group='sig'))

def _dstu_pointval_ref(c):
    P = dstu_dec(c['params'])
    if not _dstu_operable(P):
        return {'ret': E['BAD_PARAMS']}
    return {'ret': 0 if RD.point_val(P, RD.decode_point(P, c['point'])) else E['BAD_POINT']}
reg(Fn('dstuPointVal', [('in', 'params'), ('in', 'point')], cached_ref('dstuPointVal', _dstu_pointval_ref), group='sig'))

def _dstu_compress_ref(c):
    P = dstu_dec(c['params'])
    if not _dstu_operable(P):
        return {'ret': E['BAD_PARAMS']}
    no = dstu_sizes(c)[0]
    try:
        return {'ret': 0, 'xpoint': le(RD.compress(P, RD.decode_point(P, c['point'])), no)}
    except ValueError:
        return {'ret': E['BAD_POINT']}
reg(Fn('dstuPointCompress', [('out', 'xpoint', lambda c: dstu_sizes(c)[0]), ('in', 'params'), ('in', 'point')],
       cached_ref('dstuPointCompress', _dstu_compress_ref), group='sig', overlap=dict(dest='xpoint', src='point', aux=[])))

def _dstu_recover_ref(c):
    P = dstu_dec(c['params'])
    if not _dstu_operable(P):
        return {'ret': E['BAD_PARAMS']}
    try:
        return {'ret': 0, 'point': RD.encode_point(P, RD.recover(P, i_le(c['xpoint'])))}
    except ValueError:
        return {'ret': NONZERO}
reg(Fn('dstuPointRecover', [('out', 'point', lambda c: 2 * dstu_sizes(c)[0]), ('in', 'params'), ('in', 'xpoint')],
       cached_ref('dstuPointRecover', _dstu_recover_ref), group='sig', overlap=dict(dest='point', src='xpoint', aux=[])))

def _dstu_keypairgen_ref(c):
    P = dstu_dec(c['params'])
    if not _dstu_operable(P):
        return {'ret': E['BAD_PARAMS']}
    t = TapeSim(c.get('rng'))
    priv, pub = RD.keypair_tape(P, t)
    return dict({'ret': 0, 'privkey': priv, 'pubkey': pub}, **t.used())
reg(Fn('dstuKeypairGen', [('out', 'privkey', lambda c: dstu_sizes(c)[1]), ('out', 'pubkey', lambda c: 2 * dstu_sizes(c)[0]), ('in', 'params'), ('gen', 'rng')],
       cached_ref('dstuKeypairGen', _dstu_keypairgen_ref), group='sig', secrets=('secret_d',)))
cat.CAT['dstuKeypairGen'].derived = lambda c, res: [('privkey (output)', res.get('privkey', b''))]

def _dstu_sign_ref(c):
    P = dstu_dec(c['params'])
    if not _dstu_operable(P):
        return {'ret': E['BAD_PARAMS']}
    t = TapeSim(c.get('rng'))
    try:
        sig = RD.sign_tape(P, c['ld'], c['hash'] or b'', c['privkey'], t)
    except ValueError as e:
        return {'ret': E.get(str(e), E['BAD_INPUT'])}
    return dict({'ret': 0, 'sig': sig}, **t.used())
reg(Fn('dstuSign', [('out', 'sig', lambda c: (c['ld'] + 7) // 8), ('in', 'params'), ('val', 'ld'), ('in', 'hash'), ('len', 'hash'), ('in', 'privkey'), ('gen', 'rng')],
       cached_ref('dstuSign', _dstu_sign_ref), group='sig', secrets=('privkey', 'secret_k')))

def _dstu_verify_ref(c):
    P = dstu_dec(c['params'])
    if not _dstu_operable(P):
        return {'ret': E['BAD_PARAMS']}
    try:
        ok = RD.verify(P, c['ld'], c['hash'] or b'', c['sig'], c['pubkey'])
    except ValueError:
        return {'ret': E['BAD_INPUT']}
    return {'ret': 0} if ok else {'ret': NONZERO}
reg(Fn('dstuVerify', [('in', 'params'), ('val', 'ld'), ('in', 'hash'), ('len', 'hash'), ('in', 'sig'), ('in', 'pubkey')],
       cached_ref('dstuVerify', _dstu_verify_ref), group='sig'))

# ==================================================================================================== pfok
PFOK_SIZE = 24 + 2 * 368
PFOK_SEED_SIZE = 8 + 64 + 160            # size_t l; u16 zi[31] (+2 padding); size_t li[20]

def pfok_enc(P):
    b = bytearray(PFOK_SIZE)
    struct.pack_into('<3Q', b, 0, P['l'], P['r'], P['n'])
    b[24:24 + 368] = le(P['p'], 368)
    b[392:392 + 368] = le(P['g'], 368)
    return bytes(b)

def pfok_dec(b):
    l, r, n = struct.unpack_from('<3Q', b, 0)
    return {'l': l, 'r': r, 'n': n, 'p': i_le(b[24:392]), 'g': i_le(b[392:760])}

def pfok_seed_enc(S):
    b = bytearray(PFOK_SEED_SIZE)
    struct.pack_into('<Q', b, 0, S['l'])
    struct.pack_into('<31H', b, 8, *S['zi'])
    struct.pack_into('<20Q', b, 72, *S['li'])
    return bytes(b)

def _pfok_operable(P):
    """pfok.c documents what the high-level functions check themselves (l, r from table 5.1, n < l, p of l bits,
    p = 3 mod 4, 0 < g < p)"""
    return P['l'] in RP.LS and RP.RS[RP.LS.index(P['l'])] == P['r'] and P['n'] < P['l'] and P['p'].bit_length() == P['l'] \
        and P['p'] % 4 == 3 and 0 < P['g'] < P['p']

def pfok_sizes(c):
    P = pfok_dec(c['params'])
    if not _pfok_operable(P):
        return 33, 368, 368
    return (P['r'] + 7) // 8, (P['l'] + 7) // 8, (P['n'] + 7) // 8

def _pfok_paramsstd_ref(c):
    if c['name'] not in RP.STD_NAMES:
        return {'ret': E['FILE_NOT_FOUND'], '_check_outs_on_error': True, 'params': bytes(PFOK_SIZE), 'seed': bytes(PFOK_SEED_SIZE)}
    return {'ret': 0, 'params': pfok_enc(RP.params_std(c['name'])), 'seed': pfok_seed_enc(RP.seed_std(c['name']))}
reg(Fn('pfokParamsStd', [('out', 'params', PFOK_SIZE), ('out', 'seed', PFOK_SEED_SIZE), ('str', 'name')], _pfok_paramsstd_ref, group='sig')).nullable = ('seed',)   # pfok.h: seed may be NULL

def _pfok_paramsval_ref(c):
    return {'ret': 0 if RP.params_val(pfok_dec(c['params'])) else E['BAD_PARAMS']}
reg(Fn('pfokParamsVal', [('in', 'params')], cached_ref('pfokParamsVal', _pfok_paramsval_ref), group='sig'))

def _pfok_keypairgen_ref(c):
    P = pfok_dec(c['params'])
    if not _pfok_operable(P):
        return {'ret': E['BAD_PARAMS']}
    t = TapeSim(c.get('rng'))
    priv, pub = RP.keypair_tape(P, t)
    return dict({'ret': 0, 'privkey': priv, 'pubkey': pub}, **t.used())
reg(Fn('pfokKeypairGen', [('out', 'privkey', lambda c: pfok_sizes(c)[0]), ('out', 'pubkey', lambda c: pfok_sizes(c)[1]), ('in', 'params'), ('gen', 'rng')],
       _pfok_keypairgen_ref, group='sig', secrets=('secret_d',)))
cat.CAT['pfokKeypairGen'].derived = lambda c, res: [('privkey (output)', res.get('privkey', b''))]

def _pfok_pubkeyval_ref(c):
    P = pfok_dec(c['params'])
    if not _pfok_operable(P):
        return {'ret': E['BAD_PARAMS']}
    return {'ret': 0 if RP.pubkey_val(P, i_le(c['pubkey'])) else E['BAD_PUBKEY']}
reg(Fn('pfokPubkeyVal', [('in', 'params'), ('in', 'pubkey')], _pfok_pubkeyval_ref, group='sig'))

def _pfok_err(e):
    return {'ret': E.get(str(e), E['BAD_INPUT'])}

def _pfok_pubkeycalc_ref(c):
    P = pfok_dec(c['params'])
    if not _pfok_operable(P):
        return {'ret': E['BAD_PARAMS']}
    try:
        return {'ret': 0, 'pubkey': le(RP.pubkey_calc(P, i_le(c['privkey'])), pfok_sizes(c)[1])}
    except ValueError as e:
        return _pfok_err(e)
reg(Fn('pfokPubkeyCalc', [('out', 'pubkey', lambda c: pfok_sizes(c)[1]), ('in', 'params'), ('in', 'privkey')], _pfok_pubkeycalc_ref,
       group='sig', secrets=('privkey',)))

def _pfok_dh_ref(c):
    P = pfok_dec(c['params'])
    if not _pfok_operable(P):
        return {'ret': E['BAD_PARAMS']}
    try:
        return {'ret': 0, 'sharekey': RP.dh_octets(P, c['privkey'], c['pubkey'])}
    except ValueError as e:
        return _pfok_err(e)
reg(Fn('pfokDH', [('out', 'sharekey', lambda c: pfok_sizes(c)[2]), ('in', 'params'), ('in', 'privkey'), ('in', 'pubkey')], _pfok_dh_ref,
       group='sig', secrets=('privkey',)))
cat.CAT['pfokDH'].derived = lambda c, res: [('sharekey (output)', res.get('sharekey', b''))]

def _pfok_mti_ref(c):
    P = pfok_dec(c['params'])
    if not _pfok_operable(P):
        return {'ret': E['BAD_PARAMS']}
    try:
        return {'ret': 0, 'sharekey': RP.mti_octets(P, c['privkey'], c['privkey1'], c['pubkey'], c['pubkey1'])}
    except ValueError as e:
        return _pfok_err(e)
reg(Fn('pfokMTI', [('out', 'sharekey', lambda c: pfok_sizes(c)[2]), ('in', 'params'), ('in', 'privkey'), ('in', 'privkey1'), ('in', 'pubkey'), ('in', 'pubkey1')],
       _pfok_mti_ref, group='sig', secrets=('privkey', 'privkey1')))
cat.CAT['pfokMTI'].derived = lambda c, res: [('sharekey (output)', res.get('sharekey', b''))]

# ==================================================================================================== alphabets
def in_range(x, q):
    """map a filler value into {1..q-1}"""
    return 1 + x % (q - 1)

def d_alphabet(q, tag):
    """private keys: 1, 2, q-2, q-1, filler"""
    return [('1', 1), ('2', 2), ('q-2', q - 2), ('q-1', q - 1), ('filler', in_range(i_le(vf.filler('d/' + tag, 80)), q))]

def hash_values(q, nbytes, tag):
    """hash values as integers: 0, 1, all-ones, q, q+1, filler (filler reduced to nbytes octets)"""
    top = (1 << (8 * nbytes)) - 1
    return [('0', 0), ('1', 1), ('ones', top), ('q', q & top), ('q+1', (q + 1) & top), ('filler', i_le(vf.filler('h/' + tag, nbytes)))]

def tapes_mod(q, no, tag, trimbits=None):
    """generator tapes for 'u <-R {1..q-1}' by rejection sampling of no-octet little-endian candidates (trimmed to trimbits):
    [v], [0,v], [q,v], [value in [q,2^bits),v], 64 rejections then v.  -> [(label, tape)]"""
    bits = trimbits or 8 * no
    v = in_range(i_le(vf.filler('tape/' + tag, no + 8)), q)
    V = le(v, no)
    top = (1 << bits) - 1
    out = [('v', V), ('0,v', bytes(no) + V), ('q,v', le(q, no) + V)]
    if q + 1 <= top:
        out.append(('q+1,v', le(q + 1, no) + V))
    if top > q + 1:
        out.append(('max,v', le(top, no) + V))
    if bits < 8 * no:                  # untrimmed octets: the bits above the modulus length are cut off
        out.append(('v|hi', le(v | (((1 << (8 * no)) - 1) ^ top), no)))
    out.append(('64rej,v', (le(q, no) + bytes(no)) * 32 + V))
    return out

# ==================================================================================================== case generation
# level of detail per parameter set: 2 = all rows of the alphabets, 1 = boundary rows, 0 = a few rows
def _b96_cases(tier):
    out = []
    q, p = B96['q'], B96['p']
    par = B96_STD
    th = tier == 'thorough'
    out.append(('bign96ParamsStd', dict(name=B96_NAME)))
    out.append(('bign96ParamsStd', dict(name='1.2.112.0.2.0.34.101.45.3.1')))
    out.append(('bign96ParamsVal', dict(params=par)))
    out.append(('bign96ParamsVal', dict(params=b96_enc(l=128))))
    for f, delta in (('b', 1), ('q', 2), ('yG', 1), ('a', 1)):
        ps = dict(B96); ps[f] = ps[f] ^ delta if f != 'q' else ps[f] + delta
        out.append(('bign96ParamsVal', dict(params=b96_enc(ps))))
    D = d_alphabet(q, 'bign96')
    H = hash_values(q, 24, 'bign96')
    pub = {}
    for lbl, d in D:
        pub[lbl] = memo('b96pub:%d' % d, lambda: RB.enc_point(96, RB.pubkey_calc(96, d)))
    # key generation: candidates are compared with the GROUP ORDER q; [q,p) is not empty for this curve (q < p)
    tapes = tapes_mod(q, 24, 'bign96')
    tapes += [('p-1,v', le(p - 1, 24) + tapes[0][1]), ('p,v', le(p, 24) + tapes[0][1])]
    for lbl, t in tapes:
        sd = le(RB.rand_nz(96, t + filler_stream(24 * 66))[0] or 0, 24)
        out.append(('bign96KeypairGen', dict(params=par, rng=t, secret_d=sd)))
    for lbl, d in D:
        out.append(('bign96KeypairVal', dict(params=par, privkey=le(d, 24), pubkey=pub[lbl])))
        out.append(('bign96KeypairVal', dict(params=par, privkey=le(d, 24), pubkey=pub['filler' if lbl != 'filler' else '1'])))
        out.append(('bign96PubkeyVal', dict(params=par, pubkey=pub[lbl])))
        out.append(('bign96PubkeyCalc', dict(params=par, privkey=le(d, 24))))
        w = bytearray(pub[lbl]); w[0] ^= 1
        out.append(('bign96PubkeyVal', dict(params=par, pubkey=bytes(w))))
    for bad in (0, q, q + 1, (1 << 192) - 1):
        out.append(('bign96KeypairVal', dict(params=par, privkey=le(bad, 24), pubkey=pub['1'])))
    for x in (p, (1 << 192) - 1):
        out.append(('bign96PubkeyVal', dict(params=par, pubkey=le(x, 24) + pub['1'][24:])))
        out.append(('bign96PubkeyVal', dict(params=par, pubkey=pub['1'][:24] + le(x, 24))))
    # signatures
    for dl, d in D:
        for hl, h in H:
            hb = le(h, 24)
            tt = tapes if (th and dl in ('1', 'filler')) else tapes[:3] if dl in ('1', 'filler') else tapes[:1]
            for tl, t in tt:
                k = RB.rand_nz(96, t + filler_stream(24 * 66))[0]
                out.append(('bign96Sign', dict(params=par, oid=OID, hash=hb, privkey=le(d, 24), rng=t, secret_k=le(k, 24))))
            for tt2 in ((None, b'', vf.filler('b96t', 11)) if (hl == 'filler' or (th and hl == '0')) else (None,)):
                out.append(('bign96Sign2', dict(params=par, oid=OID, hash=hb, privkey=le(d, 24), t=tt2)))
            k = RB.rand_nz(96, tapes[0][1])[0]
            sig = memo('b96sig:%d:%d:%d' % (d, h, k), lambda: RB.bign96_sign_k(OID, hb, d, k))
            out.append(('bign96Verify', dict(params=par, oid=OID, hash=hb, sig=sig, pubkey=pub[dl])))
            if hl in ('0', 'q+1') and (th or dl in ('1', 'q-1')):
                for pos in (0, 9, 10, 33):
                    w = bytearray(sig); w[pos] ^= 0x80
                    out.append(('bign96Verify', dict(params=par, oid=OID, hash=hb, sig=bytes(w), pubkey=pub[dl])))
                out.append(('bign96Verify', dict(params=par, oid=OID, hash=hb, sig=sig[:10] + le(q, 24), pubkey=pub[dl])))
                out.append(('bign96Verify', dict(params=par, oid=OID, hash=hb, sig=sig, pubkey=pub['2' if dl != '2' else '1'])))
                w = bytearray(pub[dl]); w[47] ^= 1
                out.append(('bign96Verify', dict(params=par, oid=OID, hash=hb, sig=sig, pubkey=bytes(w))))
                out.append(('bign96Verify', dict(params=par, oid=OID[:-1], hash=hb, sig=sig, pubkey=pub[dl])))
    return out

def g12_hash(P, h):
    return be(h, P['l'] // 8)

def _g12_cases(tier):
    out = []
    th = tier == 'thorough'
    for si, name in enumerate(RG.STD_NAMES):
        P = g12_std(name)
        par = g12_enc(P)
        q = P['q']
        mo, no = P['l'] // 8, (P['p'].bit_length() + 7) // 8
        lvl = 2 if (th or si == 1) else 1 if si == 6 else 0
        out.append(('g12sParamsStd', dict(name=name)))
        out.append(('g12sParamsVal', dict(params=par)))
        if lvl == 2:
            for f, fn in (('b', lambda x: x ^ 1), ('q', lambda x: x + 2), ('n', lambda x: x + 1), ('yP', lambda x: x ^ 1), ('l', lambda x: 768 - x)):
                P2 = dict(P); P2[f] = fn(P2[f])
                out.append(('g12sParamsVal', dict(params=g12_enc(P2))))
        D = d_alphabet(q, name)
        H = hash_values(q, mo, name)
        tapes = tapes_mod(q, mo, name, q.bit_length())
        pub = {}
        for lbl, d in D:
            pub[lbl] = memo('g12pub:%s:%d' % (name, d), lambda: RG.keypair(P, d)[1])
        for tl, t in (tapes if lvl == 2 else tapes[:3] if lvl == 1 else tapes[:1]):
            sd = le(RG.rand_nz_mod(q, TapeSim(t)), mo)
            out.append(('g12sKeypairGen', dict(params=par, rng=t, secret_d=sd)))
        if lvl == 2:
            rows = [(d, h) for d in D for h in H]
        elif lvl == 1:
            rows = [(d, h) for d in D[::2] for h in (H[0], H[2], H[3], H[4])]
        else:
            rows = [(D[0], H[0]), (D[3], H[2]), (D[4], H[4])]
        for ri, ((dl, d), (hl, h)) in enumerate(rows):
            hb = g12_hash(P, h)
            tt = tapes if (th and dl == 'filler') else tapes[:3] if (lvl == 2 and dl in ('1', 'filler')) else tapes[:1]
            for tl, t in tt:
                k = RG.rand_nz_mod(q, TapeSim(t))
                out.append(('g12sSign', dict(params=par, hash=hb, privkey=le(d, mo), rng=t, secret_k=le(k, mo))))
            k = RG.rand_nz_mod(q, TapeSim(tapes[0][1]))
            sig = memo('g12sig:%s:%d:%d:%d' % (name, d, h, k), lambda: RG.sign(P, hb, d, k))
            if sig is None:
                continue
            out.append(('g12sVerify', dict(params=par, hash=hb, sig=sig, pubkey=pub[dl])))
            if (hl in ('0', 'q+1') and (dl == '1' or (th and dl == 'q-1'))) or (lvl == 0 and ri == 0):
                for pos in (0, mo - 1, mo, 2 * mo - 1):
                    w = bytearray(sig); w[pos] ^= 0x01
                    out.append(('g12sVerify', dict(params=par, hash=hb, sig=bytes(w), pubkey=pub[dl])))
                r, s = int.from_bytes(sig[:mo], 'big'), int.from_bytes(sig[mo:], 'big')
                for r2, s2 in ((0, s), (q, s), (r, 0), (r, q)) + (((q + r, s),) if q + r < 1 << (8 * mo) else ()):
                    out.append(('g12sVerify', dict(params=par, hash=hb, sig=be(r2, mo) + be(s2, mo), pubkey=pub[dl])))
                w = bytearray(pub[dl]); w[0] ^= 1
                out.append(('g12sVerify', dict(params=par, hash=hb, sig=sig, pubkey=bytes(w))))
                # the other representatives of the same reduced hash (e = 0 -> 1, reduction mod q)
                for h2l, h2 in H:
                    if h2 != h and h2l in ('0', '1', 'q', 'q+1'):
                        out.append(('g12sVerify', dict(params=par, hash=g12_hash(P, h2), sig=sig, pubkey=pub[dl])))
    return out

def dstu_hashes(P, tag):
    """hash octet strings: the value classes 0, 1, all-ones, n, n+1, filler at the field's octet length, and the
    length classes of section 5.9 (shorter: zero-extended; longer: truncated)"""
    no = (P['p'][0] + 7) // 8
    n = P['n']
    out = [('0', bytes(no)), ('1', le(1, no)), ('ones', b'\xff' * no), ('q', le(n, no)), ('q+1', le(n + 1, no)), ('filler', vf.filler('h/' + tag, no)),
           ('short', vf.filler('hs/' + tag, no - 1)), ('empty', b''), ('long', vf.filler('hl/' + tag, 64)), ('long-ones', b'\xff' * 64),
           ('hi-only', bytes(no - 1) + bytes([0x100 - (1 << (P['p'][0] % 8))]))]
    return out

def dstu_lds(P):
    """admissible signature lengths: multiples of 16 with ld/16 >= octet length of n: the minimum, the next ones, the field's
    width and a long one"""
    on = (P['n'].bit_length() + 7) // 8
    no = (P['p'][0] + 7) // 8
    return sorted(set([16 * on, 16 * on + 16, 16 * on + 32, 16 * (no + 1), 1024]))

def dstu_tapes(P, tag):
    """tapes for section 6.3 (order_no octets, trimmed to L(n)-1 bits, zero rejected)"""
    n = P['n']
    on, nb = (n.bit_length() + 7) // 8, n.bit_length()
    v = 1 + i_le(vf.filler('tape/' + tag, on)) % ((1 << (nb - 1)) - 1)
    V = le(v, on)
    out = [('v', V), ('0,v', bytes(on) + V), ('2^(nb-1),v', le(1 << (nb - 1), on) + V), ('ones', b'\xff' * on),
           ('v|hi', le(v | (((1 << (8 * on)) - 1) ^ ((1 << (nb - 1)) - 1)), on)), ('70x0,v', bytes(on) * 70 + V)]
    return out

def dstu_boundary_points(i):
    """points of the order-n subgroup covering both trace classes of y/x and both values of the replaced bit x_0,
    and the point with x = 0"""
    P = dstu_std(i)
    def mk():
        fl = RD.F(P)
        pts = []
        G = P['P']
        Q = G
        seen = set()
        k = 1
        while k <= 12 and (len(seen) < 4 or k <= 3):
            for pt in (Q, RD.ec_neg(Q)):
                cls = (fl.tr(fl.div(pt[1], pt[0])), pt[0] & 1)
                seen.add(cls)
                pts.append(('%s%dP tr=%d x0=%d' % ('' if pt is Q else '-', k, cls[0], cls[1]), pt))
            Q = RD.ec_add(P, Q, G, fl)
            k += 1
        pts.append(('x=0', (0, fl.sqrt(P['B']))))
        return pts
    return memo('dstu-bpts:%d' % i, mk)

def _dstu_cases(tier):
    out = []
    th = tier == 'thorough'
    for i, name in enumerate(RD.STD_NAMES):
        P0 = RD.params_std(name)
        P = dstu_std(i)
        par = dstu_enc(P)
        m = P['p'][0]
        no, on = (m + 7) // 8, (P['n'].bit_length() + 7) // 8
        n = P['n']
        lvl = 2 if (th or i == 0) else 1 if i == 2 else 0
        out.append(('dstuParamsStd', dict(name=name)))
        out.append(('dstuParamsVal', dict(params=par)))
        if lvl >= 1:
            out.append(('dstuParamsVal', dict(params=dstu_enc(P0))))     # as loaded: without a base point (except curve 0)
            for f, fn in (('B', lambda x: x ^ 1), ('n', lambda x: x + 2), ('c', lambda x: 6 - x), ('A', lambda x: 1 - x),
                          ('P', lambda pt: (pt[0], pt[1] ^ 1)), ('P', lambda pt: RD.ec_neg(pt))):
                P2 = dict(P); P2[f] = fn(P2[f])
                out.append(('dstuParamsVal', dict(params=dstu_enc(P2))))
        # base point generation (6.8) on the tape that defines this framework's base point, and point validation
        if lvl >= 1 or i % 4 == 1:
            out.append(('dstuPointGen', dict(params=dstu_enc(P0) if i else par, rng=dstu_base_tape(i))))
        pts = dstu_boundary_points(i)
        for lbl, pt in (pts if lvl == 2 else pts[:2] + pts[-1:]):
            enc = RD.encode_point(P, pt)
            if pt[0] != 0:          # x = 0: see C16 (round trip with distinguishable buffers); kept out of the shared corpus
                out.append(('dstuPointCompress', dict(params=par, point=enc)))
                out.append(('dstuPointRecover', dict(params=par, xpoint=le(RD.compress(P, pt), no))))
            if lvl or pt[0] == 0:
                out.append(('dstuPointVal', dict(params=par, point=enc)))
        w = bytearray(RD.encode_point(P, P['P'])); w[no] ^= 1
        out.append(('dstuPointVal', dict(params=par, point=bytes(w))))
        if lvl:
            out.append(('dstuPointVal', dict(params=par, point=b'\xff' * (2 * no))))
        D = [(l, d) for l, d in d_alphabet(n, name)]
        H = dstu_hashes(P, name)
        tapes = dstu_tapes(P, name)
        lds = dstu_lds(P)
        for tl, t in (tapes if lvl == 2 else tapes[:2] if lvl else tapes[:1]):
            sd = le(RD.rand_scalar(P, TapeSim(t)), on)
            out.append(('dstuKeypairGen', dict(params=par, rng=t, secret_d=sd)))
        if lvl == 2:
            rows = [(d, h) for d in D for h in H]
        elif lvl == 1:
            rows = [(d, h) for d in (D[0], D[3], D[4]) for h in (H[0], H[2], H[5], H[8])]
        else:
            rows = [(D[0], H[0]), (D[3], H[8])]
        for ri, ((dl, d), (hl, hb)) in enumerate(rows):
            pub = memo('dstupub:%d:%d' % (i, d), lambda: RD.encode_point(P, RD.pubkey_calc(P, d)))
            for ld in (lds if (lvl == 2 and hl in ('0', 'filler') and dl in (('1', 'filler') if th else ('filler',))) else lds[:1]):
                tt = tapes if (th and dl == 'filler' and hl == 'filler' and ld == lds[0]) else tapes[:1]
                for tl, t in tt:
                    e = RD.rand_scalar(P, TapeSim(t))
                    out.append(('dstuSign', dict(params=par, ld=ld, hash=hb, privkey=le(d, on), rng=t, secret_k=le(e, on))))
                e = RD.rand_scalar(P, TapeSim(tapes[0][1]))
                sig = memo('dstusig:%d:%d:%d:%s:%d' % (i, d, ld, hb.hex(), e), lambda: RD.sign(P, ld, hb, d, e))
                if sig is None:
                    continue
                out.append(('dstuVerify', dict(params=par, ld=ld, hash=hb, sig=sig, pubkey=pub)))
                if (lvl and hl in ('0', 'long') and dl == '1') or (th and hl == '0' and dl == 'q-1') or (lvl == 0 and ri == 0):
                    half = ld // 16
                    poss = (0, on - 1, half, half + on - 1) + ((half - 1, 2 * half - 1) if half > on else ())
                    for pos in (poss if lvl else poss[:1] + poss[2:3]):
                        w = bytearray(sig); w[pos] ^= 0x01
                        out.append(('dstuVerify', dict(params=par, ld=ld, hash=hb, sig=bytes(w), pubkey=pub)))
                    r, s = i_le(sig[:half]), i_le(sig[half:])
                    for r2, s2 in (((0, s), (n, s), (r, 0), (r, n)) if lvl else ((0, s), (r, n))):
                        out.append(('dstuVerify', dict(params=par, ld=ld, hash=hb, sig=le(r2, half) + le(s2, half), pubkey=pub)))
                    w = bytearray(pub); w[0] ^= 1
                    out.append(('dstuVerify', dict(params=par, ld=ld, hash=hb, sig=sig, pubkey=bytes(w))))
    return out

def pfok_x_alphabet(P, tag):
    r = P['r']
    return [('0', 0), ('1', 1), ('2', 2), ('2^r-2', (1 << r) - 2), ('2^r-1', (1 << r) - 1), ('filler', i_le(vf.filler('x/' + tag, 40)) & ((1 << r) - 1))]

def _pfok_cases(tier):
    out = []
    th = tier == 'thorough'
    for si, name in enumerate(RP.STD_NAMES):
        P = RP.params_std(name)
        par = pfok_enc(P)
        mo, no = (P['r'] + 7) // 8, (P['l'] + 7) // 8
        small = si == 0
        out.append(('pfokParamsStd', dict(name=name)))
        if small or th:
            out.append(('pfokParamsVal', dict(params=par)))
        if small:
            e = RP.mont_R(P) % P['p']
            for f, v in (('g', e), ('g', RP.mont_mul(P, P['g'], P['g'])), ('p', P['p'] + 4), ('n', P['l']), ('r', P['r'] + 1)):
                P2 = dict(P); P2[f] = v
                out.append(('pfokParamsVal', dict(params=pfok_enc(P2))))
        X = pfok_x_alphabet(P, name)
        Y = {l: RP.pubkey_calc(P, x) for l, x in X}
        tapes = [('x', vf.filler('pfok-t/' + name, mo)), ('0', bytes(mo)), ('ones', b'\xff' * mo), ('1', le(1, mo))]
        for tl, t in (tapes if small or th else tapes[:2]):
            out.append(('pfokKeypairGen', dict(params=par, rng=t, secret_d=le(i_le(t) & ((1 << P['r']) - 1), mo))))
        for xl, x in (X if small or th else X[::2]):
            out.append(('pfokPubkeyCalc', dict(params=par, privkey=le(x, mo))))
            out.append(('pfokPubkeyVal', dict(params=par, pubkey=le(Y[xl], no))))
        for y in (0, P['p'], P['p'] + 1, (1 << (8 * no)) - 1, P['p'] - 1, 1):
            out.append(('pfokPubkeyVal', dict(params=par, pubkey=le(y, no))))
        Xs = X if (small or th) else [X[1], X[4], X[5]]
        for al, xa in Xs:
            for bl, xb in Xs:
                out.append(('pfokDH', dict(params=par, privkey=le(xa, mo), pubkey=le(Y[bl], no))))
        Xm = [X[0], X[1], X[4], X[5]] if (small and th) else [X[0], X[4], X[5]] if th else [X[4], X[5]]
        for al, xa in Xm:
            for ul, ua in Xm:
                for bl, xb in Xm:
                    for vl, ub in Xm:
                        out.append(('pfokMTI', dict(params=par, privkey=le(xa, mo), privkey1=le(ua, mo), pubkey=le(Y[bl], no), pubkey1=le(Y[vl], no))))
    return out

def sweep_cases(tier):
    """C09 argument sweeps: out-of-domain scalars / lengths / levels whose error code the headers name (\expect{ERR_...})"""
    out = []
    q = B96['q']
    pub1 = memo('b96pub:1', lambda: RB.enc_point(96, RB.pubkey_calc(96, 1)))
    h = bytes(24)
    sig = memo('b96sig:1:0:5', lambda: RB.bign96_sign_k(OID, h, 1, 5))
    tape = le(5, 24)
    for l in (0, 95, 97, 128, 192, 256, 1 << 32):              # bign96.h: only l == 96 (ERR_BAD_PARAMS)
        par = b96_enc(l=l)
        out += [('bign96ParamsVal', dict(params=par)), ('bign96KeypairGen', dict(params=par, rng=tape)),
                ('bign96KeypairVal', dict(params=par, privkey=le(1, 24), pubkey=pub1)), ('bign96PubkeyVal', dict(params=par, pubkey=pub1)),
                ('bign96PubkeyCalc', dict(params=par, privkey=le(1, 24))),
                ('bign96Sign', dict(params=par, oid=OID, hash=h, privkey=le(1, 24), rng=tape)),
                ('bign96Sign2', dict(params=par, oid=OID, hash=h, privkey=le(1, 24), t=None)),
                ('bign96Verify', dict(params=par, oid=OID, hash=h, sig=sig, pubkey=pub1))]
    for oid in (b'', OID[:-1], OID + b'\x00', b'\x05' + OID[1:], OID[:1] + bytes([OID[1] + 1]) + OID[2:]):   # ERR_BAD_OID
        out += [('bign96Sign', dict(params=B96_STD, oid=oid, hash=h, privkey=le(1, 24), rng=tape)),
                ('bign96Sign2', dict(params=B96_STD, oid=oid, hash=h, privkey=le(1, 24), t=None)),
                ('bign96Verify', dict(params=B96_STD, oid=oid, hash=h, sig=sig, pubkey=pub1))]
    for d in (0, q, q + 1, (1 << 192) - 1):                     # ERR_BAD_PRIVKEY
        out += [('bign96PubkeyCalc', dict(params=B96_STD, privkey=le(d, 24))),
                ('bign96Sign', dict(params=B96_STD, oid=OID, hash=h, privkey=le(d, 24), rng=tape)),
                ('bign96Sign2', dict(params=B96_STD, oid=OID, hash=h, privkey=le(d, 24), t=None)),
                ('bign96KeypairVal', dict(params=B96_STD, privkey=le(d, 24), pubkey=pub1))]
    for nm in ('', '1.2.112.0.2.0.34.101.45.3.1', B96_NAME + '.1'):
        out.append(('bign96ParamsStd', dict(name=nm)))
    # g12s: l in {256, 512}
    P = g12_std(RG.STD_NAMES[1])
    mo = 32
    pub = memo('g12pub:%s:%d' % (RG.STD_NAMES[1], 1), lambda: RG.keypair(P, 1)[1])
    for l in (0, 255, 257, 384, 511, 513, 1024):
        par = g12_enc(dict(P, l=l))
        out += [('g12sParamsVal', dict(params=par)), ('g12sKeypairGen', dict(params=par, rng=le(5, mo))),
                ('g12sSign', dict(params=par, hash=bytes(mo), privkey=le(1, mo), rng=le(5, mo))),
                ('g12sVerify', dict(params=par, hash=bytes(mo), sig=bytes(2 * mo), pubkey=pub))]
    for d in (0, P['q'], P['q'] + 1, (1 << 256) - 1):
        out.append(('g12sSign', dict(params=g12_enc(P), hash=bytes(mo), privkey=le(d, mo), rng=le(5, mo))))
    for nm in ('', '1.2.643.2.2.35.4', '1.2.643.7.1.2.1.2.3'):
        out.append(('g12sParamsStd', dict(name=nm)))
    # dstu: ld (ERR_BAD_INPUT), field degree and A (ERR_BAD_PARAMS)
    D = dstu_std(0)
    par = dstu_enc(D)
    on, no = (D['n'].bit_length() + 7) // 8, (D['p'][0] + 7) // 8
    dpub = memo('dstupub:0:1', lambda: RD.encode_point(D, RD.pubkey_calc(D, 1)))
    for ld in (0, 1, 8, 15, 16, 16 * on - 16, 16 * on - 1, 16 * on + 1, 16 * on + 8, 16 * on + 15):
        out.append(('dstuSign', dict(params=par, ld=ld, hash=bytes(no), privkey=le(1, on), rng=le(5, on))))
        out.append(('dstuVerify', dict(params=par, ld=ld, hash=bytes(no), sig=bytes((ld + 7) // 8), pubkey=dpub)))
    for d in (0, D['n'], (1 << (8 * on)) - 1):                  # dstu.h, dstuSign: \\expect{ERR_BAD_PRIVKEY}
        out.append(('dstuSign', dict(params=par, ld=16 * on, hash=bytes(no), privkey=le(d, on), rng=le(5, on))))
    for bad in (dict(D, p=(159, 7, 6, 3)), dict(D, p=(510, 7, 6, 3)), dict(D, p=(0, 0, 0, 0)), dict(D, A=2), dict(D, A=255)):
        bp = dstu_enc(bad)
        out += [('dstuParamsVal', dict(params=bp)), ('dstuPointVal', dict(params=bp, point=dpub)), ('dstuKeypairGen', dict(params=bp, rng=le(5, on))),
                ('dstuPointGen', dict(params=bp, rng=le(5, no))), ('dstuPointCompress', dict(params=bp, point=dpub)),
                ('dstuPointRecover', dict(params=bp, xpoint=dpub[:no])),
                ('dstuSign', dict(params=bp, ld=16 * on, hash=bytes(no), privkey=le(1, on), rng=le(5, on))),
                ('dstuVerify', dict(params=bp, ld=16 * on, hash=bytes(no), sig=bytes(2 * on), pubkey=dpub))]
    for nm in ('', '1.2.804.2.1.1.1.1.3.1.1.1.2.10', '1.2.804.2.1.1.1.1.3.1.1.1.2'):
        out.append(('dstuParamsStd', dict(name=nm)))
    # pfok: (l, r) from table 5.1, n < l (ERR_BAD_PARAMS); public values in (0, p) (ERR_BAD_PUBKEY); private keys below 2^r (ERR_BAD_PRIVKEY)
    F = RP.params_std('test')
    fp = pfok_enc(F)
    mo, no = (F['r'] + 7) // 8, (F['l'] + 7) // 8
    y = le(RP.pubkey_calc(F, 5), no)
    x = le(5, mo)
    for bad in (dict(F, l=637), dict(F, l=639), dict(F, l=0), dict(F, r=129), dict(F, r=131), dict(F, n=F['l']), dict(F, n=F['l'] + 1), dict(F, g=0), dict(F, g=F['p']),
                dict(F, p=F['p'] - 2), dict(F, p=F['p'] >> 1)):
        bp = pfok_enc(bad)
        out += [('pfokParamsVal', dict(params=bp)), ('pfokKeypairGen', dict(params=bp, rng=x)), ('pfokPubkeyVal', dict(params=bp, pubkey=y)),
                ('pfokPubkeyCalc', dict(params=bp, privkey=x)), ('pfokDH', dict(params=bp, privkey=x, pubkey=y)),
                ('pfokMTI', dict(params=bp, privkey=x, privkey1=x, pubkey=y, pubkey1=y))]
    for yy in (0, F['p'], F['p'] + 1, (1 << (8 * no)) - 1):
        yb = le(yy, no)
        out += [('pfokPubkeyVal', dict(params=fp, pubkey=yb)), ('pfokDH', dict(params=fp, privkey=x, pubkey=yb)),
                ('pfokMTI', dict(params=fp, privkey=x, privkey1=x, pubkey=yb, pubkey1=y)), ('pfokMTI', dict(params=fp, privkey=x, privkey1=x, pubkey=y, pubkey1=yb))]
    for xx in (1 << F['r'], (1 << (8 * mo)) - 1):
        xb = le(xx, mo)
        out += [('pfokPubkeyCalc', dict(params=fp, privkey=xb)), ('pfokDH', dict(params=fp, privkey=xb, pubkey=y)),
                ('pfokMTI', dict(params=fp, privkey=xb, privkey1=x, pubkey=y, pubkey1=y)), ('pfokMTI', dict(params=fp, privkey=x, privkey1=xb, pubkey=y, pubkey1=y))]
    for nm in ('', 'test2', '1.2.112.0.2.0.1176.2.3.1.2'):
        out.append(('pfokParamsStd', dict(name=nm)))
    save_cache()
    return out

_cases = {}
def gen_cases(tier):
    """the shared corpus (C16 reference comparison; replayed by C07/C09/C15/C19): admissible inputs only; error results only
    for functions without output buffers"""
    if tier not in _cases:
        out = _b96_cases(tier) + _g12_cases(tier) + _dstu_cases(tier) + _pfok_cases(tier)
        _cases[tier] = out
        warm(out)
    return list(_cases[tier])

def _eval_ref(item):
    fname, case = item
    f = cat.CAT[fname].ref
    return (f.raw if hasattr(f, 'raw') else f)(case)

def warm(cases):
    """fill the reference memo for the cached (slow) references in parallel and persist it"""
    global _dirty
    _load()
    todo = [(f, c) for f, c in cases if hasattr(cat.CAT[f].ref, 'raw') and _case_tag(f, c) not in _mem]
    if len(todo) > 40:
        res = vf.pmap(_eval_ref, todo, case_timeout=600)
        for (f, c), r in zip(todo, res):
            if isinstance(r, dict) and ('crash' in r or 'harness_error' in r):
                continue
            _mem[_case_tag(f, c)] = r
            _dirty = True
    save_cache()
