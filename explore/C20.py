"""C20 -- PIN/CAN/PUK automaton: explicit-state search on the transition graph extracted from the real
btokPwdTransition (64 states x 9 events), product with history monitors; Spin re-checks the same graph;
every event sequence up to a depth is replayed on one live C state object (hidden-state / conformance)."""
import ctypes, itertools, os, subprocess, sys, shutil, collections
import vf

PROP = 'C20'
PINS = ['puk0', 'puk1', 'puk2', 'puk3', 'puk4', 'puk5', 'puk6', 'puk7', 'puk8', 'puk9',
        'pin0', 'pin1', 'pind', 'pins', 'pin2', 'pin3']
AUTHS = ['auth_none', 'auth_pin', 'auth_can', 'auth_puk']
EVENTS = ['pin_ok', 'pin_bad', 'pin_deactivate', 'pin_activate', 'can_ok', 'can_bad', 'puk_ok', 'puk_bad', 'auth_close']
BLOCKED = set(PINS[:11])          # puk0..puk9, pin0: the PIN is blocked (documented semantics of the states)
REMAIN = {'pin3': 3, 'pin2': 2, 'pins': 1, 'pin1': 1}   # attempts left, by the header's state semantics

class Impl:
    def __init__(self, cfg='rel'):
        self.lib = vf.Lib(cfg)
        self.val = {}
        for n in PINS + AUTHS + EVENTS:
            v = self.lib.dll.vh_pwd_enum(n.encode())
            assert v >= 0, n
            self.val[n] = v
        self.pin_name = {self.val[n]: n for n in PINS}
        self.auth_name = {self.val[n]: n for n in AUTHS}
        assert len(self.pin_name) == 16 and len(self.auth_name) == 4
    def step(self, pin, auth, ev):
        p2, a2 = ctypes.c_uint(), ctypes.c_uint()
        acc = self.lib.dll.vh_pwd_step(self.val[pin], self.val[auth], self.val[ev], ctypes.byref(p2), ctypes.byref(a2))
        return bool(acc), self.pin_name.get(p2.value, '?%d' % p2.value), self.auth_name.get(a2.value, '?%d' % a2.value)
    def run(self, pin, auth, evs):
        e = bytes(self.val[x] for x in evs)
        tr = ctypes.create_string_buffer(3 * len(evs) + 1)
        self.lib.dll.vh_pwd_run(self.val[pin], self.val[auth], e, len(evs), tr)
        return [(bool(tr.raw[3 * i]), self.pin_name.get(tr.raw[3 * i + 1], '?'), self.auth_name.get(tr.raw[3 * i + 2], '?'))
                for i in range(len(evs))]

def extract(impl):
    g = {}
    for p in PINS:
        for a in AUTHS:
            for e in EVENTS:
                g[(p, a, e)] = impl.step(p, a, e)
    return g

# ---- monitors (history variables); state of the product = (pin, auth, c, cansince)
def mon_init(pin):
    # c: accepted wrong PIN entries since the last accepted pin_ok / puk_ok / pin_activate
    # cansince: a correct CAN has been accepted since the PIN came down to its last attempt
    #           (a persisted pin1 documents that pins -> pin1 happened, i.e. CAN was given)
    return (0, pin != 'pins')

def step_rules(g, st, ev):
    """returns (next product state, list of rule violations of this transition)"""
    pin, auth, c, cs = st
    acc, p2, a2 = g[(pin, auth, ev)]
    bad = []
    if p2.startswith('?') or a2.startswith('?'):
        bad.append('state leaves the documented state set: %s/%s' % (p2, a2))
        return None, bad
    if not acc:
        if (p2, a2) != (pin, auth):
            bad.append('G rejected event changed the state')
        return (pin, auth, c, cs), bad
    # (f) authentication status
    if ev in ('pin_ok', 'can_ok', 'puk_ok'):
        want = 'auth_' + ev[:3]
        if a2 != want:
            bad.append('F after accepted %s the status is %s' % (ev, a2))
    elif a2 != auth and a2 != 'auth_none':
        bad.append('F status %s obtained without the matching successful password (event %s)' % (a2, ev))
    # (a)/(b) PIN attempts
    if ev in ('pin_ok', 'pin_bad'):
        if pin in BLOCKED:
            bad.append('A PIN entry accepted while the PIN is blocked')
        if pin == 'pind':
            bad.append('E PIN entry accepted while the PIN is deactivated')
        if REMAIN.get(pin) == 1 and not cs:
            bad.append('B last PIN attempt accepted without a correct CAN since the second wrong PIN')
    if ev == 'pin_bad':
        c = min(c + 1, 4)          # saturating: the rules only distinguish 0..3 and "more than three" (keeps the product finite on ANY graph)
        if REMAIN.get(pin) == 2:
            cs = False
        if c > 3:
            bad.append('A more than three consecutive wrong PIN entries accepted')
        if c == 3 and p2 not in BLOCKED:
            bad.append('A three consecutive wrong PIN entries and the PIN is not blocked (%s)' % p2)
        if pin in REMAIN and p2 in REMAIN and REMAIN[p2] >= REMAIN[pin] and not (pin == 'pins'):
            bad.append('A wrong PIN entry did not reduce the remaining attempts (%s -> %s)' % (pin, p2))
    if ev in ('pin_ok', 'puk_ok', 'pin_activate'):
        c = 0
    if ev == 'can_ok':
        cs = True
    # (c) unblocking only on a correct PUK (entered now, or in force as the current status)
    if pin in BLOCKED and p2 not in BLOCKED and not (ev == 'puk_ok' or auth == 'auth_puk'):
        bad.append('C blocked PIN left the blocked states on %s without PUK' % ev)
    if pin in BLOCKED and p2 in BLOCKED and PINS.index(p2) > PINS.index(pin):
        bad.append('C PUK attempts restored without unblocking (%s -> %s)' % (pin, p2))
    # (d) permanent block
    if pin == 'puk0' and p2 != 'puk0':
        bad.append('D permanently blocked PIN (puk0) left on %s' % ev)
    if ev == 'puk_bad' and pin in BLOCKED and pin != 'puk0' and PINS.index(p2) != PINS.index(pin) - 1:
        bad.append('D wrong PUK on a blocked PIN does not consume one PUK attempt (%s -> %s)' % (pin, p2))
    # (e) deactivated state
    if pin == 'pind' and p2 != 'pind' and not (ev == 'pin_activate' and auth == 'auth_puk'):
        bad.append('E deactivated state left on %s with status %s' % (ev, auth))
    if ev == 'pin_deactivate' and auth not in ('auth_pin', 'auth_puk'):
        bad.append('E deactivation accepted without PIN/PUK authentication')
    if pin in REMAIN and p2 in REMAIN and REMAIN[p2] > REMAIN[pin] and ev not in ('pin_ok', 'puk_ok'):
        bad.append('A attempts restored on %s (%s -> %s)' % (ev, pin, p2))
    return (p2, a2, c, cs), bad

def search(g, check=None):
    """BFS over the product automaton from the 16 persistent states with no authentication.
    returns (states, transitions, violations {key: (path, msg)})"""
    seen = {}
    q = collections.deque()
    for p in PINS:
        s = (p, 'auth_none') + mon_init(p)
        seen[s] = (None, None); q.append(s)
    ntr = 0
    viol = {}
    while q:
        s = q.popleft()
        for e in EVENTS:
            ntr += 1
            n, bad = step_rules(g, s, e)
            for b in bad:
                key = '%s:%s/%s+%s' % (b.split()[0], s[0], s[1], e)
                if key not in viol:
                    viol[key] = (path_to(seen, s) + [e], b)
            if n is not None and n not in seen:
                seen[n] = (s, e); q.append(n)
    # (d) ten wrong PUKs from pin0 (path property, decided on the graph)
    return seen, ntr, viol

def path_to(seen, s):
    evs = []
    while seen[s][0] is not None:
        evs.append(seen[s][1]); s = seen[s][0]
    evs.reverse()
    return [s[0]] + evs          # initial persistent pin state, then the events

def replay_path(impl, path):
    """run path on the live C object AND through the monitors; returns first rule message or None"""
    init, evs = path[0], path[1:]
    tr = impl.run(init, 'auth_none', evs)
    st = (init, 'auth_none') + mon_init(init)
    for e, (acc, p2, a2) in zip(evs, tr):
        g1 = {(st[0], st[1], e): (acc, p2, a2)}
        n, bad = step_rules(g1, st, e)
        if bad:
            return '%s  [history: start %s/auth_none, events %s]' % (bad[0], init, ' '.join(evs))
        st = n
    return None

def ten_puks(g, chk):
    for a in AUTHS:
        st = ('pin0', a)
        for i in range(10):
            acc, p2, a2 = g[(st[0], st[1], 'puk_bad')]
            if not acc:
                return 'D wrong PUK number %d rejected in %s' % (i + 1, st)
            st = (p2, a2)
        if st[0] != 'puk0':
            return 'D ten wrong PUKs from pin0 end in %s, not puk0' % st[0]
    return None

# ---- Spin: the same extracted graph as a Promela model with the monitors as assertions
def promela(g):
    P = {n: i for i, n in enumerate(PINS)}; A = {n: i for i, n in enumerate(AUTHS)}
    L = ['/* generated from the transition table extracted from btokPwdTransition */',
         'byte pin, auth, c; bool cs; byte ev; bool acc; byte op, oa;', 'byte hist[40]; byte hl;',
         '#define BLOCKED(x) (x <= %d)' % P['pin0'],
         'inline rem(x, r) { if :: x == %d -> r = 3 :: x == %d -> r = 2 :: x == %d || x == %d -> r = 1 :: else -> r = 0 fi }'
         % (P['pin3'], P['pin2'], P['pins'], P['pin1']),
         'active proctype automaton() {', ' byte r1, r2;',
         ' if ' + ' '.join(':: pin = %d' % i for i in range(16)) + ' fi;',
         ' auth = 0; c = 0; cs = (pin != %d);' % P['pins'],
         ' do', ' :: true ->',
         '  if ' + ' '.join(':: ev = %d' % i for i in range(9)) + ' fi;',
         '  op = pin; oa = auth;', '  d_step {', '  if']
    for (p, a, e), (acc, p2, a2) in sorted(g.items(), key=lambda kv: (P[kv[0][0]], A[kv[0][1]], EVENTS.index(kv[0][2]))):
        L.append('  :: pin == %d && auth == %d && ev == %d -> acc = %d; pin = %d; auth = %d'
                 % (P[p], A[a], EVENTS.index(e), int(acc), P.get(p2, 255), A.get(a2, 255)))
    E = {n: i for i, n in enumerate(EVENTS)}
    L += ['  fi;',
          '  assert(pin < 16 && auth < 4);',
          '  rem(op, r1); rem(pin, r2);',
          '  if', '  :: !acc -> assert(pin == op && auth == oa)', '  :: else ->',
          '   /* F */ if :: ev == %d -> assert(auth == 1) :: ev == %d -> assert(auth == 2) :: ev == %d -> assert(auth == 3)'
          ' :: else -> assert(auth == oa || auth == 0) fi;' % (E['pin_ok'], E['can_ok'], E['puk_ok']),
          '   if :: (ev == %d || ev == %d) -> assert(!BLOCKED(op)); assert(op != %d); assert(!(r1 == 1 && !cs)) :: else -> skip fi;'
          % (E['pin_ok'], E['pin_bad'], P['pind']),
          '   if :: ev == %d -> c++; if :: r1 == 2 -> cs = false :: else -> skip fi; assert(c <= 3); assert(!(c == 3 && !BLOCKED(pin))) :: else -> skip fi;' % E['pin_bad'],
          '   if :: (ev == %d || ev == %d || ev == %d) -> c = 0 :: else -> skip fi;' % (E['pin_ok'], E['puk_ok'], E['pin_activate']),
          '   if :: ev == %d -> cs = true :: else -> skip fi;' % E['can_ok'],
          '   /* C */ assert(!(BLOCKED(op) && !BLOCKED(pin) && !(ev == %d || oa == 3)));' % E['puk_ok'],
          '   /* D */ assert(!(op == 0 && pin != 0));',
          '   /* E */ assert(!(op == %d && pin != %d && !(ev == %d && oa == 3)));' % (P['pind'], P['pind'], E['pin_activate']),
          '   assert(!(ev == %d && oa != 1 && oa != 3));' % E['pin_deactivate'],
          '  fi;', '  }', ' od', '}']
    return '\n'.join(L) + '\n'

def run_spin(g, chk):
    d = os.path.join(vf.VERIF, 'build', 'spin_c20')
    shutil.rmtree(d, ignore_errors=True); os.makedirs(d)
    open(os.path.join(d, 'pwd.pml'), 'w').write(promela(g))
    try:
        subprocess.run(['spin', '-a', 'pwd.pml'], cwd=d, check=True, stdout=subprocess.PIPE, stderr=subprocess.STDOUT)
        subprocess.run(['gcc', '-O1', '-DSAFETY', '-DMEMLIM=1024', '-o', 'pan', 'pan.c'], cwd=d, check=True,
                       stdout=subprocess.PIPE, stderr=subprocess.STDOUT)
        r = subprocess.run(['./pan', '-m10000', '-c1'], cwd=d, stdout=subprocess.PIPE, stderr=subprocess.STDOUT, text=True, timeout=120)
    except (subprocess.CalledProcessError, subprocess.TimeoutExpired, FileNotFoundError) as e:
        chk.observe('spin second checker not run: %r' % e)
        return None
    out = r.stdout
    errs = None; states = None
    for line in out.splitlines():
        if 'errors:' in line:
            errs = int(line.split('errors:')[1].split()[0])
        if 'states, stored' in line:
            states = int(line.split()[0])
    trail = None
    if errs:
        t = subprocess.run(['spin', '-t', '-p', 'pwd.pml'], cwd=d, stdout=subprocess.PIPE, stderr=subprocess.STDOUT, text=True)
        trail = t.stdout[-3000:]
    return dict(errors=errs, states=states, trail=trail)

def run(tier):
    chk = vf.Check(PROP, tier)
    impl = Impl('rel')
    g = extract(impl)
    naccept = sum(1 for v in g.values() if v[0])
    chk.part('extraction', transitions=len(g), evaluations=len(g), accepted=naccept)
    seen, ntr, viol = search(g)
    chk.part('product_search', states=len(seen), transitions=ntr)
    m = ten_puks(g, chk)
    if m:
        viol['D:tenpuks'] = (['pin0'] + ['puk_bad'] * 10, m)
    for key, (path, msg) in viol.items():
        chk.violation(key, {'cfg': 'rel', 'path': path}, '%s  [history: start %s/auth_none, events %s]' % (msg, path[0], ' '.join(path[1:])))
    for s in seen:
        chk.outcome('%s/%s' % (s[0], s[1]))
    # conformance: every event sequence up to depth D from every persistent state, on ONE live C object,
    # must follow the extracted graph (the function has no hidden state: the graph is the implementation)
    depth = 4 if tier == 'quick' else 6
    nseq = 0; mism = 0
    for p in PINS:
        for evs in itertools.product(EVENTS, repeat=depth):
            tr = impl.run(p, 'auth_none', evs)
            st = (p, 'auth_none')
            for e, t in zip(evs, tr):
                if g[(st[0], st[1], e)] != t:
                    mism += 1
                    chk.violation('conformance:%s+%s' % (p, ','.join(evs)), {'cfg': 'rel', 'path': [p] + list(evs), 'conformance': True},
                                  'live object deviates from the per-call table at %s in %s' % (e, evs))
                    break
                st = (t[1], t[2])
            nseq += 1
    chk.part('conformance', traces_validated_against_impl=nseq, transitions=nseq * depth, depth=depth)
    # second checker
    sp = run_spin(g, chk)
    if sp:
        chk.part('spin', spin_states=sp['states'] or 0, spin_errors=sp['errors'] or 0)
        py_bad = any(not k.startswith('conformance') and k != 'D:tenpuks' for k in viol)
        if bool(sp['errors']) != py_bad:
            print('HARNESS-ERROR C20: spin (%s errors) and the direct search (%d violations) disagree' % (sp['errors'], len(viol)))
            print(sp.get('trail') or '')
            chk.finish('C20', 'see DESIGN 4/C20')
            return 2
    chk.sample({'start': 'pin3/auth_none', 'events': ['pin_bad', 'pin_bad', 'can_ok', 'pin_bad'],
                'trace': [list(t) for t in impl.run('pin3', 'auth_none', ['pin_bad', 'pin_bad', 'can_ok', 'pin_bad'])]})
    chk.sample({'extracted_row pin2/auth_can': {e: list(g[('pin2', 'auth_can', e)]) for e in EVENTS}})
    chk.assumptions += ['state names and their meaning (attempts left, blocked, deactivated) are taken from btok.h',
                        'gcc -O2 build of the current tree; the function is pure (checked by the live-object conformance pass)']
    return chk.finish('C20', 'graph = btokPwdTransition on all 16x4 states x 9 events; product with monitors (wrong-PIN count, '
                      'CAN-since-second-wrong-PIN) searched breadth-first from the 16 persistent states with auth_none; '
                      'distinct outcomes = reachable (pin,auth) pairs; conformance = all 9^depth event sequences x 16 starts on a live object')

def replay(rec):
    impl = Impl(rec.get('cfg', 'rel'))
    path = rec['path']
    if rec.get('conformance'):
        g = extract(impl)
        st = (path[0], 'auth_none')
        for e, t in zip(path[1:], impl.run(path[0], 'auth_none', path[1:])):
            if g[(st[0], st[1], e)] != t:
                return 'live object deviates from per-call table at %s' % e
            st = (t[1], t[2])
        return None
    if path[1:] == ['puk_bad'] * 10:
        m = ten_puks(extract(impl), None)
        if m:
            return m
    return replay_path(impl, path)
