"""core part of the catalogue: entropy sources / RNG / exit handlers (memory-safety oracle only: their outputs are
not deterministic, so they carry nondet=True and are skipped by differential oracles)"""
import ctypes
import vf, cat
from cat import Fn, reg
from cat_belt import Composite

def _impl_esread(lib, c, A, fill):
    b = A.buf(c['count'], fill); rd = A.buf(8, fill)
    r = lib.err('rngESRead', rd, b, c['count'], A.buf(c['source'].encode() + b'\0'))
    n = int.from_bytes(rd.get(), 'little') if r == 0 else 0
    return {'ret': r, 'read_le_count': int(n <= c['count'])}
reg(Composite('rng.ESRead', _impl_esread, lambda c: {'read_le_count': 1}, group='core')).nondet = True

def _impl_estest(lib, c, A, fill):
    return {'ret': lib.err('rngESTest', A.buf(c['source'].encode() + b'\0'))}
reg(Composite('rng.ESTest', _impl_estest, None, group='core')).nondet = True

def _impl_rngcycle(lib, c, A, fill):
    r = lib.err('rngCreate', 0, 0)
    res = {'ret': r}
    if r == 0:
        b = A.buf(c['count'], 0)
        lib.call('rngStepR2', b, c['count'], 0)
        lib.call('rngStepR', b, c['count'], 0)
        lib.call('rngRekey')
        res['valid'] = lib.boolean('rngIsValid')
        lib.call('rngClose')
        res['valid_after'] = lib.boolean('rngIsValid')
    return res
reg(Composite('rng.cycle', _impl_rngcycle, lambda c: {'ret': 0, 'valid': 1, 'valid_after': 0}, group='core')).nondet = True

def _impl_onexit(lib, c, A, fill):
    fnp = lib.addr('vh_es_remove')      # a harmless void(void) function of the helper
    ok = 0
    for _ in range(c['n']):
        ok += lib.boolean('utilOnExit', fnp)
    return {'ret': 0, 'registered': ok}
reg(Composite('util.OnExit', _impl_onexit, lambda c: {'ret': 0, 'registered': c['n']}, group='core')).nondet = True

def gen_cases(tier):
    out = []
    for src in ('trng', 'trng2', 'sys', 'sys2', 'timer', 'nosuch'):
        for n in (0, 1, 3, 4, 5, 32, 33):
            if src == 'timer' and n > 5 and tier == 'quick':
                continue
            out.append(('rng.ESRead', dict(source=src, count=n)))
    for src in ('trng', 'trng2', 'sys', 'sys2') + (('timer',) if tier == 'thorough' else ()):
        out.append(('rng.ESTest', dict(source=src)))
    for n in (1, 32, 33, 100):
        out.append(('rng.cycle', dict(count=n)))
    for n in (1, 2, 3, 130):
        out.append(('util.OnExit', dict(n=n)))
    return out
