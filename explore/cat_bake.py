"""bake / BAUTH part of the catalogue (STB 34.101.66 BMQV, BSTS, BPACE; STB 34.101.79 BAUTH).

The entries are Composites that run COMPLETE protocol dialogues on the real code:
  bake.BMQV / bake.BSTS / bake.BPACE / btok.BAUTH     step by step (Start, Step2.., StepG) with both parties in one process,
  bake.BMQVRun / bake.BSTSRun / bake.BPACERun          the RunA / RunB drivers against a scripted read_i/write_i channel
                                                       (drv/vh_c04.c) that replays the transcript of the step-by-step run.
bake states hold pointers and may not be copied, so a protocol state is always its history replayed on fresh objects.

case (honest):  proto, l, kca, kcb, helloa, hellob (bytes | None), tapea, tapeb (octets the party's generator returns),
                da, db (private keys, l/4 octets), certa, certb (opaque prefix || <Q>_4l; validator = last l/2 octets),
                pwd (BPACE).  A = initiator of the odd steps (BAUTH: terminal T), B = responder (BAUTH: token CT).
explorer-only fields (never in gen_cases; C04 uses them for the adversary):
                da_x, db_x            private key actually used by the party (certificate unchanged)
                certb_a, certa_b      the peer certificate as held by A resp. B (BMQV; BAUTH: certa_b = certt given to CT)
                pwd_b, helloa_b, hellob_b   B's view of password / hello messages
                val_fail, val_code    the val_fail-th certificate validator call answers val_code
                act='flip' (act_i, act_j, act_m) | 'subst' (act_i, act_data): alteration of message M<act_i> in transit
insider fields: (bake.BSTSInsider / btok.BAUTHInsider only) act='insider', act_i = index of the replaced message (BSTS: 2, 3; BAUTH: 3),
                ins = label, ins_s = the l/4 octets placed where <s>_2l belongs (None = the honest s), ins_cert = the certificate
                placed in the body (None = the sender's own).  The message is built by the reference model from the session keys
                K1, K2 it derives from the case (tapes, keys, hello): correct tag, correctly encrypted body.
                result: ret (first error that is not the receiving step's verdict; ERR_OUTOFMEMORY of that step counts as an
                error), rejected (the receiving step returned an error), rej (its code), sync (the model's honest M_i equals
                the real one, i.e. the insider message really is authentic), keyA, keyB, steps
sweep fields:   (sweep_cases only) sweep = kind, sweep_who = party: raw_kc (flags outside the protocol's domain), rng_null, params_l
                (level field of bign_params), or an inadmissible own certificate; the documented error comes back from Start
result:         ret (first non-zero step result or 0), keyA, keyB (b'' when the party did not finish), msgs (all
                messages concatenated), mlens, steps ("A.Step3=0x0" ...), useda/usedb (tape octets consumed)
reference:      ref/bake.py (bonus oracle: keys, every message, tape consumption); the deciding oracle of C04 is relational.  The BAUTH
                part of the model has no published vector (btok_test.c only compares the two keys): it is a reading of the protocol
                that the real code reproduces octet for octet on every honest dialogue of the corpus.
"""
import ctypes, functools, hashlib, os, pickle, shutil
import vf, cat
from cat import reg
from cat_belt import Composite
import bake as RK, bign as RBN, belt as RT

E = dict(OK=0, BAD_INPUT=109, OUTOFMEMORY=110, FILE_WRITE=206, FILE_READ=207, BAD_RNG=304, BAD_POINT=401, BAD_PARAMS=502,
         BAD_CERT=514, BAD_LOGIC=517, AUTH=521, MAX=0xFFFFFFFF)
OID = {128: '1.2.112.0.2.0.34.101.45.3.1', 192: '1.2.112.0.2.0.34.101.45.3.2', 256: '1.2.112.0.2.0.34.101.45.3.3'}
U64 = ctypes.c_uint64

class Settings(ctypes.Structure):      # bake_settings
    _fields_ = [('kca', ctypes.c_int), ('kcb', ctypes.c_int), ('helloa', U64), ('helloa_len', U64), ('hellob', U64), ('hellob_len', U64),
                ('rng', U64), ('rng_state', U64)]
class Cert(ctypes.Structure):          # bake_cert
    _fields_ = [('data', U64), ('len', U64), ('val', U64)]
class Chan(ctypes.Structure):          # vh_c04_chan
    _fields_ = [('nmsg', U64), ('ptr', U64 * 8), ('len', U64 * 8), ('cur', U64), ('off', U64), ('call', U64),
                ('fault_at', U64), ('fault_kind', U64), ('fault_code', U64), ('fault_arg', U64),
                ('log', U64), ('log_cap', U64), ('log_len', U64), ('nread', U64), ('nwrite', U64), ('trace', U64 * 32)]

# who sends message M1, M2, ... (index 0 = M1)
SENDER = {'BMQV': 'BAB', 'BSTS': 'BAB', 'BPACE': 'BABA', 'BAUTH': 'BAB'}

def flags(c):
    return (1, 1) if c['proto'] == 'BSTS' else (int(c['kca']), int(c['kcb']))

# ------------------------------------------------------------------ one party's long-lived objects
class Party:
    def __init__(self, L, A, fill, c, who):
        self.L, self.A, self.fill, self.who = L, A, fill, who
        l = c['l']
        low = who.lower()
        def view(k):
            return c[k + '_b'] if (who == 'B' and (k + '_b') in c) else c.get(k)
        self.params = A.buf(336, fill)
        r = L.err('bignParamsStd', self.params, A.buf(OID[l].encode() + b'\0'))
        if r:
            raise RuntimeError('bignParamsStd failed: %#x' % r)
        g, st, self.tape = vf.make_tape(A, c['tape' + low])
        kca, kcb = c.get('raw_kc') or flags(c)
        if c.get('params_l') is not None and c.get('sweep_who', 'B') == who:
            self.params.set(int(c['params_l']).to_bytes(8, 'little'), 0)          # the l field of bign_params
        self.set = A.buf(ctypes.sizeof(Settings), fill)
        S = Settings.from_address(self.set.addr)
        S.kca, S.kcb = kca, kcb
        ha, hb = view('helloa'), view('hellob')
        self._h = (A.buf(ha) if ha is not None else None, A.buf(hb) if hb is not None else None)
        S.helloa = self._h[0].addr if ha is not None else 0; S.helloa_len = len(ha) if ha is not None else 0
        S.hellob = self._h[1].addr if hb is not None else 0; S.hellob_len = len(hb) if hb is not None else 0
        S.rng = g; S.rng_state = st.addr
        if c.get('rng_null') and c.get('sweep_who', 'B') == who:
            S.rng = 0
        self.val = L.addr('vh_c04_certval')
        if c['proto'] == 'BPACE':
            self.pwd = view('pwd')
            self.pwd_buf = A.buf(self.pwd)
        else:
            self.d = A.buf(c.get('d%s_x' % low, c['d' + low]))
            self.cert_data = c['cert' + low]
            self.cert = self.mkcert(self.cert_data)
            other = 'b' if low == 'a' else 'a'
            self.peer_data = c.get('cert%s_%s' % (other, low), c['cert' + other])
            self.peer = self.mkcert(self.peer_data)

    def mkcert(self, data):
        d = self.A.buf(data)
        cb = self.A.buf(ctypes.sizeof(Cert), self.fill)
        C = Cert.from_address(cb.addr)
        C.data, C.len, C.val = d.addr, len(data), self.val
        return cb

def tamper(c, i, m):
    """the message M_i as it arrives"""
    if c.get('act') and c.get('act_i') == i:
        if c['act'] == 'flip':
            w = bytearray(m); w[c['act_j']] ^= c['act_m']; return bytes(w)
        if c['act'] == 'subst':
            return bytes(c['act_data'])
        if c['act'] == 'insider':
            x = insider(c)
            return x['msg'] if x else m
    return m

# ------------------------------------------------------------------ step-by-step dialogue
def dialogue(L, c, A, fill=0x00):
    """-> dict(trace=[(step, ret)], keyA, keyB (None = party did not finish), msgs=[M1, ...] as sent, used=(a, b))"""
    proto, l = c['proto'], c['l']
    no = l // 4
    kca, kcb = flags(c)
    L.dll.vh_c04_val_arm(ctypes.c_long(c.get('val_fail', 0)), ctypes.c_uint(c.get('val_code', 0)))
    PB = Party(L, A, fill, c, 'B')
    PA = Party(L, A, fill, c, 'A')
    def emit(n, f):
        o = A.buf(n, fill)
        r = f(o)
        return r, (o.get() if r == 0 else None)
    def quiet(r):
        return r, None
    if proto == 'BMQV':
        sA = A.buf(L.sz('bakeBMQV_keep', l), fill); sB = A.buf(L.sz('bakeBMQV_keep', l), fill)
        steps = [('B.Start', lambda m: quiet(L.err('bakeBMQVStart', sB, PB.params, PB.set, PB.d, PB.cert))),
                 ('A.Start', lambda m: quiet(L.err('bakeBMQVStart', sA, PA.params, PA.set, PA.d, PA.cert))),
                 ('B.Step2', lambda m: emit(2 * no, lambda o: L.err('bakeBMQVStep2', o, sB))),
                 ('A.Step3', lambda m: emit(2 * no + 8 * kca, lambda o: L.err('bakeBMQVStep3', o, A.buf(m), PA.peer, sA))),
                 ('B.Step4', lambda m: emit(8 * kcb, lambda o: L.err('bakeBMQVStep4', o, A.buf(m), PB.peer, sB)))]
        if kcb:
            steps.append(('A.Step5', lambda m: quiet(L.err('bakeBMQVStep5', A.buf(m), sA))))
        getkey = {'A': lambda o: L.err('bakeBMQVStepG', o, sA), 'B': lambda o: L.err('bakeBMQVStepG', o, sB)}
    elif proto == 'BSTS':
        sA = A.buf(L.sz('bakeBSTS_keep', l), fill); sB = A.buf(L.sz('bakeBSTS_keep', l), fill)
        steps = [('B.Start', lambda m: quiet(L.err('bakeBSTSStart', sB, PB.params, PB.set, PB.d, PB.cert))),
                 ('A.Start', lambda m: quiet(L.err('bakeBSTSStart', sA, PA.params, PA.set, PA.d, PA.cert))),
                 ('B.Step2', lambda m: emit(2 * no, lambda o: L.err('bakeBSTSStep2', o, sB))),
                 ('A.Step3', lambda m: emit(3 * no + len(PA.cert_data) + 8, lambda o: L.err('bakeBSTSStep3', o, A.buf(m), sA))),
                 ('B.Step4', lambda m: emit(no + len(PB.cert_data) + 8, lambda o: L.err('bakeBSTSStep4', o, A.buf(m), len(m), PB.val, sB))),
                 ('A.Step5', lambda m: quiet(L.err('bakeBSTSStep5', A.buf(m), len(m), PA.val, sA)))]
        getkey = {'A': lambda o: L.err('bakeBSTSStepG', o, sA), 'B': lambda o: L.err('bakeBSTSStepG', o, sB)}
    elif proto == 'BPACE':
        sA = A.buf(L.sz('bakeBPACE_keep', l), fill); sB = A.buf(L.sz('bakeBPACE_keep', l), fill)
        steps = [('B.Start', lambda m: quiet(L.err('bakeBPACEStart', sB, PB.params, PB.set, PB.pwd_buf, len(PB.pwd)))),
                 ('A.Start', lambda m: quiet(L.err('bakeBPACEStart', sA, PA.params, PA.set, PA.pwd_buf, len(PA.pwd)))),
                 ('B.Step2', lambda m: emit(no // 2, lambda o: L.err('bakeBPACEStep2', o, sB))),
                 ('A.Step3', lambda m: emit(5 * no // 2, lambda o: L.err('bakeBPACEStep3', o, A.buf(m), sA))),
                 ('B.Step4', lambda m: emit(2 * no + 8 * kcb, lambda o: L.err('bakeBPACEStep4', o, A.buf(m), sB))),
                 ('A.Step5', lambda m: emit(8 * kca, lambda o: L.err('bakeBPACEStep5', o, A.buf(m), sA)))]
        if kca:
            steps.append(('B.Step6', lambda m: quiet(L.err('bakeBPACEStep6', A.buf(m), sB))))
        getkey = {'A': lambda o: L.err('bakeBPACEStepG', o, sA), 'B': lambda o: L.err('bakeBPACEStepG', o, sB)}
    elif proto == 'BAUTH':     # A = terminal T, B = token CT
        sA = A.buf(L.sz('btokBAuthT_keep', l), fill); sB = A.buf(L.sz('btokBAuthCT_keep', l), fill)
        steps = [('B.Start', lambda m: quiet(L.err('btokBAuthCTStart', sB, PB.params, PB.set, PB.d, PB.cert))),
                 ('A.Start', lambda m: quiet(L.err('btokBAuthTStart', sA, PA.params, PA.set, PA.d, PA.cert))),
                 ('B.Step2', lambda m: emit(5 * no // 2 + 16, lambda o: L.err('btokBAuthCTStep2', o, PB.peer, sB))),
                 ('A.Step3', lambda m: emit(8 + 16 * kcb, lambda o: L.err('btokBAuthTStep3', o, A.buf(m), sA))),
                 ('B.Step4', lambda m: emit((no + len(PB.cert_data) + 8) * kcb, lambda o: L.err('btokBAuthCTStep4', o, A.buf(m), sB)))]
        if kcb:
            steps.append(('A.Step5', lambda m: quiet(L.err('btokBAuthTStep5', A.buf(m), len(m), PA.val, sA))))
        getkey = {'A': lambda o: L.err('btokBAuthTStepG', o, sA), 'B': lambda o: L.err('btokBAuthCTStepG', o, sB)}
    else:
        raise ValueError(proto)
    trace, msgs, cur = [], [], None
    for name, f in steps:
        r, o = f(cur)
        trace.append((name, r))
        if r:
            break
        if o:
            msgs.append(o)
            cur = tamper(c, len(msgs), o)
    keys = {}
    for who in 'AB':
        mine = [n for n, _ in steps if n[0] == who]
        ran = [n for n, r in trace if n[0] == who and r == 0]
        keys[who] = None
        if len(ran) == len(mine):              # the party finished its part of the protocol
            o = A.buf(32, fill)
            r = getkey[who](o)
            trace.append((who + '.StepG', r))
            if r == 0:
                keys[who] = o.get()
    return dict(trace=trace, keyA=keys['A'], keyB=keys['B'], msgs=msgs, used=(int(PA.tape.pos), int(PB.tape.pos)),
                over=(int(PA.tape.over), int(PB.tape.over)), nval=int(L.dll.vh_c04_val_ncalls()))

def first_error(trace):
    for n, r in trace:
        if r:
            return n, r
    return None, 0

def _result(d):
    return {'ret': first_error(d['trace'])[1], 'keyA': d['keyA'] or b'', 'keyB': d['keyB'] or b'', 'msgs': b''.join(d['msgs']),
            'mlens': [len(m) for m in d['msgs']], 'steps': ['%s=%#x' % t for t in d['trace']], 'useda': d['used'][0], 'usedb': d['used'][1]}

def _impl_dialogue(lib, c, A, fill):
    return _result(dialogue(lib, c, A, fill))

# ------------------------------------------------------------------ RunA / RunB against the scripted channel
def run_driver(L, c, A, fill, side, incoming, fault=None):
    """one call of bake<proto>Run<side> with `incoming` = the messages the peer sends, in order.
    fault = (call index (1-based), kind, code, arg) for the channel.  -> dict(ret, key, written=[...], calls=[(is_write, count)])"""
    proto, l = c['proto'], c['l']
    L.dll.vh_c04_val_arm(ctypes.c_long(c.get('val_fail', 0)), ctypes.c_uint(c.get('val_code', 0)))
    P = Party(L, A, fill, c, side)
    ch = A.buf(ctypes.sizeof(Chan), 0)
    C = Chan.from_address(ch.addr)
    bufs = [A.buf(m) for m in incoming]
    C.nmsg = len(incoming)
    for i, (b, m) in enumerate(zip(bufs, incoming)):
        C.ptr[i] = b.addr; C.len[i] = len(m)
    log = A.buf(8192, fill)
    C.log, C.log_cap = log.addr, log.n
    if fault:
        C.fault_at, C.fault_kind, C.fault_code, C.fault_arg = fault
    rd, wr = L.addr('vh_c04_read'), L.addr('vh_c04_write')
    key = A.buf(32, fill)
    fn = 'bake%sRun%s' % (proto, side)
    if proto == 'BMQV':
        r = L.err(fn, key, P.params, P.set, P.d, P.cert, P.peer, rd, wr, ch)
    elif proto == 'BSTS':
        r = L.err(fn, key, P.params, P.set, P.d, P.cert, P.val, rd, wr, ch)
    elif proto == 'BPACE':
        r = L.err(fn, key, P.params, P.set, P.pwd_buf, len(P.pwd), rd, wr, ch)
    else:
        raise ValueError(proto)
    raw = log.get(int(C.log_len))
    written = []
    off = 0
    while off < len(raw):
        n = int.from_bytes(raw[off:off + 8], 'little'); written.append(raw[off + 8:off + 8 + n]); off += 8 + n
    ncall = int(C.call)
    calls = [(int(C.trace[i]) >> 63, int(C.trace[i]) & ((1 << 63) - 1)) for i in range(min(ncall, 32))]
    return dict(ret=r, key=(key.get() if r == 0 else None), written=written, calls=calls, ncall=ncall, used=int(P.tape.pos),
                unread=int(C.nmsg) - int(C.cur))

def split_msgs(proto, msgs):
    """-> (messages sent by A, messages sent by B)"""
    s = SENDER[proto]
    return [m for m, w in zip(msgs, s) if w == 'A'], [m for m, w in zip(msgs, s) if w == 'B']

def _impl_run(lib, c, A, fill):
    d = dialogue(lib, c, A, fill)
    ret = first_error(d['trace'])[1]
    if ret:
        return {'ret': ret, 'keyA': b'', 'keyB': b'', 'wrA': b'', 'wrB': b''}
    fromA, fromB = split_msgs(c['proto'], d['msgs'])
    ra = run_driver(lib, c, A, fill, 'A', fromB)
    rb = run_driver(lib, c, A, fill, 'B', fromA)
    return {'ret': ra['ret'] or rb['ret'], 'retA': ra['ret'], 'retB': rb['ret'], 'keyA': ra['key'] or b'', 'keyB': rb['key'] or b'',
            'wrA': b''.join(ra['written']), 'wrB': b''.join(rb['written']), 'callsA': [list(x) for x in ra['calls']],
            'callsB': [list(x) for x in rb['calls']], 'keyS': d['keyA'] or b''}

# ------------------------------------------------------------------ memo of reference-model results
# The reference models use affine Python arithmetic (~0.1 s per scalar multiplication at l = 256) and the same dialogue is needed by
# every check and every build configuration that replays the corpus, so what the MODEL computed is kept in /verif/build/cat_bake_cache/,
# keyed by the sources of the models and of this file and by all inputs.  Nothing the library returned is ever stored there.
_MEMO_DIR = os.path.join(vf.VERIF, 'build', 'cat_bake_cache')
_mem = {}
_srckey = None

def _memo(tag, fn):
    """tag: tuple of plain values describing a pure reference computation"""
    global _srckey
    k = hashlib.sha256(repr(tag).encode()).hexdigest()[:32]
    if k in _mem:
        return _mem[k]
    if _srckey is None:
        h = hashlib.sha256()
        for f in ('bake.py', 'belt.py', 'ecp.py', 'bign.py'):
            h.update(open(os.path.join(vf.VERIF, 'ref', f), 'rb').read())
        h.update(open(os.path.abspath(__file__), 'rb').read())
        _srckey = h.hexdigest()[:20]
    d = os.path.join(_MEMO_DIR, _srckey)
    path = os.path.join(d, k + '.pkl')
    try:
        with open(path, 'rb') as f:
            v = pickle.load(f)
    except Exception:
        v = fn()
        try:
            if not os.path.isdir(d):
                os.makedirs(d, exist_ok=True)
                for o in os.listdir(_MEMO_DIR):          # drop the results of other source versions
                    if o != _srckey:
                        shutil.rmtree(os.path.join(_MEMO_DIR, o), ignore_errors=True)
            tmp = path + '.%d.tmp' % os.getpid()
            with open(tmp, 'wb') as f:
                pickle.dump(v, f, protocol=4)
            os.replace(tmp, path)
        except Exception:
            pass
    _mem[k] = v
    return v

def _base_tag(c):
    return (c['proto'], c['l'], flags(c), c.get('da'), c.get('db'), c.get('certa'), c.get('certb'), c.get('pwd'), c['tapea'], c['tapeb'], c['helloa'], c['hellob'])

# ------------------------------------------------------------------ reference bindings
def _ref_run(c):
    return _memo(('run',) + _base_tag(c), lambda: _ref_run_raw(c))

def _ref_run_raw(c):
    p, l = c['proto'], c['l']
    kca, kcb = flags(c)
    if p == 'BMQV':
        r = RK.run_bmqv(l, c['da'], c['db'], c['certa'], c['certb'], c['tapea'], c['tapeb'], c['helloa'], c['hellob'], kca, kcb)
    elif p == 'BSTS':
        r = RK.run_bsts(l, c['da'], c['db'], c['certa'], c['certb'], c['tapea'], c['tapeb'], c['helloa'], c['hellob'])
    elif p == 'BPACE':
        r = RK.run_bpace(l, c['pwd'], c['tapea'], c['tapeb'], c['helloa'], c['hellob'], kca, kcb)
    elif p == 'BAUTH':
        r = RK.run_bauth(l, c['da'], c['db'], c['certa'], c['certb'], c['tapea'], c['tapeb'], c['helloa'], c['hellob'], kcb)
    else:
        return None
    msgs = [r[k] for k in ('M1', 'M2', 'M3', 'M4') if r.get(k)]
    return r, msgs

SWEEP_RET = {'kc': E['BAD_INPUT'], 'rng': E['BAD_RNG'], 'params': E['BAD_PARAMS'], 'cert': E['BAD_CERT']}

def _ref_sweep(c):
    return {'ret': SWEEP_RET[c['sweep']]}


def _ref_dialogue(c):
    if c.get('sweep'):
        return _ref_sweep(c)
    x = _ref_run(c)
    if x is None:
        return None
    r, msgs = x
    return {'ret': 0, 'keyA': r['keya'], 'keyB': r['keyb'], 'msgs': b''.join(msgs), 'mlens': [len(m) for m in msgs],
            'useda': r['useda'], 'usedb': r['usedb']}

def _ref_drivers(c):
    x = _ref_run(c)
    if x is None:
        return None
    r, msgs = x
    fa, fb = split_msgs(c['proto'], msgs)
    return {'ret': 0, 'retA': 0, 'retB': 0, 'keyA': r['keya'], 'keyB': r['keyb'], 'wrA': b''.join(fa), 'wrB': b''.join(fb), 'keyS': r['keya']}

def _derived(case, res):
    """C15 needles beyond the inputs: the agreed key and, from the reference model, the implicit-signature multipliers sa, sb"""
    out = [(k, res[k]) for k in ('keyA', 'keyB') if res.get(k)]
    if case['proto'] in ('BMQV', 'BSTS') and not case.get('sweep') and res.get('ret') == 0:
        try:
            r, _ = _ref_run(case)
            out += [('sa', le(case['l'], r['sa'])), ('sb', le(case['l'], r['sb']))]
        except Exception:
            pass
    if case['proto'] == 'BAUTH' and flags(case)[1] and not case.get('sweep') and res.get('ret') == 0:
        try:
            out.append(('sct', le(case['l'], _ref_run(case)[0]['sb'])))
        except Exception:
            pass
    if case.get('act') == 'insider':
        x = insider(case)
        if x:
            out.append(('decrypted body (s || certificate) of the authenticated M%d' % case['act_i'], x['body']))
    return out

# ------------------------------------------------------------------ authenticated insider (a peer that holds K1, K2 sends an out-of-range s)
INS_RECV = {('BSTS', 2): 'B.Step4', ('BSTS', 3): 'A.Step5', ('BAUTH', 3): 'A.Step5'}
INS_NAME = {'BSTS': 'bake.BSTSInsider', 'BAUTH': 'btok.BAUTHInsider'}

def _ins_session(c):
    """snapshots of the reference model's party states in the honest dialogue of the case: A3 (A after step 3), B2 (B after step 2),
    B4 (B after step 4), ms = [M1, M2, M3]; None if the model cannot run (generator tape too short)"""
    def compute():
        proto, l = c['proto'], c['l']
        bsts = proto == 'BSTS'
        try:
            if bsts:
                B = RK.bsts_start(l, 'B', c['db'], c['certb'], c['tapeb'], c['helloa'], c['hellob'])
                A = RK.bsts_start(l, 'A', c['da'], c['certa'], c['tapea'], c['helloa'], c['hellob'])
                ms = [RK.bsts_step2(B)]
            else:
                B = RK.bauth_ct_start(l, c['db'], c['certb'], c['tapeb'], c['helloa'], c['hellob'], True)
                A = RK.bauth_t_start(l, c['da'], c['certa'], c['tapea'], c['helloa'], c['hellob'], True)
                ms = [RK.bauth_step2(B, c['certa'])]
            B2 = dict(B)
            ms.append(RK.bsts_step3(A, ms[0]) if bsts else RK.bauth_step3(A, ms[0]))
        except RK.BakeError:
            return None
        try:
            ms.append(RK.bsts_step4(B, ms[1]) if bsts else RK.bauth_step4(B, ms[1]))
        except RK.BakeError:
            B = None                      # B refuses the honest M2 (keys and certificates of the case do not belong together)
        for st in (A, B, B2):
            if st:
                st.pop('certval', None)
        return dict(A3=A, B2=B2, B4=B, ms=ms)
    return _memo(('ins.session',) + _base_tag(c), compute)

def _ins_sender(c, x):
    return x['A3'] if (c['proto'], c['act_i']) == ('BSTS', 2) else x['B4']

def insider(c):
    """-> dict(hon = the model's honest M_i, msg = M_i carrying ins_s / ins_cert under the session's K1, K2, body = its plaintext) or None"""
    x = _ins_session(c)
    if x is None:
        return None
    proto, l, i = c['proto'], c['l'], c['act_i']
    snd = _ins_sender(c, x)
    if snd is None:
        return None
    s = snd['s'] if c.get('ins_s') is None else int.from_bytes(c['ins_s'], 'little')
    crt = snd['cert'] if c.get('ins_cert') is None else bytes(c['ins_cert'])
    if proto == 'BSTS':
        msg = RK.bsts_seal(snd, 'A' if i == 2 else 'B', s, crt, snd.get('Va'))
    else:
        msg = RK.bauth_seal(snd, s, crt)
    return dict(hon=x['ms'][i - 1], msg=msg, body=le(l, s) + crt)

def insider_verdict(c):
    """what the reference model's receiving step says to the insider message: (None | error name, keyA, keyB as the parties hold them then)"""
    def compute():
        x = _ins_session(c)
        if x is None or x['B4'] is None:
            return None
        proto, i = c['proto'], c['act_i']
        rcv = dict(x['B2'] if (proto, i) == ('BSTS', 2) else x['A3'], certval=RK.default_certval)
        msg = insider(c)['msg']
        try:
            if proto == 'BSTS':
                RK.bsts_step4(rcv, msg) if i == 2 else RK.bsts_step5(rcv, msg)
            else:
                RK.bauth_step5(rcv, msg)
        except RK.BakeError as e:
            return (e.code, b'', x['B4']['K0'] if i == 3 else b'')       # M3: the sender B has finished and holds its key
        return (None, x['A3']['K0'], x['B4']['K0'])
    return _memo(('ins.verdict', c['act_i'], c.get('ins_s'), c.get('ins_cert')) + _base_tag(c), compute)

def _impl_insider(lib, c, A, fill):
    d = dialogue(lib, c, A, fill)
    recv = INS_RECV[(c['proto'], c['act_i'])]
    ret, rej = 0, 0
    for n, r in d['trace']:
        if r:
            if n == recv and r != E['OUTOFMEMORY']:
                rej = r            # the verdict on the peer's message, not a failure of the run
            else:
                ret = r
            break
    x = insider(c)
    i = c['act_i']
    return {'ret': ret, 'rejected': int(rej != 0), 'rej': rej, 'sync': int(bool(x) and len(d['msgs']) >= i and d['msgs'][i - 1] == x['hon']),
            'keyA': d['keyA'] or b'', 'keyB': d['keyB'] or b'', 'steps': ['%s=%#x' % t for t in d['trace']]}

def _ref_insider(c):
    v = insider_verdict(c)
    if v is None:
        return None
    return {'ret': 0, 'rejected': int(v[0] is not None), 'sync': 1, 'keyA': v[1], 'keyB': v[2]}

for _n in INS_NAME.values():
    _f = reg(Composite(_n, _impl_insider, _ref_insider, group='bake', secrets=('da', 'db', 'tapea', 'tapeb')))
    _f.faultable = True
    _f.derived = _derived

for _p, _n in (('BMQV', 'bake.BMQV'), ('BSTS', 'bake.BSTS'), ('BPACE', 'bake.BPACE'), ('BAUTH', 'btok.BAUTH')):
    _f = reg(Composite(_n, _impl_dialogue, _ref_dialogue, group='bake',
                       secrets=('pwd', 'tapea', 'tapeb') if _p == 'BPACE' else ('da', 'db', 'tapea', 'tapeb')))
    _f.faultable = True
    _f.derived = _derived
for _p in ('BMQV', 'BSTS', 'BPACE'):
    _f = reg(Composite('bake.%sRun' % _p, _impl_run, _ref_drivers, group='bake',
                       secrets=('pwd', 'tapea', 'tapeb') if _p == 'BPACE' else ('da', 'db', 'tapea', 'tapeb')))
    _f.faultable = True
    _f.derived = _derived

# bakeKDF (6.1.3) and bakeSWU (6.2.3): the two algorithms under the protocols
reg(cat.Fn('bakeKDF', [('out', 'key', 32), ('in', 'secret'), ('len', 'secret'), ('in', 'iv'), ('len', 'iv'), ('val', 'num')],
           lambda c: {'ret': 0, 'key': RK.kdf(c['secret'], c['iv'], c['num'])}, group='bake', secrets=('secret',)))

def _impl_swu(lib, c, A, fill):
    l = c['l']
    params = A.buf(336, fill)
    lib.err('bignParamsStd', params, A.buf(OID[l].encode() + b'\0'))
    if c.get('params_l') is not None:
        params.set(int(c['params_l']).to_bytes(8, 'little'), 0)
    pt = A.buf(l // 2, fill)
    r = lib.err('bakeSWU', pt, params, A.buf(c['msg']))
    return {'ret': r, 'pt': pt.get() if r == 0 else b''}
def _ref_swu(c):
    if c.get('params_l') is not None:
        return {'ret': E['BAD_PARAMS']}
    return {'ret': 0, 'pt': RK.swu(c['l'], c['msg'])}
_f = reg(Composite('bake.SWU', _impl_swu, _ref_swu, group='bake'))
_f.faultable = True

NAME = {'BMQV': 'bake.BMQV', 'BSTS': 'bake.BSTS', 'BPACE': 'bake.BPACE', 'BAUTH': 'btok.BAUTH'}

# ------------------------------------------------------------------ value material (computed with the reference models)
def le(l, u):
    return int(u).to_bytes(l // 4, 'little')

@functools.lru_cache(maxsize=None)
def ctx(l):
    ps, Ecv, G, q, no = RK._ctx(l)
    return ps, Ecv, G, q, no

@functools.lru_cache(maxsize=None)
def mul_g(l, d):
    """the point dG"""
    return tuple(_memo(('dG', l, int(d)), lambda: ctx(l)[1].mul(d, ctx(l)[2])))

def pub(l, d):
    """<dG>_4l for a private key given as int"""
    return RBN.enc_point(l, mul_g(l, d))

def scalar(tag, l):
    """a filler value in {1..q-1}"""
    q = ctx(l)[3]
    return int.from_bytes(vf.filler(tag, l // 4 + 8), 'little') % (q - 1) + 1

def privkeys(l, i=0):
    return scalar('c04.da%d/%d' % (i, l), l), scalar('c04.db%d/%d' % (i, l), l)

def cert(l, d, prefix):
    return prefix + pub(l, d)

def hello_sets(tier):
    h1a, h1b = b'\x61', b'\x62'
    h64a, h64b = vf.filler('c04.helloa', 64), vf.filler('c04.hellob', 64)
    hs = [(None, None), (h1a, h1b), (h64a, h64b)]
    if tier == 'thorough':
        hs += [(None, h1b), (h64a, None), (b'', h64b)]
    return hs

def tapes_u(l, tier, tag):
    """generator tapes for one draw of u <-R {1..q-1}: plain value, boundary values, rejection sampling (0, q, 2^2l - 1 first)"""
    q = ctx(l)[3]
    v = le(l, scalar('c04.u' + tag + '/%d' % l, l))
    ts = [('v', v), ('rej0', le(l, 0) + v), ('rejq', le(l, q) + v), ('one', le(l, 1)), ('q-1', le(l, q - 1))]
    if tier == 'thorough':
        ts += [('rejmax', b'\xff' * (l // 4) + v), ('rej3', le(l, 0) + le(l, q) + le(l, q + 1) + v), ('two', le(l, 2))]
    return ts

def t_of(l, xa, xb):
    """t = <belt-hash(<Va>_2l || <Vb>_2l)>_l"""
    return int.from_bytes(RT.hash(le(l, xa) + le(l, xb))[:l // 8], 'little')

@functools.lru_cache(maxsize=None)
def engineered(l, which, r=0):
    """(da, db, ua, ub) with sa = (ua - (2^l + t) da) mod q == r ('sa'), sb == r ('sb') or both ('sab'): the ephemeral
    keys are fixed first (they determine t), then the long-term key is solved from the equation"""
    ps, Ecv, G, q, no = ctx(l)
    ua, ub = scalar('c04.eng.ua/%d' % l, l), scalar('c04.eng.ub/%d' % l, l)
    Va, Vb = mul_g(l, ua), mul_g(l, ub)
    k = (2 ** l + t_of(l, Va[0], Vb[0])) % q
    da, db = privkeys(l)
    if which in ('sa', 'sab'):
        da = (ua - r) * pow(k, -1, q) % q
    if which in ('sb', 'sab'):
        db = (ub - r) * pow(k, -1, q) % q
    assert 0 < da < q and 0 < db < q
    return da, db, ua, ub

def engineered_product(l, j):
    """(da, db, ua, ub) for which the INTEGER product (2^l + t) d -- the dividend of the reduction modulo q in the implicit-signature
    step -- has all-ones words from the top down to word j: d = T div (2^l + t) for the target T = 2^(3l - 64 j) - 1 (the ephemeral keys,
    hence t, are fixed first).  Carries and corrective additions of the long division then meet all-ones words, which no filler key produces."""
    ps, Ecv, G, q, no = ctx(l)
    ua, ub = scalar('c04.eng.ua/%d' % l, l), scalar('c04.eng.ub/%d' % l, l)
    Va, Vb = mul_g(l, ua), mul_g(l, ub)
    k = 2 ** l + t_of(l, Va[0], Vb[0])
    T = 2 ** (3 * l - 64 * j) - 1
    d = T // k
    while not 0 < d < q:
        T >>= 1; d = T // k
    return d, d, ua, ub

def engineered_remainder(l, j):
    """(da, db, ua, ub) for which a PARTIAL REMAINDER of the long division of (2^l + t) d by q has an all-ones leading word:
    floor((2^l + t) d / B^j) mod q lies in [2^2l - 2^(2l - 64), q) (B = 2^64; q itself has an all-ones leading word on the standard curves).
    The quotient-digit estimate and the borrow of the multiply-subtract step are then both B - 1: the boundary of the corrective
    addition in zzMod / zzDiv, which a filler key meets with probability 2^-64 per step."""
    ps, Ecv, G, q, no = ctx(l)
    ua, ub = scalar('c04.eng.ua/%d' % l, l), scalar('c04.eng.ub/%d' % l, l)
    Va, Vb = mul_g(l, ua), mul_g(l, ub)
    k = 2 ** l + t_of(l, Va[0], Vb[0])
    Bj = 1 << (64 * j)
    delta = 2 ** (2 * l - 64) - (2 ** (2 * l) - q)
    s1 = max(1, k // (2 * Bj)) - 1                            # floor(P / B^j) = s1 q + (q - eps) with d = P / k below q (near q / 2 when possible)
    d = -(-(Bj * (s1 * q + q - delta // 2)) // k)
    assert 0 < d < q and q - delta <= (k * d // Bj) % q < q, (l, j)
    return d, d, ua, ub

@functools.lru_cache(maxsize=None)
def engineered_bauth(l, r=0):
    """(dct, uct, Rt) with sct = (uct - (2^l + t) dct) mod q == r, t = <belt-hash(<Vct>_2l || Rt)>_l"""
    ps, Ecv, G, q, no = ctx(l)
    uct = scalar('c04.eng.uct/%d' % l, l)
    Rt = vf.filler('c04.eng.Rt/%d' % l, 16)
    V = mul_g(l, uct)
    t = int.from_bytes(RT.hash(le(l, V[0]) + Rt)[:l // 8], 'little')
    dct = (uct - r) * pow((2 ** l + t) % q, -1, q) % q
    assert 0 < dct < q
    return dct, uct, Rt

def base_case(proto, l, kca=1, kcb=1, hello=(None, None), tapea=None, tapeb=None, keys=None, prefixes=(b'Alice', b'Bob'), pwd=b'8086'):
    c = dict(proto=proto, l=l, kca=kca, kcb=kcb, helloa=hello[0], hellob=hello[1])
    no = l // 4
    if proto == 'BPACE':
        c['pwd'] = pwd
        c['tapea'] = tapea if tapea is not None else vf.filler('c04.Ra/%d' % l, no // 2) + le(l, scalar('c04.ua/%d' % l, l))
        c['tapeb'] = tapeb if tapeb is not None else vf.filler('c04.Rb/%d' % l, no // 2) + le(l, scalar('c04.ub/%d' % l, l))
        return c
    da, db = keys or privkeys(l)
    c['da'], c['db'] = le(l, da), le(l, db)
    c['certa'], c['certb'] = cert(l, da, prefixes[0]), cert(l, db, prefixes[1])
    if proto == 'BAUTH':
        c['tapea'] = tapea if tapea is not None else vf.filler('c04.Rt/%d' % l, 16)
        c['tapeb'] = tapeb if tapeb is not None else vf.filler('c04.Rct/%d' % l, no // 2) + le(l, scalar('c04.uct/%d' % l, l))
    else:
        c['tapea'] = tapea if tapea is not None else le(l, scalar('c04.ua/%d' % l, l))
        c['tapeb'] = tapeb if tapeb is not None else le(l, scalar('c04.ub/%d' % l, l))
    return c

def kc_sets(proto):
    if proto == 'BSTS':
        return [(1, 1)]
    if proto == 'BAUTH':
        return [(1, 1), (1, 0)]
    return [(1, 1), (1, 0), (0, 1), (0, 0)]

def honest_cases(tier):
    """[(fname, case)] honest dialogues"""
    out = []
    for l in (128, 192, 256):
        no = l // 4
        hs = hello_sets(tier)
        for proto in ('BMQV', 'BSTS', 'BPACE', 'BAUTH'):
            nm = NAME[proto]
            # flags x hello
            for kca, kcb in kc_sets(proto):
                for h in hs:
                    out.append((nm, base_case(proto, l, kca, kcb, h)))
            # generator tapes (boundary values of u, rejection sampling) -- one party at a time
            for side in 'ab':
                for tag, tu in tapes_u(l, tier, side):
                    if tag == 'v' or (tier == 'quick' and side == 'b' and tag in ('rejq', 'one')):
                        continue
                    pre = b''
                    if proto == 'BPACE':
                        pre = vf.filler('c04.R%s/%d' % (side, l), no // 2)
                    elif proto == 'BAUTH':
                        if side == 'a':
                            continue                 # the terminal draws only Rt
                        pre = vf.filler('c04.Rct/%d' % l, no // 2)
                    kw = {'tape' + side: pre + tu}
                    for kca, kcb in kc_sets(proto)[:1 if tier == 'quick' else 2]:
                        out.append((nm, base_case(proto, l, kca, kcb, hs[0], **kw)))
            # random strings R: all-zero / all-ones
            if proto == 'BPACE':
                for fillb in (0x00, 0xFF):
                    out.append((nm, base_case(proto, l, 1, 1, hs[0], tapea=bytes([fillb]) * (no // 2) + le(l, scalar('c04.ua/%d' % l, l)))))
                for pwd in (b'', b'\x00', vf.filler('c04.pwd', 64)) + ((vf.filler('c04.pwd2', 257),) if tier == 'thorough' else ()):
                    out.append((nm, base_case(proto, l, 1, 1, hs[1], pwd=pwd)))
            # second key pair, certificate shapes (bare public key, long certificate)
            if proto != 'BPACE':
                out.append((nm, base_case(proto, l, 1, 1, hs[1], keys=privkeys(l, 1))))
                out.append((nm, base_case(proto, l, 1, 1, hs[0], prefixes=(b'', b''))))
                out.append((nm, base_case(proto, l, 1, 1, hs[0], prefixes=(vf.filler('c04.pa', 300), vf.filler('c04.pb', 257)))))
                out.append((nm, base_case(proto, l, 1, 1, hs[0], keys=(1, ctx(l)[3] - 1))))
            # engineered: the multiplier s of the implicit-signature step vanishes
            if proto in ('BMQV', 'BSTS'):
                for which in ('sa', 'sb', 'sab'):
                    da, db, ua, ub = engineered(l, which)
                    kcs = kc_sets(proto)
                    for kca, kcb in (kcs if tier == 'thorough' else sorted(set((kcs[0], kcs[-1])), reverse=True)):
                        out.append((nm, base_case(proto, l, kca, kcb, hs[0] if which != 'sab' else hs[1], tapea=le(l, ua), tapeb=le(l, ub), keys=(da, db))))
            # engineered: the integer product (2^l + t) d has all-ones words (reduction modulo q at its carry / correction boundaries)
            if proto in ('BMQV', 'BSTS'):
                for j in ((0, 1) if tier == 'quick' else (0, 1, 2, 3)):
                    da, db, ua, ub = engineered_product(l, j)
                    out.append((nm, base_case(proto, l, 1, 1, hs[0], tapea=le(l, ua), tapeb=le(l, ub), keys=(da, db))))
                    if proto == 'BMQV':
                        out.append((nm, base_case(proto, l, 0, 0, hs[0], tapea=le(l, ua), tapeb=le(l, ub), keys=(da, db))))
            if proto in ('BMQV', 'BSTS'):
                for j in ((1, 2) if tier == 'quick' else (1, 2, 3)):
                    if 64 * j >= l + 64:
                        continue                     # no partial remainder at that word position: the product has 3l / 64 + 1 words
                    da, db, ua, ub = engineered_remainder(l, j)
                    out.append((nm, base_case(proto, l, 1, 1, hs[0], tapea=le(l, ua), tapeb=le(l, ub), keys=(da, db))))
                    if proto == 'BMQV':
                        out.append((nm, base_case(proto, l, 0, 0, hs[0], tapea=le(l, ua), tapeb=le(l, ub), keys=(da, db))))
            if proto == 'BAUTH':
                dct, uct, Rt = engineered_bauth(l)
                out.append((nm, base_case(proto, l, 1, 1, hs[0], tapea=Rt, tapeb=vf.filler('c04.Rct/%d' % l, no // 2) + le(l, uct),
                                          keys=(privkeys(l)[0], dct))))
    return out

def run_cases(tier):
    """[(fname, case)] honest runs through RunA / RunB"""
    out = []
    for l in (128, 192, 256):
        no = l // 4
        hs = hello_sets(tier)
        for proto in ('BMQV', 'BSTS', 'BPACE'):
            nm = 'bake.%sRun' % proto
            for kca, kcb in kc_sets(proto):
                for h in ((hs[:2] if (kca, kcb) == (1, 1) else hs[:1]) if tier == 'quick' else hs):
                    out.append((nm, base_case(proto, l, kca, kcb, h)))
            if proto == 'BSTS':
                # certificate lengths that put |M2| = 3l/4 + |certa| + 8 resp. |M3| = l/4 + |certb| + 8 around the 512-octet
                # block of the drivers' read loop (one block, exactly one block, one block + 1, two blocks, two blocks + 1)
                for tot in ((511, 512, 513, 1024, 1025) if tier == 'thorough' or l == 128 else (512, 513)):
                    la = tot - 3 * no - 8 - 2 * no; lb = tot - no - 8 - 2 * no
                    out.append((nm, base_case(proto, l, 1, 1, hs[0], prefixes=(vf.filler('c04.la', la), vf.filler('c04.lb', lb)))))
            if proto in ('BMQV', 'BSTS'):
                da, db, ua, ub = engineered(l, 'sab')
                out.append((nm, base_case(proto, l, 1, 1, hs[0], tapea=le(l, ua), tapeb=le(l, ub), keys=(da, db))))
    return out

def algo_cases(tier):
    out = []
    for sl in (0, 1, 31, 32, 33, 64):
        for il in (0, 1, 16, 33):
            for num in (0, 1, 2, 255, 256, 2 ** 32 - 1, 2 ** 64 - 1):
                if tier == 'quick' and (sl, il) not in ((0, 0), (32, 16), (33, 33), (64, 1)) and num not in (0, 1):
                    continue
                out.append(('bakeKDF', dict(secret=vf.filler('c04.kdf.s', sl), iv=vf.filler('c04.kdf.i', il), num=num)))
    for l in (128, 192, 256):
        no = l // 4
        msgs = [bytes(no), b'\xff' * no, bytes([1]) + bytes(no - 1), bytes(no - 1) + b'\x80'] + [vf.filler('c04.swu%d' % i, no) for i in range(4 if tier == 'quick' else 32)]
        out += [('bake.SWU', dict(l=l, msg=m)) for m in msgs]
    return out

def insider_cases(tier):
    """[(fname, case)] authenticated-insider dialogues: the sender of BSTS M2 / BSTS M3 / BAUTH M3 knows K1, K2 (it is the legitimate peer) and
    sends a correctly tagged, correctly encrypted body whose number s is out of range, or whose certificate is not its own.
      general base      s in {q, q + 1, 2^2l - 1}; control: the honest s re-sealed by the model; certificate with an off-curve key,
                        with another party's key, one octet long
      engineered bases  long-term key chosen so that the honest s is r in {0, 1, 2^2l - 1 - q}: control, and the alias s = r + q
                        in {q, q + 1, 2^2l - 1} (the same residue: only the range rule s in {0..q-1} of the standards rejects it)"""
    out = []
    for l in (128, 192, 256):
        ps, Ecv, G, q, no = ctx(l)
        top = (1 << (2 * l)) - 1
        hs = hello_sets(tier)
        d3 = scalar('c04.d3/%d' % l, l)
        for proto, i in (('BSTS', 2), ('BSTS', 3), ('BAUTH', 3)):
            nm = INS_NAME[proto]
            who = 'a' if (proto, i) == ('BSTS', 2) else 'b'
            def mk(base, lab, s=None, crt=None):
                out.append((nm, dict(base, act='insider', act_i=i, ins=lab, ins_s=None if s is None else le(l, s), ins_cert=crt)))
            g = base_case(proto, l, 1, 1, hs[1])
            own = g['cert' + who]
            x, y = int.from_bytes(own[-2 * no:-no], 'little'), int.from_bytes(own[-no:], 'little')
            assert not Ecv.is_on((x, (y + 1) % ps['p']))
            mk(g, 'control')
            for lab, s in (('q', q), ('q+1', q + 1), ('max', top)):
                mk(g, lab, s)
            mk(g, 'cert-offcurve', None, own[:-no] + le(l, (y + 1) % ps['p']))
            mk(g, 'cert-otherkey', None, cert(l, d3, own[:-2 * no]))
            mk(g, 'cert-short', None, b'\x01')
            for lab, r in (('q', 0), ('q+1', 1), ('max', top - q)):
                if proto == 'BSTS':
                    da, db, ua, ub = engineered(l, 'sab', r)          # sa = sb = r: one base serves M2 and M3
                    e = base_case(proto, l, 1, 1, hs[0], tapea=le(l, ua), tapeb=le(l, ub), keys=(da, db))
                else:
                    dct, uct, Rt = engineered_bauth(l, r)
                    e = base_case(proto, l, 1, 1, hs[0], tapea=Rt, tapeb=vf.filler('c04.Rct/%d' % l, no // 2) + le(l, uct), keys=(privkeys(l)[0], dct))
                mk(e, 'control:s=' + {'q': '0', 'q+1': '1', 'max': 'max-q'}[lab])
                mk(e, 'alias:' + lab, r + q)
    return out

def gen_cases(tier):
    return honest_cases(tier) + run_cases(tier) + algo_cases(tier) + insider_cases(tier)

def sweep_cases(tier):
    """arguments outside the documented domain of the Start functions (bake.h / btok.h \\expect{ERR_...} lines); the reference
    returns the documented code"""
    out = []
    for l in (128, 256):
        ps, Ecv, G, q, no = ctx(l)
        for proto in ('BMQV', 'BSTS', 'BPACE', 'BAUTH'):
            nm = NAME[proto]
            b = base_case(proto, l)
            for who in 'BA':
                out.append((nm, dict(b, sweep='rng', rng_null=1, sweep_who=who)))
                for pl in (0, 64, 127, 129, 257, 512):
                    out.append((nm, dict(b, sweep='params', params_l=pl, sweep_who=who)))
            bad_kc = {'BSTS': [(1, 0), (0, 1), (0, 0)], 'BAUTH': [(0, 1), (0, 0)]}.get(proto, [])
            for kc in bad_kc:
                out.append((nm, dict(b, sweep='kc', raw_kc=list(kc))))
            if proto != 'BPACE':
                Q = b['certb'][-2 * no:]
                x, y = int.from_bytes(Q[:no], 'little'), int.from_bytes(Q[no:], 'little')
                for cb in (Q[1:], b'Bob' + le(l, x) + le(l, (y + 1) % ps['p']), b'Bob' + le(l, ps['p']) + le(l, y), b'Bob' + le(l, x) + le(l, ps['p']),
                           b'Bob' + bytes(2 * no)):
                    out.append((nm, dict(b, sweep='cert', certb=cb)))
    for pl in (0, 64, 129, 257):
        out.append(('bake.SWU', dict(l=128, msg=bytes(32), params_l=pl)))
    return out
