"""C09 -- error contract: bad arguments and failed allocations yield errors, not damage.
E4 fault-point enumeration: for every high-level call of the corpora the allocation points are counted (link-time
--wrap of malloc/realloc/free) and the call is re-run once per point with exactly that allocation failing: it must
return an error, leave no allocation behind and not crash.  Argument sweeps: each scalar/length argument across and
beyond its documented domain; the result class must be the documented one (reference predicate), outputs stay inside
exact-size buffers (ASan).  No release on failed authentication: every single-bit corruption of an authenticated
input makes unwrap fail and the output buffer contains no 8-octet window of the true plaintext."""
import ctypes, json, os, subprocess, sys, tempfile
import vf, cat, cat_belt, common, corpora
import C07

PROP = 'C09'
CFG = 'asan'
SNAP = 1 << 16

def monitored(L, fname, case, fail_at, sticky=False):
    """run one catalogue call under the allocation monitor -> (result dict, stats list); sticky: every allocation point from the
    fail_at-th on fails (memory stays exhausted), otherwise exactly the fail_at-th"""
    out = (ctypes.c_long * 8)()
    L.dll.vh_mon_start(ctypes.c_long(0 if sticky else fail_at), None, ctypes.c_size_t(0))
    if sticky:
        L.dll.vh_mon_sticky(ctypes.c_long(fail_at))
    try:
        res = common.run_fn(L, fname, case, fill=0xC3)
    finally:
        L.dll.vh_mon_stop(out)
        L.dll.vh_mon_reap()
    return res, list(out)

def fault_case(item):
    """-> (n allocation points, violation message or None)"""
    fname, case = item
    L = common.lib(CFG)
    res0, st = monitored(L, fname, case, 0)
    n = st[0]
    if st[1] != 0:
        return n, 'fault-free call leaves %d allocation(s) (%d octets) behind' % (st[1], st[6])
    for i in range(1, n + 1):
        res, s = monitored(L, fname, case, i)
        if s[2] != 1:
            return n, 'HARNESS: allocation %d of %d was not reached on re-execution' % (i, n)
        if res['ret'] == 0:
            return n, 'allocation %d of %d failed but the call returned ERR_OK' % (i, n)
        if s[1] != 0:
            return n, 'allocation %d of %d failed: the call returned %#x and left %d allocation(s) behind' % (i, n, res['ret'], s[1])
        if i < n:
            # second deviation bound: memory STAYS exhausted from the i-th allocation point on (a retry, an error handler that allocates)
            res, s = monitored(L, fname, case, i, sticky=True)
            if s[2] < 1:
                return n, 'HARNESS: allocation %d of %d was not reached on re-execution (persistent failure)' % (i, n)
            if res['ret'] == 0:
                return n, 'every allocation from the %d-th of %d on failed but the call returned ERR_OK' % (i, n)
            if s[1] != 0:
                return n, 'every allocation from the %d-th of %d on failed: the call returned %#x and left %d allocation(s) behind' % (i, n, res['ret'], s[1])
    return n, None

def sweep_cases(tier):
    """argument sweeps for the catalogue functions: (fname, case) with out-of-domain scalars / lengths; the
    expected error class comes from the function's reference predicate"""
    out = []
    d = cat_belt.data; K = cat_belt.KEYS[32]; IV = cat_belt.IV0
    keylens = [0, 1, 15, 16, 17, 23, 24, 25, 31, 32, 33, 64]
    for kl in keylens:
        key = d(kl, 3)
        for f in ('beltECBEncr', 'beltECBDecr'):
            out.append((f, dict(src=d(32), key=key)))
        for f in ('beltCBCEncr', 'beltCBCDecr', 'beltCFBEncr', 'beltCFBDecr', 'beltCTR', 'beltBDEEncr', 'beltBDEDecr', 'beltSDEEncr', 'beltSDEDecr'):
            out.append((f, dict(src=d(32), key=key, iv=IV)))
        out.append(('beltMAC', dict(src=d(32), key=key)))
        for pre in ('beltDWP', 'beltCHE'):
            out.append((pre + 'Wrap', dict(src1=d(20), src2=d(5), key=key, iv=IV)))
            out.append((pre + 'Unwrap', dict(src1=d(20), src2=d(5), mac=d(8), key=key, iv=IV)))
        out.append(('beltKWPWrap', dict(src=d(32), header=None, key=key)))
        out.append(('beltKWPUnwrap', dict(src=d(48), header=None, key=key)))
        out.append(('beltFMTEncr', dict(mod=10, src=[1, 2, 3], key=key, iv=None)))
        out.append(('beltKRP', dict(m=16, src=key, level=bytes(12), header=bytes(16))))
    for n in (0, 1, 15, 16, 17, 31, 32, 33):
        for f in ('beltECBEncr', 'beltECBDecr'):
            out.append((f, dict(src=d(n), key=K)))
        for f in ('beltCBCEncr', 'beltCBCDecr', 'beltBDEEncr', 'beltBDEDecr', 'beltSDEEncr', 'beltSDEDecr'):
            out.append((f, dict(src=d(n), key=K, iv=IV)))
        out.append(('beltKWPWrap', dict(src=d(n), header=bytes(16), key=K)))
        out.append(('beltKWPUnwrap', dict(src=d(n), header=bytes(16), key=K)))
    for mod in (0, 1, 2, 3, 65535, 65536, 65537, 131072, 2 ** 31, 2 ** 32 - 1):
        for f in ('beltFMTEncr', 'beltFMTDecr'):
            out.append((f, dict(mod=mod, src=[0, 1, 0, 1, 1], key=K, iv=None)))
            out.append((f, dict(mod=mod, src=[0, 1], key=K, iv=IV)))
    for cnt in (0, 1, 2, 600, 601, 1000):
        for f in ('beltFMTEncr', 'beltFMTDecr'):
            out.append((f, dict(mod=10, src=[i % 10 for i in range(cnt)], key=K, iv=None)))
    for m in (0, 8, 16, 24, 32, 40):
        for n in (16, 24, 32):
            out.append(('beltKRP', dict(m=m, src=cat_belt.KEYS[n], level=bytes(12), header=bytes(16))))
    for it in (0, 1):
        out.append(('beltPBKDF2', dict(pwd=d(8), iter=it, salt=d(8))))
    for l in (0, 8, 15, 16, 17, 128, 256, 257, 272, 512):
        out.append(('bashHash', dict(l=l, src=d(10))))
    for dg in (0, 3, 4, 5, 6, 8, 9, 10, 100):
        out.append(('botp.HOTP', dict(digit=dg, key=K, ctr=bytes(8))))
        out.append(('botp.TOTP', dict(digit=dg, key=K, t=1000)))
    # sweeps contributed by the other catalogue modules: sweep_cases(tier) -> [(fname, case)], the case's reference
    # predicate (cat.Fn.ref) names the documented error class
    for m in corpora.MODULES:
        try:
            mod = __import__(m)
        except ModuleNotFoundError as e:
            if e.name != m:
                raise
            continue
        if hasattr(mod, 'sweep_cases'):
            out += mod.sweep_cases(tier)
    return out

def auth_cases(tier):
    """(fname, corrupted case, true plaintext, field, bit)"""
    import belt as R
    out = []
    K = cat_belt.KEYS[32]; IV = cat_belt.IV0
    for pre, w in (('beltDWP', R.dwp_wrap), ('beltCHE', R.che_wrap)):
        for n1, n2 in ((16, 0), (33, 7), (48, 16)):
            x, i = cat_belt.data(n1, 3), cat_belt.data(n2)
            y, t = w(K, IV, x, i)
            base = dict(src1=y, src2=i, mac=t, key=K, iv=IV)
            for field in ('src1', 'src2', 'mac'):
                v = base[field]
                for b in range(0, 8 * len(v), 1 if tier == 'thorough' else 5):
                    m = bytearray(v); m[b // 8] ^= 1 << (b % 8)
                    c = dict(base); c[field] = bytes(m)
                    out.append((pre + 'Unwrap', c, x, field, b))
    for n in (16, 32, 40):
        for hdr in (None, bytes(range(16))):
            x = cat_belt.data(n, 3)
            y = R.kwp_wrap(K, x, hdr)
            base = dict(src=y, header=hdr, key=K)
            for b in range(0, 8 * len(y), 1 if tier == 'thorough' else 3):
                m = bytearray(y); m[b // 8] ^= 1 << (b % 8)
                out.append(('beltKWPUnwrap', dict(base, src=bytes(m)), x, 'src', b))
            if hdr:
                for b in range(128):
                    m = bytearray(hdr); m[b // 8] ^= 1 << (b % 8)
                    out.append(('beltKWPUnwrap', dict(base, header=bytes(m)), x, 'header', b))
                # intact token, right key, but the caller expects the zero header (NULL / 16 zero octets)
                out.append(('beltKWPUnwrap', dict(base, header=None), x, 'header:=NULL', 0))
                out.append(('beltKWPUnwrap', dict(base, header=bytes(16)), x, 'header:=0', 0))
            else:
                # token wrapped under the zero header, presented with a non-zero header
                out.append(('beltKWPUnwrap', dict(base, header=bytes(range(1, 17))), x, 'header:=nonzero', 0))
                out.append(('beltKWPUnwrap', dict(base, header=bytes(15) + b'\x80'), x, 'header:=nonzero', 1))
            # wrong key: every key octet altered once (the decryption is then unauthenticated garbage: see auth_case)
            for j in range(0, 32, 1 if tier == 'thorough' else 5):
                kk = bytearray(K); kk[j] ^= 1 << (j % 8)
                out.append(('beltKWPUnwrap', dict(base, key=bytes(kk)), x, 'key', 8 * j + j % 8))
    for m in corpora.MODULES:
        try:
            mod = __import__(m)
        except ModuleNotFoundError:
            continue
        if hasattr(mod, 'auth_cases'):
            out += mod.auth_cases(tier)
    return out

def auth_case(item):
    fname, case, plain, field, bit = item
    L = common.lib(CFG)
    res = common.run_fn(L, fname, case, fill=0x00)
    if res['ret'] == 0:
        return 'corrupted %s (bit %d) accepted' % (field, bit)
    for name, v in res.items():
        if isinstance(v, bytes) and len(plain) >= 8:
            for i in range(0, len(plain) - 7):
                if plain[i:i + 8] in v:
                    return 'unwrap failed with %#x but output %s holds plaintext octets [%d,%d)' % (res['ret'], name, i, i + 8)
    # generic form of "nothing unauthenticated is released": what a FAILING unwrap leaves in its outputs must not depend on the
    # presented ciphertext.  Second execution with every octet of the ciphertext-carrying input altered (it must fail too):
    # all outputs must coincide (both untouched, or both zeroed, ...)
    for cf in ('src1', 'src', 'token', 'epki', 'apdu', 'cmd', 'resp', 'cert', 'der'):
        v = case.get(cf)
        if isinstance(v, (bytes, bytearray)) and len(v) >= 8:
            c2 = dict(case); c2[cf] = bytes(x ^ 0x3C for x in v)
            res2 = common.run_fn(L, fname, c2, fill=0x00)
            if res2['ret'] != 0:
                for name, a in res.items():
                    b = res2.get(name)
                    if isinstance(a, bytes) and isinstance(b, bytes) and len(a) == len(b) and a != b:
                        d = [i for i in range(len(a)) if a[i] != b[i]]
                        return ('unwrap failed with %#x, and again with %#x for another %s, but output %s differs between the two failing calls in %d octets '
                                '(first at %d): what is left there depends on the unauthenticated input' % (res['ret'], res2['ret'], cf, name, len(d), d[0]))
            break
    # the unauthenticated decryption of what was presented must not be released either (belt-kwp: the wide-block decryption of
    # the token; for the AEAD modes it differs from the true plaintext only around the altered bit, which the scan above covers)
    if fname == 'beltKWPUnwrap':
        import belt as R
        un = R.wbl_decr(case['key'], case['src'])[:-16]
        for name, v in res.items():
            if isinstance(v, bytes):
                for i in range(0, len(un) - 7):
                    w = un[i:i + 8]
                    if len(set(w)) > 3 and w in v:
                        return 'unwrap failed with %#x but output %s holds octets [%d,%d) of the unauthenticated decryption of the token' % (res['ret'], name, i, i + 8)
    return None

def null_cases():
    """NULL-pointer sweep (the headers' module-level clause: ERR_BAD_INPUT unless all input pointers of a high-level function are
    valid): for every plain catalogue function one accepted corpus case, and each pointer argument in turn passed as NULL with its
    length kept.  Pointers that some corpus / sweep case passes as NULL, or whose buffer is empty in the base case, are optional and skipped."""
    base = {}; optional = {}
    allc = list(corpora.all_cases('quick')) + sweep_cases('quick')
    for f, c in allc:
        fn = cat.CAT.get(f)
        if fn is None or fn.ret != 'err' or getattr(fn, 'nondet', False) or not fn.args:      # fn.args: executed by cat.run (also the module wrappers)
            continue
        for spec in fn.args:
            if spec[0] in ('in', 'str', 'u16in') and c.get(spec[1]) is None:
                optional.setdefault(f, set()).add(spec[1])
        if f not in base and not any(k.startswith('_') for k in c) and fn.ref is not None and (fn.ref(c) or {}).get('ret') == 0:
            base[f] = c
    out = []
    for f, c in sorted(base.items()):
        fn = cat.CAT[f]
        for spec in fn.args:
            kind, name = spec[0], spec[1]
            if kind not in ('in', 'out', 'io', 'u16in', 'u16out', 'str', 'outsz') or name in optional.get(f, ()) or name in getattr(fn, 'nullable', ()):
                continue
            if kind in ('in', 'io', 'u16in') and not c.get(name):
                continue          # empty buffer: NULL is a valid pointer for zero octets (mem.h)
            if kind in ('out', 'u16out') and cat._size(spec, c) == 0:
                continue
            out.append((f, dict(c, _null=[name])))
    return out

def null_case(item):
    f, c = item
    L = common.lib(CFG)
    fn = cat.CAT[f]
    name = c['_null'][0]
    kind = [s[0] for s in fn.args if s[1] == name][0]
    res = common.run_fn(L, f, c, fill=0xC3)
    ok = {109}
    if name == 'params':
        ok.add(502)       # dstu / g12s report a parameter set that cannot be read as ERR_BAD_PARAMS: an error class their headers name for params
    if kind == 'str':
        # str.h treats NULL as the empty string (strLen(NULL) = 0, strIsValid(NULL) = TRUE): the code for "" is documented behaviour too
        c2 = {k: v for k, v in c.items() if k != '_null'}; c2[name] = ''
        ok.add(common.run_fn(L, f, c2, fill=0xC3)['ret'])
        ok.discard(0)
    if res['ret'] == 0:
        return 'pointer %s = NULL: the call returns ERR_OK' % name
    if res['ret'] not in ok:
        return 'pointer %s = NULL: the call returns %#x, the headers document ERR_BAD_INPUT' % (name, res['ret'])
    # (what a failing call leaves INSIDE its output buffers is not documented -- the *Std loaders zero the structure first -- and is not
    # judged; a write OUTSIDE an exact-size buffer is an AddressSanitizer report)
    return None


# ------------------------------------------------------------------ call-level NULL sweep (functions reached only through composites)
import re as _re
_PROTO = None
_DOC = {}
def prototypes():
    """err_t functions of include/bee2/crypto/**.h -> {name: [(param name, is_pointer, declaration)]}; _DOC[name] = its doc comment
    followed by the header's file-level statements about optional parameters"""
    global _PROTO
    if _PROTO is None:
        _PROTO = {}
        inc = os.path.join(vf.vbuild.REPO, 'include', 'bee2', 'crypto')
        for root, _, files in os.walk(inc):
            for f in files:
                if not f.endswith('.h'):
                    continue
                raw = open(os.path.join(root, f), errors='replace').read()
                filelevel = ' '.join(s for s in _re.split(r'(?<=[.])\s', raw) if 'необязательн' in s and '\\remark' not in s)
                for m in _re.finditer(r'/\*!((?:(?!\*/).)*?)\*/\s*err_t\s+(\w+)\s*\(((?:(?!\)\s*;).)*)\)\s*;', raw, _re.S):
                    doc, name, plist = m.group(1), m.group(2), m.group(3)
                    plist = _re.sub(r'/\*.*?\*/', '', plist, flags=_re.S)
                    ps = []
                    for p in plist.split(','):
                        p = ' '.join(p.split())
                        if not p or p == 'void':
                            continue
                        nm = _re.findall(r'(\w+)\s*(?:\[[^\]]*\])*\s*$', p)
                        ps.append((nm[0] if nm else '?', '*' in p or '[' in p, p))
                    _PROTO[name] = ps
                    _DOC[name] = doc + ' ' + filelevel
    return _PROTO

def documented_optional(fname, aname, null_now=()):
    """does the header allow a null pointer for this argument?  [len?]ptr / [?len]ptr size queries (buffer and its length pointer), and
    sentences that speak of a null / optional pointer and name the argument"""
    doc = _DOC.get(fname, '')
    if _re.search(r'\[[^\]]*\?[^\]]*\]\s*%s\b' % _re.escape(aname), doc):
        return True
    if _re.search(r'\[\??%s\??\]' % _re.escape(aname), doc) and '?' in ''.join(_re.findall(r'\[[^\]]*%s[^\]]*\]' % _re.escape(aname), doc)):
        return True
    for sent in _re.split(r'(?<=[.])\s', doc):
        if _re.search(r'\b%s\b' % _re.escape(aname), sent) and _re.search(r'нулев|необязательн', sent):
            m = _re.search(r'При нулев\w+ (\w+) указател', sent)      # "when <x> is null, the pointers a, b, c may be null": conditional
            if m and m.group(1) != aname and m.group(1) not in null_now:
                continue
            return True
    return False

# pointer arguments that the headers declare optional, or that are not "input pointers of a high-level function" (states of the
# step-wise protocols are low-level objects with \pre, generator / callback states are opaque to the library)
NULL_OK = {'state', 'rng_state', 'gen_state', 'file', 'stack', 'val_state'}

class _Abort(Exception):
    pass

def discover_one(item):
    """the library calls one accepted composite case makes: [(name, pointer flags, number of arguments, number of null arguments)] or None"""
    f, c = item
    P = prototypes()
    L = common.lib('rel')
    calls = []
    def rec(name, args):
        if name in P:
            calls.append((name, [isinstance(a, (vf.Buf, bytes, bytearray)) for a in args], len(args), sum(a is None for a in args)))
        return args
    L.hook = rec
    try:
        res = common.run_fn(L, f, c)
    except Exception:
        res = None
    finally:
        L.hook = None
    if not res or res.get('ret') != 0:
        return None
    return calls

def call_sites():
    """one accepted composite case per reachable (library function, pointer argument): -> ([(composite fname, case, call name, occurrence, arg index,
    arg name)], [crashed (fname, case, result)]).  The composites are executed in forked workers: a composite that crashes under the sanitizer
    runtime is an observation about that case, not the end of the sub-exploration"""
    P = prototypes()
    best = {}
    cases = [(f, c) for f, c in corpora.all_cases('quick') if getattr(cat.CAT.get(f), 'impl', None) is not None and not getattr(cat.CAT[f], 'nondet', False)]
    per = {}
    items = []
    for f, c in cases:
        per.setdefault(f, 0)
        if per[f] < 6:
            per[f] += 1; items.append((f, c))
    items.sort(key=lambda it: it[0])
    res = vf.pmap(discover_one, items, case_timeout=300)
    crashed = []
    for (f, c), calls in zip(items, res):
        if isinstance(calls, dict):
            crashed.append((f, c, calls)); continue
        if not calls:
            continue
        occ = {}
        for name, flags, n, nnull in calls:
            k = occ[name] = occ.get(name, 0) + 1
            proto = P[name]
            if n != len(proto):
                continue
            for i, isp in enumerate(flags):
                if isp and proto[i][1] and proto[i][0] not in NULL_OK:
                    cur = best.get((name, i))
                    if cur is None or nnull < cur[0]:       # a call with fewer null arguments is the better base (size queries pass nulls)
                        best[(name, i)] = (nnull, (f, c, name, k, i, proto[i][0]))
    out = [v[1] for k, v in sorted(best.items())]
    return out, crashed

def callnull_case(item):
    f, c, cname, occ, ai, aname = item
    L = common.lib(CFG)
    st = {'n': 0, 'ret': None}
    def hook(name, args):
        if name == cname:
            st['n'] += 1
            if st['n'] == occ:
                a2 = list(args); a2[ai] = None
                st['null_now'] = [p[0] for p, a in zip(prototypes()[name], args) if a is None]
                L.hook = None
                st['ret'] = L.call(name, *a2) & 0xFFFFFFFF
                raise _Abort()
        return args
    L.hook = hook
    try:
        common.run_fn(L, f, c, fill=0xC3)
    except _Abort:
        pass
    finally:
        L.hook = None
    r = st['ret']
    if r is None:
        return 'HARNESS: call %d of %s was not reached on re-execution' % (occ, cname)
    P = prototypes()
    decl = P[cname][ai][2]
    if documented_optional(cname, aname, st.get('null_now', ())):
        return None                    # the header allows a null pointer here: any result is documented behaviour (a crash is still a crash)
    ok = {109}
    if aname == 'params':
        ok.add(502)
    if 'char' in decl and 'const' in decl:
        # str.h treats NULL as the empty string: the code returned for "" is documented behaviour too
        st2 = {'n': 0, 'ret': None}
        def hook2(name, args):
            if name == cname:
                st2['n'] += 1
                if st2['n'] == occ:
                    a2 = list(args); a2[ai] = b''
                    L.hook = None
                    st2['ret'] = L.call(name, *a2) & 0xFFFFFFFF
                    raise _Abort()
            return args
        L.hook = hook2
        try:
            common.run_fn(L, f, c, fill=0xC3)
        except _Abort:
            pass
        finally:
            L.hook = None
        if st2['ret']:
            ok.add(st2['ret'])
    if ('apdu_cmd_t' in decl or 'apdu_resp_t' in decl) and 'const' in decl:
        ok.add(0x138)                  # ERR_BAD_APDU: the class btok.h names for a command / response that is not a correct one
    if r == 0:
        return '%s(%s = NULL) returns ERR_OK, and the header does not allow a null pointer there' % (cname, aname)
    if r not in ok:
        return '%s(%s = NULL) returns %#x, the headers document ERR_BAD_INPUT for invalid input pointers' % (cname, aname, r)
    return None

# ------------------------------------------------------------------ documented overlap errors
def overlap_error_cases():
    """buffer pairs that a header forbids to overlap under \\expect{ERR_BAD_INPUT} (catalogue: overlap['excluded']; belt DWP / CHE dest-mac,
    FMT iv-dest, brngHMACRand buf-iv; bign / bign96 sig-hash): the second buffer slid over EVERY position that intersects the first"""
    import C11
    out = []
    extra = {'bignSign': [('sig', 'hash')], 'bignSign2': [('sig', 'hash')], 'bign96Sign': [('sig', 'hash')], 'bign96Sign2': [('sig', 'hash')]}
    best = {}
    for f, c in corpora.all_cases('quick'):
        fn = cat.CAT.get(f)
        if fn is None or not fn.args or fn.ret != 'err':
            continue
        pairs = list((getattr(fn, 'overlap', None) or {}).get('excluded', [])) + extra.get(f, [])
        if not pairs or fn.ref is None:
            continue
        sz = C11.sizes(fn, c)
        if any(a not in sz or b not in sz or not sz[a] or not sz[b] for a, b in pairs) or (fn.ref(c) or {}).get('ret') != 0:
            continue
        score = min(sz[pairs[0][0]], 64)            # the accepted corpus case with the largest first buffer (up to 64 octets)
        if f not in best or score > best[f][0]:
            best[f] = (score, c, pairs, sz)
    for f, (score, c, pairs, sz) in sorted(best.items()):
        for a, b in pairs:
            for delta in range(-sz[b] + 1, sz[a]):
                out.append((f, c, a, b, delta))
    return out

def overlap_error_case(item):
    import C11
    f, c, a, b, delta = item
    L = common.lib(CFG)
    fn = cat.CAT[f]
    with vf.Arena(L) as A:
        arena = A.buf(C11.ARENA, 0x5C)
        place = {a: (arena, C11.BASE), b: (arena, C11.BASE + delta)}
        res = cat.run(L, fn, c, fill=0xC3, place=place, A=A)
    if res['ret'] != 109:
        return '%s with %s at %s%+d (the buffers intersect): returned %#x, the header documents ERR_BAD_INPUT' % (f, b, a, delta, res['ret'])
    return None

def sweep_case(item):
    msg, ret = common.check_ref_case(item, CFG)
    return msg, ret

def sub(tier, what, out):
    vf.need_env(CFG)
    result = {'viol': [], 'parts': {}}
    def add(key, rec, msg):
        result['viol'].append({'key': key, 'rec': rec, 'msg': msg})
    # 1. allocation faults over the corpora (plain catalogue functions = high-level err_t functions)
    cases = [c for c in corpora.all_cases('quick') if cat.CAT[c[0]].ret == 'err' and not getattr(cat.CAT[c[0]], 'nondet', False)
             and (getattr(cat.CAT[c[0]], 'impl', None) is None or getattr(cat.CAT[c[0]], 'faultable', False))]
    cases = [c for c in cases if (cat.CAT[c[0]].ref is None or (cat.CAT[c[0]].ref(c[1]) or {}).get('ret', 0) == 0)]
    if tier == 'quick':
        cases = C07.thin(cases)
    res = vf.pmap(fault_case, cases, case_timeout=300)
    npoints = 0; nruns = 0; fns = set()
    for (f, c), r in zip(cases, res):
        rec = {'cfg': CFG, 'kind': 'fault', 'fn': f, 'case': cat.enc_case(c)}
        if isinstance(r, dict):
            k, m = C07.classify(r.get('stderr', '') or r.get('harness_error', '') or r.get('crash', ''))
            add('fault:%s:%s' % (k, f), rec, '%s under allocation faults: %s [%s]' % (f, m, cat.short(c))); continue
        n, msg = r
        npoints += n; nruns += n + 1 + max(0, n - 1); fns.add(f)
        if msg:
            add('fault:%s' % f, rec, '%s: %s  [%s]' % (f, msg, cat.short(c)))
    result['parts']['allocation_faults'] = dict(states=npoints, transitions=nruns, traces_validated_against_impl=nruns, evaluations=nruns, functions=len(fns), calls=len(cases))
    # 2. argument sweeps
    sw = sweep_cases(tier)
    res = vf.pmap(sweep_case, sw, case_timeout=120)
    for (f, c), r in zip(sw, res):
        rec = {'cfg': CFG, 'kind': 'sweep', 'fn': f, 'case': cat.enc_case(c)}
        if isinstance(r, dict):
            k, m = C07.classify(r.get('stderr', '') or r.get('harness_error', '') or r.get('crash', ''))
            add('sweep:%s:%s' % (k, f), rec, '%s with an out-of-domain argument: %s [%s]' % (f, m, cat.short(c))); continue
        if r[0]:
            add('sweep:%s' % f, rec, '%s: %s  [%s]' % (f, r[0], cat.short(c)))
    result['parts']['argument_sweeps'] = dict(states=len(sw), transitions=len(sw), traces_validated_against_impl=len(sw), evaluations=len(sw))
    # 2b. NULL-pointer sweep
    nc = null_cases()
    res = vf.pmap(null_case, nc, case_timeout=120)
    for (f, c), r in zip(nc, res):
        rec = {'cfg': CFG, 'kind': 'null', 'fn': f, 'case': cat.enc_case(c)}
        if isinstance(r, dict):
            k, m = C07.classify(r.get('stderr', '') or r.get('harness_error', '') or r.get('crash', ''))
            add('null:%s:%s:%s' % (k, f, c['_null'][0]), rec, '%s with %s = NULL: %s [%s]' % (f, c['_null'][0], m, cat.short(c))); continue
        if r:
            add('null:%s:%s' % (f, c['_null'][0]), rec, '%s: %s  [%s]' % (f, r, cat.short(c)))
    result['parts']['null_pointer_sweep'] = dict(states=len(nc), transitions=len(nc), traces_validated_against_impl=len(nc), evaluations=len(nc), functions=len(set(f for f, _ in nc)))
    # 2c. the same one level down: every err_t function reached through a composite, each pointer argument nulled at the call itself
    cs_, crashed_ = call_sites()
    for f, c, r in crashed_:
        k, m = C07.classify(r.get('stderr', '') or r.get('harness_error', '') or r.get('crash', ''))
        add('composite:%s:%s' % (k, f), {'cfg': CFG, 'kind': 'discover', 'fn': f, 'case': cat.enc_case(c)}, '%s (accepted corpus case, executed to list its library calls): %s [%s]' % (f, m, cat.short(c)))
    res = vf.pmap(callnull_case, cs_, case_timeout=300)
    for item, r in zip(cs_, res):
        f, c, cname, occ, ai, aname = item
        rec = {'cfg': CFG, 'kind': 'callnull', 'fn': f, 'case': cat.enc_case(c), 'call': cname, 'occ': occ, 'arg': ai, 'argname': aname}
        if isinstance(r, dict):
            k, m = C07.classify(r.get('stderr', '') or r.get('harness_error', '') or r.get('crash', ''))
            add('null:%s:%s:%s' % (k, cname, aname), rec, '%s with %s = NULL (inside %s): %s' % (cname, aname, f, m)); continue
        if r:
            add('null:%s:%s' % (cname, aname), rec, '%s  [inside %s %s]' % (r, f, cat.short(c)))
    result['parts']['null_pointer_sweep_call_level'] = dict(states=len(cs_), transitions=len(cs_), traces_validated_against_impl=len(cs_), evaluations=len(cs_), functions=len(set(x[2] for x in cs_)))
    # 2d. overlaps that the headers forbid under ERR_BAD_INPUT
    oc = overlap_error_cases()
    res = vf.pmap(overlap_error_case, oc, case_timeout=120)
    for item, r in zip(oc, res):
        f, c, a, b, delta = item
        rec = {'cfg': CFG, 'kind': 'overlaperr', 'fn': f, 'case': cat.enc_case(c), 'a': a, 'b': b, 'delta': delta}
        if isinstance(r, dict):
            k, m = C07.classify(r.get('stderr', '') or r.get('harness_error', '') or r.get('crash', ''))
            add('overlap-error:%s:%s' % (k, f), rec, '%s with %s over %s: %s' % (f, b, a, m)); continue
        if r:
            add('overlap-error:%s:%s/%s' % (f, a, b), rec, r)
    result['parts']['documented_overlap_errors'] = dict(states=len(oc), transitions=len(oc), traces_validated_against_impl=len(oc), evaluations=len(oc), functions=len(set(x[0] for x in oc)))
    # 3. no release on failed authentication
    au = auth_cases(tier)
    res = vf.pmap(auth_case, au, case_timeout=120)
    for item, r in zip(au, res):
        f, c, plain, field, bit = item
        rec = {'cfg': CFG, 'kind': 'auth', 'fn': f, 'case': cat.enc_case(c), 'plain': plain.hex(), 'field': field, 'bit': bit}
        if isinstance(r, dict):
            k, m = C07.classify(r.get('stderr', '') or r.get('harness_error', '') or r.get('crash', ''))
            add('auth:%s:%s' % (k, f), rec, '%s: %s' % (f, m)); continue
        if r:
            add('auth:%s:%s' % (f, field), rec, '%s: %s' % (f, r))
    result['parts']['no_release_on_auth_failure'] = dict(states=len(au), transitions=len(au), traces_validated_against_impl=len(au), evaluations=len(au))
    json.dump(result, open(out, 'w'))
    return 0

def run(tier):
    chk = vf.Check(PROP, tier, level='fault_enumeration', deadline_s=1200 if tier == 'quick' else 7200)
    d, err = vf.run_sub(PROP, tier, 'all', prefix='c09')
    if d is None:
        chk.harness_error('sub-exploration failed: ' + err)
        return chk.finish('C09', '')
    for v in d['viol']:
        chk.violation(v['key'], v['rec'], v['msg'])
    for name, p in d['parts'].items():
        chk.part(name, **p)
        chk.cov['distinct_nontrivial'] += p['states']
        chk.outcome(name)
    chk.sample({'fault': 'beltDWPWrap', 'allocation_points': 1, 'runs': ['no fault', 'fail 1st']})
    chk.sample({'fault': 'bakeBSTSRunB', 'allocation_points': 10, 'runs': ['no fault', 'fail exactly the i-th, i = 1..10', 'fail every allocation from the i-th on, i = 1..9']})
    chk.sample({'sweep': 'beltFMTEncr', 'mod': [0, 1, 2, 3, 65535, 65536, 65537, 131072, 2 ** 31, 2 ** 32 - 1]})
    chk.sample({'auth': 'beltKWPUnwrap', 'corruption': 'every single bit of the token', 'needle': 'every 8-octet window of the wrapped key'})
    chk.assumptions += ['allocation points are the malloc/realloc calls reached through mem.c (link-time --wrap); realloc is made to move always',
                        'error classes are those of the headers (\\expect{ERR_...}) as encoded in the catalogue reference predicates',
                        'executed under AddressSanitizer with exact-size buffers, so a write beyond a documented output size is a crash']
    return chk.finish('C09', 'fault points: for each high-level call of the quick corpora, N = number of allocations of the fault-free run, then N runs failing exactly '
                      'the i-th and N - 1 runs in which every allocation from the i-th on fails (memory stays exhausted); sweeps: each length/scalar argument across and beyond its documented domain; auth: every single-bit corruption of authenticated inputs')

def replay(rec):
    corpora.load_all()
    k = rec.get('kind')
    if k == 'none':
        return None
    case = cat.dec_case(rec['case'])
    if k == 'fault':
        r = vf.pmap(fault_case, [(rec['fn'], case)], nproc=1)[0]
        if isinstance(r, dict):
            return C07.classify(r.get('stderr', '') or r.get('crash', ''))[1]
        return r[1]
    if k == 'sweep':
        r = vf.pmap(sweep_case, [(rec['fn'], case)], nproc=1)[0]
        if isinstance(r, dict):
            return C07.classify(r.get('stderr', '') or r.get('crash', ''))[1]
        return r[0]
    if k == 'null':
        r = vf.pmap(null_case, [(rec['fn'], case)], nproc=1)[0]
        if isinstance(r, dict):
            return C07.classify(r.get('stderr', '') or r.get('crash', ''))[1]
        return r
    if k == 'overlaperr':
        r = vf.pmap(overlap_error_case, [(rec['fn'], case, rec['a'], rec['b'], rec['delta'])], nproc=1)[0]
        if isinstance(r, dict):
            return C07.classify(r.get('stderr', '') or r.get('crash', ''))[1]
        return r
    if k == 'callnull':
        r = vf.pmap(callnull_case, [(rec['fn'], case, rec['call'], rec['occ'], rec['arg'], rec['argname'])], nproc=1)[0]
        if isinstance(r, dict):
            return C07.classify(r.get('stderr', '') or r.get('crash', ''))[1]
        return r
    if k == 'discover':
        r = vf.pmap(discover_one, [(rec['fn'], case)], nproc=1)[0]
        if isinstance(r, dict):
            return C07.classify(r.get('stderr', '') or r.get('crash', ''))[1]
        return None
    if k == 'auth':
        r = vf.pmap(auth_case, [(rec['fn'], case, bytes.fromhex(rec['plain']), rec['field'], rec['bit'])], nproc=1)[0]
        if isinstance(r, dict):
            return C07.classify(r.get('stderr', '') or r.get('crash', ''))[1]
        return r
    return None
